(** C15 — the HAMT of model/M_C15.v: invariant, swapValue / getValue / walkTrie
    against the set of stored entries.  Generic in the payload type and in the hash
    function [hidx] (any function from names to index lists). *)
From Coq Require Import List ZArith Bool NArith String Lia Sorted Permutation.
From V Require Import lib.Verdict model.M_C15.
Import ListNotations.
Open Scope Z_scope.

Lemma name_eqb_eq : forall a b, name_eqb a b = true <-> a = b.
Proof. intros. unfold name_eqb. apply String.eqb_eq. Qed.
Lemma name_eqb_neq : forall a b, name_eqb a b = false <-> a <> b.
Proof. intros. unfold name_eqb. apply String.eqb_neq. Qed.
Lemma name_eqb_refl : forall a, name_eqb a a = true.
Proof. intros. apply name_eqb_eq. reflexivity. Qed.

Lemma skipn_cons_nth : forall {A} d (l : list A) x r,
  skipn d l = x :: r -> nth_error l d = Some x /\ skipn (S d) l = r.
Proof.
  intros A d. induction d as [|d IH]; intros l x r H.
  - cbn in H. subst l. split; reflexivity.
  - destruct l as [|y l]; [discriminate|]. cbn [skipn] in H. apply IH in H.
    destruct H as [H1 H2]. split; [exact H1|]. exact H2.
Qed.

Lemma skipn_nil_nth : forall {A} d (l : list A), skipn d l = [] -> nth_error l d = None.
Proof.
  intros A d. induction d as [|d IH]; intros l H.
  - cbn in H. subst. reflexivity.
  - destruct l as [|y l]; [reflexivity|]. cbn [skipn] in H. cbn [nth_error]. auto.
Qed.

Section TrieProofs.
  Context {V : Type}.
  Variable hidx : name -> list Z.
  Notation trie := (trie V).
  Notation children := (children V).

  (* ---------------- induction on tries ---------------- *)
  Lemma trie_ind' (P : trie -> Prop) :
    (forall k v, P (Leaf k v)) ->
    (forall cs, Forall (fun p => P (snd p)) cs -> P (Node cs)) ->
    forall t, P t.
  Proof.
    intros HL HN. fix IH 1. intros [k v|cs]; [apply HL|]. apply HN.
    induction cs as [|[i u] r IHr]; constructor; [apply IH | exact IHr].
  Qed.

  (* ---------------- children: sorted association lists ---------------- *)
  Definition keys (cs : children) : list Z := map fst cs.
  Definition csorted (cs : children) : Prop := StronglySorted Z.lt (keys cs).

  Lemma csorted_cons_inv : forall j u r, csorted ((j, u) :: r) ->
    csorted r /\ forall i, In i (keys r) -> j < i.
  Proof.
    intros j u r H. unfold csorted in H. cbn in H. apply StronglySorted_inv in H.
    destruct H as [H1 H2]. split; [exact H1|]. rewrite Forall_forall in H2. exact H2.
  Qed.

  Lemma csorted_cons : forall j u r, csorted r -> (forall i, In i (keys r) -> j < i) -> csorted ((j, u) :: r).
  Proof.
    intros j u r H1 H2. unfold csorted. cbn. constructor; [exact H1|]. rewrite Forall_forall. exact H2.
  Qed.

  Lemma in_keys : forall i (u : trie) cs, In (i, u) cs -> In i (keys cs).
  Proof. intros i u cs H. unfold keys. apply in_map_iff. exists (i, u). split; [reflexivity|exact H]. Qed.

  Lemma cget_some_in : forall i cs (t : trie), cget i cs = Some t -> In (i, t) cs.
  Proof.
    intros i cs. induction cs as [|[j u] r IH]; intros t H; [discriminate|].
    cbn [cget] in H. destruct (i =? j) eqn:E.
    - apply Z.eqb_eq in E. inversion H. subst. left. reflexivity.
    - right. apply IH. exact H.
  Qed.

  Lemma cget_in : forall i cs (t : trie), csorted cs -> In (i, t) cs -> cget i cs = Some t.
  Proof.
    intros i cs. induction cs as [|[j u] r IH]; intros t Hs H; [contradiction|].
    apply csorted_cons_inv in Hs. destruct Hs as [Hs Hlt]. cbn [cget].
    destruct H as [H|H].
    - inversion H. subst. rewrite Z.eqb_refl. reflexivity.
    - assert (j < i) by (apply Hlt; eapply in_keys; exact H).
      destruct (i =? j) eqn:E; [apply Z.eqb_eq in E; lia|]. apply IH; assumption.
  Qed.

  Lemma cget_none : forall i cs, cget i cs = None -> ~ In i (keys cs).
  Proof.
    intros i cs. induction cs as [|[j u] r IH]; intros H Hin; [contradiction|].
    cbn [cget] in H. destruct (i =? j) eqn:E; [discriminate|]. apply Z.eqb_neq in E.
    cbn in Hin. destruct Hin as [Hin|Hin]; [congruence|]. exact (IH H Hin).
  Qed.

  Lemma in_cins : forall i (t : trie) cs x, In x (cins i t cs) <-> x = (i, t) \/ In x cs.
  Proof.
    intros i t cs x. induction cs as [|[j u] r IH]; cbn [cins].
    - cbn. intuition.
    - destruct (i <? j).
      + cbn. intuition.
      + cbn [In]. rewrite IH. intuition.
  Qed.

  Lemma keys_cins : forall i (t : trie) cs j, In j (keys (cins i t cs)) <-> j = i \/ In j (keys cs).
  Proof.
    intros i t cs j. unfold keys. rewrite !in_map_iff. split.
    - intros [[a b] [E H]]. cbn in E. subst a. apply in_cins in H. destruct H as [H|H].
      + inversion H. left. reflexivity.
      + right. exists (j, b). split; [reflexivity|exact H].
    - intros [E|[[a b] [E H]]].
      + subst. exists (i, t). split; [reflexivity|]. apply in_cins. left. reflexivity.
      + exists (a, b). split; [exact E|]. apply in_cins. right. exact H.
  Qed.

  Lemma csorted_cins : forall i (t : trie) cs, csorted cs -> ~ In i (keys cs) -> csorted (cins i t cs).
  Proof.
    intros i t cs. induction cs as [|[j u] r IH]; intros Hs Hn; cbn [cins].
    - apply csorted_cons; [constructor|]. intros ? [].
    - destruct (i <? j) eqn:E.
      + apply Z.ltb_lt in E. pose proof (csorted_cons_inv _ _ _ Hs) as [Hs' Hlt].
        apply csorted_cons; [exact Hs|]. intros a Ha. cbn in Ha. destruct Ha as [Ha|Ha]; [lia|].
        specialize (Hlt a Ha). lia.
      + apply Z.ltb_ge in E. pose proof (csorted_cons_inv _ _ _ Hs) as [Hs' Hlt].
        assert (i <> j) by (intros ->; apply Hn; left; reflexivity).
        apply csorted_cons.
        * apply IH; [exact Hs'|]. intros Hin. apply Hn. right. exact Hin.
        * intros a Ha. apply keys_cins in Ha. destruct Ha as [->|Ha]; [lia|]. apply Hlt. exact Ha.
  Qed.

  Lemma keys_cset : forall i (t : trie) cs, keys (cset i t cs) = keys cs.
  Proof.
    intros i t cs. induction cs as [|[j u] r IH]; [reflexivity|]. cbn [cset].
    destruct (i =? j); cbn; [reflexivity|]. f_equal. exact IH.
  Qed.

  Lemma csorted_cset : forall i (t : trie) cs, csorted cs -> csorted (cset i t cs).
  Proof. intros. unfold csorted. rewrite keys_cset. assumption. Qed.

  Lemma in_cset : forall i (t : trie) cs j u, csorted cs ->
    (In (j, u) (cset i t cs) <-> (j = i /\ u = t /\ In i (keys cs)) \/ (j <> i /\ In (j, u) cs)).
  Proof.
    intros i t cs j u. induction cs as [|[a b] r IH]; intros Hs; cbn [cset].
    - cbn. intuition.
    - pose proof (csorted_cons_inv _ _ _ Hs) as [Hs' Hlt]. destruct (i =? a) eqn:E.
      + apply Z.eqb_eq in E. subst a. cbn [In keys map fst]. split.
        * intros [H|H].
          -- inversion H. subst. left. split; [reflexivity|]. split; [reflexivity|]. left. reflexivity.
          -- right. split.
             ++ assert (i < j) by (apply Hlt; eapply in_keys; exact H). lia.
             ++ right. exact H.
        * intros [[-> [-> _]]|[Hne [H|H]]].
          -- left. reflexivity.
          -- inversion H. congruence.
          -- right. exact H.
      + apply Z.eqb_neq in E. cbn [In keys map fst]. rewrite (IH Hs'). split.
        * intros [H|[[-> [-> Hk]]|[Hne H]]].
          -- inversion H. subst. right. split; [congruence|]. left. reflexivity.
          -- left. split; [reflexivity|]. split; [reflexivity|]. right. exact Hk.
          -- right. split; [exact Hne|]. right. exact H.
        * intros [[-> [-> [Hk|Hk]]]|[Hne [H|H]]].
          -- congruence.
          -- right. left. split; [reflexivity|]. split; [reflexivity|exact Hk].
          -- left. exact H.
          -- right. right. split; assumption.
  Qed.

  Lemma in_crm : forall i cs j (u : trie), csorted cs ->
    (In (j, u) (crm i cs) <-> j <> i /\ In (j, u) cs).
  Proof.
    intros i cs j u. induction cs as [|[a b] r IH]; intros Hs; cbn [crm].
    - cbn. intuition.
    - pose proof (csorted_cons_inv _ _ _ Hs) as [Hs' Hlt]. destruct (i =? a) eqn:E.
      + apply Z.eqb_eq in E. subst a. cbn [In]. split.
        * intros H. split; [|right; exact H].
          assert (i < j) by (apply Hlt; eapply in_keys; exact H). lia.
        * intros [Hne [H|H]]; [inversion H; congruence|exact H].
      + apply Z.eqb_neq in E. cbn [In]. rewrite (IH Hs'). split.
        * intros [H|[Hne H]].
          -- inversion H. subst. split; [congruence|]. left. reflexivity.
          -- split; [exact Hne|]. right. exact H.
        * intros [Hne [H|H]]; [left; exact H|]. right. split; assumption.
  Qed.

  Lemma csorted_crm : forall i cs, csorted cs -> csorted (crm i cs).
  Proof.
    intros i cs. induction cs as [|[a b] r IH]; intros Hs; cbn [crm]; [exact Hs|].
    pose proof (csorted_cons_inv _ _ _ Hs) as [Hs' Hlt]. destruct (i =? a); [exact Hs'|].
    apply csorted_cons; [apply IH; exact Hs'|].
    intros j Hj. apply Hlt. unfold keys in *. apply in_map_iff in Hj. destruct Hj as [[x y] [E H]].
    cbn in E. subst x. apply in_crm in H; [|exact Hs']. destruct H as [_ H]. eapply in_keys. exact H.
  Qed.

  (* ---------------- walk ---------------- *)
  Lemma in_walk_node : forall cs (x : name * V),
    In x (walk (Node cs)) <-> exists i u, In (i, u) cs /\ In x (walk u).
  Proof.
    intros cs x. cbn [walk]. rewrite in_flat_map. split.
    - intros [[i u] [H1 H2]]. exists i, u. split; assumption.
    - intros [i [u [H1 H2]]]. exists (i, u). split; assumption.
  Qed.

  Definition size (t : trie) : nat := List.length (walk t).

  Lemma size_node_cons : forall i u r, size (Node ((i, u) :: r)) = (size u + size (Node r))%nat.
  Proof. intros. unfold size. cbn [walk flat_map snd]. apply app_length. Qed.

  Lemma size_leaf : forall k v, size (Leaf k v) = 1%nat.
  Proof. reflexivity. Qed.
  Lemma size_nil : size (Node []) = 0%nat.
  Proof. reflexivity. Qed.

  Lemma size_cins : forall i t cs, size (Node (cins i t cs)) = (size t + size (Node cs))%nat.
  Proof.
    intros i t cs. induction cs as [|[j u] r IH]; cbn [cins].
    - rewrite size_node_cons. reflexivity.
    - destruct (i <? j).
      + rewrite size_node_cons. reflexivity.
      + rewrite !size_node_cons, IH. lia.
  Qed.

  Lemma size_cset : forall i t cs u0, cget i cs = Some u0 ->
    (size (Node (cset i t cs)) + size u0 = size (Node cs) + size t)%nat.
  Proof.
    intros i t cs. induction cs as [|[j u] r IH]; intros u0 H; [discriminate|].
    cbn [cget] in H. cbn [cset]. destruct (i =? j).
    - inversion H. subst. rewrite !size_node_cons. lia.
    - rewrite !size_node_cons. specialize (IH u0 H). lia.
  Qed.

  Lemma size_crm : forall i cs u0, cget i cs = Some u0 ->
    (size (Node (crm i cs)) + size u0 = size (Node cs))%nat.
  Proof.
    intros i cs. induction cs as [|[j u] r IH]; intros u0 H; [discriminate|].
    cbn [cget] in H. cbn [crm]. destruct (i =? j).
    - inversion H. subst. rewrite !size_node_cons. lia.
    - rewrite !size_node_cons. specialize (IH u0 H). lia.
  Qed.

  (* ---------------- the invariant ---------------- *)

  (** every entry below slot [i] of a shard at depth [d] has [i] as its [d]-th index *)
  Definition slot_ok (d : nat) (i : Z) (u : trie) : Prop :=
    forall g w, In (g, w) (walk u) -> nth_error (hidx g) d = Some i.

  (** a sub-shard holds at least two entries (a shard left with one value is collapsed) *)
  Definition big (u : trie) : Prop :=
    match u with Leaf _ _ => True | Node _ => (2 <= size u)%nat end.

  Fixpoint wf (d : nat) (t : trie) : Prop :=
    match t with
    | Leaf _ _ => True
    | Node cs =>
        csorted cs /\
        (fix all (l : children) : Prop :=
           match l with
           | [] => True
           | (i, u) :: r => (slot_ok d i u /\ big u /\ wf (S d) u) /\ all r
           end) cs
    end.

  Definition child_ok (d : nat) (i : Z) (u : trie) : Prop := slot_ok d i u /\ big u /\ wf (S d) u.

  Lemma wf_node : forall d cs,
    wf d (Node cs) <-> csorted cs /\ forall i u, In (i, u) cs -> child_ok d i u.
  Proof.
    intros d cs. cbn [wf]. split; intros [Hs H]; (split; [exact Hs|]).
    - clear Hs. induction cs as [|[j t] r IH]; intros i u Hin; [contradiction|].
      destruct H as [H1 H2]. destruct Hin as [Hin|Hin].
      + inversion Hin. subst. exact H1.
      + apply IH; assumption.
    - clear Hs. induction cs as [|[j t] r IH]; [exact I|]. split.
      + apply H. left. reflexivity.
      + apply IH. intros i u Hin. apply H. right. exact Hin.
  Qed.

  Lemma wf_leaf : forall d k v, wf d (Leaf k v).
  Proof. intros. exact I. Qed.

  Lemma wf_empty : forall d, wf d (Node []).
  Proof. intros. apply wf_node. split; [constructor|]. intros ? ? []. Qed.

  Lemma child_size_pos : forall d i u, child_ok d i u -> (1 <= size u)%nat.
  Proof.
    intros d i u [_ [Hb _]]. destruct u as [k v|cs]; [unfold size; cbn; lia|]. cbn [big] in Hb. lia.
  Qed.

  Lemma size_ge_children : forall d cs, (forall i u, In (i, u) cs -> child_ok d i u) ->
    (List.length cs <= size (Node cs))%nat.
  Proof.
    intros d cs. induction cs as [|[j t] r IH]; intros H; [cbn; lia|].
    rewrite size_node_cons. cbn [List.length].
    assert (1 <= size t)%nat by (eapply child_size_pos; apply H; left; reflexivity).
    assert (List.length r <= size (Node r))%nat by (apply IH; intros; apply H; right; assumption).
    lia.
  Qed.

  (** where a key can live *)
  Lemma key_under : forall d cs k w i, wf d (Node cs) -> nth_error (hidx k) d = Some i ->
    In (k, w) (walk (Node cs)) -> exists u, cget i cs = Some u /\ In (k, w) (walk u).
  Proof.
    intros d cs k w i Hwf Hn Hin. apply wf_node in Hwf. destruct Hwf as [Hs Hc].
    apply in_walk_node in Hin. destruct Hin as [j [u [H1 H2]]].
    destruct (Hc j u H1) as [Hslot _]. specialize (Hslot k w H2).
    rewrite Hn in Hslot. inversion Hslot. subst j. exists u. split; [apply cget_in; assumption|exact H2].
  Qed.

  Lemma key_needs_index : forall d cs k w, wf d (Node cs) -> In (k, w) (walk (Node cs)) ->
    exists i, nth_error (hidx k) d = Some i.
  Proof.
    intros d cs k w Hwf Hin. apply wf_node in Hwf. destruct Hwf as [Hs Hc].
    apply in_walk_node in Hin. destruct Hin as [j [u [H1 H2]]].
    destruct (Hc j u H1) as [Hslot _]. exists j. exact (Hslot k w H2).
  Qed.

  (** entries of the other slots *)
  Definition others (i : Z) (cs : children) (x : name * V) : Prop :=
    exists j u, j <> i /\ In (j, u) cs /\ In x (walk u).

  Lemma others_key : forall d cs i k k' v', wf d (Node cs) -> nth_error (hidx k) d = Some i ->
    others i cs (k', v') -> k' <> k.
  Proof.
    intros d cs i k k' v' Hwf Hn [j [u [Hne [H1 H2]]]] ->.
    apply wf_node in Hwf. destruct Hwf as [_ Hc]. destruct (Hc j u H1) as [Hslot _].
    specialize (Hslot k v' H2). rewrite Hn in Hslot. inversion Hslot. congruence.
  Qed.

  Lemma walk_split : forall cs i u0 x, csorted cs -> cget i cs = Some u0 ->
    (In x (walk (Node cs)) <-> In x (walk u0) \/ others i cs x).
  Proof.
    intros cs i u0 x Hs Hg. rewrite in_walk_node. split.
    - intros [j [u [H1 H2]]]. destruct (Z.eq_dec j i) as [->|Hne].
      + left. rewrite (cget_in i cs u Hs H1) in Hg. inversion Hg. subst. exact H2.
      + right. exists j, u. auto.
    - intros [H|[j [u [Hne [H1 H2]]]]].
      + exists i, u0. split; [apply cget_some_in; exact Hg|exact H].
      + exists j, u. auto.
  Qed.

  Lemma walk_none : forall cs i x, cget i cs = None ->
    (In x (walk (Node cs)) <-> others i cs x).
  Proof.
    intros cs i x Hg. rewrite in_walk_node. split.
    - intros [j [u [H1 H2]]]. exists j, u. split; [|auto].
      intros ->. apply (cget_none i cs Hg). eapply in_keys. exact H1.
    - intros [j [u [Hne [H1 H2]]]]. exists j, u. auto.
  Qed.

  Lemma walk_cins : forall cs i t x, cget i cs = None ->
    (In x (walk (Node (cins i t cs))) <-> In x (walk t) \/ others i cs x).
  Proof.
    intros cs i t x Hg. rewrite in_walk_node. split.
    - intros [j [u [H1 H2]]]. apply in_cins in H1. destruct H1 as [H1|H1].
      + inversion H1. subst. left. exact H2.
      + right. exists j, u. split; [|auto]. intros ->. apply (cget_none i cs Hg). eapply in_keys. exact H1.
    - intros [H|[j [u [Hne [H1 H2]]]]].
      + exists i, t. split; [apply in_cins; left; reflexivity|exact H].
      + exists j, u. split; [apply in_cins; right; exact H1|exact H2].
  Qed.

  Lemma walk_cset : forall cs i t u0 x, csorted cs -> cget i cs = Some u0 ->
    (In x (walk (Node (cset i t cs))) <-> In x (walk t) \/ others i cs x).
  Proof.
    intros cs i t u0 x Hs Hg. rewrite in_walk_node. split.
    - intros [j [u [H1 H2]]]. apply in_cset in H1; [|exact Hs]. destruct H1 as [[-> [-> _]]|[Hne H1]].
      + left. exact H2.
      + right. exists j, u. auto.
    - intros [H|[j [u [Hne [H1 H2]]]]].
      + exists i, t. split; [|exact H]. apply in_cset; [exact Hs|]. left.
        split; [reflexivity|]. split; [reflexivity|]. eapply in_keys. apply cget_some_in. exact Hg.
      + exists j, u. split; [|exact H2]. apply in_cset; [exact Hs|]. right. auto.
  Qed.

  Lemma walk_crm : forall cs i x, csorted cs ->
    (In x (walk (Node (crm i cs))) <-> others i cs x).
  Proof.
    intros cs i x Hs. rewrite in_walk_node. split.
    - intros [j [u [H1 H2]]]. apply in_crm in H1; [|exact Hs]. destruct H1 as [Hne H1]. exists j, u. auto.
    - intros [j [u [Hne [H1 H2]]]]. exists j, u. split; [|exact H2]. apply in_crm; [exact Hs|]. auto.
  Qed.

  (** rebuilding the invariant after a change of slot [i] *)
  Lemma wf_cins : forall d cs i t, wf d (Node cs) -> cget i cs = None -> child_ok d i t ->
    wf d (Node (cins i t cs)).
  Proof.
    intros d cs i t Hwf Hg Hc. apply wf_node in Hwf. destruct Hwf as [Hs Hall]. apply wf_node. split.
    - apply csorted_cins; [exact Hs|]. apply cget_none. exact Hg.
    - intros j u Hin. apply in_cins in Hin. destruct Hin as [Hin|Hin]; [inversion Hin; subst; exact Hc|].
      apply Hall. exact Hin.
  Qed.

  Lemma wf_cset : forall d cs i t, wf d (Node cs) -> child_ok d i t -> wf d (Node (cset i t cs)).
  Proof.
    intros d cs i t Hwf Hc. apply wf_node in Hwf. destruct Hwf as [Hs Hall]. apply wf_node. split.
    - apply csorted_cset. exact Hs.
    - intros j u Hin. apply in_cset in Hin; [|exact Hs]. destruct Hin as [[-> [-> _]]|[_ Hin]]; [exact Hc|].
      apply Hall. exact Hin.
  Qed.

  Lemma wf_crm : forall d cs i, wf d (Node cs) -> wf d (Node (crm i cs)).
  Proof.
    intros d cs i Hwf. apply wf_node in Hwf. destruct Hwf as [Hs Hall]. apply wf_node. split.
    - apply csorted_crm. exact Hs.
    - intros j u Hin. apply in_crm in Hin; [|exact Hs]. destruct Hin as [_ Hin]. apply Hall. exact Hin.
  Qed.

  (* ---------------- fork ---------------- *)
  Lemma fork_spec : forall ik ig d k v g w t, g <> k ->
    skipn d (hidx k) = ik -> skipn d (hidx g) = ig ->
    fork ik ig k v g w = Some t ->
    wf d t /\ size t = 2%nat /\ (exists cs, t = Node cs) /\
    (forall x, In x (walk t) <-> x = (k, v) \/ x = (g, w)).
  Proof.
    induction ik as [|i ik IH]; intros ig d k v g w t Hne Hk Hg Hf; [discriminate|].
    destruct ig as [|j ig]; [discriminate|]. cbn [fork] in Hf.
    apply skipn_cons_nth in Hk. destruct Hk as [Hk1 Hk2].
    apply skipn_cons_nth in Hg. destruct Hg as [Hg1 Hg2].
    destruct (i =? j) eqn:E.
    - apply Z.eqb_eq in E. subst j.
      destruct (fork ik ig k v g w) as [t'|] eqn:Ef; [|discriminate]. inversion Hf. subst t. clear Hf.
      destruct (IH ig (S d) k v g w t' Hne Hk2 Hg2 Ef) as [Hwf [Hsz [[cs' ->] Hmem]]].
      assert (Hmem' : forall x, In x (walk (Node [(i, Node cs')])) <-> x = (k, v) \/ x = (g, w)).
      { intros x. cbn [walk flat_map snd]. rewrite app_nil_r. apply Hmem. }
      split; [|split; [|split]].
      + apply wf_node. split.
        * apply csorted_cons; [constructor|]. intros ? [].
        * intros a u [Hin|[]]. inversion Hin. subst a u. split; [|split].
          -- intros g0 w0 Hin0. apply Hmem in Hin0. destruct Hin0 as [Hin0|Hin0]; inversion Hin0; subst; assumption.
          -- cbn [big]. lia.
          -- exact Hwf.
      + unfold size in *. cbn [walk flat_map snd]. rewrite app_nil_r. exact Hsz.
      + eexists. reflexivity.
      + exact Hmem'.
    - apply Z.eqb_neq in E.
      assert (Et : t = Node (cins j (Leaf g w) [(i, Leaf k v)])) by congruence. subst t. clear Hf.
      assert (Hg0 : cget j [(i, Leaf k v)] = None).
      { cbn [cget]. destruct (j =? i) eqn:E'; [apply Z.eqb_eq in E'; congruence|reflexivity]. }
      assert (Hw0 : wf d (Node [(i, Leaf k v)])).
      { apply wf_node. split; [apply csorted_cons; [constructor|]; intros ? []|].
        intros a u [Hin|[]]. inversion Hin. subst a u. split; [|split; exact I].
        intros g0 w0 [Hin0|[]]. inversion Hin0. subst. exact Hk1. }
      split; [|split; [|split]].
      + apply wf_cins; [exact Hw0|exact Hg0|]. split; [|split; exact I].
        intros g0 w0 [Hin0|[]]. inversion Hin0. subst. exact Hg1.
      + rewrite size_cins. reflexivity.
      + eexists. reflexivity.
      + intros x. rewrite walk_cins by exact Hg0. cbn [walk]. split.
        * intros [[H|[]]|[a [u [Hne' [[Hin|[]] H2]]]]]; [right; auto|]. inversion Hin. subst a u.
          destruct H2 as [H2|[]]. left. auto.
        * intros [->| ->]; [|left; left; reflexivity].
          right. exists i, (Leaf k v). split; [congruence|]. split; [left; reflexivity|left; reflexivity].
  Qed.

  (* ---------------- swapValue ---------------- *)
  Definition flag {A} (o : option A) : nat := match o with Some _ => 1 | None => 0 end.

  Definition swap_post (k : name) (nv : option V) (cs : children) (d : nat) (r : sres V) : Prop :=
    match r with
    | SOk old cs' =>
        wf d (Node cs') /\
        (forall w, old = Some w <-> In (k, w) (walk (Node cs))) /\
        (forall k' v', In (k', v') (walk (Node cs')) <->
                       (k' = k /\ nv = Some v') \/ (k' <> k /\ In (k', v') (walk (Node cs)))) /\
        (size (Node cs') + flag old = size (Node cs) + flag nv)%nat /\
        (nv = None -> old <> None)
    | SNotExist => nv = None /\ forall w, ~ In (k, w) (walk (Node cs))
    | STooDeep => True
    end.

  Lemma swap_spec : forall ix d k nv cs, wf d (Node cs) -> skipn d (hidx k) = ix ->
    swap_post k nv cs d (swap hidx ix d k nv cs).
  Proof.
    induction ix as [|i ix IH]; intros d k nv cs Hwf Hix; [exact I|].
    pose proof (skipn_cons_nth _ _ _ _ Hix) as [Hn Hix'].
    pose proof (proj1 (wf_node d cs) Hwf) as [Hs Hall].
    cbn [swap]. destruct (cget i cs) as [[g w0|cs']|] eqn:Hg.
    - (* a value occupies the slot *)
      pose proof (Hall i _ (cget_some_in _ _ _ Hg)) as [Hslot _].
      destruct (name_eqb g k) eqn:Egk.
      + apply name_eqb_eq in Egk. subst g.
        assert (Hold : forall w, Some w0 = Some w <-> In (k, w) (walk (Node cs))).
        { intros w. rewrite (walk_split cs i _ (k, w) Hs Hg). cbn [walk In]. split.
          - intros H. inversion H. subst. left. left. reflexivity.
          - intros [[H|[]]|H]; [inversion H; reflexivity|].
            exfalso. eapply (others_key d cs i k k w); eauto. }
        destruct nv as [v|]; cbn [swap_post].
        * split; [apply wf_cset; [exact Hwf|]; split; [|split; exact I];
                  intros g1 w1 [H|[]]; inversion H; subst; exact Hn|].
          split; [exact Hold|]. split; [|split].
          -- intros k' v'. rewrite (walk_cset cs i _ _ (k', v') Hs Hg).
             rewrite (walk_split cs i _ (k', v') Hs Hg). cbn [walk In]. split.
             ++ intros [[H|[]]|H]; [inversion H; subst; left; auto|].
                right. split; [exact (others_key d cs i k k' v' Hwf Hn H)|right; exact H].
             ++ intros [[-> H]|[Hne [[H|[]]|H]]].
                ** inversion H. subst. left. left. reflexivity.
                ** inversion H. congruence.
                ** right. exact H.
          -- pose proof (size_cset i (Leaf k v) cs _ Hg) as Hsz. rewrite !size_leaf in Hsz. cbn [flag]. lia.
          -- discriminate.
        * split; [apply wf_crm; exact Hwf|]. split; [exact Hold|]. split; [|split].
          -- intros k' v'. rewrite (walk_crm cs i (k', v') Hs).
             rewrite (walk_split cs i _ (k', v') Hs Hg). cbn [walk In]. split.
             ++ intros H. right. split; [exact (others_key d cs i k k' v' Hwf Hn H)|right; exact H].
             ++ intros [[_ H]|[Hne [[H|[]]|H]]]; [discriminate| |exact H]. inversion H. congruence.
          -- pose proof (size_crm i cs _ Hg) as Hsz. rewrite size_leaf in Hsz. cbn [flag]. lia.
          -- intros _. discriminate.
      + apply name_eqb_neq in Egk.
        assert (Hnot : forall w, ~ In (k, w) (walk (Node cs))).
        { intros w Hin. rewrite (walk_split cs i _ (k, w) Hs Hg) in Hin. cbn [walk In] in Hin.
          destruct Hin as [[H|[]]|H]; [inversion H; congruence|].
          eapply (others_key d cs i k k w); eauto. }
        destruct nv as [v|]; [|cbn [swap_post]; split; [reflexivity|exact Hnot]].
        assert (Hgix : exists ig, skipn (S d) (hidx g) = ig) by (eexists; reflexivity).
        destruct (fork ix (skipn (S d) (hidx g)) k v g w0) as [t|] eqn:Ef; [|exact I].
        destruct (fork_spec ix _ (S d) k v g w0 t Egk Hix' eq_refl Ef) as [Hwt [Hsz [[cst ->] Hmem]]].
        cbn [swap_post]. split; [|split; [|split; [|split]]].
        * apply wf_cset; [exact Hwf|]. split; [|split].
          -- intros g1 w1 Hin. apply Hmem in Hin. destruct Hin as [Hin|Hin]; inversion Hin; subst; [exact Hn|].
             apply (Hslot g w0). left. reflexivity.
          -- cbn [big]. lia.
          -- exact Hwt.
        * intros w. split; [discriminate|]. intros Hin. exfalso. exact (Hnot w Hin).
        * intros k' v'. rewrite (walk_cset cs i _ _ (k', v') Hs Hg).
          rewrite (walk_split cs i _ (k', v') Hs Hg). rewrite Hmem. cbn [walk In]. split.
          -- intros [[H|H]|H].
             ++ inversion H. subst. left. auto.
             ++ inversion H. subst. right. split; [exact Egk|]. left. left. reflexivity.
             ++ right. split; [exact (others_key d cs i k k' v' Hwf Hn H)|right; exact H].
          -- intros [[-> H]|[Hne [[H|[]]|H]]].
             ++ inversion H. subst. left. left. reflexivity.
             ++ inversion H. subst. left. right. reflexivity.
             ++ right. exact H.
        * pose proof (size_cset i (Node cst) cs _ Hg) as Hsz'. rewrite size_leaf in Hsz'.
          cbn [flag]. lia.
        * discriminate.
    - (* a sub-shard occupies the slot *)
      pose proof (Hall i _ (cget_some_in _ _ _ Hg)) as [Hslot [Hbig Hwf']].
      specialize (IH (S d) k nv cs' Hwf' Hix').
      destruct (swap hidx ix (S d) k nv cs') as [old cs''| |] eqn:Esw; [| |exact I].
      + cbn [swap_post] in IH. destruct IH as [Hwf'' [Hold [Hmem [Hsz Hrm]]]].
        (* facts shared by all shapes of the result *)
        assert (HoldT : forall w, old = Some w <-> In (k, w) (walk (Node cs))).
        { intros w. rewrite Hold. rewrite (walk_split cs i _ (k, w) Hs Hg). split; [auto|].
          intros [H|H]; [exact H|]. exfalso. eapply (others_key d cs i k k w); eauto. }
        assert (Hslot'' : slot_ok d i (Node cs'')).
        { intros g1 w1 Hin. apply Hmem in Hin. destruct Hin as [[-> _]|[_ Hin]]; [exact Hn|]. exact (Hslot g1 w1 Hin). }
        assert (HmemT : forall t, (forall x, In x (walk t) <-> In x (walk (Node cs''))) ->
                 forall k' v', In (k', v') (walk (Node (cset i t cs))) <->
                   (k' = k /\ nv = Some v') \/ (k' <> k /\ In (k', v') (walk (Node cs)))).
        { intros t Ht k' v'. rewrite (walk_cset cs i _ _ (k', v') Hs Hg).
          rewrite (walk_split cs i _ (k', v') Hs Hg). rewrite Ht, Hmem. split.
          - intros [[H|[Hne H]]|H]; [left; exact H|right; auto|].
            right. split; [exact (others_key d cs i k k' v' Hwf Hn H)|right; exact H].
          - intros [H|[Hne [H|H]]]; [left; left; exact H|left; right; auto|right; exact H]. }
        assert (HszT : forall t, size t = size (Node cs'') ->
                 (size (Node (cset i t cs)) + flag old = size (Node cs) + flag nv)%nat).
        { intros t Ht. pose proof (size_cset i t cs _ Hg) as Hsz'. lia. }
        destruct nv as [v|].
        * cbn [swap_post]. split; [|split; [exact HoldT|split; [apply HmemT; reflexivity|split; [apply HszT; reflexivity|discriminate]]]].
          apply wf_cset; [exact Hwf|]. split; [exact Hslot''|split; [|exact Hwf'']].
          cbn [big] in *. destruct old; cbn [flag] in Hsz; lia.
        * destruct cs'' as [|[j u] r].
          -- (* empty sub-shard: pruned *)
             cbn [swap_post]. split; [apply wf_crm; exact Hwf|]. split; [exact HoldT|]. split; [|split; [|exact Hrm]].
             ++ intros k' v'. rewrite (walk_crm cs i (k', v') Hs).
                rewrite (walk_split cs i _ (k', v') Hs Hg). split.
                ** intros H. right. split; [exact (others_key d cs i k k' v' Hwf Hn H)|right; exact H].
                ** intros [[_ H]|[Hne [H|H]]]; [discriminate| |exact H].
                   exfalso. assert (Hin : In (k', v') (walk (Node []))) by (apply Hmem; right; auto). destruct Hin.
             ++ pose proof (size_crm i cs _ Hg) as Hsz'. rewrite size_nil in Hsz. cbn [flag] in *. lia.
          -- destruct u as [g w1|csu]; [destruct r as [|p r]|].
             ++ (* a single value: collapsed into this shard *)
                assert (Ht : forall x, In x (walk (Leaf g w1)) <-> In x (walk (Node [(j, Leaf g w1)]))).
                { intros x. cbn [walk flat_map snd]. rewrite app_nil_r. reflexivity. }
                cbn [swap_post]. split; [|split; [exact HoldT|split; [apply HmemT; exact Ht|split; [apply HszT; reflexivity|exact Hrm]]]].
                apply wf_cset; [exact Hwf|]. split; [|split; exact I].
                intros g1 w2 Hin. apply Ht in Hin. exact (Hslot'' g1 w2 Hin).
             ++ cbn [swap_post]. split; [|split; [exact HoldT|split; [apply HmemT; reflexivity|split; [apply HszT; reflexivity|exact Hrm]]]].
                apply wf_cset; [exact Hwf|]. split; [exact Hslot''|split; [|exact Hwf'']].
                cbn [big]. apply wf_node in Hwf''. destruct Hwf'' as [_ Hall''].
                pose proof (size_ge_children (S d) _ Hall'') as Hge. cbn [List.length] in Hge. lia.
             ++ cbn [swap_post]. split; [|split; [exact HoldT|split; [apply HmemT; reflexivity|split; [apply HszT; reflexivity|exact Hrm]]]].
                apply wf_cset; [exact Hwf|]. split; [exact Hslot''|split; [|exact Hwf'']].
                cbn [big]. apply wf_node in Hwf''. destruct Hwf'' as [_ Hall''].
                destruct (Hall'' j (Node csu) (or_introl eq_refl)) as [_ [Hb _]]. cbn [big] in Hb.
                rewrite size_node_cons. lia.
      + cbn [swap_post] in IH. destruct IH as [Hnv Hnot]. cbn [swap_post]. split; [exact Hnv|].
        intros w Hin. rewrite (walk_split cs i _ (k, w) Hs Hg) in Hin. destruct Hin as [Hin|Hin]; [exact (Hnot w Hin)|].
        eapply (others_key d cs i k k w); eauto.
    - (* the slot is free *)
      assert (Hnot : forall w, ~ In (k, w) (walk (Node cs))).
      { intros w Hin. rewrite (walk_none cs i (k, w) Hg) in Hin. eapply (others_key d cs i k k w); eauto. }
      destruct nv as [v|]; cbn [swap_post]; [|split; [reflexivity|exact Hnot]].
      split; [|split; [|split; [|split]]].
      + apply wf_cins; [exact Hwf|exact Hg|]. split; [|split; exact I].
        intros g1 w1 [H|[]]. inversion H. subst. exact Hn.
      + intros w. split; [discriminate|]. intros Hin. exfalso. exact (Hnot w Hin).
      + intros k' v'. rewrite (walk_cins cs i _ (k', v') Hg). rewrite (walk_none cs i (k', v') Hg). cbn [walk In]. split.
        * intros [[H|[]]|H]; [inversion H; subst; left; auto|]. right. split; [exact (others_key d cs i k k' v' Hwf Hn H)|exact H].
        * intros [[-> H]|[Hne H]]; [inversion H; subst; left; left; reflexivity|right; exact H].
      + rewrite size_cins, size_leaf. cbn [flag]. lia.
      + discriminate.
  Qed.

  (* ---------------- getValue ---------------- *)
  Lemma find_spec : forall ix d k cs, wf d (Node cs) -> skipn d (hidx k) = ix ->
    match find ix k cs with
    | FOk v => In (k, v) (walk (Node cs))
    | _ => forall w, ~ In (k, w) (walk (Node cs))
    end.
  Proof.
    induction ix as [|i ix IH]; intros d k cs Hwf Hix.
    - cbn [find]. intros w Hin. destruct (key_needs_index d cs k w Hwf Hin) as [i Hi].
      rewrite (skipn_nil_nth _ _ Hix) in Hi. discriminate.
    - pose proof (skipn_cons_nth _ _ _ _ Hix) as [Hn Hix'].
      pose proof (proj1 (wf_node d cs) Hwf) as [Hs Hall].
      cbn [find]. destruct (cget i cs) as [[g w0|cs']|] eqn:Hg.
      + destruct (name_eqb g k) eqn:E.
        * apply name_eqb_eq in E. subst g. apply (walk_split cs i _ _ Hs Hg). left. left. reflexivity.
        * apply name_eqb_neq in E. intros w Hin. rewrite (walk_split cs i _ (k, w) Hs Hg) in Hin.
          destruct Hin as [[H|[]]|H]; [inversion H; congruence|]. eapply (others_key d cs i k k w); eauto.
      + pose proof (Hall i _ (cget_some_in _ _ _ Hg)) as [_ [_ Hwf']].
        specialize (IH (S d) k cs' Hwf' Hix').
        destruct (find ix k cs') as [v| |].
        * apply (walk_split cs i _ _ Hs Hg). left. exact IH.
        * intros w Hin. rewrite (walk_split cs i _ (k, w) Hs Hg) in Hin. destruct Hin as [Hin|Hin]; [exact (IH w Hin)|].
          eapply (others_key d cs i k k w); eauto.
        * intros w Hin. rewrite (walk_split cs i _ (k, w) Hs Hg) in Hin. destruct Hin as [Hin|Hin]; [exact (IH w Hin)|].
          eapply (others_key d cs i k k w); eauto.
      + intros w Hin. rewrite (walk_none cs i (k, w) Hg) in Hin. eapply (others_key d cs i k k w); eauto.
  Qed.

  (* ---------------- keys are stored once ---------------- *)
  Lemma wf_nodup : forall t d, wf d t -> NoDup (map fst (walk t)).
  Proof.
    induction t as [k v|cs IHcs] using trie_ind'; intros d Hwf.
    - cbn. constructor; [intros []|constructor].
    - apply wf_node in Hwf. destruct Hwf as [Hs Hall]. revert Hs Hall.
      induction cs as [|[i u] r IHr]; intros Hs Hall; [constructor|].
      cbn [walk flat_map snd]. rewrite map_app.
      inversion IHcs as [|? ? Hu Hr]. subst.
      pose proof (csorted_cons_inv _ _ _ Hs) as [Hs' Hlt].
      assert (Hall' : forall j t, In (j, t) r -> child_ok d j t) by (intros; apply Hall; right; assumption).
      destruct (Hall i u (or_introl eq_refl)) as [Hslot [_ Hwu]].
      specialize (IHr Hr Hs' Hall'). cbn [snd] in Hu. specialize (Hu (S d) Hwu).
      clear IHcs Hr.
      assert (Hdisj : forall g, In g (map fst (walk u)) -> ~ In g (map fst (flat_map (fun p => walk (snd p)) r))).
      { intros g Hg1 Hg2. apply in_map_iff in Hg1. destruct Hg1 as [[g1 w1] [E1 H1]]. cbn in E1. subst g1.
        apply in_map_iff in Hg2. destruct Hg2 as [[g2 w2] [E2 H2]]. cbn in E2. subst g2.
        apply in_flat_map in H2. destruct H2 as [[j t] [H2 H3]]. cbn [snd] in H3.
        destruct (Hall' j t H2) as [Hslot' _].
        pose proof (Hslot g w1 H1) as A. pose proof (Hslot' g w2 H3) as B. rewrite A in B. inversion B. subst j.
        assert (i < i) by (apply Hlt; eapply in_keys; exact H2). lia. }
      clear Hall Hall' Hs Hs' Hlt Hslot Hwu.
      induction (map fst (walk u)) as [|a l IHl]; [exact IHr|].
      cbn [app]. inversion Hu. subst. constructor.
      + rewrite in_app_iff. intros [H|H]; [contradiction|]. apply (Hdisj a); [left; reflexivity|exact H].
      + apply IHl; [assumption|]. intros g Hg. apply Hdisj. right. exact Hg.
  Qed.

  Lemma wf_functional : forall d cs k v1 v2, wf d (Node cs) ->
    In (k, v1) (walk (Node cs)) -> In (k, v2) (walk (Node cs)) -> v1 = v2.
  Proof.
    intros d cs k v1 v2 Hwf H1 H2. pose proof (wf_nodup _ _ Hwf) as Hnd.
    revert H1 H2 Hnd. generalize (walk (Node cs)). intros l. induction l as [|[a b] l IH]; intros H1 H2 Hnd; [contradiction|].
    cbn [map fst] in Hnd. inversion Hnd as [|? ? Hn Hnd']. subst.
    destruct H1 as [H1|H1]; destruct H2 as [H2|H2].
    - congruence.
    - inversion H1. subst. exfalso. apply Hn. apply in_map_iff. exists (k, v2). split; [reflexivity|exact H2].
    - inversion H2. subst. exfalso. apply Hn. apply in_map_iff. exists (k, v1). split; [reflexivity|exact H1].
    - apply IH; assumption.
  Qed.
End TrieProofs.
