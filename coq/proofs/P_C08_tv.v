(** C08 — the model's [depth_info] is what the CURRENT Go source of
    trickleDepthInfo computes: [gen/Gen_C08.v] is re-translated from
    ipld/unixfs/importer/trickle/trickledag.go by tools/go2coq on every run
    (node.NumChildren() abstracted to an integer), and this file re-proves the
    equality with Go's int arithmetic (wrap-around included) for every child count
    and width an int can hold. *)
From Coq Require Import ZArith Lia List.
From V Require Import lib.GoInt lib.Tree model.M_C07 model.M_C08 gen.Gen_C08.
Open Scope Z_scope.

Lemma depth_info_translated {D : Type} (w : nat) (s : @nst D) :
  in_range I64 (num_children s) -> in_range I64 (Z.of_nat w) ->
  trickleDepthInfo (num_children s) (Z.of_nat w) = depth_info w s.
Proof.
  intros Hn Hw. pose proof (proj1 (in_range_I64 _) Hn) as Hn'. pose proof (proj1 (in_range_I64 _) Hw) as Hw'.
  unfold trickleDepthInfo, depth_info. change (Z.of_nat depth_repeat) with 4.
  assert (Hn0 : 0 <= num_children s) by (unfold num_children; lia).
  assert (Hw0 : 0 <= Z.of_nat w) by lia.
  set (n := num_children s) in *. set (W := Z.of_nat w) in *.
  destruct (n <? W) eqn:E; [reflexivity|]. apply Z.ltb_ge in E.
  assert (Hs : sub I64 n W = n - W) by (apply sub_nowrap, in_range_I64; lia).
  rewrite Hs.
  assert (Hr : in_range I64 (n - W)) by (apply in_range_I64; lia).
  rewrite (quo_nonneg I64 (n - W) 4) by (try lia; exact Hr).
  rewrite (rem_nonneg I64 (n - W) 4) by (try lia; exact Hr).
  assert (Hq : 0 <= (n - W) / 4 <= n - W).
  { pose proof (Z.div_mod (n - W) 4 ltac:(lia)). pose proof (Z.mod_pos_bound (n - W) 4 ltac:(lia)). lia. }
  rewrite add_nowrap.
  2: { apply in_range_I64. pose proof (Z.div_mod (n - W) 4 ltac:(lia)).
       pose proof (Z.mod_pos_bound (n - W) 4 ltac:(lia)). lia. }
  reflexivity.
Qed.
