(** C37 — proofs about the node part of [M_C37]: session wants vs open requests. *)
From Coq Require Import List Bool Arith Lia.
From V Require Import lib.Verdict model.M_C37 proofs.P_C37.
Import ListNotations.

(** ---------- the session -> wants association list ---------- *)
Lemma sw_get_set sw s l s' : sw_get (sw_set sw s l) s' = if s =? s' then l else sw_get sw s'.
Proof.
  induction sw as [|[a la] r IH]; cbn [sw_set sw_get].
  - destruct (s =? s'); reflexivity.
  - destruct (a =? s) eqn:E; cbn [sw_get].
    + apply Nat.eqb_eq in E. subst a. destruct (s =? s'); reflexivity.
    + rewrite IH. destruct (a =? s') eqn:E2; [|reflexivity].
      apply Nat.eqb_eq in E2. subst a. rewrite Nat.eqb_sym, E. reflexivity.
Qed.

Lemma sw_get_map k sw s : sw_get (map (fun sl => (fst sl, nrem k (snd sl))) sw) s = nrem k (sw_get sw s).
Proof.
  induction sw as [|[a la] r IH]; cbn [map sw_get fst snd]; [reflexivity|].
  destruct (a =? s); [reflexivity|exact IH].
Qed.

Lemma sw_get_notin sw s : ~ In s (map fst sw) -> sw_get sw s = [].
Proof.
  induction sw as [|[a la] r IH]; cbn [map fst sw_get In]; [reflexivity|].
  intros H. destruct (a =? s) eqn:E; [apply Nat.eqb_eq in E; exfalso; apply H; left; exact E|].
  apply IH. intros Hin. apply H. right; exact Hin.
Qed.

(** ---------- open requests waiting for a key ---------- *)
Definition waits (rs : list req) (skip : nat) (s k : nat) : Prop :=
  exists j r, nth_error rs j = Some r /\ j <> skip /\ q_sess r = s /\ q_done r = false /\ In k (q_sub r).

Lemma others_wait_spec rs skip s k : forall i0,
  In k (others_wait rs skip i0 s) <->
  exists j r, nth_error rs j = Some r /\ i0 + j <> skip /\ q_sess r = s /\ q_done r = false /\ In k (q_sub r).
Proof.
  induction rs as [|r rest IH]; intros i0; cbn [others_wait].
  - split; [intros []|]. intros (j & r & H & _). destruct j; discriminate.
  - rewrite in_app_iff, IH. split.
    + intros [H|(j & r' & H1 & H2 & H3)].
      * destruct (negb (i0 =? skip) && (q_sess r =? s) && negb (q_done r)) eqn:C; [|destruct H].
        apply andb_true_iff in C. destruct C as [C C3]. apply andb_true_iff in C. destruct C as [C1 C2].
        exists 0, r. cbn [nth_error]. rewrite Nat.add_0_r.
        apply negb_true_iff, Nat.eqb_neq in C1. apply Nat.eqb_eq in C2. apply negb_true_iff in C3. auto.
      * exists (S j), r'. cbn [nth_error]. split; [exact H1|]. split; [lia|exact H3].
    + intros (j & r' & H1 & H2 & H3 & H4 & H5). destruct j as [|j]; cbn [nth_error] in H1.
      * injection H1 as <-. left. rewrite Nat.add_0_r in H2.
        assert (C : negb (i0 =? skip) && (q_sess r =? s) && negb (q_done r) = true).
        { rewrite H4. cbn [negb]. rewrite andb_true_r. apply andb_true_iff. split.
          - apply negb_true_iff, Nat.eqb_neq, H2.
          - apply Nat.eqb_eq, H3. }
        rewrite C. exact H5.
      * right. exists j, r'. split; [exact H1|]. split; [lia|auto].
Qed.

Lemma others_wait_waits rs skip s k : In k (others_wait rs skip 0 s) <-> waits rs skip s k.
Proof. rewrite others_wait_spec. unfold waits. cbn [Nat.add]. reflexivity. Qed.

(** ---------- lists of requests under the events ---------- *)
Lemma nth_error_upd {A} (l : list A) i f j :
  nth_error (upd l i f) j = if i =? j then option_map f (nth_error l j) else nth_error l j.
Proof.
  revert i j. induction l as [|a r IH]; intros i j; cbn [upd].
  - destruct j; cbn; destruct (i =? _); reflexivity.
  - destruct i as [|i]; destruct j as [|j]; cbn [nth_error Nat.eqb option_map]; try reflexivity.
    apply IH.
Qed.

Lemma nth_error_map {A B} (f : A -> B) l j : nth_error (map f l) j = option_map f (nth_error l j).
Proof. revert j. induction l as [|a r IH]; intros [|j]; cbn; auto. Qed.

Lemma arrive_sess k r : q_sess (arrive k r) = q_sess r.
Proof. unfold arrive. destruct (q_done r); [reflexivity|]. destruct (nmem k (q_sub r)); reflexivity. Qed.

(** a request that still waits for k' <> k keeps waiting for it after block k *)
Lemma arrive_keeps k r k' : q_done r = false -> In k' (q_sub r) -> k' <> k ->
  q_done (arrive k r) = false /\ In k' (q_sub (arrive k r)).
Proof.
  intros D Hk Hne. unfold arrive. rewrite D. destruct (nmem k (q_sub r)); [|auto].
  cbn [q_done q_sub]. assert (H : In k' (nrem k (q_sub r))) by (apply In_nrem; auto).
  split; [|exact H]. destruct (nrem k (q_sub r)); [destruct H|reflexivity].
Qed.

Lemma arrive_open k r k' : q_done (arrive k r) = false -> In k' (q_sub (arrive k r)) ->
  q_done r = false /\ In k' (q_sub r) /\ k' <> k.
Proof.
  unfold arrive. destruct (q_done r) eqn:D; [intros H; rewrite D in H; discriminate|].
  destruct (nmem k (q_sub r)) eqn:M.
  - cbn [q_done q_sub]. intros _ H. apply In_nrem in H. tauto.
  - intros _ H. split; [reflexivity|split; [exact H|]]. intros ->. apply nmem_false in M. contradiction.
Qed.

(** ---------- invariant 1: no session want without an open request waiting for it ---------- *)
Definition noleak (n : node) : Prop :=
  forall s k, In k (sw_get (n_sw n) s) -> waits (n_reqs n) (length (n_reqs n)) s k.

Lemma waits_len rs s k j r : nth_error rs j = Some r -> q_sess r = s -> q_done r = false -> In k (q_sub r) ->
  waits rs (length rs) s k.
Proof.
  intros H1 H2 H3 H4. exists j, r. split; [exact H1|]. split; [|auto].
  assert (j < length rs) by (apply nth_error_Some; congruence). lia.
Qed.

Lemma noleak_step fl n e : noleak n -> noleak (nstep fl n e).
Proof.
  intros HN. destruct e as [s ks|k|i| |k]; cbn [nstep].
  - (* start *)
    intros s' k' Hk. cbn [n_reqs n_sw] in *.
    assert (Hold : forall s0 k0, waits (n_reqs n) (length (n_reqs n)) s0 k0 ->
                   waits (n_reqs n ++ [start s ks]) (length (n_reqs n ++ [start s ks])) s0 k0).
    { intros s0 k0 (j & r & H1 & _ & H3 & H4 & H5). eapply waits_len; eauto.
      rewrite nth_error_app1; [exact H1|]. apply nth_error_Some. congruence. }
    destruct ks as [|k0 kr]; [apply Hold, HN, Hk|].
    rewrite sw_get_set in Hk. destruct (s =? s') eqn:E; [|apply Hold, HN, Hk].
    apply Nat.eqb_eq in E. subst s'. unfold nunion in Hk. apply in_app_or in Hk. destruct Hk as [Hk|Hk].
    + apply Hold, HN, Hk.
    + unfold ndiff in Hk. apply filter_In in Hk. destruct Hk as [Hk _].
      eapply (waits_len _ s k' (length (n_reqs n)) (start s (k0 :: kr))).
      * rewrite nth_error_app2 by lia. rewrite Nat.sub_diag. reflexivity.
      * reflexivity.
      * reflexivity.
      * exact Hk.
  - (* block *)
    destruct (nmem k (wantlist n)); [|exact HN].
    intros s' k' Hk. cbn [n_reqs n_sw] in *. rewrite sw_get_map in Hk. apply In_nrem in Hk. destruct Hk as [Hk Hne].
    destruct (HN s' k' Hk) as (j & r & H1 & _ & H3 & H4 & H5).
    destruct (arrive_keeps k r k' H4 H5 Hne) as [A1 A2].
    eapply (waits_len _ s' k' j (arrive k r)); auto.
    + rewrite nth_error_map, H1. reflexivity.
    + rewrite arrive_sess. exact H3.
  - (* cancel *)
    destruct (nth_error (n_reqs n) i) as [ri|] eqn:Ei; [|exact HN].
    destruct (q_done ri) eqn:Di; [exact HN|].
    intros s' k' Hk. cbn [n_reqs n_sw] in *. rewrite sw_get_set in Hk.
    assert (Hother : forall j r, nth_error (n_reqs n) j = Some r -> j <> i -> q_sess r = s' -> q_done r = false -> In k' (q_sub r) ->
              waits (upd (n_reqs n) i cancel) (length (upd (n_reqs n) i cancel)) s' k').
    { intros j r H1 Hji H3 H4 H5. eapply (waits_len _ s' k' j r); auto.
      rewrite nth_error_upd. destruct (i =? j) eqn:E; [apply Nat.eqb_eq in E; congruence|exact H1]. }
    destruct (q_sess ri =? s') eqn:Es.
    + apply Nat.eqb_eq in Es. unfold ndiff in Hk at 1. apply filter_In in Hk. destruct Hk as [Hk Hg].
      apply negb_true_iff, nmem_false in Hg. rewrite Es in *.
      destruct (HN s' k' Hk) as (j & r & H1 & _ & H3 & H4 & H5).
      destruct (Nat.eq_dec j i) as [->|Hji]; [|eapply Hother; eauto].
      (* the only witness is the request being cancelled: then the key was kept for another one *)
      rewrite Ei in H1. injection H1 as <-.
      destruct (f_shared_cancel fl); [exfalso; apply Hg; exact H5|].
      destruct (nmem k' (others_wait (n_reqs n) i 0 s')) eqn:Ew.
      * apply nmem_In, others_wait_waits in Ew. destruct Ew as (j' & r' & W1 & W2 & W3 & W4 & W5).
        eapply Hother; eauto.
      * exfalso. apply Hg. unfold ndiff. apply filter_In. split; [exact H5|]. rewrite Ew. reflexivity.
    + destruct (HN s' k' Hk) as (j & r & H1 & _ & H3 & H4 & H5).
      destruct (Nat.eq_dec j i) as [->|Hji]; [|eapply Hother; eauto].
      rewrite Ei in H1. injection H1 as <-. apply Nat.eqb_neq in Es. congruence.
  - exact HN.
  - (* late want *)
    destruct (f_late_want fl && negb (nmem k (wantlist n))); exact HN.
Qed.

(** ---------- invariant 2 (defect 1 off): an open request's keys are in its session's wants ---------- *)
Definition nostarve (n : node) : Prop :=
  forall j r k, nth_error (n_reqs n) j = Some r -> q_done r = false -> In k (q_sub r) ->
    In k (sw_get (n_sw n) (q_sess r)).

Lemma nostarve_step fl n e : f_shared_cancel fl = false -> nostarve n -> nostarve (nstep fl n e).
Proof.
  intros Hfl HN. destruct e as [s ks|k|i| |k]; cbn [nstep].
  - (* start *)
    intros j r k Hj Hd Hk. cbn [n_reqs n_sw] in *.
    destruct (Nat.lt_ge_cases j (length (n_reqs n))) as [Hlt|Hge].
    + rewrite nth_error_app1 in Hj by exact Hlt. pose proof (HN j r k Hj Hd Hk) as H0.
      destruct ks as [|k0 kr]; [exact H0|]. rewrite sw_get_set. destruct (s =? q_sess r) eqn:E; [|exact H0].
      apply Nat.eqb_eq in E. subst s. unfold nunion. apply in_or_app. left; exact H0.
    + rewrite nth_error_app2 in Hj by exact Hge.
      destruct (j - length (n_reqs n)) as [|m]; cbn [nth_error] in Hj; [|destruct m; discriminate].
      injection Hj as <-. destruct ks as [|k0 kr]; [cbn in Hd; discriminate|].
      cbn [start q_sess q_sub] in *. rewrite sw_get_set, Nat.eqb_refl.
      unfold nunion. destruct (nmem k (sw_get (n_sw n) s)) eqn:M.
      * apply in_or_app. left. apply nmem_In, M.
      * apply in_or_app. right. unfold ndiff. apply filter_In. split; [exact Hk|]. rewrite M. reflexivity.
  - (* block *)
    destruct (nmem k (wantlist n)); [|exact HN].
    intros j r k' Hj Hd Hk. cbn [n_reqs n_sw] in *. rewrite nth_error_map in Hj.
    destruct (nth_error (n_reqs n) j) as [r0|] eqn:E0; [|discriminate]. cbn [option_map] in Hj. injection Hj as <-.
    destruct (arrive_open k r0 k' Hd Hk) as (D0 & K0 & Hne).
    rewrite arrive_sess, sw_get_map. apply In_nrem. split; [|exact Hne]. eapply HN; eauto.
  - (* cancel *)
    destruct (nth_error (n_reqs n) i) as [ri|] eqn:Ei; [|exact HN].
    destruct (q_done ri) eqn:Di; [exact HN|].
    intros j r k Hj Hd Hk. cbn [n_reqs n_sw] in *. rewrite nth_error_upd in Hj.
    destruct (i =? j) eqn:Eij.
    + apply Nat.eqb_eq in Eij. subst j. rewrite Ei in Hj. cbn [option_map] in Hj. injection Hj as <-.
      unfold cancel in Hd. rewrite Di in Hd. cbn in Hd. discriminate.
    + apply Nat.eqb_neq in Eij. pose proof (HN j r k Hj Hd Hk) as H0.
      rewrite sw_get_set. destruct (q_sess ri =? q_sess r) eqn:Es; [|exact H0].
      apply Nat.eqb_eq in Es. rewrite Hfl. unfold ndiff at 1. apply filter_In. rewrite Es. split; [exact H0|].
      apply negb_true_iff, nmem_false. intros Hg. unfold ndiff in Hg. apply filter_In in Hg. destruct Hg as [_ Hg].
      apply negb_true_iff, nmem_false in Hg. apply Hg. apply others_wait_waits.
      exists j, r. rewrite <- Es. auto.
  - exact HN.
  - destruct (f_late_want fl && negb (nmem k (wantlist n))); exact HN.
Qed.

Lemma stale_step fl n e : f_late_want fl = false -> n_stale n = [] -> n_stale (nstep fl n e) = [].
Proof.
  intros Hfl H. destruct e as [s ks|k|i| |k]; cbn [nstep].
  - exact H.
  - destruct (nmem k (wantlist n)); exact H.
  - destruct (nth_error (n_reqs n) i) as [ri|]; [|exact H]. destruct (q_done ri); exact H.
  - exact H.
  - rewrite Hfl. exact H.
Qed.

(** ---------- along every run ---------- *)
Lemma nrun_inv fl evs : forall n,
  noleak n -> (f_shared_cancel fl = false -> nostarve n) -> (f_late_want fl = false -> n_stale n = []) ->
  noleak (nrun fl n evs) /\ (f_shared_cancel fl = false -> nostarve (nrun fl n evs)) /\
  (f_late_want fl = false -> n_stale (nrun fl n evs) = []).
Proof.
  unfold nrun. induction evs as [|e r IH]; intros n H1 H2 H3; cbn [fold_left]; [auto|].
  apply IH.
  - apply noleak_step, H1.
  - intros Hf. apply nostarve_step; auto.
  - intros Hf. apply stale_step; auto.
Qed.

Lemma node0_inv : noleak node0 /\ nostarve node0 /\ n_stale node0 = [].
Proof.
  split; [intros s k []|split; [intros j r k H; destruct j; discriminate|reflexivity]].
Qed.

Lemma nth_error_In_ex {A} (l : list A) x : In x l -> exists j, nth_error l j = Some x.
Proof. apply In_nth_error. Qed.

Theorem no_starvation evs : starving (nrun flags_off node0 evs) = false.
Proof.
  destruct node0_inv as (A & B & C).
  destruct (nrun_inv flags_off evs node0 A (fun _ => B) (fun _ => C)) as (_ & H & _).
  specialize (H eq_refl). unfold starving.
  apply not_true_is_false. intros E. apply existsb_exists in E. destruct E as (r & Hr & E).
  apply andb_true_iff in E. destruct E as [E1 E2]. apply negb_true_iff in E1. apply negb_true_iff in E2.
  destruct (nth_error_In_ex _ _ Hr) as (j & Hj).
  assert (subsetb (q_sub r) (sw_get (n_sw (nrun flags_off node0 evs)) (q_sess r)) = true).
  { apply subsetb_true. intros x Hx. eapply H; eauto. }
  congruence.
Qed.

Theorem no_leak fl evs : f_late_want fl = false -> leaking (nrun fl node0 evs) = false.
Proof.
  intros Hfl. destruct node0_inv as (A & B & C).
  destruct (nrun_inv fl evs node0 A (fun _ => B) (fun _ => C)) as (H & _ & Hs).
  unfold leaking. rewrite (Hs Hfl), orb_false_r.
  apply not_true_is_false. intros E. apply existsb_exists in E. destruct E as ([s l] & Hsl & E). cbn [fst] in E.
  apply negb_true_iff in E.
  assert (subsetb (sw_get (n_sw (nrun fl node0 evs)) s)
                  (others_wait (n_reqs (nrun fl node0 evs)) (length (n_reqs (nrun fl node0 evs))) 0 s) = true).
  { apply subsetb_true. intros x Hx. apply others_wait_waits. apply H, Hx. }
  congruence.
Qed.

(** when every request has ended, the want-list is empty *)
Lemma flat_map_nil {A B} (f : A -> list B) l : (forall x, In x l -> f x = []) -> flat_map f l = [].
Proof.
  induction l as [|a r IH]; intros H; cbn [flat_map]; [reflexivity|].
  rewrite (H a (or_introl eq_refl)), IH; [reflexivity|]. intros x Hx. apply H. right; exact Hx.
Qed.

Theorem wantlist_clean fl evs : f_late_want fl = false ->
  (forall r, In r (n_reqs (nrun fl node0 evs)) -> q_done r = true) -> wantlist (nrun fl node0 evs) = [].
Proof.
  intros Hfl Hdone. destruct node0_inv as (A & B & C).
  destruct (nrun_inv fl evs node0 A (fun _ => B) (fun _ => C)) as (H & _ & Hs).
  unfold wantlist. rewrite (Hs Hfl), app_nil_r.
  rewrite flat_map_nil; [reflexivity|]. intros [s l] _. cbn [fst].
  destruct (sw_get (n_sw (nrun fl node0 evs)) s) as [|k rest] eqn:E; [reflexivity|]. exfalso.
  destruct (H s k) as (j & r & H1 & _ & _ & H4 & _); [rewrite E; left; reflexivity|].
  apply nth_error_In in H1. rewrite (Hdone r H1) in H4. discriminate.
Qed.

(** the code as it is *)
Definition f_shared := {| f_shared_cancel := true; f_late_want := false |}.
Definition f_late := {| f_shared_cancel := false; f_late_want := true |}.
Definition wit1 : list nev := [NStart 1 [0; 3]; NStart 1 [3]; NCancel 0; NBlock 3].
Definition wit2 : list nev := [NStart 1 [3]; NBlock 3; NLate 3].

Theorem shared_cancel_refuted :
  starving (nrun f_shared node0 wit1) = true /\
  map q_out (n_reqs (nrun f_shared node0 wit1)) = [[]; []] /\
  map q_out (n_reqs (nrun flags_off node0 wit1)) = [[]; [3]].
Proof. vm_compute. repeat split. Qed.

Theorem late_want_refuted :
  forallb q_done (n_reqs (nrun f_late node0 wit2)) = true /\ wantlist (nrun f_late node0 wit2) = [3] /\
  wantlist (nrun flags_off node0 wit2) = [].
Proof. vm_compute. repeat split. Qed.
