(** C18 — part A of the proofs: the translated permission shuffles [Gen_C18]. *)
From Coq Require Import List ZArith Bool Lia.
From V Require Import lib.Verdict lib.GoInt lib.GoBits lib.Varint lib.Pb lib.UnixFsPb gen.Gen_C18 model.M_C18.
Import ListNotations.
Open Scope Z_scope.

(** ================================================================
    Part A — the translated permission shuffles (files/util.go)
    ================================================================ *)

(** ---------- the 4096 permission words, exhaustively ---------- *)
Fixpoint zrange (n : nat) : list Z :=
  match n with O => [] | S n' => zrange n' ++ [Z.of_nat n'] end.

Lemma zrange_in : forall n z, 0 <= z < Z.of_nat n -> In z (zrange n).
Proof.
  induction n as [|n IH]; intros z H; [lia|].
  cbn [zrange]. apply in_or_app. destruct (Z.eq_dec z (Z.of_nat n)) as [->|Hne].
  - right. left. reflexivity.
  - left. apply IH. lia.
Qed.

Definition perm_ok (p : Z) : bool :=
  (ModePermsToUnixPerms (UnixPermsToModePerms p) =? p) &&
  (UnixPermsToModePerms p =? spread p) &&
  (Z.land (UnixPermsToModePerms p) perm_mask =? UnixPermsToModePerms p).

Lemma perm_sweep_ok : forallb perm_ok (zrange 4096) = true.
Proof. vm_compute. reflexivity. Qed.

Lemma perm_word : forall p, 0 <= p < 4096 ->
  ModePermsToUnixPerms (UnixPermsToModePerms p) = p /\
  UnixPermsToModePerms p = spread p /\
  Z.land (UnixPermsToModePerms p) perm_mask = UnixPermsToModePerms p.
Proof.
  intros p H.
  pose proof (proj1 (forallb_forall perm_ok (zrange 4096)) perm_sweep_ok p (zrange_in 4096 p H)) as S.
  unfold perm_ok in S.
  apply andb_true_iff in S. destruct S as [S S3]. apply andb_true_iff in S. destruct S as [S1 S2].
  apply Z.eqb_eq in S1, S2, S3. auto.
Qed.

Lemma unix_of_mode_of_unix : forall p, 0 <= p < 4096 ->
  ModePermsToUnixPerms (UnixPermsToModePerms p) = p.
Proof. intros p H. apply perm_word. assumption. Qed.

(** [if p == 0 then 0 else G p] is [G p] when [G 0 = 0] *)
Lemma if_zero : forall (G : Z -> Z) p, G 0 = 0 -> (if Z.eqb p 0 then 0 else G p) = G p.
Proof. intros G p H. destruct (Z.eqb_spec p 0) as [->|]; [symmetry; exact H|reflexivity]. Qed.

(** FileMode -> unix word -> FileMode keeps exactly the permission bits, for
    every uint32 (indeed every integer) *)
Lemma mode_of_unix_of_mode : forall m,
  UnixPermsToModePerms (ModePermsToUnixPerms m) = Z.land m perm_mask.
Proof.
  intro m. remember (ModePermsToUnixPerms m) as p eqn:Hp.
  unfold UnixPermsToModePerms.
  match goal with |- (if Z.eqb p 0 then 0 else ?e) = _ =>
    transitivity e;
    [destruct (Z.eqb_spec p 0) as [Hz|_]; [clear Hp; rewrite Hz; reflexivity|reflexivity]|]
  end.
  subst p.
  unfold ModePermsToUnixPerms.
  apply Z.bits_inj'. intros i Hi.
  destruct (Z_lt_le_dec i 32) as [Hlt|Hge].
  - pose (f := Z.testbit m).
    destruct (lt32_cases i (conj Hi Hlt)) as [?|[?|[?|[?|[?|[?|[?|[?|[?|[?|[?|[?|[?|[?|[?|[?|[?|[?|[?|[?|[?|[?|[?|[?|[?|[?|[?|[?|[?|[?|[?|?]]]]]]]]]]]]]]]]]]]]]]]]]]]]]]]; subst i; tbnorm;
      repeat match goal with |- context [Z.testbit m ?k] => change (Z.testbit m k) with (f k) end;
      clearbody f; vm_compute;
      repeat match goal with |- context [f ?k] => destruct (f k) end; reflexivity.
  - rewrite tb_or by lia. rewrite Z.land_spec.
    assert (Hpm : 0 <= perm_mask < 2 ^ 32)
      by (unfold perm_mask; change (2 ^ 32) with 4294967296; lia).
    rewrite (tb_const_hi perm_mask 32 i Hpm) by lia.
    destruct (Z.ltb_spec i 32); [lia|]. rewrite !andb_false_r. reflexivity.
Qed.

(** the unix word produced from any FileMode has only its 12 low bits *)
Lemma unix_perms_high_bits : forall m i, 12 <= i -> Z.testbit (ModePermsToUnixPerms m) i = false.
Proof.
  intros m i Hi. unfold ModePermsToUnixPerms. tbnorm.
  repeat match goal with
  | |- context [Z.testbit (Zpos ?p) ?k] =>
      let e := eval vm_compute in (Z.log2 (Zpos p) + 1) in
      rewrite (tb_const_hi (Zpos p) e k) by (split; [split; [discriminate|reflexivity]|lia] || lia)
  end.
  rewrite ?andb_false_r, ?andb_false_l, ?orb_false_r. reflexivity.
Qed.

Lemma unix_perms_range : forall m, 0 <= ModePermsToUnixPerms m < 4096.
Proof.
  intro m.
  assert (Hn : 0 <= ModePermsToUnixPerms m).
  { apply Z.bits_iff_nonneg_ex. exists 12. intros i Hi. apply unix_perms_high_bits. lia. }
  split; [exact Hn|]. change 4096 with (2 ^ 12).
  apply lt_pow2_of_bits; [exact Hn|lia|]. intros i Hi. apply unix_perms_high_bits. exact Hi.
Qed.
