(** C08 — proofs about the model of trickle.Append (model/M_C08.v). *)
From Coq Require Import List ZArith Bool Lia Arith ZifyBool.
From V Require Import lib.Verdict lib.Tree model.M_C07 proofs.P_C07 model.M_C08.
Import ListNotations.
Open Scope Z_scope.

Lemma nonempty_app {D} (dlen : D -> Z) (a b : list D) :
  nonempty dlen (a ++ b) = nonempty dlen a ++ nonempty dlen b.
Proof. unfold nonempty. apply filter_app. Qed.

Lemma removelast_last {A} (l : list A) (d : A) : l <> [] -> l = removelast l ++ [last l d].
Proof. intros H. apply app_removelast_last. exact H. Qed.

Section Append.
  Context {D : Type}.
  Variable dlen : D -> Z.
  Variable dnil : D.
  Variable w : nat.
  Hypothesis Hw1 : (1 <= w)%nat.
  Hypothesis Hdnil : dlen dnil = 0.
  Variable raw : bool.
  Notation k := (tri_kind raw).
  Notation sc := (sizes_consistent dlen).
  Notation nst := (@nst D).

  (** ---------- node states ---------- *)
  Definition st_leaves (s : nst) : list D := flat_map leaves (st_kids s).
  (** recorded sizes of the node are consistent with its children *)
  Definition st_ok (s : nst) : Prop :=
    let '(rs, bs, ks) := s in rs = zsum bs /\ bs = map rsize ks /\ Forall sc ks.

  Lemma add_child_leaves s c sz : st_leaves (add_child s c sz) = st_leaves s ++ leaves c.
  Proof.
    destruct s as [[rs bs] ks]. unfold st_leaves, add_child, st_kids. cbn [snd].
    rewrite flat_map_app. cbn. rewrite app_nil_r. reflexivity.
  Qed.

  Lemma add_child_ok s c : st_ok s -> sc c -> st_ok (add_child s c (rsize c)).
  Proof.
    destruct s as [[rs bs] ks]. cbn. intros (-> & -> & Hk) Hc. repeat split.
    - rewrite zsum_app. cbn. lia.
    - rewrite map_app. reflexivity.
    - apply Forall_app. split; [exact Hk | constructor; [exact Hc | constructor]].
  Qed.

  Lemma add_kids_leaves : forall new s, st_leaves (add_kids s new) = st_leaves s ++ flat_map leaves new.
  Proof.
    induction new as [|c new IH]; intros s; cbn [add_kids fold_left flat_map].
    - rewrite app_nil_r. reflexivity.
    - unfold add_kids in IH. rewrite IH, add_child_leaves, app_assoc. reflexivity.
  Qed.

  Lemma add_kids_ok : forall new s, st_ok s -> Forall sc new -> st_ok (add_kids s new).
  Proof.
    induction new as [|c new IH]; intros s Hs Hn; cbn [add_kids fold_left]; [exact Hs|].
    inversion Hn; subst. apply IH; [apply add_child_ok; assumption | assumption].
  Qed.

  Lemma add_kids_kids : forall new (s : nst), st_kids (add_kids s new) = st_kids s ++ new.
  Proof.
    induction new as [|c new IH]; intros s; cbn [add_kids fold_left].
    - rewrite app_nil_r. reflexivity.
    - unfold add_kids in IH. rewrite IH. destruct s as [[rs bs] ks]. cbn.
      rewrite <- app_assoc. reflexivity.
  Qed.

  (** opening a node and committing it again *)
  Lemma open_leaves t s : open dlen t = Some s -> nonempty dlen (st_leaves s) = data_leaves dlen t.
  Proof.
    destruct t as [kd rs d | rs bs ks]; cbn [open].
    - destruct kd; try discriminate. destruct (dlen d =? 0) eqn:E; [|discriminate].
      intros H; inversion H; subst. unfold data_leaves, st_leaves. cbn. rewrite E. reflexivity.
    - intros H; inversion H; subst. reflexivity.
  Qed.

  Lemma open_ok t s : open dlen t = Some s -> sc t -> st_ok s.
  Proof.
    destruct t as [kd rs d | rs bs ks]; cbn [open].
    - destruct kd; try discriminate. destruct (dlen d =? 0) eqn:E; [|discriminate].
      intros H Hs; inversion H; subst. inversion Hs; subst. cbn. repeat split; [lia | constructor].
    - intros H Hs; inversion H; subst. inversion Hs; subst. cbn. auto.
  Qed.

  Lemma commit_leaves s : nonempty dlen (leaves (commit dnil s)) = nonempty dlen (st_leaves s).
  Proof.
    destruct s as [[rs bs] ks]. unfold st_leaves, st_kids. cbn [commit snd].
    destruct ks; [|reflexivity]. cbn. rewrite Hdnil. reflexivity.
  Qed.

  Lemma commit_ok s : st_ok s -> sc (commit dnil s) /\ rsize (commit dnil s) = st_size s.
  Proof.
    destruct s as [[rs bs] ks]. cbn. intros (-> & -> & Hk).
    destruct ks as [|c ks]; split; try reflexivity.
    - cbn. rewrite <- Hdnil. constructor.
    - constructor. exact Hk.
  Qed.

  Lemma commit_open_leaves s : st_ok s -> leaves (commit dnil s) = st_leaves s \/
                                          (st_kids s = [] /\ leaves (commit dnil s) = [dnil]).
  Proof. destruct s as [[rs bs] ks]. destruct ks; cbn; auto. Qed.

  (** ---------- sub-builders ---------- *)
  Definition tri_p (i : Z) (t : tree D) : bool := tri_ok dlen w raw t (Z.of_nat (Z.to_nat (i - 1)) + 1).

  Lemma tri_sub_z_spec i : bspec dlen (tri_sub_z dlen w k i) (tri_p i) (fun _ => true).
  Proof.
    unfold tri_sub_z, tri_p. apply (tri_sub_spec dlen w Hw1 raw).
    apply (tri_kids_spec dlen w Hw1 raw).
  Qed.

  Lemma leafb_spec0 : bspec dlen (leafb dlen k) (fun t => tri_ok dlen w raw t 0) (fun _ => true).
  Proof. apply (leafb_tri_spec dlen w). Qed.

  (** ---------- content and sizes: any flags, any tree ---------- *)
  Notation ne := (nonempty dlen).
  Definition st_data (s : nst) : list D := ne (st_leaves s).

  Definition grows (s : nst) (cs : list D) (s' : nst) (r : list D) : Prop :=
    st_data s' ++ ne r = st_data s ++ ne cs /\ (st_ok s -> st_ok s') /\ (length r <= length cs)%nat.

  Lemma grows_refl s cs : grows s cs s cs.
  Proof. unfold grows. auto. Qed.

  Lemma grows_trans s cs s1 r1 s2 r2 : grows s cs s1 r1 -> grows s1 r1 s2 r2 -> grows s cs s2 r2.
  Proof.
    unfold grows. intros (H1 & O1 & L1) (H2 & O2 & L2). split; [|split]; [congruence | auto | lia].
  Qed.

  Lemma grows_fill f p q (Hf : bspec dlen f p q) s n cs ls r :
    fill_slots f n cs = (ls, r) -> grows s cs (add_kids s ls) r.
  Proof.
    intros H. destruct (fill_slots_spec dlen f p q Hf _ _ _ _ H) as (Il & Isz & _ & _ & _ & _ & Ilr & _).
    unfold grows, st_data. rewrite add_kids_leaves. split; [|split].
    - rewrite nonempty_app, <- app_assoc, <- nonempty_app, Il. reflexivity.
    - intros Hs. apply add_kids_ok; assumption.
    - exact Ilr.
  Qed.

  Lemma fill_layer_grows s cs s' r : fill_layer dlen w k s cs = (s', r) -> grows s cs s' r.
  Proof.
    unfold fill_layer.
    destruct (fill_slots (leafb dlen k) (w - length (st_kids s)) cs) as [ls r0] eqn:E.
    intros H; inversion H; subst. eapply grows_fill; [apply leafb_spec0 | exact E].
  Qed.

  Lemma layers_loop_grows : forall fuel s i j0 bound cs s' r,
    layers_loop dlen w k fuel s i j0 bound cs = (s', r) -> grows s cs s' r.
  Proof.
    induction fuel as [|fuel IH]; intros s i j0 bound cs s' r H; cbn [layers_loop] in H.
    - inversion H; subst. apply grows_refl.
    - destruct (is_nil cs || match bound with Some m => m <=? i | None => false end).
      + inversion H; subst. apply grows_refl.
      + destruct (fill_slots (tri_sub_z dlen w k i) (Z.to_nat (Z.of_nat depth_repeat - j0)) cs) as [ls r0] eqn:E.
        eapply grows_trans; [eapply grows_fill; [apply tri_sub_z_spec | exact E] | eapply IH; exact H].
  Qed.

  Lemma zsum_removelast (bs : list Z) : zsum bs - last bs 0 = zsum (removelast bs).
  Proof.
    induction bs as [|b bs IH]; [reflexivity|].
    destruct bs as [|b2 bs]; [cbn; lia|].
    change (removelast (b :: b2 :: bs)) with (b :: removelast (b2 :: bs)).
    change (last (b :: b2 :: bs) 0) with (last (b2 :: bs) 0).
    cbn [zsum] in *. lia.
  Qed.

  Lemma map_removelast {A B} (f : A -> B) (l : list A) : map f (removelast l) = removelast (map f l).
  Proof.
    induction l as [|a l IH]; [reflexivity|]. destruct l as [|a2 l]; [reflexivity|].
    change (removelast (a :: a2 :: l)) with (a :: removelast (a2 :: l)).
    cbn [map] in *. rewrite IH. reflexivity.
  Qed.

  Lemma Forall_removelast {A} (P : A -> Prop) (l : list A) : Forall P l -> Forall P (removelast l).
  Proof.
    induction l as [|a l IH]; intros H; [constructor|]. destruct l as [|a2 l]; [constructor|].
    inversion H; subst. change (removelast (a :: a2 :: l)) with (a :: removelast (a2 :: l)).
    constructor; auto.
  Qed.

  Lemma remove_last_ok s : st_ok s -> st_ok (remove_last s).
  Proof.
    destruct s as [[rs bs] ks]. cbn. intros (-> & -> & Hk). repeat split.
    - apply zsum_removelast.
    - symmetry. apply map_removelast.
    - apply Forall_removelast, Hk.
  Qed.

  Section FillLast.
    Variable rec : nst -> Z -> list D -> option (nst * list D).
    Hypothesis Hrec : forall ls m cs ls' r, rec ls m cs = Some (ls', r) -> grows ls cs ls' r.

    Lemma fill_last_grows s p rep cs s' r :
      fill_last dlen dnil w k rec s p rep cs = Some (s', r) -> grows s cs s' r.
    Proof.
      unfold fill_last. destruct (num_children s <=? Z.of_nat w) eqn:En.
      { intros H; inversion H; subst. apply grows_refl. }
      destruct (open dlen (last (st_kids s) (Leaf KRaw 0 dnil))) as [ls|] eqn:Eo; [|discriminate].
      destruct (rec ls (p - 1) cs) as [[ls' cs1]|] eqn:Er; [|discriminate].
      destruct (Hrec _ _ _ _ _ Er) as (Hl & Hok & Hlen).
      assert (Hstep : grows s cs (add_child (remove_last s) (commit dnil ls') (st_size ls')) cs1).
      { destruct s as [[rs bs] ks]. unfold num_children, st_kids in *. cbn [snd] in *.
        assert (Hks : ks <> []) by (destruct ks; [cbn in En; lia | discriminate]).
        set (lastk := last ks (Leaf KRaw 0 dnil)) in *.
        pose proof (removelast_last ks (Leaf KRaw 0 dnil) Hks) as Hsplit. fold lastk in Hsplit.
        unfold grows. split; [|split].
        - unfold st_data. rewrite add_child_leaves. unfold st_leaves, remove_last, st_kids. cbn [snd].
          rewrite Hsplit at 2. rewrite flat_map_app. cbn [flat_map].
          rewrite app_nil_r, !nonempty_app, <- !app_assoc. f_equal.
          rewrite commit_leaves. fold (st_data ls'). rewrite Hl.
          unfold st_data. rewrite (open_leaves _ _ Eo). reflexivity.
        - intros Hs. pose proof (remove_last_ok _ Hs) as Hr.
          assert (Hlast : sc lastk).
          { cbn in Hs. destruct Hs as (_ & _ & Hk). rewrite Forall_forall in Hk. apply Hk.
            rewrite Hsplit. apply in_or_app. right. left. reflexivity. }
          destruct (commit_ok ls' (Hok (open_ok _ _ Eo Hlast))) as [Hc <-].
          apply add_child_ok; assumption.
        - exact Hlen. }
      destruct (rep =? 0).
      { intros H; inversion H; subst. exact Hstep. }
      destruct (fill_slots (tri_sub_z dlen w k p) (Z.to_nat (Z.of_nat depth_repeat - rep)) cs1) as [new cs2] eqn:E.
      intros H; inversion H; subst.
      eapply grows_trans; [exact Hstep | eapply grows_fill; [apply tri_sub_z_spec | exact E]].
    Qed.
  End FillLast.

  Variable fl : aflags.

  Lemma append_rec_grows : forall fuel s m cs s' r,
    append_rec dlen dnil w k fl fuel s m cs = Some (s', r) -> grows s cs s' r.
  Proof.
    induction fuel as [|fuel IH]; intros s m cs s' r H; cbn [append_rec] in H; [discriminate|].
    destruct ((m =? 0) || is_nil cs); [inversion H; subst; apply grows_refl|].
    destruct (depth_info w s) as [d0 rep].
    destruct (d0 =? 0) eqn:Ed.
    - destruct (fill_layer dlen w k s cs) as [s1 cs1] eqn:Ef.
      pose proof (fill_layer_grows _ _ _ _ Ef) as G1.
      destruct (1 =? m); [inversion H; subst; exact G1|].
      destruct (fill_last dlen dnil w k (append_rec dlen dnil w k fl fuel) s1 1 rep cs1) as [[s2 cs2]|] eqn:El;
        [|discriminate].
      pose proof (fill_last_grows _ IH _ _ _ _ _ _ El) as G2.
      destruct (resume w fl s2 1 cs2) as [d' j0].
      inversion H as [H1]. destruct (layers_loop dlen w k (length cs2) s2 d' j0 (Some m) cs2) as [s3 r3] eqn:E3.
      inversion H1; subst.
      eapply grows_trans; [exact G1|]. eapply grows_trans; [exact G2|]. eapply layers_loop_grows, E3.
    - destruct (d0 =? m); [inversion H; subst; apply grows_refl|].
      destruct (fill_last dlen dnil w k (append_rec dlen dnil w k fl fuel) s d0 rep cs) as [[s2 cs2]|] eqn:El;
        [|discriminate].
      pose proof (fill_last_grows _ IH _ _ _ _ _ _ El) as G2.
      destruct (resume w fl s2 d0 cs2) as [d' j0].
      inversion H as [H1]. destruct (layers_loop dlen w k (length cs2) s2 d' j0 (Some m) cs2) as [s3 r3] eqn:E3.
      inversion H1; subst.
      eapply grows_trans; [exact G2|]. eapply layers_loop_grows, E3.
  Qed.

  Lemma layers_loop_done : forall fuel s i j0 cs,
    j0 < 4 -> (length cs <= fuel)%nat -> snd (layers_loop dlen w k fuel s i j0 None cs) = [].
  Proof.
    induction fuel as [|fuel IH]; intros s i j0 cs Hj Hlen; cbn [layers_loop].
    - destruct cs; [reflexivity | cbn in Hlen; lia].
    - destruct cs as [|c cs]; [reflexivity|]. cbn [is_nil orb].
      destruct (fill_slots (tri_sub_z dlen w k i) (Z.to_nat (Z.of_nat depth_repeat - j0)) (c :: cs)) as [ls r0] eqn:E.
      destruct (fill_slots_spec dlen _ _ _ (tri_sub_z_spec i) _ _ _ _ E) as (_ & _ & _ & _ & _ & _ & _ & Ine).
      destruct Ine as [_ Hlt]; [unfold depth_repeat; lia | discriminate |].
      apply IH; [lia | cbn [length] in *; lia].
  Qed.

  Lemma resume_j0 (s : nst) d (cs : list D) : snd (resume w fl s d cs) < 4 /\ 0 <= snd (resume w fl s d cs).
  Proof.
    unfold resume. destruct (f_depth_incr fl); [cbn; lia|].
    unfold depth_info. destruct (num_children s <? Z.of_nat w); cbn [snd]; [lia|].
    change (Z.of_nat depth_repeat) with 4.
    pose proof (Z.mod_pos_bound (num_children s - Z.of_nat w) 4 ltac:(lia)). lia.
  Qed.

  (** Append: content and sizes, for either behaviour of the defect switch and ANY
      base tree the code can reopen *)
  Theorem append_content_sizes t cs t' :
    append dlen dnil w k fl t cs = Some t' ->
    data_leaves dlen t' = data_leaves dlen t ++ ne cs /\ (sc t -> sc t') /\
    (sc t -> rsize t' = rsize t + dsum dlen cs).
  Proof.
    unfold append. destruct (open dlen t) as [s|] eqn:Eo; [|discriminate].
    assert (Hfin : forall s3, grows s cs s3 [] ->
              data_leaves dlen (commit dnil s3) = data_leaves dlen t ++ ne cs /\
              (sc t -> sc (commit dnil s3)) /\ (sc t -> rsize (commit dnil s3) = rsize t + dsum dlen cs)).
    { intros s3 (Hl & Hok & _). cbn [nonempty filter] in Hl. rewrite app_nil_r in Hl.
      split; [|split].
      - unfold data_leaves at 1. rewrite commit_leaves. fold (st_data s3). rewrite Hl.
        unfold st_data. rewrite (open_leaves _ _ Eo). reflexivity.
      - intros Ht. apply commit_ok, Hok, (open_ok _ _ Eo Ht).
      - intros Ht. pose proof (Hok (open_ok _ _ Eo Ht)) as H3.
        destruct (commit_ok _ H3) as [Hc _].
        rewrite (sizes_consistent_rsize dlen _ Hc), (sizes_consistent_rsize dlen _ Ht).
        unfold tsize.
        assert (Hd : forall l, dsum dlen l = dsum dlen (ne l)).
        { induction l as [|x l IHl]; [reflexivity|]. cbn [nonempty filter].
          destruct (Z.eqb_spec (dlen x) 0) as [Ex|Ex]; cbn [negb]; unfold dsum, nonempty in *; cbn [map zsum]; lia. }
        rewrite (Hd (leaves (commit dnil s3))), (Hd (leaves t)), (Hd cs).
        change (ne (leaves (commit dnil s3))) with (data_leaves dlen (commit dnil s3)).
        unfold data_leaves at 1. rewrite commit_leaves. fold (st_data s3). rewrite Hl.
        unfold st_data. rewrite (open_leaves _ _ Eo). unfold data_leaves. apply dsum_app. }
    destruct (depth_info w s) as [d0 rep].
    destruct (d0 =? 0) eqn:Ed.
    - destruct (fill_layer dlen w k s cs) as [s1 cs1] eqn:Ef.
      pose proof (fill_layer_grows _ _ _ _ Ef) as G1. cbn [andb].
      destruct (is_nil cs1) eqn:En.
      { intros H; inversion H; subst. destruct cs1; [|discriminate]. apply Hfin, G1. }
      destruct (fill_last dlen dnil w k (append_rec dlen dnil w k fl (height t)) s1 (1 - 1) rep cs1)
        as [[s2 cs2]|] eqn:El; [|discriminate].
      pose proof (fill_last_grows _ (append_rec_grows (height t)) _ _ _ _ _ _ El) as G2.
      destruct (resume w fl s2 1 cs2) as [d' j0] eqn:Er.
      pose proof (resume_j0 s2 1 cs2) as Hj. rewrite Er in Hj. cbn [snd] in Hj.
      pose proof (layers_loop_done (length cs2) s2 d' j0 cs2 ltac:(lia) (le_n _)) as Hdone.
      destruct (layers_loop dlen w k (length cs2) s2 d' j0 None cs2) as [s3 r3] eqn:E3.
      cbn [snd] in Hdone. subst r3.
      intros H; inversion H; subst. apply Hfin.
      eapply grows_trans; [exact G1|]. eapply grows_trans; [exact G2|]. eapply layers_loop_grows, E3.
    - cbn [andb].
      destruct (fill_last dlen dnil w k (append_rec dlen dnil w k fl (height t)) s (d0 - 1) rep cs)
        as [[s2 cs2]|] eqn:El; [|discriminate].
      pose proof (fill_last_grows _ (append_rec_grows (height t)) _ _ _ _ _ _ El) as G2.
      destruct (resume w fl s2 d0 cs2) as [d' j0] eqn:Er.
      pose proof (resume_j0 s2 d0 cs2) as Hj. rewrite Er in Hj. cbn [snd] in Hj.
      pose proof (layers_loop_done (length cs2) s2 d' j0 cs2 ltac:(lia) (le_n _)) as Hdone.
      destruct (layers_loop dlen w k (length cs2) s2 d' j0 None cs2) as [s3 r3] eqn:E3.
      cbn [snd] in Hdone. subst r3.
      intros H; inversion H; subst. apply Hfin.
      eapply grows_trans; [exact G2|]. eapply layers_loop_grows, E3.
  Qed.
End Append.

(** ---------- shape, with the defect switch off ---------- *)
Section Shape.
  Context {D : Type}.
  Variable dlen : D -> Z.
  Variable dnil : D.
  Variable w : nat.
  Hypothesis Hw1 : (1 <= w)%nat.
  Hypothesis Hdnil : dlen dnil = 0.
  Variable raw : bool.
  Notation k := (tri_kind raw).
  Notation nst := (@nst D).
  Notation tgo := (tri_go dlen w raw).
  Notation tok := (tri_ok dlen w raw).
  Notation W := (Z.of_nat w).

  (** the links of a node that is verified at depth M (-1 at the root) *)
  Definition kids_ok (M : Z) (ks : list (tree D)) : Prop := tgo M 0 ks = true.

  Lemma tgo_mono a b : (b <= 0 \/ (0 < a /\ a <= b)) ->
    forall l i, tgo a i l = true -> tgo b i l = true.
  Proof.
    intros Hab. induction l as [|c l IH]; intros i H; [reflexivity|].
    cbn [tri_go] in *. apply andb_true_iff in H. destruct H as [Hc Hl].
    rewrite (IH _ Hl), andb_true_r.
    destruct (i <? W); [exact Hc|].
    apply andb_true_iff in Hc. destruct Hc as [Hd Hc]. rewrite Hc, andb_true_r.
    cbv zeta in *. lia.
  Qed.

  Lemma tok_mono a b (t : tree D) : 1 <= a -> a <= b -> tok t a = true -> tok t b = true.
  Proof.
    intros Ha Hab. destruct t as [kd rs d | rs bs ks].
    - cbn [tri_ok]. replace (a =? 0) with false by lia. replace (b =? 0) with false by lia. auto.
    - rewrite !tri_ok_node. intros H. apply andb_true_iff in H. destruct H as [_ H].
      replace (b =? 0) with false by lia. cbn [negb andb].
      apply (tgo_mono a b); [right; lia | exact H].
  Qed.

  (** a subtree built by fillTrickleRec(maxDepth = p) passes the verifier at depth d >= max(p, 1) *)
  Lemma tri_p_tok p d (t : tree D) : 1 <= d -> p <= d -> tri_p dlen w raw p t = true -> tok t d = true.
  Proof.
    unfold tri_p. intros Hd Hp H. eapply tok_mono; [| |exact H]; lia.
  Qed.

  Lemma depth_info_spec (s : nst) d j : depth_info w s = (d, j) ->
    (num_children s < W /\ d = 0 /\ j = 0) \/
    (W <= num_children s /\ num_children s = W + 4 * (d - 1) + j /\ 0 <= j < 4 /\ 1 <= d).
  Proof.
    unfold depth_info. change (Z.of_nat depth_repeat) with 4.
    destruct (num_children s <? W) eqn:E; intros H; inversion H; subst; [left; lia|right].
    pose proof (Z.div_mod (num_children s - W) 4 ltac:(lia)) as Hdm.
    pose proof (Z.mod_pos_bound (num_children s - W) 4 ltac:(lia)) as Hb.
    assert (0 <= (num_children s - W) / 4) by (apply Z.div_pos; lia).
    lia.
  Qed.

  Lemma depth_info_full (s : nst) q : num_children s = W + 4 * q -> 0 <= q ->
    depth_info w s = (q + 1, 0).
  Proof.
    intros Hn Hq. unfold depth_info. change (Z.of_nat depth_repeat) with 4.
    replace (num_children s <? W) with false by lia.
    replace (num_children s - W) with (q * 4) by lia.
    rewrite Z_div_mult by lia. rewrite Z_mod_mult. reflexivity.
  Qed.

  (** state of a node opened from a tree that verifies at depth L *)
  Lemma open_kids_ok L (t : tree D) (s : nst) : L <> 0 ->
    open dlen t = Some s -> tok t L = true -> kids_ok L (st_kids s).
  Proof.
    intros HL. destruct t as [kd rs d | rs bs ks]; cbn [open].
    - destruct kd; try discriminate. destruct (dlen d =? 0); [|discriminate].
      intros H _; inversion H; subst. reflexivity.
    - intros H; inversion H; subst. rewrite tri_ok_node. intros Hk.
      apply andb_true_iff in Hk. apply Hk.
  Qed.

  Lemma commit_tok L (s : nst) : L <> 0 -> kids_ok L (st_kids s) -> tok (commit dnil s) L = true.
  Proof.
    intros HL. destruct s as [[rs bs] ks]. unfold st_kids. cbn [snd commit]. intros Hk.
    destruct ks as [|c ks].
    - cbn [tri_ok]. replace (L =? 0) with false by lia. rewrite Hdnil. reflexivity.
    - rewrite tri_ok_node, Hk. replace (L =? 0) with false by lia. reflexivity.
  Qed.

  (** adding direct leaves to a node that has fewer than w links *)
  Lemma fill_layer_kids M (s : nst) cs s' r :
    fill_layer dlen w k s cs = (s', r) -> kids_ok M (st_kids s) -> num_children s <= W ->
    kids_ok M (st_kids s') /\ num_children s' <= W /\ (r <> [] -> num_children s' = W).
  Proof.
    unfold fill_layer, num_children.
    destruct (fill_slots (leafb dlen k) (w - length (st_kids s)) cs) as [ls r0] eqn:E.
    intros H Hk Hn; inversion H; subst.
    destruct (fill_slots_spec dlen _ _ _ (leafb_tri_spec dlen w raw) _ _ _ _ E)
      as (_ & _ & Ip & Ilen & Iq & _).
    rewrite add_kids_kids, app_length. unfold kids_ok.
    split; [|split].
    - rewrite tri_go_app by exact Hw1. rewrite Hk. cbn [andb].
      apply tri_go_direct; [exact Hw1 | exact Ip | unfold zlen; lia].
    - lia.
    - intros Hr. destruct (Iq Hr) as [Hl _]. lia.
  Qed.

  (** the "continue filling" loop, started where the child count says *)
  Lemma layers_loop_kids M : forall fuel (s : nst) i j0 bound cs,
    kids_ok M (st_kids s) ->
    (cs = [] \/ (num_children s = W + 4 * (i - 1) + j0 /\ 0 <= j0 < 4 /\ 1 <= i)) ->
    match bound with Some m => M <= 0 \/ m <= M | None => M <= 0 end ->
    kids_ok M (st_kids (fst (layers_loop dlen w k fuel s i j0 bound cs))).
  Proof.
    induction fuel as [|fuel IH]; intros s i j0 bound cs Hk Hpos Hb; cbn [layers_loop]; [exact Hk|].
    destruct (is_nil cs || match bound with Some m => m <=? i | None => false end) eqn:Estop; [exact Hk|].
    apply orb_false_iff in Estop. destruct Estop as [Enil Ebound].
    destruct Hpos as [-> | (Hn & Hj & Hi)]; [discriminate|].
    destruct (fill_slots (tri_sub_z dlen w k i) (Z.to_nat (Z.of_nat depth_repeat - j0)) cs) as [ls r0] eqn:E.
    destruct (fill_slots_spec dlen _ _ _ (tri_sub_z_spec dlen w Hw1 raw i) _ _ _ _ E)
      as (_ & _ & Ip & Ilen & Iq & _).
    change (Z.of_nat depth_repeat) with 4 in *.
    unfold num_children in *.
    apply IH.
    - rewrite add_kids_kids. unfold kids_ok. rewrite tri_go_app by exact Hw1. rewrite Hk. cbn [andb].
      apply (tri_go_layer dlen w Hw1 raw M i).
      + rewrite forallb_forall in Ip |- *. intros c Hc. apply (tri_p_tok i i); [lia | lia | apply Ip, Hc].
      + unfold zlen. lia.
      + unfold zlen. lia.
      + lia.
      + destruct bound as [m|]; [|left; exact Hb]. destruct Hb as [Hb | Hb]; [left; exact Hb | right; lia].
    - destruct r0 as [|c0 r0]; [left; reflexivity|]. right.
      destruct (Iq ltac:(discriminate)) as [Hl _]. rewrite add_kids_kids, app_length. lia.
    - exact Hb.
  Qed.

  (** appendFillLastChild, given that the recursion on the last child preserves its shape *)
  Section FillLast.
    Variable rec : nst -> Z -> list D -> option (nst * list D).
    Hypothesis Hrec : forall ls m cs ls' r L,
      rec ls m cs = Some (ls', r) -> 1 <= L -> m <= L -> kids_ok L (st_kids ls) -> kids_ok L (st_kids ls').

    Lemma fill_last_kids M (s : nst) d rep p cs s' r :
      fill_last dlen dnil w k rec s p rep cs = Some (s', r) ->
      depth_info w s = (d, rep) -> 1 <= d -> p <= d ->
      kids_ok M (st_kids s) ->
      kids_ok M (st_kids s') /\ num_children s <= num_children s' /\
      (r <> [] -> snd (depth_info w s') = 0).
    Proof.
      intros H Hinfo Hd Hp Hk. unfold fill_last in H.
      destruct (depth_info_spec _ _ _ Hinfo) as [(Hlt & Hd0 & _) | (Hge & Hn & Hj & _)]; [lia|].
      destruct (num_children s <=? W) eqn:En.
      { inversion H; subst. split; [exact Hk | split; [lia|]]. intros _. rewrite Hinfo. cbn [snd]. lia. }
      destruct (open dlen (last (st_kids s) (Leaf KRaw 0 dnil))) as [ls|] eqn:Eo; [|discriminate].
      destruct (rec ls (p - 1) cs) as [[ls' cs1]|] eqn:Er; [|discriminate].
      destruct s as [[rs bs] ks]. unfold num_children, st_kids in *. cbn [snd] in *.
      assert (Hks : ks <> []) by (destruct ks; [cbn in En; lia | discriminate]).
      set (lastk := last ks (Leaf KRaw 0 dnil)) in *.
      pose proof (removelast_last ks (Leaf KRaw 0 dnil) Hks) as Hsplit. fold lastk in Hsplit.
      set (pre := removelast ks) in *.
      assert (Hlen : Z.of_nat (length ks) = zlen pre + 1).
      { rewrite Hsplit, app_length. unfold zlen. cbn [length]. lia. }
      (* the layer of the last link *)
      set (L := (zlen pre - W) / 4 + 1).
      assert (HL : L = if rep =? 0 then d - 1 else d).
      { unfold L. destruct (rep =? 0) eqn:Erep.
        - assert (zlen pre - W = 4 * (d - 2) + 3) as -> by lia.
          rewrite <- (Z.div_unique (4 * (d - 2) + 3) 4 (d - 2) 3); lia.
        - rewrite <- (Z.div_unique (zlen pre - W) 4 (d - 1) (rep - 1)); lia. }
      assert (HL1 : 1 <= L).
      { rewrite HL. destruct (rep =? 0) eqn:Erep; [|lia]. lia. }
      unfold kids_ok in Hk. rewrite Hsplit, tri_go_app in Hk by exact Hw1.
      apply andb_true_iff in Hk. destruct Hk as [Hpre Hlast].
      rewrite Z.add_0_l in Hlast. cbn [tri_go] in Hlast. rewrite andb_true_r in Hlast.
      change (Z.of_nat depth_repeat) with 4 in Hlast.
      replace (zlen pre <? W) with false in Hlast by lia. cbv zeta in Hlast. fold L in Hlast.
      apply andb_true_iff in Hlast. destruct Hlast as [HdM HlastL].
      assert (HM : M <= 0 \/ L < M) by lia.
      pose proof (Hrec _ _ _ _ _ L Er HL1 ltac:(rewrite HL; destruct (rep =? 0); lia)
                    (open_kids_ok L _ _ ltac:(lia) Eo HlastL)) as Hls'.
      pose proof (commit_tok L ls' ltac:(lia) Hls') as Hnew.
      assert (Hs1 : kids_ok M (pre ++ [commit dnil ls'])).
      { unfold kids_ok. rewrite tri_go_app by exact Hw1. rewrite Hpre. cbn [andb tri_go].
        rewrite Z.add_0_l, andb_true_r. change (Z.of_nat depth_repeat) with 4.
        replace (zlen pre <? W) with false by lia. cbv zeta. fold L. rewrite Hnew, HdM. reflexivity. }
      assert (Hk1 : st_kids (add_child (remove_last (rs, bs, ks)) (commit dnil ls') (st_size ls'))
                    = pre ++ [commit dnil ls']) by reflexivity.
      destruct (rep =? 0) eqn:Erep.
      { injection H as <- <-. split; [exact Hs1|].
        assert (Hcnt : num_children (add_child (remove_last (rs, bs, ks)) (commit dnil ls') (st_size ls'))
                       = Z.of_nat (length ks)).
        { unfold num_children. rewrite Hk1, app_length. unfold zlen in Hlen. cbn [length]. lia. }
        split. { unfold num_children, st_kids, zlen, pre in *. cbn [snd] in *. rewrite app_length. cbn [length]. lia. } intros _.
        rewrite (depth_info_full _ (d - 1)); [reflexivity | etransitivity; [exact Hcnt | lia] | lia]. }
      destruct (fill_slots (tri_sub_z dlen w k p) (Z.to_nat (Z.of_nat depth_repeat - rep)) cs1) as [new cs2] eqn:E.
      injection H as <- <-.
      destruct (fill_slots_spec dlen _ _ _ (tri_sub_z_spec dlen w Hw1 raw p) _ _ _ _ E)
        as (_ & _ & Ip & Ilen & Iq & _).
      change (Z.of_nat depth_repeat) with 4 in Ilen, Iq.
      set (s1 := add_child (remove_last (rs, bs, ks)) (commit dnil ls') (st_size ls')) in *.
      assert (Hk2 : st_kids (add_kids s1 new) = (pre ++ [commit dnil ls']) ++ new)
        by (rewrite add_kids_kids, Hk1; reflexivity).
      assert (Hcnt : num_children (add_kids s1 new) = Z.of_nat (length ks) + Z.of_nat (length new)).
      { unfold num_children. rewrite Hk2, !app_length. unfold zlen in Hlen. cbn [length]. lia. }
      change (kids_ok M (st_kids (add_kids s1 new)) /\
              Z.of_nat (length ks) <= num_children (add_kids s1 new) /\
              (cs2 <> [] -> snd (depth_info w (add_kids s1 new)) = 0)).
      split; [|split; [lia|]].
      2: { intros Hr. destruct (Iq Hr) as [Hl4 _].
           rewrite (depth_info_full _ d); [reflexivity | etransitivity; [exact Hcnt | lia] | lia]. }
      rewrite Hk2.
      unfold kids_ok. rewrite tri_go_app by exact Hw1. rewrite Hs1. cbn [andb]. rewrite Z.add_0_l.
      apply (tri_go_layer dlen w Hw1 raw M d).
      - rewrite forallb_forall in Ip |- *. intros c Hc. apply (tri_p_tok p d); [lia | lia | apply Ip, Hc].
      - rewrite zlen_app. unfold zlen at 2. cbn [length]. lia.
      - rewrite zlen_app. unfold zlen at 2 3. cbn [length]. lia.
      - lia.
      - rewrite HL in HM. lia.
    Qed.
  End FillLast.

  Lemma append_rec_kids : forall fuel (s : nst) m cs s' r L,
    append_rec dlen dnil w k aflags_off fuel s m cs = Some (s', r) ->
    1 <= L -> m <= L -> kids_ok L (st_kids s) -> kids_ok L (st_kids s').
  Proof.
    induction fuel as [|fuel IH]; intros s m cs s' r L H HL Hm Hk; cbn [append_rec] in H; [discriminate|].
    destruct ((m =? 0) || is_nil cs); [inversion H; subst; exact Hk|].
    destruct (depth_info w s) as [d0 rep] eqn:Einfo.
    destruct (depth_info_spec _ _ _ Einfo) as [(Hlt & -> & ->) | (Hge & Hn & Hj & Hd1)].
    - cbn [Z.eqb] in H.
      destruct (fill_layer dlen w k s cs) as [s1 cs1] eqn:Ef.
      destruct (fill_layer_kids L _ _ _ _ Ef Hk ltac:(lia)) as (Hk1 & Hn1 & Hfull).
      destruct (1 =? m); [inversion H; subst; exact Hk1|].
      unfold fill_last in H. replace (num_children s1 <=? W) with true in H by lia.
      unfold resume in H. cbn [f_depth_incr aflags_off] in H.
      destruct (depth_info w s1) as [d' j0] eqn:E1. cbn [fst] in H.
      match type of H with Some ?X = _ => assert (Hs' : s' = fst X) by (injection H as H0; rewrite H0; reflexivity) end.
      rewrite Hs'. apply layers_loop_kids; [exact Hk1 | | right; exact Hm].
      destruct cs1 as [|c1 cs1]; [left; reflexivity|]. right.
      destruct (depth_info_spec _ _ _ E1) as [(Hlt1 & _) | (_ & Hn1' & Hj1 & Hd1)].
      + specialize (Hfull ltac:(discriminate)). lia.
      + specialize (Hfull ltac:(discriminate)). repeat split; lia.
    - replace (d0 =? 0) with false in H by lia.
      destruct (d0 =? m); [inversion H; subst; exact Hk|].
      destruct (fill_last dlen dnil w k (append_rec dlen dnil w k aflags_off fuel) s d0 rep cs) as [[s2 cs2]|] eqn:El;
        [|discriminate].
      destruct (fill_last_kids _ IH L _ _ _ _ _ _ _ El Einfo Hd1 ltac:(lia) Hk) as (Hk2 & Hn2 & Hz2).
      unfold resume in H. cbn [f_depth_incr aflags_off] in H.
      destruct (depth_info w s2) as [d' j0] eqn:E2. cbn [fst snd] in H, Hz2.
      match type of H with Some ?X = _ => assert (Hs' : s' = fst X) by (injection H as H0; rewrite H0; reflexivity) end.
      rewrite Hs'. apply layers_loop_kids; [exact Hk2 | | right; exact Hm].
      destruct cs2 as [|c2 cs2]; [left; reflexivity|]. right.
      specialize (Hz2 ltac:(discriminate)).
      destruct (depth_info_spec _ _ _ E2) as [(Hlt2 & _) | (_ & Hn2' & Hj2 & Hd2)]; [lia|].
      repeat split; lia.
  Qed.

  (** Append with the corrected continuation keeps the trickle shape *)
  Theorem append_shape (t : tree D) cs t' :
    tri_shape dlen w raw t = true ->
    append dlen dnil w k aflags_off t cs = Some t' ->
    tri_shape dlen w raw t' = true.
  Proof.
    unfold tri_shape, append. intros Ht H.
    destruct (open dlen t) as [s|] eqn:Eo; [|discriminate].
    pose proof (open_kids_ok (-1) _ _ ltac:(lia) Eo Ht) as Hk.
    destruct (depth_info w s) as [d0 rep] eqn:Einfo.
    destruct (depth_info_spec _ _ _ Einfo) as [(Hlt & -> & ->) | (Hge & Hn & Hj & Hd1)].
    - cbn [Z.eqb andb] in H.
      destruct (fill_layer dlen w k s cs) as [s1 cs1] eqn:Ef.
      destruct (fill_layer_kids (-1) _ _ _ _ Ef Hk ltac:(lia)) as (Hk1 & Hn1 & Hfull).
      destruct (is_nil cs1).
      { injection H as <-. apply commit_tok; [lia | exact Hk1]. }
      unfold fill_last in H. replace (num_children s1 <=? W) with true in H by lia.
      unfold resume in H. cbn [f_depth_incr aflags_off] in H.
      destruct (depth_info w s1) as [d' j0] eqn:E1. cbn [fst] in H.
      injection H as <-. apply commit_tok; [lia|].
      apply layers_loop_kids; [exact Hk1 | | lia].
      destruct cs1 as [|c1 cs1]; [left; reflexivity|]. right.
      destruct (depth_info_spec _ _ _ E1) as [(Hlt1 & _) | (_ & Hn1' & Hj1 & Hd1)].
      + specialize (Hfull ltac:(discriminate)). lia.
      + specialize (Hfull ltac:(discriminate)). repeat split; lia.
    - replace (d0 =? 0) with false in H by lia. cbn [andb] in H.
      destruct (fill_last dlen dnil w k (append_rec dlen dnil w k aflags_off (height t)) s (d0 - 1) rep cs)
        as [[s2 cs2]|] eqn:El; [|discriminate].
      destruct (fill_last_kids _ (append_rec_kids (height t)) (-1) _ _ _ _ _ _ _ El Einfo Hd1 ltac:(lia) Hk)
        as (Hk2 & Hn2 & Hz2).
      unfold resume in H. cbn [f_depth_incr aflags_off] in H.
      destruct (depth_info w s2) as [d' j0] eqn:E2. cbn [fst snd] in H, Hz2.
      injection H as <-. apply commit_tok; [lia|].
      apply layers_loop_kids; [exact Hk2 | | lia].
      destruct cs2 as [|c2 cs2]; [left; reflexivity|]. right.
      specialize (Hz2 ltac:(discriminate)).
      destruct (depth_info_spec _ _ _ E2) as [(Hlt2 & _) | (_ & Hn2' & Hj2 & Hd2)]; [lia|].
      repeat split; lia.
  Qed.
End Shape.

(** the defect: the code's continuation rule breaks the shape *)
Lemma shape_refuted :
  exists (t : tree (list Z)) (cs : list (list Z)),
    tri_tree zlen [] 2 false [[1]] = Some t /\
    match append zlen [] 2 KPbRaw aflags_on t cs with
    | Some t' => tri_shape zlen 2 false t' = false /\ content t' = content t ++ concat cs /\
                 sizes_ok zlen t' = true
    | None => False
    end.
Proof.
  eexists. exists [[2]; [3]; [4]; [5]]. split; [vm_compute; reflexivity|].
  vm_compute. repeat split.
Qed.

(** byte level *)
Theorem append_content {A} (w : nat) (Hw : (1 <= w)%nat) raw fl (t : tree (list A)) cs t' :
  append zlen [] w (tri_kind raw) fl t cs = Some t' -> content t' = content t ++ concat cs.
Proof.
  intros H. destruct (append_content_sizes zlen [] w Hw eq_refl raw fl t cs t' H) as (Hl & _).
  assert (Hc : forall l : list (list A), concat (nonempty zlen l) = concat l).
  { induction l as [|x l IH]; [reflexivity|]. cbn [nonempty filter].
    destruct x as [|a x]; cbn; [exact IH|]. unfold nonempty in IH. rewrite IH. reflexivity. }
  unfold content. rewrite <- (Hc (leaves t')), <- (Hc (leaves t)), <- (Hc cs), <- concat_app.
  f_equal. exact Hl.
Qed.

(** ---------- totality: the fuel passed by [append] is enough ---------- *)
Lemma height_in {D} (c : tree D) rs bs ks : In c ks -> (S (height c) <= height (Node rs bs ks))%nat.
Proof.
  intros Hin. cbn [height]. apply le_n_S. induction ks as [|x ks IHk]; [destruct Hin|].
  cbn [fold_right]. destruct Hin as [-> | Hin]; [lia | specialize (IHk Hin); lia].
Qed.

Section Total.
  Context {D : Type}.
  Variable dlen : D -> Z.
  Variable dnil : D.
  Variable w : nat.
  Hypothesis Hw1 : (1 <= w)%nat.
  Variable raw : bool.
  Notation k := (tri_kind raw).
  Notation nst := (@nst D).
  Notation W := (Z.of_nat w).
  Notation dflt := (Leaf KRaw 0 dnil).

  (** the chain of last links that appendRec walks down: every one of them can be reopened *)
  Inductive chain : nat -> list (tree D) -> Prop :=
  | chain_short n ks : Z.of_nat (length ks) <= W -> chain n ks
  | chain_long n ks ls : W < Z.of_nat (length ks) -> open dlen (last ks dflt) = Some ls ->
                         chain n (st_kids ls) -> chain (S n) ks.

  Lemma chain_mono n ks : chain n ks -> forall n', (n <= n')%nat -> chain n' ks.
  Proof.
    induction 1 as [n ks Hs | n ks ls Hl Ho Hc IH]; intros n' Hn; [apply chain_short; exact Hs|].
    destruct n' as [|n']; [lia|]. eapply chain_long; [exact Hl | exact Ho | apply IH; lia].
  Qed.

  Lemma fill_layer_count (s : nst) cs s' r :
    fill_layer dlen w k s cs = (s', r) -> num_children s <= W -> num_children s' <= W.
  Proof.
    unfold fill_layer, num_children.
    destruct (fill_slots (leafb dlen k) (w - length (st_kids s)) cs) as [ls r0] eqn:E.
    intros H Hn; inversion H; subst.
    destruct (fill_slots_spec dlen _ _ _ (leafb_tri_spec dlen w raw) _ _ _ _ E) as (_ & _ & _ & Ilen & _).
    rewrite add_kids_kids, app_length. lia.
  Qed.

  Lemma append_rec_total fl : forall fuel n (s : nst) m cs,
    chain n (st_kids s) -> (S n <= fuel)%nat ->
    exists res, append_rec dlen dnil w k fl fuel s m cs = Some res.
  Proof.
    induction fuel as [|fuel IH]; intros n s m cs Hc Hf; [lia|]. cbn [append_rec].
    destruct ((m =? 0) || is_nil cs); [eexists; reflexivity|].
    destruct (depth_info w s) as [d0 rep] eqn:Einfo.
    destruct (@depth_info_spec D w Hw1 _ _ _ Einfo) as [(Hlt & -> & ->) | (Hge & Hn & Hj & Hd1)].
    - cbn [Z.eqb].
      destruct (fill_layer dlen w k s cs) as [s1 cs1] eqn:Ef.
      pose proof (fill_layer_count _ _ _ _ Ef ltac:(lia)) as Hn1.
      destruct (1 =? m); [eexists; reflexivity|].
      unfold fill_last. replace (num_children s1 <=? W) with true by lia.
      destruct (resume w fl s1 1 cs1). eexists; reflexivity.
    - replace (d0 =? 0) with false by lia.
      destruct (d0 =? m); [eexists; reflexivity|].
      unfold fill_last. destruct (num_children s <=? W) eqn:En.
      { destruct (resume w fl s d0 cs). eexists; reflexivity. }
      inversion Hc as [n0 ks0 Hs | n0 ks0 ls Hl Ho Hcl]; subst; [unfold num_children in En; lia|].
      rewrite Ho.
      destruct (IH n0 ls (d0 - 1) cs Hcl ltac:(lia)) as [[ls' cs1] ->].
      destruct (rep =? 0).
      + match goal with |- context [resume w fl ?a ?b ?c] => destruct (resume w fl a b c) end.
        eexists; reflexivity.
      + destruct (fill_slots (tri_sub_z dlen w k d0) (Z.to_nat (Z.of_nat depth_repeat - rep)) cs1).
        match goal with |- context [resume w fl ?a ?b ?c] => destruct (resume w fl a b c) end.
        eexists; reflexivity.
  Qed.

  (** a tree that passes the verifier at a branch position can be reopened, and so can
      the whole chain of its last links *)
  Lemma tok_chain : forall (t : tree D) L, L <> 0 -> tri_ok dlen w raw t L = true ->
    exists s, open dlen t = Some s /\ chain (height t) (st_kids s).
  Proof.
    induction t as [kd rs d | rs bs ks IH] using tree_ind'; intros L HL H.
    - cbn [tri_ok] in H. replace (L =? 0) with false in H by lia.
      destruct kd; try discriminate. cbn [open]. rewrite H.
      eexists; split; [reflexivity|]. apply chain_short. cbn. lia.
    - exists (rs, bs, ks). split; [reflexivity|]. cbn [st_kids snd].
      destruct (Z_le_gt_dec (Z.of_nat (length ks)) W) as [Hs | Hl]; [apply chain_short; exact Hs|].
      rewrite tri_ok_node in H. apply andb_true_iff in H. destruct H as [_ Hgo].
      assert (Hks : ks <> []) by (destruct ks; [cbn in Hl; lia | discriminate]).
      pose proof (removelast_last ks dflt Hks) as Hsplit.
      set (lastk := last ks dflt) in *. set (pre := removelast ks) in *.
      assert (Hlen : Z.of_nat (length ks) = zlen pre + 1).
      { rewrite Hsplit, app_length. unfold zlen. cbn [length]. lia. }
      rewrite Hsplit, tri_go_app in Hgo by exact Hw1.
      apply andb_true_iff in Hgo. destruct Hgo as [_ Hlast].
      rewrite Z.add_0_l in Hlast. cbn [tri_go] in Hlast. rewrite andb_true_r in Hlast.
      change (Z.of_nat depth_repeat) with 4 in Hlast.
      replace (zlen pre <? W) with false in Hlast by lia. cbv zeta in Hlast.
      apply andb_true_iff in Hlast. destruct Hlast as [_ Hlast].
      assert (Hin : In lastk ks) by (rewrite Hsplit; apply in_or_app; right; left; reflexivity).
      rewrite Forall_forall in IH.
      assert (Hrd : (zlen pre - W) / 4 + 1 <> 0).
      { assert (0 <= (zlen pre - W) / 4) by (apply Z.div_pos; lia). lia. }
      destruct (IH lastk Hin _ Hrd Hlast) as (ls & Ho & Hc).
      pose proof (height_in lastk rs bs ks Hin) as Hh.
      apply (chain_mono (S (height lastk))); [|exact Hh].
      eapply chain_long; [lia | exact Ho | exact Hc].
  Qed.

  Theorem append_total fl (t : tree D) cs :
    tri_shape dlen w raw t = true -> exists t', append dlen dnil w k fl t cs = Some t'.
  Proof.
    unfold tri_shape. intros Ht.
    destruct (tok_chain t (-1) ltac:(lia) Ht) as (s & Ho & Hc).
    unfold append. rewrite Ho.
    destruct (depth_info w s) as [d0 rep] eqn:Einfo.
    destruct (@depth_info_spec D w Hw1 _ _ _ Einfo) as [(Hlt & -> & ->) | (Hge & Hn & Hj & Hd1)].
    - cbn [Z.eqb andb].
      destruct (fill_layer dlen w k s cs) as [s1 cs1] eqn:Ef.
      pose proof (fill_layer_count _ _ _ _ Ef ltac:(lia)) as Hn1.
      destruct (is_nil cs1); [eexists; reflexivity|].
      unfold fill_last. replace (num_children s1 <=? W) with true by lia.
      destruct (resume w fl s1 1 cs1). eexists; reflexivity.
    - replace (d0 =? 0) with false by lia. cbv beta iota zeta. cbn [andb].
      unfold fill_last. destruct (num_children s <=? W) eqn:En.
      { destruct (resume w fl s d0 cs). eexists; reflexivity. }
      inversion Hc as [n0 ks0 Hs | n0 ks0 ls Hl Hol Hcl]; subst; [unfold num_children in En; lia|].
      rewrite Hol.
      destruct (append_rec_total fl (S n0) n0 ls (d0 - 1 - 1) cs Hcl (le_n _)) as [[ls' cs1] ->].
      destruct (rep =? 0).
      + match goal with |- context [resume w fl ?a ?b ?c] => destruct (resume w fl a b c) end.
        eexists; reflexivity.
      + destruct (fill_slots (tri_sub_z dlen w k (d0 - 1)) (Z.to_nat (Z.of_nat depth_repeat - rep)) cs1).
        match goal with |- context [resume w fl ?a ?b ?c] => destruct (resume w fl a b c) end.
        eexists; reflexivity.
  Qed.
End Total.
