(** C11 — dag-pb codec: the decoder inverts the encoder. *)
From Coq Require Import List ZArith Bool Lia.
From V Require Import lib.C11_DagPb.
Import ListNotations.
Open Scope Z_scope.

Definition two64 : Z := 18446744073709551616.

(** ---------- varints ---------- *)
Fixpoint vbound (fuel : nat) : Z :=
  match fuel with
  | O => 0
  | S f => match f with O => 2 | S _ => 128 * vbound f end
  end.

Lemma vbound_10 : vbound 10 = two64.
Proof. reflexivity. Qed.

Lemma log2_small : forall n, 0 <= n -> Z.log2 n <= 0 -> n < 2.
Proof.
  intros n Hn Hl. destruct (Z_lt_le_dec n 2) as [L|G]; [exact L|].
  pose proof (Z.log2_le_mono 2 n G) as M. change (Z.log2 2) with 1 in M. lia.
Qed.

Lemma log2_div128 : forall n, 128 <= n -> Z.log2 (n / 128) <= Z.log2 n - 1.
Proof.
  intros n Hn.
  assert (Hq : 1 <= n / 128) by (apply Z.div_le_lower_bound; lia).
  assert (H2 : 2 * (n / 128) <= n).
  { pose proof (Z.mul_div_le n 128 ltac:(lia)). lia. }
  pose proof (Z.log2_le_mono _ _ H2) as M.
  rewrite Z.log2_double in M by lia. lia.
Qed.

Lemma uvarint_f_varint_f : forall fd fe n r,
  0 <= n < vbound fd -> Z.log2 n <= Z.of_nat fe ->
  uvarint_f fd (varint_f fe n ++ r) = Some (n, r).
Proof.
  induction fd as [|f IH]; intros fe n r Hn Hl.
  - cbn [vbound] in Hn. lia.
  - destruct fe as [|fe'].
    + assert (n < 2) by (apply log2_small; lia).
      cbn [varint_f app uvarint_f].
      assert (n <? 128 = true) as -> by (apply Z.ltb_lt; lia).
      destruct f; [|reflexivity].
      assert (n <? 2 = true) as -> by (apply Z.ltb_lt; lia). reflexivity.
    + cbn [varint_f]. destruct (n <? 128) eqn:E128.
      * cbn [app uvarint_f]. rewrite E128. destruct f as [|f'']; [|reflexivity].
        cbn [vbound] in Hn. assert (n <? 2 = true) as -> by (apply Z.ltb_lt; lia). reflexivity.
      * apply Z.ltb_ge in E128.
        cbn [app uvarint_f].
        assert (n mod 128 + 128 <? 128 = false) as ->.
        { apply Z.ltb_ge. pose proof (Z.mod_pos_bound n 128 ltac:(lia)). lia. }
        destruct f as [|f''].
        { cbn [vbound] in Hn. lia. }
        rewrite (IH fe' (n / 128) r).
        -- f_equal. f_equal. pose proof (Z.div_mod n 128 ltac:(lia)). lia.
        -- split; [apply Z.div_pos; lia|].
           change (vbound (S (S f''))) with (128 * vbound (S f'')) in Hn.
           apply Z.div_lt_upper_bound; lia.
        -- pose proof (log2_div128 n E128). lia.
Qed.

Lemma uvarint_varint : forall n r, 0 <= n < two64 -> uvarint (varint n ++ r) = Some (n, r).
Proof.
  intros n r Hn. unfold uvarint, varint. apply uvarint_f_varint_f.
  - rewrite vbound_10. exact Hn.
  - rewrite Z2Nat.id by apply Z.log2_nonneg. lia.
Qed.

(** the explicit fuel of the encoder is never the reason it stops *)
Lemma varint_f_fuel : forall fe n, 0 <= n -> Z.log2 n <= Z.of_nat fe ->
  varint_f (S fe) n = varint_f fe n.
Proof.
  induction fe as [|fe IH]; intros n Hn Hl.
  - assert (n < 2) by (apply log2_small; lia). cbn [varint_f].
    assert (n <? 128 = true) as -> by (apply Z.ltb_lt; lia). reflexivity.
  - cbn [varint_f]. destruct (n <? 128) eqn:E; [reflexivity|]. apply Z.ltb_ge in E.
    f_equal. change (varint_f (S fe) (n / 128) = varint_f fe (n / 128)).
    apply IH; [apply Z.div_pos; lia|]. pose proof (log2_div128 n E). lia.
Qed.

Lemma varint_nonempty : forall n, (1 <= length (varint n))%nat.
Proof.
  intro n. unfold varint. destruct (Z.to_nat (Z.log2 n)); cbn [varint_f].
  - cbn. lia.
  - destruct (n <? 128); cbn [length]; lia.
Qed.

(** ---------- fields ---------- *)
Lemma len_app : forall {A} (a b : list A), len (a ++ b) = len a + len b.
Proof. intros. unfold len. rewrite app_length. lia. Qed.
Lemma len_cons : forall {A} (x : A) b, len (x :: b) = 1 + len b.
Proof. intros. unfold len. cbn [length]. lia. Qed.
Lemma len_nonneg : forall {A} (a : list A), 0 <= len a.
Proof. intros. unfold len. lia. Qed.

Lemma take_bytes_field : forall b r, len b < two64 ->
  take_bytes (varint (len b) ++ b ++ r) = Some (b, r).
Proof.
  intros b r Hb. unfold take_bytes. rewrite uvarint_varint by (pose proof (len_nonneg b); lia).
  assert (len (b ++ r) <? len b = false) as ->.
  { apply Z.ltb_ge. rewrite len_app. pose proof (len_nonneg r). lia. }
  unfold len. rewrite Nat2Z.id. rewrite firstn_app, Nat.sub_diag, firstn_all, firstn_O, app_nil_r.
  rewrite skipn_app, Nat.sub_diag, skipn_all. reflexivity.
Qed.

Lemma take_tag_10 : forall r, take_tag (10 :: r) = Some (1, 2, r).
Proof. reflexivity. Qed.
Lemma take_tag_18 : forall r, take_tag (18 :: r) = Some (2, 2, r).
Proof. reflexivity. Qed.
Lemma take_tag_24 : forall r, take_tag (24 :: r) = Some (3, 0, r).
Proof. reflexivity. Qed.

(** ---------- links ---------- *)
Definition link_wf (l : link) : Prop :=
  cid_valid (l_cid l) /\ 0 <= l_size l < two64 /\
  len (l_cid l) < two64 /\ len (l_name l) < two64.

Lemma dec_link_f_cons : forall f b bs h n t,
  dec_link_f (S f) (b :: bs) h n t =
  match take_tag (b :: bs) with
  | None => None
  | Some (num, wt, r) =>
      if num =? 1 then
        if is_some h || is_some n || is_some t then None
        else if negb (wt =? 2) then None
        else match take_bytes r with
             | None => None
             | Some (chunk, r') =>
                 match cid_parse chunk with
                 | None => None
                 | Some c => dec_link_f f r' (Some c) n t
                 end
             end
      else if num =? 2 then
        if is_some n || is_some t then None
        else if negb (wt =? 2) then None
        else match take_bytes r with
             | None => None
             | Some (chunk, r') => dec_link_f f r' h (Some chunk) t
             end
      else if num =? 3 then
        if is_some t then None
        else if negb (wt =? 0) then None
        else match uvarint r with
             | None => None
             | Some (v, r') => dec_link_f f r' h n (Some v)
             end
      else None
  end.
Proof. reflexivity. Qed.

Lemma dec_link_f_body : forall fuel l, (4 <= fuel)%nat -> link_wf l ->
  dec_link_f fuel (enc_link_body l) None None None = Some l.
Proof.
  intros fuel l Hf (Hc & Hs & Hlc & Hln).
  destruct fuel as [|[|[|[|f]]]]; try lia.
  unfold enc_link_body, enc_field.
  rewrite <- !app_comm_cons, <- !app_assoc.
  rewrite dec_link_f_cons, take_tag_10.
  change (1 =? 1) with true. cbn [is_some orb]. change (negb (2 =? 2)) with false. cbv iota.
  rewrite take_bytes_field by exact Hlc. rewrite Hc.
  rewrite <- ?app_comm_cons.
  rewrite dec_link_f_cons, take_tag_18.
  change (2 =? 1) with false. change (2 =? 2) with true. cbn [is_some orb]. cbv iota.
  change (negb true) with false. cbv iota.
  rewrite take_bytes_field by exact Hln.
  rewrite dec_link_f_cons, take_tag_24.
  change (3 =? 1) with false. change (3 =? 2) with false. change (3 =? 3) with true.
  cbn [is_some]. change (negb (0 =? 0)) with false. cbv iota.
  rewrite <- (app_nil_r (varint (l_size l))).
  rewrite uvarint_varint by exact Hs.
  cbn [dec_link_f odefault]. destruct l; reflexivity.
Qed.

Lemma enc_link_body_len : forall l, (6 <= length (enc_link_body l))%nat.
Proof.
  intro l. unfold enc_link_body, enc_field.
  repeat (rewrite app_length || cbn [length]).
  pose proof (varint_nonempty (len (l_cid l))). pose proof (varint_nonempty (len (l_name l))).
  pose proof (varint_nonempty (l_size l)). lia.
Qed.

Lemma dec_link_body : forall l, link_wf l -> dec_link (enc_link_body l) = Some l.
Proof.
  intros l W. unfold dec_link. apply dec_link_f_body; [|exact W].
  pose proof (enc_link_body_len l). lia.
Qed.

(** ---------- nodes ---------- *)
Definition node_wf (ls : list link) (d : option bytes) : Prop :=
  (forall l, In l ls -> link_wf l /\ len (enc_link_body l) < two64) /\
  match d with Some x => len x < two64 | None => True end.

Lemma dec_node_f_cons : forall f b bs acc open hl d,
  dec_node_f (S f) (b :: bs) acc open hl d =
  match take_tag (b :: bs) with
  | None => None
  | Some (num, wt, r) =>
      if negb (wt =? 2) then None
      else if num =? 1 then
        if is_some d then None
        else match take_bytes r with
             | None => None
             | Some (chunk, r') => dec_node_f f r' acc false hl (Some chunk)
             end
      else if num =? 2 then
        match take_bytes r with
        | None => None
        | Some (chunk, r') =>
            if negb open && hl then None
            else match dec_link chunk with
                 | None => None
                 | Some l => dec_node_f f r' (l :: acc) true true d
                 end
        end
      else None
  end.
Proof. reflexivity. Qed.

Lemma dec_node_f_links : forall ls d fuel acc open hl,
  node_wf ls d -> negb open && hl = false -> (length ls + 2 <= fuel)%nat ->
  dec_node_f fuel (encode ls d) acc open hl None = Some (d, rev acc ++ ls).
Proof.
  induction ls as [|l ls IH]; intros d fuel acc open hl W Hoh Hf.
  - unfold encode. cbn [flat_map app]. destruct W as [_ Wd].
    destruct fuel as [|[|f]]; cbn [length] in Hf; try lia.
    destruct d as [x|].
    + unfold enc_field. rewrite dec_node_f_cons, take_tag_10.
      change (negb (2 =? 2)) with false. change (1 =? 1) with true. cbn [is_some]. cbv iota.
      replace (varint (len x) ++ x) with (varint (len x) ++ x ++ []) by (rewrite app_nil_r; reflexivity).
      rewrite take_bytes_field by exact Wd.
      cbn [dec_node_f]. rewrite app_nil_r. reflexivity.
    + cbn [dec_node_f]. rewrite app_nil_r. reflexivity.
  - destruct fuel as [|f]; cbn [length] in Hf; [lia|].
    destruct W as [Wl Wd].
    destruct (Wl l (or_introl eq_refl)) as [Wl1 Wl2].
    unfold encode. cbn [flat_map]. unfold enc_link at 1. unfold enc_field at 1.
    rewrite <- !app_assoc, <- !app_comm_cons.
    rewrite dec_node_f_cons, take_tag_18.
    change (negb (2 =? 2)) with false. change (2 =? 1) with false. change (2 =? 2) with true. cbv iota.
    rewrite <- !app_assoc.
    rewrite take_bytes_field by exact Wl2.
    rewrite Hoh. rewrite dec_link_body by exact Wl1.
    fold (encode ls d).
    rewrite IH.
    + cbn [rev]. rewrite <- app_assoc. reflexivity.
    + split; [|exact Wd]. intros l' Hl'. apply Wl. right. exact Hl'.
    + reflexivity.
    + lia.
Qed.

Lemma encode_length : forall ls d, (2 * length ls <= length (encode ls d))%nat.
Proof.
  intros ls d. unfold encode. rewrite app_length.
  assert (2 * length ls <= length (flat_map enc_link ls))%nat; [|lia].
  induction ls as [|l ls IH]; [cbn; lia|].
  cbn [flat_map length]. rewrite app_length. unfold enc_link at 1. unfold enc_field.
  cbn [length]. rewrite app_length. pose proof (varint_nonempty (len (enc_link_body l))).
  pose proof (enc_link_body_len l). lia.
Qed.

(** decode inverts encode on every well-formed node *)
Lemma decode_encode : forall ls d, node_wf ls d -> decode (encode ls d) = Some (d, ls).
Proof.
  intros ls d W. unfold decode.
  destruct ls as [|l ls'] eqn:Els.
  - unfold encode. cbn [flat_map app]. destruct d as [x|].
    + unfold enc_field. cbn [length]. rewrite dec_node_f_cons, take_tag_10.
      change (negb (2 =? 2)) with false. change (1 =? 1) with true. cbn [is_some]. cbv iota.
      destruct W as [_ Wd].
      replace (varint (len x) ++ x) with (varint (len x) ++ x ++ []) by (rewrite app_nil_r; reflexivity).
      rewrite take_bytes_field by exact Wd.
      pose proof (varint_nonempty (len x)) as V.
      rewrite app_length. destruct (length (varint (len x)) + length x)%nat eqn:E; [lia|].
      reflexivity.
    + reflexivity.
  - rewrite <- Els in *. rewrite dec_node_f_links; [reflexivity| exact W | reflexivity |].
    pose proof (encode_length ls d). subst ls. cbn [length] in *. lia.
Qed.

(** well-formedness follows from the Go-level facts: every link CID is a CID,
    every Tsize passed checkLink, and the block is shorter than 2^64 bytes *)
Lemma in_flat_map_len : forall l ls, In l ls -> len (enc_link l) <= len (flat_map enc_link ls).
Proof.
  intros l ls. induction ls as [|x ls IH]; intro Hin; [contradiction|].
  cbn [flat_map]. rewrite len_app. destruct Hin as [->|Hin].
  - pose proof (len_nonneg (flat_map enc_link ls)). lia.
  - pose proof (len_nonneg (enc_link x)). specialize (IH Hin). lia.
Qed.

Lemma node_wf_intro : forall ls d,
  (forall l, In l ls -> cid_valid (l_cid l) /\ 0 <= l_size l < two64) ->
  len (encode ls d) < two64 ->
  node_wf ls d.
Proof.
  intros ls d Hl Hlen. unfold encode in Hlen. rewrite len_app in Hlen.
  split.
  - intros l Hin. destruct (Hl l Hin) as [Hc Hs].
    pose proof (in_flat_map_len l ls Hin) as Hle.
    pose proof (len_nonneg (match d with Some x => enc_field 10 x | None => [] end)).
    set (F := len (flat_map enc_link ls)) in *.
    assert (Hb : len (enc_link_body l) < two64).
    { unfold enc_link, enc_field in Hle. rewrite len_cons, len_app in Hle.
      pose proof (len_nonneg (varint (len (enc_link_body l)))). lia. }
    split; [|exact Hb].
    unfold enc_link_body, enc_field in Hb. repeat (rewrite len_app in Hb || rewrite len_cons in Hb).
    pose proof (len_nonneg (varint (len (l_cid l)))). pose proof (len_nonneg (varint (len (l_name l)))).
    pose proof (len_nonneg (varint (l_size l))). pose proof (len_nonneg (l_cid l)).
    pose proof (len_nonneg (l_name l)).
    repeat split; try assumption; lia.
  - destruct d as [x|]; [|exact I]. unfold enc_field in Hlen. rewrite len_cons, len_app in Hlen.
    pose proof (len_nonneg (varint (len x))). pose proof (len_nonneg (flat_map enc_link ls)). lia.
Qed.
