(** C29 — proofs about the name-system model [model/M_C29.v]. *)
From Coq Require Import List ZArith Bool NArith Lia.
From V Require Import lib.Verdict model.M_C29 gen.Gen_C29.
Import ListNotations.
Open Scope Z_scope.

(** * Association lists, cache primitives *)

Lemma alookup_aset_eq : forall A k (v : A) l, alookup k (aset k v l) = Some v.
Proof. intros. unfold aset. cbn [alookup]. now rewrite N.eqb_refl. Qed.

Lemma alookup_aset_neq : forall A k k' (v : A) l, k <> k' -> alookup k (aset k' v l) = alookup k l.
Proof.
  intros A k k' v l Hne. unfold aset. cbn [alookup].
  destruct (N.eqb k k') eqn:E; [apply N.eqb_eq in E; contradiction | reflexivity].
Qed.

Lemma path_eqb_true : forall a b, path_eqb a b = true <-> a = b.
Proof. intros a b. unfold path_eqb. destruct (path_eq_dec a b); split; congruence. Qed.
Lemma path_eqb_false : forall a b, path_eqb a b = false <-> a <> b.
Proof. intros a b. unfold path_eqb. destruct (path_eq_dec a b); split; congruence. Qed.
Lemma path_eqb_refl : forall a, path_eqb a a = true.
Proof. intros. now apply path_eqb_true. Qed.

(** the cache operations never touch the two record stores or the clock *)
Lemma cache_set_stores : forall cf st k v ttl,
  s_rt (cache_set cf st k v ttl) = s_rt st /\ s_ds (cache_set cf st k v ttl) = s_ds st /\
  s_now (cache_set cf st k v ttl) = s_now st.
Proof. intros. unfold cache_set. destruct (_ || _); cbn; auto. Qed.
Lemma cache_inv_stores : forall cf st k,
  s_rt (cache_invalidate cf st k) = s_rt st /\ s_ds (cache_invalidate cf st k) = s_ds st /\
  s_now (cache_invalidate cf st k) = s_now st.
Proof. intros. unfold cache_invalidate. destruct (_ <=? _); cbn; auto. Qed.
Lemma cache_get_stores : forall cf st k,
  s_rt (fst (cache_get cf st k)) = s_rt st /\ s_ds (fst (cache_get cf st k)) = s_ds st /\
  s_now (fst (cache_get cf st k)) = s_now st.
Proof.
  intros. unfold cache_get. destruct (_ <=? _); cbn; auto.
  destruct (c_find _ _); cbn; auto. destruct (0 <? _); cbn; auto.
Qed.

(** * Sequence numbers (first sentence of the property) *)

Definition seq_le (o n : option rec) : Prop :=
  match o, n with
  | Some a, Some b => r_seq a <= r_seq b
  | Some _, None => False
  | None, _ => True
  end.

Lemma seq_le_refl : forall o, seq_le o o.
Proof. destruct o; cbn; lia. Qed.
Lemma seq_le_trans : forall a b c, seq_le a b -> seq_le b c -> seq_le a c.
Proof. destruct a, b, c; cbn; intros; try lia; tauto. Qed.

Lemma choose_seq_ge : forall f cur v so s c,
  f_seq_wrap f = false -> choose_seq f cur v so = Some s -> cur = Some c -> r_seq c <= s.
Proof.
  intros f cur v so s c Hw H Hc. subst cur. unfold choose_seq in H. rewrite Hw in H.
  destruct so as [x|].
  - destruct (x <=? r_seq c) eqn:E; [discriminate|]. inversion H; subst. lia.
  - destruct (path_eqb v (r_val c)); [inversion H; lia|].
    destruct (r_seq c =? U64MAX); [discriminate|]. inversion H; lia.
Qed.

Lemma rt_accepts_ge : forall r o, rt_accepts r (Some o) = true -> r_seq o <= r_seq r.
Proof. intros r o H. unfold rt_accepts in H. lia. Qed.

Lemma publish_rt_other : forall f cf st k v ttl eol so k',
  k' <> k -> alookup k' (s_rt (fst (publish f cf st k v ttl eol so))) = alookup k' (s_rt st) /\
             alookup k' (s_ds (fst (publish f cf st k v ttl eol so))) = alookup k' (s_ds st).
Proof.
  intros f cf st k v ttl eol so k' Hne. unfold publish.
  destruct (choose_seq _ _ _ _) as [s|].
  - destruct (rt_accepts _ _).
    + destruct (0 <? _); [|destruct (f_ttl0_stale f)]; cbn [fst];
        repeat match goal with
        | |- context [s_rt (cache_set ?a ?b ?c ?d ?e)] => destruct (cache_set_stores a b c d e) as (-> & -> & _)
        | |- context [s_rt (cache_invalidate ?a ?b ?c)] => destruct (cache_inv_stores a b c) as (-> & -> & _)
        end; cbn [s_rt s_ds]; rewrite !alookup_aset_neq by assumption; auto.
    + cbn [fst]. destruct (cache_inv_stores cf (mkSt (s_rt st) (aset k (mkRec v s (Z.max 0 ttl) eol) (s_ds st)) (s_cache st) (s_now st)) (pub_key f k)) as (-> & -> & _).
      cbn [s_rt s_ds]. rewrite alookup_aset_neq by assumption. auto.
  - cbn [fst]. destruct (cache_inv_stores cf st (pub_key f k)) as (-> & -> & _). auto.
Qed.

(** What a publish does to the records of its own key. *)
Lemma publish_cases : forall f cf st k v ttl eol so,
  let st' := fst (publish f cf st k v ttl eol so) in
  let e := snd (publish f cf st k v ttl eol so) in
  match choose_seq f (get_published st k) v so with
  | None => e = PInvalidSeq /\ s_rt st' = s_rt st /\ s_ds st' = s_ds st
  | Some s =>
      let r := mkRec v s (Z.max 0 ttl) eol in
      alookup k (s_ds st') = Some r /\
      if rt_accepts r (alookup k (s_rt st))
      then e = PNone /\ alookup k (s_rt st') = Some r
      else e = POld /\ s_rt st' = s_rt st
  end.
Proof.
  intros. subst st' e. unfold publish.
  destruct (choose_seq _ _ _ _) as [s|].
  - destruct (rt_accepts _ _).
    + destruct (0 <? _); [|destruct (f_ttl0_stale f)]; cbn [fst snd];
        repeat match goal with
        | |- context [s_rt (cache_set ?a ?b ?c ?d ?e)] => destruct (cache_set_stores a b c d e) as (-> & -> & _)
        | |- context [s_rt (cache_invalidate ?a ?b ?c)] => destruct (cache_inv_stores a b c) as (-> & -> & _)
        end; cbn [s_rt s_ds]; rewrite !alookup_aset_eq; auto.
    + cbn [fst snd]. destruct (cache_inv_stores cf (mkSt (s_rt st) (aset k (mkRec v s (Z.max 0 ttl) eol) (s_ds st)) (s_cache st) (s_now st)) (pub_key f k)) as (-> & -> & _).
      cbn [s_rt s_ds]. rewrite alookup_aset_eq. auto.
  - cbn [fst snd]. destruct (cache_inv_stores cf st (pub_key f k)) as (-> & -> & _). auto.
Qed.

(** Publishing never decreases a stored sequence number, in routing or in the
    publisher's datastore, for any key, from ANY state. *)
Lemma publish_mono : forall f cf st k v ttl eol so k',
  f_seq_wrap f = false ->
  let st' := fst (publish f cf st k v ttl eol so) in
  seq_le (alookup k' (s_rt st)) (alookup k' (s_rt st')) /\
  seq_le (alookup k' (s_ds st)) (alookup k' (s_ds st')).
Proof.
  intros f cf st k v ttl eol so k' Hw st'. subst st'.
  destruct (N.eq_dec k' k) as [->|Hne].
  2:{ destruct (publish_rt_other f cf st k v ttl eol so k' Hne) as [-> ->]. split; apply seq_le_refl. }
  pose proof (publish_cases f cf st k v ttl eol so) as H. cbv zeta in H.
  destruct (choose_seq f (get_published st k) v so) as [s|] eqn:Hc.
  - destruct H as [Hds Hrt]. rewrite Hds. split.
    + destruct (rt_accepts _ _) eqn:Ha.
      * destruct Hrt as [_ ->]. destruct (alookup k (s_rt st)) as [o|] eqn:Ho; cbn; [|exact I].
        apply rt_accepts_ge in Ha. exact Ha.
      * destruct Hrt as [_ ->]. apply seq_le_refl.
    + destruct (alookup k (s_ds st)) as [d|] eqn:Hd; cbn; [|exact I].
      eapply choose_seq_ge; eauto. unfold get_published. now rewrite Hd.
  - destruct H as (_ & -> & ->). split; apply seq_le_refl.
Qed.

(** resolving does not touch the record stores *)
Lemma resolve_once_stores : forall f cf st p,
  s_rt (fst (resolve_once f cf st p)) = s_rt st /\ s_ds (fst (resolve_once f cf st p)) = s_ds st /\
  s_now (fst (resolve_once f cf st p)) = s_now st.
Proof.
  intros. unfold resolve_once. destruct (negb _); cbn [fst]; auto.
  pose proof (cache_get_stores cf st (res_key f (p_root p))) as Hg.
  destruct (cache_get cf st (res_key f (p_root p))) as [st1 [[v t]|]]; cbn [fst] in *; auto.
  destruct (p_root p); cbn [fst]; auto.
  - destruct (alookup k (s_rt st1)); cbn [fst]; auto.
    destruct (cache_set_stores cf st1 (res_key f (RName k e)) (r_val r) (Z.max 0 (r_ttl r))) as (-> & -> & ->). auto.
  - destruct (alookup d (c_dns cf)) as [[v t]|]; cbn [fst]; auto.
    destruct (is_ipld v); cbn [fst]; auto.
    destruct (cache_set_stores cf st1 (res_key f (RDns d)) v t) as (-> & -> & ->). auto.
Qed.

Lemma resolve_rec_stores : forall fuel f cf st p d,
  s_rt (fst (resolve_rec fuel f cf st p d)) = s_rt st /\ s_ds (fst (resolve_rec fuel f cf st p d)) = s_ds st /\
  s_now (fst (resolve_rec fuel f cf st p d)) = s_now st.
Proof.
  induction fuel as [|fuel IH]; intros; cbn [resolve_rec fst]; auto.
  pose proof (resolve_once_stores f cf st p) as H1.
  destruct (resolve_once f cf st p) as [st1 [r|]]; cbn [fst] in *; auto.
  destruct (o_err r); auto. destruct (o_path r) as [q|]; auto.
  destruct (negb (mutable q)); auto. destruct (d =? 1); auto.
  pose proof (IH f cf st1 q (if 1 <? d then d - 1 else d)) as H2.
  destruct (resolve_rec fuel f cf st1 q _) as [st2 [r2|]]; cbn [fst] in *;
    destruct H1 as (<- & <- & <-); auto.
Qed.

Lemma resolve_stores : forall f cf st p d,
  s_rt (fst (resolve f cf st p d)) = s_rt st /\ s_ds (fst (resolve f cf st p d)) = s_ds st /\
  s_now (fst (resolve f cf st p d)) = s_now st.
Proof.
  intros. unfold resolve. pose proof (resolve_rec_stores (fuel_of d) f cf st p d) as H.
  destruct (resolve_rec _ _ _ _ _ _) as [st' [r|]]; cbn [fst] in *; auto.
Qed.

Lemma step_overlap_fst : forall f cf st k vA tA eA sA vB tB eB sB,
  fst (step f cf st (OOverlap k vA tA eA sA vB tB eB sB)) =
  fst (publish f cf (fst (publish f cf st k vA tA eA sA)) k vB tB eB sB).
Proof.
  intros. cbn [step]. destruct (publish f cf st k vA tA eA sA) as [st1 e1]. cbn [fst].
  destruct (publish f cf st1 k vB tB eB sB) as [st2 e2]. reflexivity.
Qed.

(** one step, then any history *)
Lemma step_mono : forall f cf st o k,
  f_seq_wrap f = false ->
  seq_le (alookup k (s_rt st)) (alookup k (s_rt (fst (step f cf st o)))) /\
  (o <> ORestart -> seq_le (alookup k (s_ds st)) (alookup k (s_ds (fst (step f cf st o))))).
Proof.
  intros f cf st o k Hw. destruct o as [k0 v ttl eol so|p d|d| |k0 vA tA eA sA vB tB eB sB];
    [cbn [step] | cbn [step] | cbn [step] | cbn [step] | rewrite step_overlap_fst].
  - pose proof (publish_mono f cf st k0 v ttl eol so k Hw) as H. cbv zeta in H.
    destruct (publish f cf st k0 v ttl eol so) as [st' e]; cbn [fst] in *. tauto.
  - pose proof (resolve_stores f cf st p d) as H.
    destruct (resolve f cf st p d) as [st' r]; cbn [fst] in *.
    destruct H as (-> & -> & _). split; intros; apply seq_le_refl.
  - cbn [fst s_rt s_ds]. split; intros; apply seq_le_refl.
  - cbn [fst s_rt s_ds]. split; [apply seq_le_refl | congruence].
  - pose proof (publish_mono f cf st k0 vA tA eA sA k Hw) as H1. cbv zeta in H1.
    pose proof (publish_mono f cf (fst (publish f cf st k0 vA tA eA sA)) k0 vB tB eB sB k Hw) as H2. cbv zeta in H2.
    split; [|intros _]; eapply seq_le_trans; [apply H1|apply H2|apply H1|apply H2].
Qed.

Lemma run_cons : forall f cf st o ops,
  run f cf st (o :: ops) =
  (fst (run f cf (fst (step f cf st o)) ops), snd (step f cf st o) :: snd (run f cf (fst (step f cf st o)) ops)).
Proof.
  intros. cbn [run]. destruct (step f cf st o) as [st' b]. cbn [fst snd].
  destruct (run f cf st' ops) as [st'' bs]. reflexivity.
Qed.

Theorem run_mono_rt : forall f cf ops st k,
  f_seq_wrap f = false ->
  seq_le (alookup k (s_rt st)) (alookup k (s_rt (fst (run f cf st ops)))).
Proof.
  intros f cf ops. induction ops as [|o ops IH]; intros st k Hw.
  - cbn. apply seq_le_refl.
  - rewrite run_cons. cbn [fst]. eapply seq_le_trans; [apply (step_mono f cf st o k Hw) | apply IH, Hw].
Qed.

Theorem run_mono_ds : forall f cf ops st k,
  f_seq_wrap f = false -> ~ In ORestart ops ->
  seq_le (alookup k (s_ds st)) (alookup k (s_ds (fst (run f cf st ops)))).
Proof.
  intros f cf ops. induction ops as [|o ops IH]; intros st k Hw Hn.
  - cbn. apply seq_le_refl.
  - rewrite run_cons. cbn [fst]. eapply seq_le_trans.
    + apply (step_mono f cf st o k Hw). intros ->. apply Hn. now left.
    + apply IH; [exact Hw|]. intros Hin. apply Hn. now right.
Qed.

(** * The publisher's datastore agrees with routing (invariant of every history) *)

Definition ds_agrees (st : state) : Prop :=
  forall k d, alookup k (s_ds st) = Some d ->
  exists r, alookup k (s_rt st) = Some r /\ r_seq d = r_seq r /\ r_val d = r_val r.

(** the record [updateRecord] compares with carries the sequence and value routing has *)
Lemma get_published_agrees : forall st k c,
  ds_agrees st -> get_published st k = Some c ->
  exists r, alookup k (s_rt st) = Some r /\ r_seq c = r_seq r /\ r_val c = r_val r.
Proof.
  intros st k c Hinv H. unfold get_published in H.
  destruct (alookup k (s_ds st)) as [d|] eqn:Hd.
  - inversion H; subst. now apply Hinv.
  - exists c. auto.
Qed.

Lemma publish_ds_agrees : forall f cf st k v ttl eol so,
  f_seq_wrap f = false -> ds_agrees st -> ds_agrees (fst (publish f cf st k v ttl eol so)).
Proof.
  intros f cf st k v ttl eol so Hw Hinv k' d Hd.
  destruct (N.eq_dec k' k) as [->|Hne].
  2:{ destruct (publish_rt_other f cf st k v ttl eol so k' Hne) as [Hr Hs]. rewrite Hr. rewrite Hs in Hd. now apply Hinv. }
  pose proof (publish_cases f cf st k v ttl eol so) as H. cbv zeta in H.
  destruct (choose_seq f (get_published st k) v so) as [s|] eqn:Hc.
  - destruct H as [Hds Hrt]. rewrite Hds in Hd. inversion Hd; subst d. clear Hd.
    destruct (rt_accepts _ _) eqn:Ha.
    + destruct Hrt as [_ ->]. eexists; split; [reflexivity|]. auto.
    + destruct Hrt as [_ ->].
      destruct (alookup k (s_rt st)) as [o|] eqn:Ho; [|discriminate Ha].
      exists o. split; [reflexivity|]. cbn [r_seq r_val].
      (* the refused record has the sequence and the value of the stored one *)
      unfold rt_accepts in Ha. cbn [r_seq r_eol] in Ha.
      destruct (get_published st k) as [c|] eqn:Hg.
      * destruct (get_published_agrees st k c Hinv Hg) as (r & Hr & Hs & Hv).
        rewrite Ho in Hr. inversion Hr; subst r. clear Hr.
        unfold choose_seq in Hc. rewrite Hw in Hc. destruct so as [x|].
        -- destruct (x <=? r_seq c) eqn:E; [discriminate|]. inversion Hc; subst. lia.
        -- destruct (path_eqb v (r_val c)) eqn:Ev.
           ++ inversion Hc; subst. apply path_eqb_true in Ev. split; [lia | congruence].
           ++ destruct (r_seq c =? U64MAX); [discriminate|]. inversion Hc; subst. lia.
      * unfold get_published in Hg. destruct (alookup k (s_ds st)); [discriminate|]. congruence.
  - destruct H as (_ & Hr & Hs). rewrite Hr. rewrite Hs in Hd. now apply Hinv.
Qed.

Lemma step_ds_agrees : forall f cf st o,
  f_seq_wrap f = false -> ds_agrees st -> ds_agrees (fst (step f cf st o)).
Proof.
  intros f cf st o Hw Hinv. destruct o as [k0 v ttl eol so|p d|d| |k0 vA tA eA sA vB tB eB sB];
    [cbn [step] | cbn [step] | cbn [step] | cbn [step] | rewrite step_overlap_fst].
  - pose proof (publish_ds_agrees f cf st k0 v ttl eol so Hw Hinv) as H.
    destruct (publish f cf st k0 v ttl eol so) as [st' e]; cbn [fst] in *. exact H.
  - pose proof (resolve_stores f cf st p d) as H.
    destruct (resolve f cf st p d) as [st' r]; cbn [fst] in *.
    destruct H as (Hr & Hs & _). intros k x Hx. rewrite Hr. rewrite Hs in Hx. now apply Hinv.
  - cbn [fst]. exact Hinv.
  - cbn [fst]. intros k x Hx. cbn in Hx. discriminate.
  - now apply publish_ds_agrees, publish_ds_agrees.
Qed.

Lemma run_ds_agrees : forall f cf ops st,
  f_seq_wrap f = false -> ds_agrees st -> ds_agrees (fst (run f cf st ops)).
Proof.
  intros f cf ops. induction ops as [|o ops IH]; intros st Hw Hinv; [exact Hinv|].
  rewrite run_cons. cbn [fst]. apply IH; [exact Hw|]. now apply step_ds_agrees.
Qed.

Lemma st0_ds_agrees : ds_agrees st0.
Proof. intros k d H. cbn in H. discriminate. Qed.

(** A successful publish without an explicit sequence: the routing sequence goes up
    by exactly one when the value differs from the one in routing, stays when it is
    the same; the new record carries the published value.  In every reachable state. *)
Theorem publish_seq_change : forall f cf ops k v ttl eol o,
  f_seq_wrap f = false ->
  let st := fst (run f cf st0 ops) in
  let st' := fst (publish f cf st k v ttl eol None) in
  alookup k (s_rt st) = Some o ->
  snd (publish f cf st k v ttl eol None) = PNone ->
  exists r', alookup k (s_rt st') = Some r' /\ r_val r' = v /\
             (v <> r_val o -> r_seq r' = r_seq o + 1) /\ (v = r_val o -> r_seq r' = r_seq o).
Proof.
  intros f cf ops k v ttl eol o Hw st st' Ho He. subst st'.
  assert (Hinv : ds_agrees st) by (apply run_ds_agrees; [exact Hw | exact st0_ds_agrees]).
  pose proof (publish_cases f cf st k v ttl eol None) as H. cbv zeta in H.
  destruct (choose_seq f (get_published st k) v None) as [s|] eqn:Hc.
  2:{ destruct H as (H & _). rewrite H in He. discriminate. }
  destruct H as [_ H]. destruct (rt_accepts _ _).
  2:{ destruct H as [H _]. rewrite H in He. discriminate. }
  destruct H as [_ ->]. eexists; split; [reflexivity|]. cbn [r_val r_seq]. split; [reflexivity|].
  destruct (get_published st k) as [c|] eqn:Hg.
  - destruct (get_published_agrees st k c Hinv Hg) as (r & Hr & Hs & Hv).
    rewrite Ho in Hr. inversion Hr; subst r. clear Hr.
    unfold choose_seq in Hc. rewrite Hw in Hc.
    destruct (path_eqb v (r_val c)) eqn:Ev.
    + apply path_eqb_true in Ev. inversion Hc; subst s. split; [congruence | intros; lia].
    + apply path_eqb_false in Ev. destruct (r_seq c =? U64MAX); [discriminate|]. inversion Hc; subst s.
      split; [intros; lia | congruence].
  - unfold get_published in Hg. destruct (alookup k (s_ds st)); [discriminate|]. congruence.
Qed.

(** An explicit sequence number that is not greater than the current one (the record
    [GetPublished] returns: datastore, else routing) is rejected with
    ErrInvalidSequence and both stores stay as they are — from ANY state.  One that
    is greater is used as it is. *)
Theorem explicit_seq_rejected : forall f cf st k v ttl eol s c,
  get_published st k = Some c -> s <= r_seq c ->
  let st' := fst (publish f cf st k v ttl eol (Some s)) in
  snd (publish f cf st k v ttl eol (Some s)) = PInvalidSeq /\ s_rt st' = s_rt st /\ s_ds st' = s_ds st.
Proof.
  intros f cf st k v ttl eol s c Hg Hle st'. subst st'.
  pose proof (publish_cases f cf st k v ttl eol (Some s)) as H. cbv zeta in H.
  rewrite Hg in H. unfold choose_seq in H.
  destruct (s <=? r_seq c) eqn:E; [exact H | lia].
Qed.

Theorem explicit_seq_accepted : forall f cf ops k v ttl eol s c,
  f_seq_wrap f = false ->
  let st := fst (run f cf st0 ops) in
  let st' := fst (publish f cf st k v ttl eol (Some s)) in
  get_published st k = Some c -> r_seq c < s ->
  snd (publish f cf st k v ttl eol (Some s)) = PNone /\
  exists r', alookup k (s_rt st') = Some r' /\ alookup k (s_ds st') = Some r' /\ r_seq r' = s /\ r_val r' = v.
Proof.
  intros f cf ops k v ttl eol s c Hw st st' Hg Hlt. subst st'.
  assert (Hinv : ds_agrees st) by (apply run_ds_agrees; [exact Hw | exact st0_ds_agrees]).
  pose proof (publish_cases f cf st k v ttl eol (Some s)) as H. cbv zeta in H.
  rewrite Hg in H. unfold choose_seq in H.
  destruct (s <=? r_seq c) eqn:E; [lia|].
  destruct H as [Hds H].
  destruct (get_published_agrees st k c Hinv Hg) as (r & Hr & Hs & Hv).
  rewrite Hr in H. unfold rt_accepts in H. cbn [r_seq] in H.
  destruct (r_seq r <? s) eqn:E2; [|lia]. cbn [orb] in H. destruct H as [-> ->].
  split; [reflexivity|]. eexists; split; [reflexivity|]. rewrite Hds. auto.
Qed.

(** * The reference resolution as a pure function *)

Definition ref_once (cf : cfg) (rt : list (N * rec)) (p : path) : option res :=
  if negb (mutable p) then Some (mkRes (Some p) 0 ENone false) else
  match p_root p with
  | RName k _ =>
      match alookup k rt with
      | None => None
      | Some r => Some (mkRes (Some (join (r_val r) p)) (cap_ttl cf (Z.max 0 (r_ttl r))) ENone false)
      end
  | RDns d =>
      match alookup d (c_dns cf) with
      | None => Some (mkRes None 0 EFailed false)
      | Some (v, ttl) =>
          if is_ipld v then Some (mkRes None 0 EFailed false)
          else Some (mkRes (Some (join v p)) (cap_ttl cf ttl) ENone false)
      end
  | _ => Some (mkRes None 0 EOther false)
  end.

Fixpoint ref_rec (fuel : nat) (cf : cfg) (rt : list (N * rec)) (p : path) (depth : Z) : option res :=
  match fuel with
  | O => Some (mkRes None 0 EDiverge false)
  | S fuel' =>
      match ref_once cf rt p with
      | None => None
      | Some r =>
          match o_err r, o_path r with
          | ENone, Some q =>
              if negb (mutable q) then Some r
              else if depth =? 1 then Some (mkRes (o_path r) (o_ttl r) ERecursion (o_fuzzy r))
              else
                match ref_rec fuel' cf rt q (if 1 <? depth then depth - 1 else depth) with
                | None => None
                | Some r2 => Some (mkRes (o_path r2) (min_nz (o_ttl r) (o_ttl r2)) (o_err r2)
                                         (o_fuzzy r || o_fuzzy r2))
                end
          | _, _ => Some r
          end
      end
  end.

Lemma nocache_once : forall f cf st p,
  resolve_once f (nocache cf) st p = (st, ref_once cf (s_rt st) p).
Proof.
  intros. unfold resolve_once, ref_once. destruct (negb (mutable p)); [reflexivity|].
  unfold cache_get, cache_set, nocache, cap_ttl. cbn [c_size c_max c_dns Z.leb Z.compare orb].
  destruct (p_root p); try reflexivity.
  - destruct (alookup k (s_rt st)); reflexivity.
  - destruct (alookup d (c_dns cf)) as [[v t]|]; [|reflexivity]. destruct (is_ipld v); reflexivity.
Qed.

Lemma nocache_rec : forall fuel f cf st p d,
  resolve_rec fuel f (nocache cf) st p d = (st, ref_rec fuel cf (s_rt st) p d).
Proof.
  induction fuel as [|fuel IH]; intros; cbn [resolve_rec ref_rec]; [reflexivity|].
  rewrite nocache_once. destruct (ref_once cf (s_rt st) p) as [r|]; [|reflexivity].
  destruct (o_err r); try reflexivity. destruct (o_path r) as [q|]; [|reflexivity].
  destruct (negb (mutable q)); [reflexivity|]. destruct (d =? 1); [reflexivity|].
  rewrite IH. destruct (ref_rec fuel cf (s_rt st) q _); reflexivity.
Qed.

Lemma ref_resolve_eq : forall cf rt p d,
  ref_resolve cf rt p d =
  match ref_rec (fuel_of d) cf rt p d with Some r => r | None => mkRes None 0 EFailed false end.
Proof.
  intros. unfold ref_resolve, resolve. rewrite nocache_rec. cbn [s_rt].
  destruct (ref_rec _ _ _ _ _); reflexivity.
Qed.

(** * The cache is transparent (second sentence of the property) *)

Definition hop_value (cf : cfg) (rt : list (N * rec)) (r : root) : option path :=
  match r with
  | RName k _ => option_map r_val (alookup k rt)
  | RDns d => match alookup d (c_dns cf) with
              | Some (v, _) => if is_ipld v then None else Some v
              | None => None
              end
  | _ => None
  end.
Definition canon (r : root) : root := match r with RName k _ => RName k EB36 | _ => r end.

Lemma res_key_ideal : forall r, res_key ideal r = KPath (canon r).
Proof. destruct r; reflexivity. Qed.
Lemma hop_value_canon : forall cf rt r, hop_value cf rt (canon r) = hop_value cf rt r.
Proof. destruct r; reflexivity. Qed.

(** (when there is a cache) every cache entry sits under a canonical key and holds
    the value that a fresh one-hop resolution of that key yields now *)
Definition cache_ok (cf : cfg) (st : state) : Prop :=
  (c_size cf <=? 0) = false ->
  forall key e, c_find key (s_cache st) = Some e ->
  exists r, key = KPath (canon r) /\ hop_value cf (s_rt st) r = Some (e_val e).

Lemma c_find_remove : forall k k' c,
  c_find k' (c_remove k c) = if ckey_eq_dec k k' then None else c_find k' c.
Proof.
  intros k k' c. induction c as [|[k0 e0] c IH]; cbn [c_remove c_find].
  - destruct (ckey_eq_dec k k'); reflexivity.
  - destruct (ckey_eq_dec k k0) as [->|Hn].
    + rewrite IH. destruct (ckey_eq_dec k0 k') as [->|Hn'].
      * reflexivity.
      * destruct (ckey_eq_dec k' k0); [congruence | reflexivity].
    + cbn [c_find]. rewrite IH. destruct (ckey_eq_dec k' k0) as [->|Hn'].
      * destruct (ckey_eq_dec k k0); [contradiction | reflexivity].
      * reflexivity.
Qed.

Lemma c_find_firstn : forall n k c e, c_find k (firstn n c) = Some e -> c_find k c = Some e.
Proof.
  induction n as [|n IH]; intros k c e H; [discriminate H|].
  destruct c as [|[k0 e0] c]; [discriminate H|]. cbn [firstn c_find] in *.
  destruct (ckey_eq_dec k k0); [exact H | now apply IH].
Qed.

Lemma c_find_touch : forall k k' c, c_find k' (c_touch k c) = c_find k' c.
Proof.
  intros k k' c. unfold c_touch. destruct (c_find k c) as [e|] eqn:E; [|reflexivity].
  cbn [c_find]. destruct (ckey_eq_dec k' k) as [->|Hn]; [now rewrite E|].
  rewrite c_find_remove. destruct (ckey_eq_dec k k'); [congruence | reflexivity].
Qed.

Lemma c_find_add : forall size k e c k' e',
  c_find k' (c_add size k e c) = Some e' ->
  (k' = k /\ e' = e) \/ (k' <> k /\ c_find k' c = Some e').
Proof.
  intros size k e c k' e' H. unfold c_add in H. apply c_find_firstn in H.
  cbn [c_find] in H. destruct (ckey_eq_dec k' k) as [->|Hn].
  - left. inversion H; auto.
  - right. split; [exact Hn|]. rewrite c_find_remove in H.
    destruct (ckey_eq_dec k k'); [congruence | exact H].
Qed.

Lemma cache_ok_set : forall cf st r v ttl,
  cache_ok cf st -> hop_value cf (s_rt st) r = Some v ->
  cache_ok cf (cache_set cf st (KPath (canon r)) v ttl).
Proof.
  intros cf st r v ttl Hok Hv. unfold cache_set. destruct (_ || _); [exact Hok|].
  intros Hsz key e H. cbn [with_cache s_cache s_rt] in *.
  apply c_find_add in H. destruct H as [[-> ->]|[_ H]].
  - exists r. split; [reflexivity | exact Hv].
  - now apply Hok.
Qed.

Lemma cache_ok_invalidate : forall cf st k, cache_ok cf st -> cache_ok cf (cache_invalidate cf st k).
Proof.
  intros cf st k Hok. unfold cache_invalidate. destruct (_ <=? _); [exact Hok|].
  intros Hsz key e H. cbn [with_cache s_cache s_rt] in *. rewrite c_find_remove in H.
  destruct (ckey_eq_dec k key); [discriminate | now apply Hok].
Qed.

Lemma cache_ok_get : forall cf st k, cache_ok cf st -> cache_ok cf (fst (cache_get cf st k)).
Proof.
  intros cf st k Hok. unfold cache_get. destruct (_ <=? _); [exact Hok|].
  destruct (c_find k (s_cache st)) as [e|] eqn:E; [|exact Hok].
  assert (H : cache_ok cf (with_cache st (c_touch k (s_cache st)))).
  { intros Hsz key e' H'. cbn [with_cache s_cache s_rt] in *. rewrite c_find_touch in H'. now apply Hok. }
  destruct (0 <? _); exact H.
Qed.

Lemma cache_get_hit : forall cf st k v t,
  snd (cache_get cf st k) = Some (v, t) ->
  (c_size cf <=? 0) = false /\ exists e, c_find k (s_cache st) = Some e /\ e_val e = v.
Proof.
  intros cf st k v t H. unfold cache_get in H. destruct (_ <=? _); [discriminate H|].
  split; [reflexivity|].
  destruct (c_find k (s_cache st)) as [e|]; [|discriminate H].
  destruct (0 <? _); [|discriminate H]. inversion H. eauto.
Qed.

Definition same_pe (a b : option res) : Prop :=
  match a, b with
  | Some x, Some y => o_path x = o_path y /\ o_err x = o_err y
  | None, None => True
  | _, _ => False
  end.

Lemma resolve_once_transparent : forall cf st p,
  cache_ok cf st ->
  cache_ok cf (fst (resolve_once ideal cf st p)) /\
  same_pe (snd (resolve_once ideal cf st p)) (ref_once cf (s_rt st) p).
Proof.
  intros cf st p Hok. unfold resolve_once, ref_once.
  destruct (negb (mutable p)) eqn:Hm; [cbn; auto|].
  rewrite res_key_ideal.
  pose proof (cache_ok_get cf st (KPath (canon (p_root p))) Hok) as Hok1.
  pose proof (cache_get_hit cf st (KPath (canon (p_root p)))) as Hhit.
  pose proof (cache_get_stores cf st (KPath (canon (p_root p)))) as (Hrt & _).
  destruct (cache_get cf st (KPath (canon (p_root p)))) as [st1 [[v t]|]]; cbn [fst snd] in *.
  - (* hit: the entry holds the value a fresh lookup yields *)
    split; [exact Hok1|].
    destruct (Hhit v t eq_refl) as (Hsz & e & He & <-).
    destruct (Hok Hsz _ _ He) as (r & Hk & Hv). inversion Hk as [Hc]. clear Hk.
    rewrite <- hop_value_canon, <- Hc, hop_value_canon in Hv.
    destruct (p_root p) as [ld c|k en|d|b]; cbn [hop_value] in Hv; try discriminate.
    + destruct (alookup k (s_rt st)) as [r0|]; [|discriminate]. cbn in Hv. inversion Hv. cbn. auto.
    + destruct (alookup d (c_dns cf)) as [[v0 t0]|]; [|discriminate].
      destruct (is_ipld v0); [discriminate|]. inversion Hv. cbn. auto.
  - (* miss *)
    rewrite <- Hrt.
    destruct (p_root p) as [ld c|k en|d|b] eqn:Hr; cbn [fst snd same_pe o_path o_err]; auto.
    + destruct (alookup k (s_rt st1)) as [r0|] eqn:Hl; cbn [fst snd same_pe o_path o_err]; auto.
      split; [|auto]. apply cache_ok_set; [exact Hok1|]. cbn [hop_value]. now rewrite Hl.
    + destruct (alookup d (c_dns cf)) as [[v0 t0]|] eqn:Hl; cbn [fst snd same_pe o_path o_err]; auto.
      destruct (is_ipld v0) eqn:Hi; cbn [fst snd same_pe o_path o_err]; auto.
      split; [|auto]. apply cache_ok_set; [exact Hok1|]. cbn [hop_value]. now rewrite Hl, Hi.
Qed.

Lemma resolve_rec_transparent : forall fuel cf st p d,
  cache_ok cf st ->
  cache_ok cf (fst (resolve_rec fuel ideal cf st p d)) /\
  same_pe (snd (resolve_rec fuel ideal cf st p d)) (ref_rec fuel cf (s_rt st) p d).
Proof.
  induction fuel as [|fuel IH]; intros cf st p d Hok; cbn [resolve_rec ref_rec]; [cbn; auto|].
  destruct (resolve_once_transparent cf st p Hok) as [Hok1 Hs].
  pose proof (resolve_once_stores ideal cf st p) as (Hrt & _).
  destruct (resolve_once ideal cf st p) as [st1 [r|]]; cbn [fst snd] in *;
    destruct (ref_once cf (s_rt st) p) as [r'|]; cbn [same_pe] in Hs; try contradiction; [|auto].
  destruct Hs as [Hp He]. rewrite <- He, <- Hp.
  assert (Hdone : cache_ok cf st1 /\ same_pe (Some r) (Some r')) by (cbn [same_pe]; auto).
  destruct (o_err r) eqn:Er; cbn [fst snd]; try exact Hdone.
  destruct (o_path r) as [q|] eqn:Eq; cbn [fst snd]; try exact Hdone.
  destruct (negb (mutable q)); cbn [fst snd]; try exact Hdone.
  destruct (d =? 1); cbn [fst snd same_pe o_path o_err]; [auto|].
  destruct (IH cf st1 q (if 1 <? d then d - 1 else d) Hok1) as [Hok2 Hs2].
  rewrite Hrt in Hs2.
  destruct (resolve_rec fuel ideal cf st1 q _) as [st2 [r2|]]; cbn [fst snd] in *;
    destruct (ref_rec fuel cf (s_rt st) q _) as [r2'|]; cbn [same_pe] in Hs2; try contradiction;
    cbn [fst snd same_pe o_path o_err]; auto.
Qed.

(** publishing keeps the cache consistent — this is where the ideal flags matter:
    the entry of the published name is replaced or dropped under the very key a
    resolve reads *)
Lemma publish_cache_ok : forall cf st k v ttl eol so,
  cache_ok cf st -> cache_ok cf (fst (publish ideal cf st k v ttl eol so)).
Proof.
  intros cf st k v ttl eol so Hok. unfold publish.
  change (pub_key ideal k) with (KPath (canon (RName k EB36))).
  destruct (choose_seq _ _ _ _) as [s|]; [|cbn [fst]; now apply cache_ok_invalidate].
  set (r := mkRec v s (Z.max 0 ttl) eol).
  set (st1 := mkSt (s_rt st) (aset k r (s_ds st)) (s_cache st) (s_now st)).
  assert (Hok1 : cache_ok cf st1) by exact Hok.
  destruct (rt_accepts _ _); [|cbn [fst]; now apply cache_ok_invalidate].
  set (st2 := mkSt (aset k r (s_rt st1)) (s_ds st1) (s_cache st1) (s_now st1)).
  (* after routing has the new record only the entry of this name can be wrong *)
  assert (Hkeep : (c_size cf <=? 0) = false -> forall key e, key <> KPath (canon (RName k EB36)) ->
            c_find key (s_cache st2) = Some e ->
            exists r0, key = KPath (canon r0) /\ hop_value cf (s_rt st2) r0 = Some (e_val e)).
  { intros Hsz key e Hne H. destruct (Hok Hsz key e H) as (r0 & Hk & Hv). exists r0. split; [exact Hk|].
    destruct r0 as [ld c|k0 en|d|b]; cbn [hop_value] in *; try exact Hv.
    cbn [st2 st1 s_rt]. rewrite alookup_aset_neq; [exact Hv|]. intros ->. apply Hne. exact Hk. }
  assert (Hnew : hop_value cf (s_rt st2) (RName k EB36) = Some v).
  { cbn [hop_value st2 s_rt]. now rewrite alookup_aset_eq. }
  assert (Hinv2 : cache_ok cf (cache_invalidate cf st2 (KPath (canon (RName k EB36))))).
  { unfold cache_invalidate. intros Hsz. rewrite Hsz. intros key e H.
    cbn [with_cache s_cache s_rt] in *. rewrite c_find_remove in H.
    destruct (ckey_eq_dec (KPath (canon (RName k EB36))) key) as [|Hne]; [discriminate|].
    apply Hkeep; auto. }
  destruct (0 <? (if 0 <=? ttl then ttl else MINUTE)) eqn:Hpos; cbn [fst f_ttl0_stale ideal]; [|exact Hinv2].
  unfold cache_set. intros Hsz. rewrite Hsz.
  assert (Hle : ((if 0 <=? ttl then ttl else MINUTE) <=? 0) = false) by lia.
  rewrite Hle. cbn [orb]. intros key e H. cbn [with_cache s_cache s_rt] in *.
  apply c_find_add in H. destruct H as [[-> ->]|[Hne H]].
  - exists (RName k EB36). split; [reflexivity | exact Hnew].
  - apply Hkeep; auto.
Qed.

Lemma step_cache_ok : forall cf st o, cache_ok cf st -> cache_ok cf (fst (step ideal cf st o)).
Proof.
  intros cf st o Hok. destruct o as [k0 v ttl eol so|p d|d| |k0 vA tA eA sA vB tB eB sB];
    [cbn [step] | cbn [step] | cbn [step] | cbn [step] | rewrite step_overlap_fst].
  - pose proof (publish_cache_ok cf st k0 v ttl eol so Hok) as H.
    destruct (publish ideal cf st k0 v ttl eol so) as [st' e]; exact H.
  - unfold resolve. destruct (resolve_rec_transparent (fuel_of d) cf st p d Hok) as [H _].
    destruct (resolve_rec _ _ _ _ _ _) as [st' [r|]]; exact H.
  - exact Hok.
  - intros _ key e H. discriminate H.
  - now apply publish_cache_ok, publish_cache_ok.
Qed.

Lemma run_cache_ok : forall cf ops st, cache_ok cf st -> cache_ok cf (fst (run ideal cf st ops)).
Proof.
  intros cf ops. induction ops as [|o ops IH]; intros st Hok; [exact Hok|].
  rewrite run_cons. cbn [fst]. apply IH. now apply step_cache_ok.
Qed.

Lemma st0_cache_ok : forall cf, cache_ok cf st0.
Proof. intros cf _ key e H. discriminate H. Qed.

(** After ANY history on the ideal name system — any cache size, any maximum cache
    TTL, any DNS table, any interleaving of publishes, resolves, sleeps and restarts —
    a resolve answers the path and the error of the cache-less reference resolution
    over the records routing holds at that moment. *)
Theorem cache_transparent : forall cf ops p d,
  let st := fst (run ideal cf st0 ops) in
  let r := snd (resolve ideal cf st p d) in
  o_path r = o_path (ref_resolve cf (s_rt st) p d) /\ o_err r = o_err (ref_resolve cf (s_rt st) p d).
Proof.
  intros cf ops p d st r. subst r. rewrite ref_resolve_eq. unfold resolve.
  assert (Hok : cache_ok cf st) by (apply run_cache_ok, st0_cache_ok).
  destruct (resolve_rec_transparent (fuel_of d) cf st p d Hok) as [_ Hs].
  destruct (resolve_rec _ _ _ _ _ _) as [st' [r|]]; cbn [fst snd] in *;
    destruct (ref_rec _ _ _ _ _) as [r'|]; cbn [same_pe] in Hs; try contradiction; cbn; auto.
Qed.

(** * Read your publish *)

Lemma fuel_of_pos : forall d, 0 <= d -> exists n, fuel_of d = S n.
Proof.
  intros d Hd. unfold fuel_of. destruct (d =? 0) eqn:E.
  - unfold UNLIMITED_FUEL. eauto.
  - assert (0 < d) by lia. exists (Z.to_nat (d - 1)). rewrite <- Z2Nat.inj_succ by lia. f_equal. lia.
Qed.

(** Immediately after a successful publish of an immutable value [v] under key [k],
    on the ideal name system after ANY history, with ANY cache configuration:
    resolving the name in ANY of its textual forms, with ANY remainder and ANY depth
    limit, returns [v] with the remainder appended, and no error. *)
Theorem read_your_publish : forall cf ops k v ttl eol so en segs slash d,
  let st := fst (run ideal cf st0 ops) in
  let st' := fst (publish ideal cf st k v ttl eol so) in
  let p := mkPath (RName k en) segs slash in
  snd (publish ideal cf st k v ttl eol so) = PNone ->
  mutable v = false -> 0 <= d ->
  let r := snd (resolve ideal cf st' p d) in
  o_path r = Some (join v p) /\ o_err r = ENone.
Proof.
  intros cf ops k v ttl eol so en segs slash d st st' p He Hv Hd r. subst r.
  (* st' is the state after the history ops ++ [publish] *)
  assert (Hst' : st' = fst (run ideal cf st0 (ops ++ [OPublish k v ttl eol so]))).
  { subst st' st. clear. generalize st0. induction ops as [|o ops IH]; intros s.
    - cbn [app]. rewrite run_cons. cbn [run fst step]. destruct (publish ideal cf s k v ttl eol so); reflexivity.
    - cbn [app]. rewrite !run_cons. cbn [fst]. apply IH. }
  rewrite Hst'. destruct (cache_transparent cf (ops ++ [OPublish k v ttl eol so]) p d) as [Hp Herr].
  cbv zeta in Hp, Herr. rewrite Hp, Herr. rewrite <- Hst'. clear Hp Herr Hst'.
  (* routing now holds v under k *)
  assert (Hrt : exists r, alookup k (s_rt st') = Some r /\ r_val r = v).
  { pose proof (publish_cases ideal cf st k v ttl eol so) as H. cbv zeta in H. fold st' in H.
    destruct (choose_seq ideal (get_published st k) v so) as [s|].
    - destruct H as [_ H]. destruct (rt_accepts _ _).
      + destruct H as [_ ->]. eexists; split; reflexivity.
      + destruct H as [H _]. rewrite H in He. discriminate.
    - destruct H as (H & _). rewrite H in He. discriminate. }
  destruct Hrt as (r & Hr & Hrv).
  rewrite ref_resolve_eq. destruct (fuel_of_pos d Hd) as [n ->].
  cbn [ref_rec]. unfold ref_once. cbn [mutable p p_root negb]. rewrite Hr.
  cbn [o_err o_path]. rewrite Hrv.
  assert (Hj : mutable (join v p) = false).
  { unfold join. destruct (p_segs p), (p_slash p); cbn [mutable p_root]; exact Hv. }
  rewrite Hj. cbn. auto.
Qed.

(** Two publishes of one key, one after the other (which is what the publisher's mutex
    makes of two overlapping Publish calls), with different values and no explicit
    sequence: the second record's sequence is the first's plus one. *)
Lemma run_snoc_publish : forall f cf ops st k v ttl eol so,
  fst (run f cf st (ops ++ [OPublish k v ttl eol so])) = fst (publish f cf (fst (run f cf st ops)) k v ttl eol so).
Proof.
  intros f cf ops. induction ops as [|o ops IH]; intros st k v ttl eol so.
  - cbn [app]. rewrite run_cons. cbn [run fst step]. destruct (publish f cf st k v ttl eol so); reflexivity.
  - cbn [app]. rewrite !run_cons. cbn [fst]. apply IH.
Qed.

Theorem consecutive_publishes : forall f cf ops k vA tA eA vB tB eB,
  f_seq_wrap f = false ->
  let st := fst (run f cf st0 ops) in
  let st1 := fst (publish f cf st k vA tA eA None) in
  let st2 := fst (publish f cf st1 k vB tB eB None) in
  snd (publish f cf st k vA tA eA None) = PNone ->
  snd (publish f cf st1 k vB tB eB None) = PNone ->
  vA <> vB ->
  exists rA rB, alookup k (s_rt st1) = Some rA /\ r_val rA = vA /\
                alookup k (s_rt st2) = Some rB /\ r_val rB = vB /\ r_seq rB = r_seq rA + 1.
Proof.
  intros f cf ops k vA tA eA vB tB eB Hw st st1 st2 HA HB Hne.
  assert (HrA : exists rA, alookup k (s_rt st1) = Some rA /\ r_val rA = vA).
  { pose proof (publish_cases f cf st k vA tA eA None) as H. cbv zeta in H. fold st1 in H.
    destruct (choose_seq f (get_published st k) vA None) as [s|].
    - destruct H as [_ H]. destruct (rt_accepts _ _).
      + destruct H as [_ ->]. eexists; split; reflexivity.
      + destruct H as [H _]. rewrite H in HA. discriminate.
    - destruct H as (H & _). rewrite H in HA. discriminate. }
  destruct HrA as (rA & HrA & HvA).
  assert (Hst1 : st1 = fst (run f cf st0 (ops ++ [OPublish k vA tA eA None]))) by (rewrite run_snoc_publish; reflexivity).
  pose proof (publish_seq_change f cf (ops ++ [OPublish k vA tA eA None]) k vB tB eB rA Hw) as H.
  cbv zeta in H. rewrite <- Hst1 in H. destruct (H HrA HB) as (rB & HrB & HvB & Hch & _).
  exists rA, rB. repeat split; auto. apply Hch. congruence.
Qed.

(** * Chains (third sentence of the property) *)

(** one hop of the chain: the path the name at the root of [p] points to, with the
    remainder of [p] appended, and the TTL of that hop *)
Definition hop (cf : cfg) (rt : list (N * rec)) (p : path) : option (path * Z) :=
  match p_root p with
  | RName k _ =>
      match alookup k rt with
      | Some r => Some (join (r_val r) p, cap_ttl cf (Z.max 0 (r_ttl r)))
      | None => None
      end
  | RDns d =>
      match alookup d (c_dns cf) with
      | Some (v, t) => if is_ipld v then None else Some (join v p, cap_ttl cf t)
      | None => None
      end
  | _ => None
  end.

(** [chain p ts z]: following |ts| hops from [p] (each with the TTL listed) leads to [z] *)
Inductive chain (cf : cfg) (rt : list (N * rec)) : path -> list Z -> path -> Prop :=
| ch_nil : forall p, chain cf rt p [] p
| ch_cons : forall p q t ts z, hop cf rt p = Some (q, t) -> chain cf rt q ts z -> chain cf rt p (t :: ts) z.

(** how the code folds the TTLs of the hops *)
Fixpoint minnz_list (ts : list Z) : Z :=
  match ts with
  | [] => 0
  | [t] => t
  | t :: r => min_nz t (minnz_list r)
  end.

Lemma hop_ref_once : forall cf rt p q t,
  hop cf rt p = Some (q, t) -> ref_once cf rt p = Some (mkRes (Some q) t ENone false).
Proof.
  intros cf rt p q t H. unfold hop in H. unfold ref_once.
  destruct (p_root p) as [ld c|k en|d|b] eqn:Hr; try discriminate; unfold mutable; rewrite Hr; cbn [negb].
  - destruct (alookup k rt); inversion H; reflexivity.
  - destruct (alookup d (c_dns cf)) as [[v t0]|]; [|discriminate].
    destruct (is_ipld v); inversion H; reflexivity.
Qed.

Lemma ref_once_hop : forall cf rt p q t e fz,
  ref_once cf rt p = Some (mkRes (Some q) t e fz) -> mutable p = true ->
  hop cf rt p = Some (q, t) /\ e = ENone /\ fz = false.
Proof.
  intros cf rt p q t e fz H Hm. unfold ref_once in H. rewrite Hm in H. cbn [negb] in H. unfold hop.
  destruct (p_root p) as [ld c|k en|d|b]; try discriminate.
  - destruct (alookup k rt); inversion H; auto.
  - destruct (alookup d (c_dns cf)) as [[v t0]|]; [|discriminate].
    destruct (is_ipld v); inversion H; auto.
Qed.

Lemma hop_mutable : forall cf rt p x, hop cf rt p = Some x -> mutable p = true.
Proof. intros cf rt p x H. unfold hop in H. unfold mutable. destruct (p_root p); try discriminate; reflexivity. Qed.

(** the recursion of [resolveAsync] along a chain; [n] = hops still allowed *)
Lemma ref_rec_chain : forall cf rt ts p z fuel d,
  chain cf rt p ts z -> ts <> [] ->
  (length ts <= fuel)%nat ->
  (d = 0 \/ Z.of_nat (length ts) <= d) ->
  mutable z = false ->
  ref_rec fuel cf rt p d = Some (mkRes (Some z) (minnz_list ts) ENone false).
Proof.
  intros cf rt ts. induction ts as [|t ts IH]; intros p z fuel d Hc Hne Hf Hd Hz; [congruence|].
  inversion Hc as [|p0 q t0 ts0 z0 Hh Hc']; subst.
  destruct fuel as [|fuel]; [cbn in Hf; lia|]. cbn [ref_rec].
  rewrite (hop_ref_once _ _ _ _ _ Hh). cbn [o_err o_path o_ttl o_fuzzy].
  destruct ts as [|t2 ts].
  - inversion Hc'; subst. rewrite Hz. reflexivity.
  - assert (Hq : mutable q = true) by (inversion Hc'; subst; eapply hop_mutable; eauto).
    rewrite Hq. cbn [negb].
    assert (Hd1 : (d =? 1) = false). { cbn [length] in Hd. lia. }
    rewrite Hd1.
    rewrite (IH q z fuel (if 1 <? d then d - 1 else d) Hc'); try congruence.
    + reflexivity.
    + cbn [length] in *. lia.
    + cbn [length] in *. destruct (1 <? d) eqn:E; lia.
Qed.

Lemma ref_rec_chain_rec : forall cf rt ts p z fuel d,
  chain cf rt p ts z -> ts <> [] ->
  (length ts <= fuel)%nat -> Z.of_nat (length ts) = d ->
  mutable z = true ->
  ref_rec fuel cf rt p d = Some (mkRes (Some z) (minnz_list ts) ERecursion false).
Proof.
  intros cf rt ts. induction ts as [|t ts IH]; intros p z fuel d Hc Hne Hf Hd Hz; [congruence|].
  inversion Hc as [|p0 q t0 ts0 z0 Hh Hc']; subst.
  destruct fuel as [|fuel]; [cbn in Hf; lia|]. cbn [ref_rec].
  rewrite (hop_ref_once _ _ _ _ _ Hh). cbn [o_err o_path o_ttl o_fuzzy].
  destruct ts as [|t2 ts].
  - inversion Hc'; subst. rewrite Hz. cbn [negb length Z.of_nat Z.eqb Pos.of_succ_nat Pos.eqb]. reflexivity.
  - assert (Hq : mutable q = true) by (inversion Hc'; subst; eapply hop_mutable; eauto).
    rewrite Hq. cbn [negb].
    set (d := Z.of_nat (length (t :: t2 :: ts))).
    assert (Hdv : d = Z.of_nat (length (t2 :: ts)) + 1) by (subst d; cbn [length]; lia).
    assert (Hdp : 2 <= d) by (rewrite Hdv; cbn [length]; lia).
    assert (Hd1 : (d =? 1) = false) by lia.
    rewrite Hd1.
    rewrite (IH q z fuel (if 1 <? d then d - 1 else d) Hc'); try congruence.
    + reflexivity.
    + cbn [length] in *. lia.
    + destruct (1 <? d) eqn:E; lia.
Qed.

Lemma ref_once_err : forall cf rt p r, ref_once cf rt p = Some r -> o_err r <> ERecursion.
Proof.
  intros cf rt p r H. unfold ref_once in H. destruct (negb (mutable p)); [inversion H; cbn; congruence|].
  destruct (p_root p); try (inversion H; cbn; congruence).
  - destruct (alookup k rt); inversion H; cbn; congruence.
  - destruct (alookup d (c_dns cf)) as [[v t]|]; [|inversion H; cbn; congruence].
    destruct (is_ipld v); inversion H; cbn; congruence.
Qed.

Lemma ref_rec_recursion_inv : forall cf rt fuel p d r,
  ref_rec fuel cf rt p d = Some r -> o_err r = ERecursion -> 1 <= d ->
  exists ts z, chain cf rt p ts z /\ Z.of_nat (length ts) = d /\ mutable z = true /\ o_path r = Some z.
Proof.
  intros cf rt. induction fuel as [|fuel IH]; intros p d r H He Hd.
  - cbn in H. inversion H; subst. discriminate He.
  - cbn [ref_rec] in H. destruct (ref_once cf rt p) as [r1|] eqn:H1; [|discriminate].
    pose proof (ref_once_err _ _ _ _ H1) as Hnr.
    destruct (o_err r1) eqn:E1; try (inversion H; subst; congruence).
    destruct (o_path r1) as [q|] eqn:Eq; [|inversion H; subst; congruence].
    destruct (negb (mutable q)) eqn:Hm; [inversion H; subst; congruence|].
    assert (Hmp : mutable p = true).
    { destruct (mutable p) eqn:Hmp; [reflexivity|]. unfold ref_once in H1. rewrite Hmp in H1. cbn in H1.
      inversion H1; subst. cbn in Eq. inversion Eq; subst. rewrite Hmp in Hm. discriminate. }
    destruct r1 as [pa t1 e1 fz1]. cbn in E1, Eq. subst pa e1.
    destruct (ref_once_hop _ _ _ _ _ _ _ H1 Hmp) as (Hh & _ & _).
    destruct (d =? 1) eqn:Ed.
    + inversion H; subst. exists [t1], q. repeat split.
      * eapply ch_cons; [exact Hh | apply ch_nil].
      * cbn. lia.
      * now destruct (mutable q).
    + destruct (ref_rec fuel cf rt q _) as [r2|] eqn:H2; [|discriminate].
      inversion H; subst. cbn [o_err o_path] in *.
      assert (Hd2 : 1 < d) by lia. destruct (1 <? d) eqn:E; [|lia].
      destruct (IH q (d - 1) r2 H2 He ltac:(lia)) as (ts & z & Hc & Hl & Hz & Hp).
      exists (t1 :: ts), z. repeat split; auto.
      * eapply ch_cons; eauto.
      * cbn [length]. lia.
Qed.

(** The three statements of the property's third sentence, for the reference
    resolution over ANY routing table and DNS table (cycles included: a chain may
    visit a name any number of times). *)
Theorem chain_resolved : forall cf rt p ts z d,
  chain cf rt p ts z -> ts <> [] -> mutable z = false ->
  ((d = 0 /\ (length ts <= UNLIMITED_FUEL)%nat) \/ Z.of_nat (length ts) <= d) ->
  ref_resolve cf rt p d = mkRes (Some z) (minnz_list ts) ENone false.
Proof.
  intros cf rt p ts z d Hc Hne Hz Hd. rewrite ref_resolve_eq.
  rewrite (ref_rec_chain cf rt ts p z (fuel_of d) d Hc Hne); auto.
  - unfold fuel_of. destruct Hd as [[-> Hl]|Hl]; [exact Hl|].
    destruct (d =? 0) eqn:E; [destruct ts; [congruence | cbn [length] in Hl; lia] | lia].
  - destruct Hd as [[-> _]|Hl]; auto.
Qed.

Theorem chain_too_long : forall cf rt p ts z d,
  chain cf rt p ts z -> Z.of_nat (length ts) = d -> 1 <= d -> mutable z = true ->
  ref_resolve cf rt p d = mkRes (Some z) (minnz_list ts) ERecursion false.
Proof.
  intros cf rt p ts z d Hc Hl Hd Hz. rewrite ref_resolve_eq.
  rewrite (ref_rec_chain_rec cf rt ts p z (fuel_of d) d Hc); auto.
  - destruct ts; [cbn in Hl; lia | congruence].
  - unfold fuel_of. destruct (d =? 0) eqn:E; lia.
Qed.

Theorem recursion_error_only_if_too_long : forall cf rt p d,
  1 <= d -> o_err (ref_resolve cf rt p d) = ERecursion ->
  exists ts z, chain cf rt p ts z /\ Z.of_nat (length ts) = d /\ mutable z = true.
Proof.
  intros cf rt p d Hd He. rewrite ref_resolve_eq in He.
  destruct (ref_rec (fuel_of d) cf rt p d) as [r|] eqn:H; [|discriminate He].
  destruct (ref_rec_recursion_inv cf rt _ p d r H He Hd) as (ts & z & Hc & Hl & Hz & _). eauto.
Qed.

Theorem immutable_resolves_to_itself : forall cf rt p d,
  mutable p = false -> 0 <= d -> ref_resolve cf rt p d = mkRes (Some p) 0 ENone false.
Proof.
  intros cf rt p d Hm Hd. rewrite ref_resolve_eq. destruct (fuel_of_pos d Hd) as [n ->].
  cbn [ref_rec]. unfold ref_once. rewrite Hm. cbn. rewrite Hm. reflexivity.
Qed.

(** the remainder: one hop appends the unresolved segments (and the trailing slash)
    of the path to the value the name points to *)
Theorem hop_appends_remainder : forall cf rt k en segs slash r,
  alookup k rt = Some r ->
  hop cf rt (mkPath (RName k en) segs slash) =
  Some (match segs, slash with
        | [], false => r_val r
        | _, _ => mkPath (p_root (r_val r)) (p_segs (r_val r) ++ segs) slash
        end, cap_ttl cf (Z.max 0 (r_ttl r))).
Proof. intros. unfold hop. cbn [p_root]. rewrite H. reflexivity. Qed.

(** [min_nz] / [minnz_list]: the least positive TTL, 0 when there is none *)
Lemma min_nz_spec : forall a b,
  (a <= 0 -> b <= 0 -> min_nz a b = 0) /\
  (0 < a -> b <= 0 -> min_nz a b = a) /\
  (a <= 0 -> 0 < b -> min_nz a b = b) /\
  (0 < a -> 0 < b -> min_nz a b = Z.min a b).
Proof. intros a b. unfold min_nz. destruct (Z.min a b <=? 0) eqn:E; lia. Qed.

Theorem minnz_list_spec : forall ts,
  (2 <= length ts)%nat \/ Forall (fun t => 0 <= t) ts ->
  (Forall (fun t => t <= 0) ts -> minnz_list ts = 0) /\
  (Exists (fun t => 0 < t) ts ->
     0 < minnz_list ts /\ In (minnz_list ts) ts /\ Forall (fun t => 0 < t -> minnz_list ts <= t) ts).
Proof.
  assert (Hgen : forall ts, ts <> [] ->
    (Forall (fun t => t <= 0) ts -> minnz_list ts = 0 \/ (exists t, ts = [t])) /\
    (Exists (fun t => 0 < t) ts ->
       0 < minnz_list ts /\ In (minnz_list ts) ts /\ Forall (fun t => 0 < t -> minnz_list ts <= t) ts)).
  { induction ts as [|t ts IH]; intros Hne; [congruence|].
    destruct ts as [|t2 ts].
    - split; [eauto|]. intros Hex. inversion Hex as [? ? Hp|? ? Hp]; subst; [|inversion Hp].
      cbn. repeat split; auto. constructor; [lia | constructor].
    - destruct (IH ltac:(congruence)) as [IH0 IHp]. clear IH.
      change (minnz_list (t :: t2 :: ts)) with (min_nz t (minnz_list (t2 :: ts))).
      set (m := minnz_list (t2 :: ts)) in *.
      pose proof (min_nz_spec t m) as (S00 & S10 & S01 & S11).
      split.
      + intros Hall. inversion Hall as [|? ? Ht Hall']; subst. left.
        destruct (IH0 Hall') as [Hm|[x Hx]].
        * apply S00; lia.
        * inversion Hx; subst. inversion Hall'; subst. cbn [minnz_list] in m. subst m. apply S00; lia.
      + intros Hex.
        destruct (Z_lt_le_dec 0 t) as [Htp|Htn].
        * (* t positive *)
          destruct (Exists_dec (fun x => 0 < x) (t2 :: ts) (fun x => Z_lt_dec 0 x)) as [Hex'|Hnex].
          -- destruct (IHp Hex') as (Hm0 & Hmin & Hmall).
             rewrite S11 by lia. split; [lia|]. split.
             ++ destruct (Z.min_spec t m) as [[_ ->]|[_ ->]]; [now left | now right].
             ++ constructor; [lia|]. eapply Forall_impl; [|exact Hmall]. cbn. intros; lia.
          -- assert (Hall' : Forall (fun x => x <= 0) (t2 :: ts)).
             { apply Forall_forall. intros x Hx. destruct (Z_lt_le_dec 0 x); [|lia].
               exfalso. apply Hnex. apply Exists_exists. eauto. }
             assert (Hm : m <= 0).
             { destruct (IH0 Hall') as [Hm|[x Hx]]; [lia|].
               inversion Hx; subst. inversion Hall'; subst. cbn [minnz_list] in m. subst m. lia. }
             rewrite S10 by lia. split; [lia|]. split; [now left|].
             constructor; [lia|]. eapply Forall_impl; [|exact Hall']. cbn. intros; lia.
        * (* t not positive: the positive one is in the tail *)
          inversion Hex as [? ? Hp|? ? Hex']; subst; [lia|].
          destruct (IHp Hex') as (Hm0 & Hmin & Hmall).
          rewrite S01 by lia. split; [lia|]. split; [now right|].
          constructor; [lia | exact Hmall]. }
  intros ts Hside. destruct ts as [|t ts].
  - split; [reflexivity|]. intros H. inversion H.
  - destruct (Hgen (t :: ts) ltac:(congruence)) as [H0 Hp]. split; [|exact Hp].
    intros Hall. destruct (H0 Hall) as [Hm|[x Hx]]; [exact Hm|].
    inversion Hx; subst. cbn [minnz_list]. destruct Hside as [Hl|Hnn]; [cbn in Hl; lia|].
    inversion Hall; subst. inversion Hnn; subst. lia.
Qed.

(** the model's [min_nz] is the function go2coq translates from utilities.go
    minNonZeroTTL on every run *)
Lemma min_nz_translated : forall a b, min_nz a b = Gen_C29.minNonZeroTTL a b.
Proof. intros. reflexivity. Qed.

(** the fuel of the model's recursion is never exhausted when the depth is limited *)
Theorem fuel_enough : forall f cf st p d,
  1 <= d -> o_err (snd (resolve f cf st p d)) <> EDiverge.
Proof.
  intros f cf st p d Hd.
  assert (Hgen : forall fuel st p d, 1 <= d -> fuel = Z.to_nat d ->
            forall r, snd (resolve_rec fuel f cf st p d) = Some r -> o_err r <> EDiverge).
  { clear. induction fuel as [|fuel IH]; intros st p d Hd Hf r H; [lia|].
    cbn [resolve_rec] in H.
    assert (Honce : forall r1, snd (resolve_once f cf st p) = Some r1 -> o_err r1 <> EDiverge).
    { intros r1 H1. unfold resolve_once in H1. destruct (negb (mutable p)); [inversion H1; cbn; congruence|].
      destruct (cache_get cf st (res_key f (p_root p))) as [st1 [[v t]|]]; [inversion H1; cbn; congruence|].
      destruct (p_root p); try (inversion H1; cbn; congruence).
      - destruct (alookup k (s_rt st1)); inversion H1; cbn; congruence.
      - destruct (alookup d0 (c_dns cf)) as [[v t]|]; [|inversion H1; cbn; congruence].
        destruct (is_ipld v); inversion H1; cbn; congruence. }
    destruct (resolve_once f cf st p) as [st1 [r1|]]; [|discriminate H].
    specialize (Honce r1 eq_refl). cbn [snd] in *.
    destruct (o_err r1) eqn:E1; try (inversion H; subst; congruence).
    destruct (o_path r1) as [q|]; [|inversion H; subst; congruence].
    destruct (negb (mutable q)); [inversion H; subst; congruence|].
    destruct (d =? 1) eqn:Ed; [inversion H; subst; cbn; congruence|].
    destruct (1 <? d) eqn:E; [|lia].
    pose proof (IH st1 q (d - 1) ltac:(lia) ltac:(lia)) as IH'.
    destruct (resolve_rec fuel f cf st1 q (d - 1)) as [st2 [r2|]]; [|discriminate H].
    inversion H; subst. cbn [o_err]. apply IH'. reflexivity. }
  unfold resolve.
  pose proof (Hgen (fuel_of d) st p d Hd) as H.
  assert (Hf : fuel_of d = Z.to_nat d) by (unfold fuel_of; destruct (d =? 0) eqn:E; [lia | reflexivity]).
  specialize (H Hf).
  destruct (resolve_rec (fuel_of d) f cf st p d) as [st' [r|]]; cbn [snd] in *; [now apply H | cbn; congruence].
Qed.

(** * The defects: concrete histories on which the flag-on models break the property *)

Definition wA : path := mkPath (RImm false 0%N) [] false.
Definition wB : path := mkPath (RImm false 1%N) [0%N] false.
Definition wN0 : path := mkPath (RName 0%N EB36) [] false.
Definition HOUR : Z := 3600000000000.

(** C29-1: resolve, publish another value, resolve again *)
Definition witness1 : list op :=
  [OPublish 0%N wA HOUR (1 * HOUR) None; OResolve wN0 32;
   OPublish 0%N wB HOUR (2 * HOUR) None; OResolve wN0 32].
Definition cfg8 : cfg := mkCfg 8 None [].

Lemma cache_key_refuted_l :
  let f := mkFlags true false false in
  let st := fst (run f cfg8 st0 [OPublish 0%N wA HOUR (1 * HOUR) None; OResolve wN0 32]) in
  snd (publish f cfg8 st 0%N wB HOUR (2 * HOUR) None) = PNone /\
  o_path (snd (resolve f cfg8 (fst (publish f cfg8 st 0%N wB HOUR (2 * HOUR) None)) wN0 32)) = Some wA /\
  spec_run cfg8 (mkSh [] []) witness1 (snd (run f cfg8 st0 witness1)) = false /\
  spec_run cfg8 (mkSh [] []) witness1 (snd (run ideal cfg8 st0 witness1)) = true.
Proof. vm_compute. repeat split. Qed.

(** C29-2: explicit sequence 2^64-1, then a changed value: the datastore record's
    sequence number drops to 0 (and routing refuses the record) *)
Definition witness2 : list op :=
  [OPublish 0%N wA HOUR (1 * HOUR) None; OPublish 0%N wA HOUR (2 * HOUR) (Some U64MAX);
   OPublish 0%N wB HOUR (3 * HOUR) None].
Definition cfg0 : cfg := mkCfg 0 None [].

Lemma seq_wrap_refuted_l :
  let f := mkFlags false true false in
  let st := fst (run f cfg0 st0 [OPublish 0%N wA HOUR (1 * HOUR) None; OPublish 0%N wA HOUR (2 * HOUR) (Some U64MAX)]) in
  let st' := fst (publish f cfg0 st 0%N wB HOUR (3 * HOUR) None) in
  option_map r_seq (alookup 0%N (s_ds st)) = Some U64MAX /\
  option_map r_seq (alookup 0%N (s_ds st')) = Some 0 /\
  snd (publish f cfg0 st 0%N wB HOUR (3 * HOUR) None) = POld /\
  spec_run cfg0 (mkSh [] []) witness2 (snd (run f cfg0 st0 witness2)) = false /\
  spec_run cfg0 (mkSh [] []) witness2 (snd (run ideal cfg0 st0 witness2)) = true.
Proof. vm_compute. repeat split. Qed.

(** C29-3 (only visible once C29-1 is repaired): publish with TTL 0 after a publish
    with a positive TTL leaves the old value in the cache *)
Definition witness3 : list op :=
  [OPublish 0%N wA HOUR (1 * HOUR) None; OPublish 0%N wB 0 (2 * HOUR) None; OResolve wN0 32].

Lemma ttl0_stale_refuted_l :
  let f := mkFlags false false true in
  o_path (snd (resolve f cfg8 (fst (run f cfg8 st0 [OPublish 0%N wA HOUR (1 * HOUR) None; OPublish 0%N wB 0 (2 * HOUR) None])) wN0 32)) = Some wA /\
  spec_run cfg8 (mkSh [] []) witness3 (snd (run f cfg8 st0 witness3)) = false /\
  spec_run cfg8 (mkSh [] []) witness3 (snd (run ideal cfg8 st0 witness3)) = true.
Proof. vm_compute. repeat split. Qed.

(** the classification of the three witnesses as the harness would report them *)
Lemma witnesses_classified :
  check_case (Case cfg8 witness1 (snd (run (mkFlags true false true) cfg8 st0 witness1))) = VKnown 1 /\
  check_case (Case cfg0 witness2 (snd (run (mkFlags true true true) cfg0 st0 witness2))) = VKnown 2 /\
  check_case (Case cfg8 witness3 (snd (run (mkFlags false false true) cfg8 st0 witness3))) = VKnown 3 /\
  check_case (Case cfg8 witness1 (snd (run ideal cfg8 st0 witness1))) = VOk.
Proof. vm_compute. repeat split. Qed.
