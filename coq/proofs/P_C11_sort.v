(** C11 — the stable sort of links by name: order lemmas, characterisation
    (sorted + same per-name subsequences), uniqueness, order independence. *)
From Coq Require Import List ZArith Bool Lia Sorted Permutation.
From V Require Import lib.C11_DagPb.
Import ListNotations.
Open Scope Z_scope.

(** ---------- bytewise order ---------- *)
Lemma bytes_ltb_irrefl : forall a, bytes_ltb a a = false.
Proof.
  induction a as [|x a IH]; cbn [bytes_ltb]; [reflexivity|].
  rewrite Z.ltb_irrefl. exact IH.
Qed.

Lemma bytes_ltb_trans : forall a b c,
  bytes_ltb a b = true -> bytes_ltb b c = true -> bytes_ltb a c = true.
Proof.
  induction a as [|x a IH]; intros b c Hab Hbc.
  - destruct b as [|y b]; [discriminate Hab|]. destruct c as [|z c]; [discriminate Hbc| reflexivity].
  - destruct b as [|y b]; [discriminate Hab|]. destruct c as [|z c]; [discriminate Hbc|].
    cbn [bytes_ltb] in *.
    destruct (x <? y) eqn:Exy; destruct (y <? z) eqn:Eyz;
      destruct (y <? x) eqn:Eyx; destruct (z <? y) eqn:Ezy;
      destruct (x <? z) eqn:Exz; destruct (z <? x) eqn:Ezx; try reflexivity; try discriminate; try lia.
    eapply IH; eassumption.
Qed.

Lemma bytes_ltb_total : forall a b,
  bytes_ltb a b = false -> bytes_ltb b a = false -> a = b.
Proof.
  induction a as [|x a IH]; intros b Hab Hba.
  - destruct b; [reflexivity| discriminate Hab].
  - destruct b as [|y b]; [discriminate Hba|].
    cbn [bytes_ltb] in *.
    destruct (x <? y) eqn:Exy; [discriminate|].
    destruct (y <? x) eqn:Eyx; [discriminate|].
    assert (x = y) by lia. subst y. f_equal. apply IH; assumption.
Qed.

Lemma bytes_ltb_asym : forall a b, bytes_ltb a b = true -> bytes_ltb b a = false.
Proof.
  intros a b Hab. destruct (bytes_ltb b a) eqn:Hba; [|reflexivity].
  pose proof (bytes_ltb_trans _ _ _ Hab Hba) as Haa. rewrite bytes_ltb_irrefl in Haa. discriminate.
Qed.

Lemma bytes_eqb_eq : forall a b, bytes_eqb a b = true <-> a = b.
Proof.
  induction a as [|x a IH]; intros [|y b]; cbn [bytes_eqb]; split; intro E; try reflexivity; try discriminate.
  - apply andb_true_iff in E as [E1 E2]. apply Z.eqb_eq in E1. apply IH in E2. congruence.
  - injection E as -> ->. rewrite Z.eqb_refl. apply IH. reflexivity.
Qed.

Lemma bytes_eqb_refl : forall a, bytes_eqb a a = true.
Proof. intro a. apply bytes_eqb_eq. reflexivity. Qed.

Lemma bytes_eqb_neq : forall a b, bytes_eqb a b = false <-> a <> b.
Proof.
  intros a b. split.
  - intros E Eq. apply bytes_eqb_eq in Eq. congruence.
  - intro N. destruct (bytes_eqb a b) eqn:E; [|reflexivity]. apply bytes_eqb_eq in E. contradiction.
Qed.

Lemma name_le_refl : forall x, name_le x x.
Proof. intro x. apply bytes_ltb_irrefl. Qed.

Lemma name_le_trans : forall x y z, name_le x y -> name_le y z -> name_le x z.
Proof.
  unfold name_le. intros x y z Hxy Hyz.
  destruct (bytes_ltb (l_name z) (l_name x)) eqn:Hzx; [|reflexivity].
  destruct (bytes_ltb (l_name x) (l_name y)) eqn:Hxy'.
  - pose proof (bytes_ltb_trans _ _ _ Hzx Hxy') as C. congruence.
  - pose proof (bytes_ltb_total _ _ Hxy' Hxy) as E. rewrite E in Hzx. congruence.
Qed.

Lemma name_le_antisym : forall x y, name_le x y -> name_le y x -> l_name x = l_name y.
Proof. unfold name_le. intros x y Hxy Hyx. apply bytes_ltb_total; assumption. Qed.

Lemma name_le_total : forall x y, name_le x y \/ name_le y x.
Proof.
  unfold name_le. intros x y. destruct (bytes_ltb (l_name y) (l_name x)) eqn:E.
  - right. apply bytes_ltb_asym. exact E.
  - left. reflexivity.
Qed.

(** ---------- per-name subsequences ---------- *)
Definition group (k : bytes) (l : list link) : list link := filter (name_is k) l.
Definition same_groups (l1 l2 : list link) : Prop := forall k, group k l1 = group k l2.

Lemma name_is_true : forall k x, name_is k x = true <-> l_name x = k.
Proof. intros k x. unfold name_is. apply bytes_eqb_eq. Qed.

Lemma group_app : forall k l1 l2, group k (l1 ++ l2) = group k l1 ++ group k l2.
Proof. intros. apply filter_app. Qed.

Lemma group_insert : forall k x l,
  group k (insert_link x l) = (if name_is k x then [x] else []) ++ group k l.
Proof.
  intros k x l. induction l as [|y r IH]; cbn [insert_link].
  - unfold group. cbn [filter]. destruct (name_is k x); reflexivity.
  - destruct (bytes_ltb (l_name y) (l_name x)) eqn:Hyx.
    + unfold group in *. cbn [filter]. rewrite IH.
      destruct (name_is k y) eqn:Ey; [|reflexivity].
      destruct (name_is k x) eqn:Ex; [|reflexivity].
      apply name_is_true in Ey. apply name_is_true in Ex.
      rewrite Ey, <- Ex, bytes_ltb_irrefl in Hyx. discriminate.
    + unfold group. cbn [filter]. destruct (name_is k x); reflexivity.
Qed.

Lemma group_sort : forall k l, group k (sort_links l) = group k l.
Proof.
  intros k l. induction l as [|x l IH]; [reflexivity|].
  cbn [sort_links fold_right]. fold (sort_links l). rewrite group_insert, IH.
  unfold group. cbn [filter]. destruct (name_is k x); reflexivity.
Qed.

Lemma same_groups_sort : forall l, same_groups (sort_links l) l.
Proof. intros l k. apply group_sort. Qed.

(** ---------- sortedness ---------- *)
Lemma insert_sorted : forall x l, Sorted name_le l -> Sorted name_le (insert_link x l).
Proof.
  intros x l. induction l as [|y r IH]; intro S; cbn [insert_link].
  - constructor; constructor.
  - destruct (bytes_ltb (l_name y) (l_name x)) eqn:Hyx.
    + inversion S as [|? ? Sr Hr]; subst. constructor; [apply IH; exact Sr|].
      destruct r as [|z r']; cbn [insert_link].
      * constructor. unfold name_le. apply bytes_ltb_asym. exact Hyx.
      * destruct (bytes_ltb (l_name z) (l_name x)) eqn:Hzx.
        -- constructor. inversion Hr; subst. assumption.
        -- constructor. unfold name_le. apply bytes_ltb_asym. exact Hyx.
    + constructor; [exact S|]. constructor. exact Hyx.
Qed.

Lemma sort_sorted : forall l, Sorted name_le (sort_links l).
Proof.
  induction l as [|x l IH]; [constructor|].
  cbn [sort_links fold_right]. apply insert_sorted. exact IH.
Qed.

Lemma sorted_strong : forall l, Sorted name_le l -> StronglySorted name_le l.
Proof.
  apply Sorted_StronglySorted. intros x y z. apply name_le_trans.
Qed.

Lemma insert_perm : forall x l, Permutation (x :: l) (insert_link x l).
Proof.
  intros x l. induction l as [|y r IH]; cbn [insert_link]; [reflexivity|].
  destruct (bytes_ltb (l_name y) (l_name x)); [|reflexivity].
  rewrite perm_swap. constructor. exact IH.
Qed.

Lemma sort_perm : forall l, Permutation l (sort_links l).
Proof.
  induction l as [|x l IH]; [reflexivity|].
  cbn [sort_links fold_right]. rewrite <- insert_perm. constructor. exact IH.
Qed.

(** ---------- uniqueness of the stable sort ---------- *)
Lemma group_nil_all : forall l, (forall k, group k l = []) -> l = [].
Proof.
  intros [|x l] Hk; [reflexivity|].
  specialize (Hk (l_name x)). unfold group in Hk. cbn [filter] in Hk.
  unfold name_is in Hk. rewrite bytes_eqb_refl in Hk. discriminate.
Qed.

Lemma in_group : forall k x l, In x (group k l) <-> In x l /\ l_name x = k.
Proof.
  intros k x l. unfold group. rewrite filter_In. rewrite name_is_true. reflexivity.
Qed.

Lemma stable_sort_unique : forall s1 s2,
  Sorted name_le s1 -> Sorted name_le s2 -> same_groups s1 s2 -> s1 = s2.
Proof.
  induction s1 as [|a r1 IH]; intros s2 S1 S2 G.
  - symmetry. apply group_nil_all. intro k. rewrite <- G. reflexivity.
  - destruct s2 as [|b r2].
    + exfalso. specialize (G (l_name a)). unfold group in G. cbn [filter] in G.
      unfold name_is in G. rewrite bytes_eqb_refl in G. discriminate.
    + apply sorted_strong in S1 as SS1. apply sorted_strong in S2 as SS2.
      inversion SS1 as [|? ? SSr1 F1]; subst. inversion SS2 as [|? ? SSr2 F2]; subst.
      assert (Hab : name_le a b).
      { assert (In b (a :: r1)) as Hin.
        { apply (in_group (l_name b)). rewrite G. apply in_group. split; [left|]; reflexivity. }
        destruct Hin as [->|Hin]; [apply name_le_refl|].
        rewrite Forall_forall in F1. apply F1. exact Hin. }
      assert (Hba : name_le b a).
      { assert (In a (b :: r2)) as Hin.
        { apply (in_group (l_name a)). rewrite <- G. apply in_group. split; [left|]; reflexivity. }
        destruct Hin as [->|Hin]; [apply name_le_refl|].
        rewrite Forall_forall in F2. apply F2. exact Hin. }
      pose proof (name_le_antisym _ _ Hab Hba) as En.
      assert (a = b) as ->.
      { pose proof (G (l_name a)) as Ga. unfold group in Ga. cbn [filter] in Ga.
        unfold name_is in Ga. rewrite bytes_eqb_refl in Ga. rewrite <- En, bytes_eqb_refl in Ga.
        injection Ga as Ga _. exact Ga. }
      f_equal. apply IH.
      * inversion S1; assumption.
      * inversion S2; assumption.
      * intro k. pose proof (G k) as Gk. unfold group in *. cbn [filter] in Gk.
        destruct (name_is k b); [injection Gk as Gk|]; exact Gk.
Qed.

(** the stable sort is THE list that is sorted and has the same per-name subsequences *)
Lemma sort_characterised : forall l s,
  Sorted name_le s -> same_groups s l -> s = sort_links l.
Proof.
  intros l s S G. apply stable_sort_unique; [exact S| apply sort_sorted|].
  intro k. rewrite G. symmetry. apply group_sort.
Qed.

Lemma sort_same_groups : forall l1 l2, same_groups l1 l2 -> sort_links l1 = sort_links l2.
Proof.
  intros l1 l2 G. apply sort_characterised; [apply sort_sorted|].
  intro k. rewrite group_sort. apply G.
Qed.

Lemma sort_idem : forall l, sort_links (sort_links l) = sort_links l.
Proof. intro l. apply sort_same_groups. apply same_groups_sort. Qed.

Lemma sort_of_sorted : forall l, Sorted name_le l -> sort_links l = l.
Proof. intros l S. symmetry. apply sort_characterised; [exact S| intro k; reflexivity]. Qed.

(** filtering by a predicate on names commutes with sorting *)
Lemma filter_sorted : forall (p : link -> bool) l, Sorted name_le l -> Sorted name_le (filter p l).
Proof.
  intros p l S. apply sorted_strong in S. apply StronglySorted_Sorted.
  induction S as [|x l SS IH F]; cbn [filter]; [constructor|].
  destruct (p x); [|exact IH]. constructor; [exact IH|].
  rewrite Forall_forall in *. intros y Hy. apply filter_In in Hy as [Hy _]. apply F. exact Hy.
Qed.

Lemma filter_filter_comm : forall {A} (p q : A -> bool) l, filter p (filter q l) = filter q (filter p l).
Proof.
  intros A p q l. induction l as [|x l IH]; [reflexivity|]. cbn [filter].
  destruct (q x) eqn:Eq; destruct (p x) eqn:Ep; cbn [filter]; rewrite ?Eq, ?Ep, IH; reflexivity.
Qed.

Lemma same_groups_filter : forall p l1 l2,
  same_groups l1 l2 -> same_groups (filter p l1) (filter p l2).
Proof.
  intros p l1 l2 G k. unfold group. rewrite (filter_filter_comm (name_is k) p l1).
  rewrite (filter_filter_comm (name_is k) p l2). f_equal. apply G.
Qed.

Lemma same_groups_app : forall l1 l2 r, same_groups l1 l2 -> same_groups (l1 ++ r) (l2 ++ r).
Proof. intros l1 l2 r G k. rewrite !group_app, G. reflexivity. Qed.

Lemma same_groups_existsb : forall k l1 l2,
  same_groups l1 l2 -> existsb (name_is k) l1 = existsb (name_is k) l2.
Proof.
  intros k l1 l2 G.
  assert (E : forall l, existsb (name_is k) l = negb (match group k l with [] => true | _ => false end)).
  { induction l as [|x l IH]; [reflexivity|]. unfold group in *. cbn [existsb filter].
    destruct (name_is k x); [reflexivity| exact IH]. }
  rewrite !E, G. reflexivity.
Qed.

(** ---------- order independence for distinct names ---------- *)
Lemma group_perm : forall k l1 l2, Permutation l1 l2 -> Permutation (group k l1) (group k l2).
Proof.
  intros k l1 l2 P. unfold group. induction P as [| x l l' P IH | x y l | l l' l'' P1 IH1 P2 IH2]; cbn [filter].
  - constructor.
  - destruct (name_is k x); [constructor|]; exact IH.
  - destruct (name_is k x); destruct (name_is k y); try reflexivity. apply perm_swap.
  - etransitivity; eassumption.
Qed.

Lemma group_nodup_small : forall k l, NoDup (map l_name l) -> (length (group k l) <= 1)%nat.
Proof.
  intros k l. induction l as [|x l IH]; intro ND; cbn [map] in ND; [cbn; lia|].
  inversion ND as [|? ? Hnin ND']; subst. unfold group in *. cbn [filter].
  destruct (name_is k x) eqn:Ex; [|apply IH; exact ND'].
  apply name_is_true in Ex.
  assert (filter (name_is k) l = []) as ->; [|cbn; lia].
  destruct (filter (name_is k) l) as [|y r] eqn:Ef; [reflexivity|]. exfalso.
  assert (In y (filter (name_is k) l)) as Hy by (rewrite Ef; left; reflexivity).
  apply filter_In in Hy as [Hy1 Hy2]. apply name_is_true in Hy2.
  apply Hnin. rewrite Ex, <- Hy2. apply in_map. exact Hy1.
Qed.

Lemma perm_nodup_same_groups : forall l1 l2,
  Permutation l1 l2 -> NoDup (map l_name l1) -> same_groups l1 l2.
Proof.
  intros l1 l2 P ND k.
  pose proof (group_perm k _ _ P) as PG.
  pose proof (group_nodup_small k _ ND) as L1.
  pose proof (Permutation_length PG) as EL.
  destruct (group k l1) as [|x [|? ?]] eqn:E1; cbn [length] in *; try lia.
  - apply Permutation_nil in PG. rewrite PG. reflexivity.
  - apply Permutation_length_1_inv in PG. rewrite PG. reflexivity.
Qed.

Lemma sort_order_independent : forall l1 l2,
  Permutation l1 l2 -> NoDup (map l_name l1) -> sort_links l1 = sort_links l2.
Proof. intros l1 l2 P ND. apply sort_same_groups. apply perm_nodup_same_groups; assumption. Qed.
