(** C38 — proofs: what path resolution and the file-system operations of
    [lib/FsModel.v] can touch, and that the extractor model [model/M_C38.v] (with
    the repaired deferred update) never changes anything outside its target. *)
From Coq Require Import String List ZArith Bool Lia.
From V Require Import lib.Verdict lib.FsModel model.M_C38.
Import ListNotations.
Open Scope Z_scope.

(** ---------- byte strings and paths ---------- *)
Lemma bytes_eqb_refl : forall a, bytes_eqb a a = true.
Proof. induction a as [|x a IH]; cbn; [reflexivity|]. rewrite Z.eqb_refl, IH. reflexivity. Qed.

Lemma bytes_eqb_eq : forall a b, bytes_eqb a b = true <-> a = b.
Proof.
  induction a as [|x a IH]; intros [|y b]; cbn; split; intro H; try reflexivity; try discriminate.
  - apply andb_true_iff in H. destruct H as [H1 H2]. apply Z.eqb_eq in H1. apply IH in H2. congruence.
  - inversion H; subst. rewrite Z.eqb_refl. cbn. apply bytes_eqb_refl.
Qed.

Lemma path_eqb_refl : forall a, path_eqb a a = true.
Proof. induction a as [|x a IH]; cbn; [reflexivity|]. rewrite bytes_eqb_refl. exact IH. Qed.

Lemma path_eqb_eq : forall a b, path_eqb a b = true <-> a = b.
Proof.
  induction a as [|x a IH]; intros [|y b]; cbn; split; intro H; try reflexivity; try discriminate.
  - apply andb_true_iff in H. destruct H as [H1 H2]. apply bytes_eqb_eq in H1. apply IH in H2. congruence.
  - inversion H; subst. rewrite bytes_eqb_refl. cbn. apply path_eqb_refl.
Qed.

Lemma path_eqb_neq : forall a b, a <> b -> path_eqb a b = false.
Proof. intros a b H. destruct (path_eqb a b) eqn:E; [apply path_eqb_eq in E; contradiction|reflexivity]. Qed.

Lemma path_eqb_sym : forall a b, path_eqb a b = path_eqb b a.
Proof.
  intros a b. destruct (path_eqb a b) eqn:E.
  - apply path_eqb_eq in E. subst. symmetry. apply path_eqb_refl.
  - destruct (path_eqb b a) eqn:E'; [|reflexivity]. apply path_eqb_eq in E'. subst.
    rewrite path_eqb_refl in E. discriminate.
Qed.

Lemma under_refl : forall p, under p p = true.
Proof. unfold under. induction p as [|a p IH]; cbn; [reflexivity|]. rewrite bytes_eqb_refl. exact IH. Qed.

Lemma under_app : forall p s, under p (p ++ s) = true.
Proof. unfold under. induction p as [|a p IH]; intro s; cbn; [reflexivity|]. rewrite bytes_eqb_refl. apply IH. Qed.

Lemma under_spec : forall p q, under p q = true <-> exists s, q = p ++ s.
Proof.
  unfold under. induction p as [|a p IH]; intros q; cbn.
  - split; [intros _; exists q; reflexivity|reflexivity].
  - destruct q as [|b q]; [split; [discriminate|intros [s Hs]; discriminate]|].
    split.
    + intro H. apply andb_true_iff in H. destruct H as [H1 H2]. apply bytes_eqb_eq in H1.
      apply IH in H2. destruct H2 as [s Hs]. exists s. subst. reflexivity.
    + intros [s Hs]. inversion Hs; subst. rewrite bytes_eqb_refl. cbn. apply IH. exists s. reflexivity.
Qed.

Lemma parent_snoc : forall (p : path) c, parent (p ++ [c]) = p.
Proof. intros. unfold parent. apply removelast_last. Qed.

(** ---------- the finite map ---------- *)
Lemma get_del : forall f p q, get (del f p) q = if path_eqb q p then None else get f q.
Proof.
  induction f as [|[r i] f IH]; intros p q; cbn [del get].
  - destruct (path_eqb q p); reflexivity.
  - destruct (path_eqb p r) eqn:E.
    + apply path_eqb_eq in E. subst r. rewrite IH. destruct (path_eqb q p); reflexivity.
    + cbn [get]. rewrite IH. destruct (path_eqb q r) eqn:E2; [|reflexivity].
      apply path_eqb_eq in E2. subst r. rewrite path_eqb_sym, E. reflexivity.
Qed.

Lemma get_set : forall f p i q, get (set f p i) q = if path_eqb q p then Some i else get f q.
Proof.
  intros. unfold set. cbn [get]. destruct (path_eqb q p) eqn:E; [reflexivity|].
  rewrite get_del, E. reflexivity.
Qed.

Definition same_km (a b : option inode) : Prop :=
  match a, b with
  | Some x, Some y => i_kind x = i_kind y /\ i_mode x = i_mode y
  | None, None => True
  | _, _ => False
  end.

Lemma same_km_refl : forall a, same_km a a.
Proof. intros [x|]; cbn; auto. Qed.
Lemma same_km_trans : forall a b c, same_km a b -> same_km b c -> same_km a c.
Proof. intros [x|] [y|] [z|]; cbn; intuition congruence. Qed.

Lemma get_touch_dir : forall f d q,
  (q <> d -> get (touch_dir f d) q = get f q) /\ same_km (get f q) (get (touch_dir f d) q).
Proof.
  intros f d q. unfold touch_dir. destruct (get f d) as [i|] eqn:E.
  - rewrite get_set. destruct (path_eqb q d) eqn:E2.
    + apply path_eqb_eq in E2. subst q. split; [intro H; contradiction|]. rewrite E. cbn. auto.
    + split; [reflexivity|apply same_km_refl].
  - split; [reflexivity|apply same_km_refl].
Qed.

(** ---------- what an operation may change ---------- *)
(** [g] differs from [f] at most at [q] (anything) and at [parent q] (same kind and mode) *)
Definition changes_at (q : path) (f g : fs) : Prop :=
  forall p, p <> q -> (p <> parent q -> get g p = get f p) /\ same_km (get f p) (get g p).

Lemma changes_at_refl : forall q f, changes_at q f f.
Proof. intros q f p _. split; [reflexivity|apply same_km_refl]. Qed.

Lemma changes_set_touch : forall f q i, changes_at q f (set (touch_dir f (parent q)) q i).
Proof.
  intros f q i p Hp. rewrite get_set, (path_eqb_neq _ _ Hp).
  destruct (get_touch_dir f (parent q) p) as [H1 H2]. split; [exact H1|exact H2].
Qed.

Lemma changes_del_touch : forall f q, changes_at q f (touch_dir (del f q) (parent q)).
Proof.
  intros f q p Hp. destruct (get_touch_dir (del f q) (parent q) p) as [H1 H2].
  rewrite get_del, (path_eqb_neq _ _ Hp) in H1, H2. split; assumption.
Qed.

Lemma mkdir_changes : forall f p mode g, mkdir f p mode = Ok g ->
  exists q, res_nofollow f p = Ok q /\ changes_at q f g /\ get f q = None /\ is_dir (get g q) = true.
Proof.
  intros f p mode g H. unfold mkdir in H. destruct (res_nofollow f p) as [q|e] eqn:R; [|discriminate].
  destruct (get f q) eqn:G; [discriminate|]. destruct (is_nil q); [discriminate|]. inversion H; subst.
  exists q. split; [reflexivity|]. split; [apply changes_set_touch|]. split; [exact G|].
  rewrite get_set, path_eqb_refl. reflexivity.
Qed.

