(** C30 — proofs.
    1. the three parsers of the model agree piece by piece: whenever the header is a valid byte-range set
       ([parse_specs]), parseRangeWithoutLength accepts it and yields the same specs, and parseRange(size)
       yields exactly the satisfiable ones, clamped ([parsers_agree]);
    2. with every defect switch off the response model equals the abstract response [ideal] computed from the
       requested specs ([model_is_ideal]); every response has one of three shapes ([model_off_shape]);
    3. the readable consequences (consistency, 416 iff, HEAD) and the refutations of the flag-on model. *)
From Coq Require Import String.
From Coq Require Import List ZArith Bool Lia.
From V Require Import lib.Verdict model.M_C30.
Import ListNotations.
Open Scope Z_scope.

(** ---------- strings ---------- *)
Lemma trim_left_incl x s : In x (trim_left s) -> In x s.
Proof.
  induction s as [|c r IH]; cbn [trim_left]; [easy|].
  destruct (is_space c); intro H; [right; auto|exact H].
Qed.

Lemma trim_incl x s : In x (trim s) -> In x s.
Proof.
  unfold trim. intro H.
  apply in_rev in H. apply trim_left_incl in H. apply in_rev in H. apply trim_left_incl in H. exact H.
Qed.

Lemma cut_on_nosep d s : forall a b, cut_on d s = Some (a, b) -> ~ In d a.
Proof.
  induction s as [|c r IH]; cbn [cut_on]; intros a b H; [discriminate|].
  destruct (c =? d) eqn:E.
  - inversion H; subst. intros [].
  - destruct (cut_on d r) as [[a' b']|] eqn:E2; [|discriminate].
    inversion H; subst. intros [H1|H1].
    + subst. rewrite Z.eqb_refl in E. discriminate.
    + eapply IH; eauto.
Qed.

Lemma digits_val_nonneg s : forall acc u, 0 <= acc -> digits_val s acc = Some u -> 0 <= u.
Proof.
  induction s as [|c r IH]; cbn [digits_val]; intros acc u Ha H.
  - inversion H; lia.
  - destruct (is_digit c) eqn:D; [|discriminate].
    unfold is_digit in D. apply andb_prop in D as [D1 D2]. apply Z.leb_le in D1.
    eapply IH; [|exact H]. lia.
Qed.

Lemma parse_int_neg s v : parse_int s = Some v -> v < 0 -> exists r, s = dash :: r.
Proof.
  unfold parse_int. destruct s as [|c r]; [discriminate|].
  destruct (c =? 45) eqn:E45.
  - apply Z.eqb_eq in E45. subst. intros _ _. exists r. reflexivity.
  - rewrite orb_false_r.
    set (ds := if c =? 43 then r else c :: r).
    destruct ds as [|d ds']; [discriminate|].
    destruct (digits_val (d :: ds') 0) as [u|] eqn:Ed; [|discriminate].
    apply digits_val_nonneg in Ed; [|lia].
    destruct (u <=? max_int64); [|discriminate].
    intros H Hv. inversion H. lia.
Qed.

(* the text before the first dash never parses to a negative number *)
Lemma start_nonneg ra st0 en0 i :
  cut_on dash ra = Some (st0, en0) -> parse_int (trim st0) = Some i -> 0 <= i.
Proof.
  intros Hc Hp. destruct (Z.neg_nonneg_cases i) as [Hn|Hn]; [|exact Hn]. exfalso.
  destruct (parse_int_neg _ _ Hp Hn) as [r Hr].
  apply (cut_on_nosep _ _ _ _ Hc). apply trim_incl. rewrite Hr. left. reflexivity.
Qed.

(** ---------- one piece ---------- *)
Definition brange_of (sp : rspec) : brange :=
  match sp with
  | SFromTo a b => {| b_from := a; b_to := Some b |}
  | SFrom a => {| b_from := a; b_to := None |}
  | SSuffix n => {| b_from := - n; b_to := None |}
  end.

Definition sl (x : Z * Z) : Z * Z := (fst x, snd x - fst x + 1).   (* (first, last) -> (start, length) *)

Definition wf_spec (sp : rspec) : Prop :=
  match sp with
  | SFromTo a b => 0 <= a <= b
  | SFrom a => 0 <= a
  | SSuffix n => 0 <= n
  end.

(* with the zero-suffix defect off the length-less parser skips a suffix of length 0 *)
Definition keeps (f : bool) (sp : rspec) : bool :=
  match sp with SSuffix n => f || negb (n =? 0) | _ => true end.
Definition prwl_of (f : bool) (sp : rspec) : pres brange :=
  if keeps f sp then POk (brange_of sp) else PSkip.

Definition pr_of_sat (size : Z) (sp : rspec) : pres (Z * Z) :=
  match sat size sp with Some x => POk (sl x) | None => PNoOv end.

Lemma piece_agree f size p : 0 <= size ->
  match spec_piece p with
  | PSkip => prwl_piece f p = PSkip /\ pr_piece false size p = PSkip
  | PErr => prwl_piece f p = PErr /\ (pr_piece false size p = PErr \/ pr_piece false size p = PNoOv)
  | PNoOv => False
  | POk sp => wf_spec sp /\ prwl_piece f p = prwl_of f sp /\ pr_piece false size p = pr_of_sat size sp
  end.
Proof.
  intro Hsz. unfold spec_piece, prwl_piece, pr_piece.
  destruct (trim p) as [|c0 ra'] eqn:Era; [split; reflexivity|].
  destruct (cut_on dash (c0 :: ra')) as [[st0 en0]|] eqn:Hc; [|split; [reflexivity|left; reflexivity]].
  pose proof (fun i => start_nonneg _ _ _ i Hc) as Hnn.
  destruct (trim st0) as [|s1 st'] eqn:Est; destruct (trim en0) as [|e1 en'] eqn:Een.
  - split; [reflexivity|left; reflexivity].
  - destruct (e1 =? dash); [split; [reflexivity|left; reflexivity]|].
    destruct (parse_int (e1 :: en')) as [n|]; [|split; [reflexivity|left; reflexivity]].
    destruct (n <? 0) eqn:En; [split; [reflexivity|left; reflexivity]|].
    apply Z.ltb_ge in En.
    split; [exact En|]. split; [unfold prwl_of, keeps, brange_of; destruct f, (n =? 0); reflexivity|].
    unfold pr_of_sat, sat, sl. cbn [negb andb fst snd].
    destruct (size <? n) eqn:E1; [apply Z.ltb_lt in E1|apply Z.ltb_ge in E1].
    + destruct (size =? 0) eqn:E2; [apply Z.eqb_eq in E2|apply Z.eqb_neq in E2].
      * replace (0 <? size) with false by (symmetry; apply Z.ltb_ge; lia).
        rewrite andb_false_r. reflexivity.
      * replace (0 <? n) with true by (symmetry; apply Z.ltb_lt; lia).
        replace (0 <? size) with true by (symmetry; apply Z.ltb_lt; lia).
        cbn [andb]. cbv beta iota zeta; cbn [fst snd]. f_equal. f_equal; lia.
    + destruct (n =? 0) eqn:E2; [apply Z.eqb_eq in E2|apply Z.eqb_neq in E2].
      * replace (0 <? n) with false by (symmetry; apply Z.ltb_ge; lia). reflexivity.
      * replace (0 <? n) with true by (symmetry; apply Z.ltb_lt; lia).
        replace (0 <? size) with true by (symmetry; apply Z.ltb_lt; lia).
        cbn [andb]. cbv beta iota zeta; cbn [fst snd]. f_equal. f_equal; lia.
  - destruct (parse_int (s1 :: st')) as [a|] eqn:Ea; [|split; [reflexivity|left; reflexivity]].
    specialize (Hnn a eq_refl).
    replace (a <? 0) with false by (symmetry; apply Z.ltb_ge; lia).
    split; [exact Hnn|]. split; [reflexivity|].
    unfold pr_of_sat, sat, sl. cbn [fst snd].
    destruct (size <=? a) eqn:E1; [apply Z.leb_le in E1|apply Z.leb_gt in E1].
    + replace (a <? size) with false by (symmetry; apply Z.ltb_ge; lia). reflexivity.
    + replace (a <? size) with true by (symmetry; apply Z.ltb_lt; lia). cbv beta iota zeta; cbn [fst snd]. f_equal. f_equal; lia.
  - destruct (parse_int (s1 :: st')) as [a|] eqn:Ea; [|split; [reflexivity|left; reflexivity]].
    specialize (Hnn a eq_refl).
    replace (a <? 0) with false by (symmetry; apply Z.ltb_ge; lia).
    cbn [orb].
    destruct (parse_int (e1 :: en')) as [b|] eqn:Eb.
    + destruct (b <? a) eqn:E0; [apply Z.ltb_lt in E0|apply Z.ltb_ge in E0].
      * rewrite orb_true_r. split; [reflexivity|].
        destruct (size <=? a); [right; reflexivity|left; reflexivity].
      * replace (b <? 0) with false by (symmetry; apply Z.ltb_ge; lia). cbn [orb].
        split; [cbn [wf_spec]; lia|]. split; [reflexivity|].
        unfold pr_of_sat, sat, sl. cbn [fst snd].
        destruct (size <=? a) eqn:E1; [apply Z.leb_le in E1|apply Z.leb_gt in E1].
        -- replace (a <? size) with false by (symmetry; apply Z.ltb_ge; lia). reflexivity.
        -- replace (a <? size) with true by (symmetry; apply Z.ltb_lt; lia).
           cbv beta iota zeta; cbn [fst snd]. f_equal. f_equal. destruct (size <=? b) eqn:E2; [apply Z.leb_le in E2|apply Z.leb_gt in E2]; lia.
    + split; [reflexivity|]. destruct (size <=? a); [right; reflexivity|left; reflexivity].
Qed.

(** ranges that parseRange produces (suffix defect off) lie inside the file — for ANY header, valid or not *)
Definition range_ok (size : Z) (x : Z * Z) : Prop := 0 <= fst x /\ 1 <= snd x /\ fst x + snd x <= size.

Lemma pr_piece_range_ok size p x : 0 <= size -> pr_piece false size p = POk x -> range_ok size x.
Proof.
  intros Hsz. unfold pr_piece, range_ok.
  destruct (trim p) as [|c0 ra']; [discriminate|].
  destruct (cut_on dash (c0 :: ra')) as [[st0 en0]|]; [|discriminate].
  destruct (trim st0) as [|s1 st']; destruct (trim en0) as [|e1 en'].
  - discriminate.
  - destruct (e1 =? dash); [discriminate|].
    destruct (parse_int (e1 :: en')) as [n|]; [|discriminate].
    destruct (n <? 0) eqn:En; [discriminate|]. apply Z.ltb_ge in En.
    cbn [negb andb].
    destruct (size <? n) eqn:E1; [apply Z.ltb_lt in E1|apply Z.ltb_ge in E1].
    + destruct (size =? 0) eqn:E2; [discriminate|]. apply Z.eqb_neq in E2.
      intro H; inversion H; subst; cbn [fst snd]; lia.
    + destruct (n =? 0) eqn:E2; [discriminate|]. apply Z.eqb_neq in E2.
      intro H; inversion H; subst; cbn [fst snd]; lia.
  - destruct (parse_int (s1 :: st')) as [a|]; [|discriminate].
    destruct (a <? 0) eqn:E0; [discriminate|]. apply Z.ltb_ge in E0.
    destruct (size <=? a) eqn:E1; [discriminate|]. apply Z.leb_gt in E1.
    intro H; inversion H; subst; cbn [fst snd]; lia.
  - destruct (parse_int (s1 :: st')) as [a|]; [|discriminate].
    destruct (a <? 0) eqn:E0; [discriminate|]. apply Z.ltb_ge in E0.
    destruct (size <=? a) eqn:E1; [discriminate|]. apply Z.leb_gt in E1.
    destruct (parse_int (e1 :: en')) as [b|]; [|discriminate].
    destruct (b <? a) eqn:E2; [discriminate|]. apply Z.ltb_ge in E2.
    destruct (size <=? b) eqn:E3; [apply Z.leb_le in E3|apply Z.leb_gt in E3];
      intro H; inversion H; subst; cbn [fst snd]; lia.
Qed.

Lemma pr_loop_range_ok size ps : 0 <= size -> forall rs b,
  pr_loop false size ps = Some (rs, b) -> Forall (range_ok size) rs.
Proof.
  intro Hsz. induction ps as [|p r IH]; cbn [pr_loop]; intros rs b H.
  - inversion H. constructor.
  - destruct (pr_piece false size p) as [| | |x] eqn:Ep.
    + eauto.
    + discriminate.
    + destruct (pr_loop false size r) as [[l b']|]; [|discriminate]. inversion H; subst. eauto.
    + destruct (pr_loop false size r) as [[l b']|]; [|discriminate]. inversion H; subst.
      constructor; [eapply pr_piece_range_ok; eauto|eauto].
Qed.

Lemma pr_range_ok size s rs : 0 <= size -> pr false s size = PROk rs -> Forall (range_ok size) rs.
Proof.
  intros Hsz. unfold pr. destruct s as [|c r]; [intro H; inversion H; constructor|].
  destruct (strip_prefix bytes_eq (c :: r)) as [rest|]; [|discriminate].
  destruct (pr_loop false size (split_on comma rest)) as [[l b]|] eqn:El; [|discriminate].
  pose proof (pr_loop_range_ok _ _ Hsz _ _ El) as Hok.
  destruct l as [|x l']; [destruct b; [discriminate|]|]; intro H; inversion H; subst; exact Hok.
Qed.

(** ---------- the loops ---------- *)
Definition unsat (size : Z) (sp : rspec) : bool := match sat size sp with None => true | Some _ => false end.
Definition has_unsat (size : Z) (sps : list rspec) : bool := existsb (unsat size) sps.

Lemma filter_wf f sps : Forall wf_spec sps -> Forall wf_spec (filter (keeps f) sps).
Proof.
  intro H. apply Forall_forall. intros x Hx. apply filter_In in Hx as [Hx _].
  rewrite Forall_forall in H. auto.
Qed.

Lemma loop_agree f size : 0 <= size -> forall ps sps, spec_loop ps = Some sps ->
  Forall wf_spec sps /\
  prwl_loop f ps = Some (map brange_of (filter (keeps f) sps)) /\
  pr_loop false size ps = Some (map sl (sats size sps), has_unsat size sps).
Proof.
  intro Hsz. induction ps as [|p r IH]; cbn [spec_loop prwl_loop pr_loop]; intros sps H.
  - inversion H; subst. repeat split. constructor.
  - pose proof (piece_agree f size p Hsz) as Hp.
    destruct (spec_piece p) as [| | |sp] eqn:Esp.
    + destruct Hp as [Hp1 Hp2]. rewrite Hp1, Hp2. auto.
    + discriminate.
    + destruct Hp.
    + destruct Hp as [Hwf [Hp1 Hp2]]. rewrite Hp1, Hp2.
      destruct (spec_loop r) as [l|] eqn:El; [|discriminate]. inversion H; subst.
      destruct (IH l eq_refl) as [IH0 [IH1 IH2]]. rewrite IH2.
      split; [constructor; assumption|]. split.
      * unfold prwl_of. cbn [filter]. destruct (keeps f sp); rewrite IH1; reflexivity.
      * unfold pr_of_sat, has_unsat. cbn [sats existsb].
        assert (Hu : unsat size sp = match sat size sp with None => true | Some _ => false end) by reflexivity.
        rewrite Hu. destruct (sat size sp) as [x|]; reflexivity.
Qed.

Lemma loop_err f ps : spec_loop ps = None -> prwl_loop f ps = None.
Proof.
  induction ps as [|p r IH]; cbn [spec_loop prwl_loop]; intro H; [discriminate|].
  pose proof (piece_agree f 0 p (Z.le_refl 0)) as Hp.
  destruct (spec_piece p) as [| | |sp] eqn:Esp.
  - destruct Hp as [Hp1 _]. rewrite Hp1. auto.
  - destruct Hp as [Hp1 _]. rewrite Hp1. reflexivity.
  - destruct Hp.
  - destruct Hp as [_ [Hp1 _]]. rewrite Hp1.
    destruct (spec_loop r); [discriminate|]. unfold prwl_of.
    destruct (keeps f sp); rewrite IH; reflexivity.
Qed.

Definition pr_of_specs (size : Z) (sps : list rspec) : prres :=
  match sats size sps with
  | [] => if has_unsat size sps then PRNoOverlap else PROk []
  | l => PROk (map sl l)
  end.

(** Whenever the header is a valid byte-range set, both Go parsers accept it; the length-less one returns the
    specs as they are, the one with the length returns exactly the satisfiable specs, clamped to the file. *)
Lemma parsers_agree f s sps size : 0 <= size -> s <> [] -> parse_specs s = Some sps ->
  Forall wf_spec sps /\ prwl f s = Some (map brange_of (filter (keeps f) sps)) /\
  pr false s size = pr_of_specs size sps.
Proof.
  intros Hsz Hne. unfold parse_specs, prwl, pr, pr_of_specs.
  destruct s as [|c r]; [congruence|].
  destruct (strip_prefix bytes_eq (c :: r)) as [rest|]; [|discriminate].
  intro H. destruct (loop_agree f size Hsz _ _ H) as [H0 [H1 H2]]. rewrite H1, H2.
  split; [exact H0|]. split; [reflexivity|].
  destruct (sats size sps) as [|x l]; cbn [map]; [destruct (has_unsat size sps)|]; reflexivity.
Qed.

Lemma parsers_agree_err f s : s <> [] -> parse_specs s = None -> prwl f s = None.
Proof.
  intros Hne. unfold parse_specs, prwl. destruct s as [|c r]; [congruence|].
  destruct (strip_prefix bytes_eq (c :: r)) as [rest|]; [|reflexivity].
  apply loop_err.
Qed.

(** ---------- the abstract response ---------- *)
Definition specs_of (q : req) : option (list rspec) :=
  match q_range q with [] => Some [] | s => parse_specs s end.

Fixpoint total (l : list (Z * Z)) : Z :=
  match l with [] => 0 | (s, e) :: r => (e - s + 1) + total r end.

Definition whole_resp (m : meth) (size : Z) : resp := mk_resp m size 200 CRNone size 0.
Definition partial_resp (m : meth) (size s e : Z) : resp := mk_resp m size 206 (CRRange s e size) (e - s + 1) s.

(** what the property demands, computed from the requested specs alone *)
Definition ideal (q : req) (sps : list rspec) : resp :=
  if q_inm q then err_resp 304 CRNone else
  let size := q_size q in
  let eff := match q_ifr q with IfrFalse => [] | _ => sps end in
  match eff with
  | [] => whole_resp (q_meth q) size
  | _ :: _ =>
      match sats size eff with
      | [] => if size =? 0 then whole_resp (q_meth q) size else err_resp 416 (CRStar size)
      | (s, e) :: rest =>
          if size <? total ((s, e) :: rest) then whole_resp (q_meth q) size    (* multi-range request ignored *)
          else partial_resp (q_meth q) size s e
      end
  end.

Lemma sum_len_total l : sum_len (map sl l) = total l.
Proof.
  induction l as [|[s e] r IH]; [reflexivity|].
  cbn [map sl sum_len total fst snd]. rewrite IH. reflexivity.
Qed.

Lemma sats_nil_unsat size sps : sps <> [] -> sats size sps = [] -> has_unsat size sps = true.
Proof.
  destruct sps as [|sp r]; [congruence|]. intros _. unfold has_unsat. cbn [sats existsb].
  assert (Hu : unsat size sp = match sat size sp with None => true | Some _ => false end) by reflexivity.
  rewrite Hu. destruct (sat size sp); [discriminate|]. reflexivity.
Qed.

Lemma seek_pos_off size sps : Forall wf_spec sps -> 0 <= size ->
  exists p, seek_pos flags_off size (hd_error (map brange_of sps)) = Some p /\ 0 <= p /\ (sps = [] -> p = 0).
Proof.
  intros Hwf Hsz. destruct sps as [|sp r]; cbn [map hd_error seek_pos].
  - exists 0. split; [reflexivity|split; [lia|reflexivity]].
  - inversion Hwf as [|? ? Hsp _]; subst. unfold seek_pos.
    destruct sp as [a b|a|n]; cbn [brange_of b_from b_to wf_spec] in *.
    + destruct (a =? 0) eqn:E; [exists 0; split; [reflexivity|split; [lia|discriminate]]|].
      replace (a <? 0) with false by (symmetry; apply Z.ltb_ge; lia).
      exists a. split; [reflexivity|split; [lia|discriminate]].
    + destruct (a =? 0) eqn:E; [exists 0; split; [reflexivity|split; [lia|discriminate]]|].
      replace (a <? 0) with false by (symmetry; apply Z.ltb_ge; lia).
      exists a. split; [reflexivity|split; [lia|discriminate]].
    + destruct (- n =? 0) eqn:E; [exists 0; split; [reflexivity|split; [lia|discriminate]]|].
      apply Z.eqb_neq in E.
      replace (- n <? 0) with true by (symmetry; apply Z.ltb_lt; lia).
      cbn [f_seekErr flags_off].
      destruct (size + - n <? 0) eqn:E2; [exists 0; split; [reflexivity|split; [lia|discriminate]]|].
      apply Z.ltb_ge in E2. exists (size + - n). split; [reflexivity|split; [lia|discriminate]].
Qed.

Lemma whole_pos_irrelevant m p : 0 <= p -> mk_resp m 0 200 CRNone 0 p = whole_resp m 0.
Proof.
  intro Hp. unfold whole_resp, mk_resp, body_of. destruct m; [|reflexivity].
  f_equal; lia.
Qed.

Lemma serve_off_ideal q sps p :
  0 <= q_size q -> q_inm q = false -> specs_of q = Some sps -> 0 <= p -> (sps = [] -> p = 0) ->
  serve flags_off q p = ideal q sps.
Proof.
  intros Hsz Hinm Hsp Hp Hp0. unfold serve, ideal. rewrite Hinm.
  cbn [f_suffix0 f_posSum f_posIfRange f_pos206 flags_off].
  unfold specs_of in Hsp.
  destruct (q_range q) as [|c r] eqn:Er.
  - (* no Range header *)
    inversion Hsp; subst sps. rewrite (Hp0 eq_refl).
    assert (Hs : (q_size q <? 0) = false) by (apply Z.ltb_ge; lia).
    destruct (q_ifr q); cbn [pr sum_len]; rewrite Hs; reflexivity.
  - destruct (q_ifr q) eqn:Eifr.
    1,2: (* the header counts *)
      destruct (parsers_agree false (c :: r) sps (q_size q) Hsz ltac:(discriminate) Hsp) as [Hwf [_ Hpr]];
      rewrite Hpr; unfold pr_of_specs;
      destruct sps as [|sp0 sps'];
      [ (* no spec at all *)
        cbn [sats has_unsat existsb sum_len];
        replace (q_size q <? 0) with false by (symmetry; apply Z.ltb_ge; lia);
        rewrite (Hp0 eq_refl); reflexivity
      | destruct (sats (q_size q) (sp0 :: sps')) as [|[s e] rest] eqn:Es;
        [ rewrite (sats_nil_unsat (q_size q) (sp0 :: sps') ltac:(discriminate) Es);
          destruct (q_size q =? 0) eqn:E0; [|reflexivity];
          apply Z.eqb_eq in E0; rewrite E0; apply whole_pos_irrelevant; exact Hp
        | rewrite sum_len_total;
          destruct (q_size q <? total ((s, e) :: rest)); [reflexivity|];
          cbn [map sl fst snd]; unfold partial_resp;
          replace (s + (e - s + 1) - 1) with e by lia; reflexivity ] ].
    (* a failed If-Range: the header is ignored *)
    cbn [pr sum_len].
    replace (q_size q <? 0) with false by (symmetry; apply Z.ltb_ge; lia).
    reflexivity.
Qed.

(** With every defect switch off the response model IS the abstract response. *)
Lemma model_is_ideal q sps :
  0 <= q_size q -> specs_of q = Some sps -> model flags_off q = ideal q sps.
Proof.
  intros Hsz Hsp. unfold model.
  destruct (q_inm q) eqn:Hinm; [unfold ideal; rewrite Hinm; reflexivity|].
  destruct (q_meth q) eqn:Em.
  - (* GET *)
    cbn [f_suffix0 flags_off].
    assert (Hw : Forall wf_spec sps /\ prwl false (q_range q) = Some (map brange_of (filter (keeps false) sps))).
    { unfold specs_of in Hsp. destruct (q_range q) as [|c r] eqn:Er.
      - inversion Hsp; subst. split; [constructor|reflexivity].
      - destruct (parsers_agree false (c :: r) sps (q_size q) Hsz ltac:(discriminate) Hsp) as [H0 [H1 _]]. auto. }
    destruct Hw as [Hwf Hprwl]. rewrite Hprwl.
    destruct (seek_pos_off (q_size q) _ (filter_wf false sps Hwf) Hsz) as [p [Hs [Hp Hp0]]]. rewrite Hs.
    apply serve_off_ideal; try assumption.
    intro Hnil. apply Hp0. rewrite Hnil. reflexivity.
  - apply serve_off_ideal; try assumption; [lia|reflexivity].
Qed.

(** a GET whose Range header is not a valid byte-range set is rejected before anything is read *)
Lemma model_invalid_get fl q :
  q_inm q = false -> q_meth q = GET -> specs_of q = None -> model fl q = err_resp 400 CRNone.
Proof.
  intros Hinm Hm Hsp. unfold model. rewrite Hinm, Hm.
  unfold specs_of in Hsp. destruct (q_range q) as [|c r] eqn:Er; [discriminate|].
  rewrite (parsers_agree_err (f_suffix0 fl) (c :: r) ltac:(discriminate) Hsp). reflexivity.
Qed.

(** ---------- shapes ---------- *)
Definition other_ok (q : req) (st : Z) (cr : crange) : Prop :=
  (st = 304 /\ q_inm q = true /\ cr = CRNone) \/
  (st = 400 /\ cr = CRNone) \/
  (st = 416 /\ (cr = CRNone \/ (cr = CRStar (q_size q) /\ 0 < q_size q))).

Inductive shape (q : req) (r : resp) : Prop :=
| ShWhole : r = whole_resp (q_meth q) (q_size q) -> shape q r
| ShPartial s e : 0 <= s -> s <= e -> e < q_size q -> r = partial_resp (q_meth q) (q_size q) s e -> shape q r
| ShOther st cr : r = err_resp st cr -> other_ok q st cr -> shape q r.

Lemma sats_in_file size sps : Forall wf_spec sps -> 0 <= size ->
  Forall (fun x => 0 <= fst x /\ fst x <= snd x /\ snd x < size) (sats size sps).
Proof.
  intros Hwf Hsz. induction Hwf as [|sp r Hsp _ IH]; cbn [sats]; [constructor|].
  destruct (sat size sp) as [x|] eqn:Es; [|exact IH]. constructor; [|exact IH].
  unfold sat in Es. destruct sp as [a b|a|n]; cbn [wf_spec] in Hsp.
  - destruct (a <? size) eqn:E; [|discriminate]. apply Z.ltb_lt in E. inversion Es; subst. cbn [fst snd]. lia.
  - destruct (a <? size) eqn:E; [|discriminate]. apply Z.ltb_lt in E. inversion Es; subst. cbn [fst snd]. lia.
  - destruct (0 <? n) eqn:E1; [|discriminate]. destruct (0 <? size) eqn:E2; [|discriminate].
    apply Z.ltb_lt in E1, E2. inversion Es; subst. cbn [fst snd]. lia.
Qed.

Lemma ideal_shape q sps : Forall wf_spec sps -> 0 <= q_size q -> shape q (ideal q sps).
Proof.
  intros Hwf Hsz. unfold ideal.
  destruct (q_inm q) eqn:Hinm; [eapply ShOther; [reflexivity|left; auto]|].
  set (eff := match q_ifr q with IfrFalse => [] | _ => sps end).
  assert (Hweff : Forall wf_spec eff) by (unfold eff; destruct (q_ifr q); auto).
  destruct eff as [|sp0 eff']; [apply ShWhole; reflexivity|].
  pose proof (sats_in_file (q_size q) _ Hweff Hsz) as Hin.
  destruct (sats (q_size q) (sp0 :: eff')) as [|[s e] rest].
  - destruct (q_size q =? 0) eqn:E0; [apply ShWhole; reflexivity|].
    apply Z.eqb_neq in E0. eapply ShOther; [reflexivity|]. right; right. split; [reflexivity|right; split; [reflexivity|lia]].
  - destruct (q_size q <? total ((s, e) :: rest)); [apply ShWhole; reflexivity|].
    inversion Hin as [|? ? Hx _]; subst. cbn [fst snd] in Hx.
    eapply ShPartial with (s := s) (e := e); [lia|lia|lia|reflexivity].
Qed.

Lemma specs_of_wf q sps : specs_of q = Some sps -> Forall wf_spec sps.
Proof.
  unfold specs_of. destruct (q_range q) as [|c r] eqn:Er; intro H.
  - inversion H. constructor.
  - destruct (parsers_agree false (c :: r) sps 0 (Z.le_refl 0) ltac:(discriminate) H) as [H0 _]. exact H0.
Qed.

(* HEAD with a header that is not a valid byte-range set: parseRange alone decides; whatever it accepts lies
   inside the file *)
Lemma serve_head_shape q : 0 <= q_size q -> q_meth q = HEAD -> shape q (serve flags_off q 0).
Proof.
  intros Hsz Hm. unfold serve. cbn [f_suffix0 f_posSum f_posIfRange f_pos206 flags_off].
  assert (Hwh : forall b : bool, mk_resp (q_meth q) (q_size q) 200 CRNone (q_size q) (if b then 0 else 0)
                               = whole_resp (q_meth q) (q_size q)) by (intros []; reflexivity).
  match goal with |- context [pr false ?x (q_size q)] => destruct (pr false x (q_size q)) as [| |rs] eqn:Epr end.
  - eapply ShOther; [reflexivity|]. right; right. auto.
  - destruct (q_size q =? 0) eqn:E0; [apply ShWhole; apply (Hwh true)|].
    apply Z.eqb_neq in E0. eapply ShOther; [reflexivity|]. right; right. split; [reflexivity|right; split; [reflexivity|lia]].
  - pose proof (pr_range_ok _ _ _ Hsz Epr) as Hok.
    destruct (q_size q <? sum_len rs); [apply ShWhole; apply (Hwh false)|].
    destruct rs as [|[s n] rs'].
    + apply ShWhole. rewrite Hm. reflexivity.
    + inversion Hok as [|? ? Hx _]; subst. unfold range_ok in Hx. cbn [fst snd] in Hx.
      eapply ShPartial with (s := s) (e := s + n - 1); [lia|lia|lia|].
      unfold partial_resp. rewrite Hm. unfold mk_resp, body_of.
      replace (s + n - 1 - s + 1) with n by lia. reflexivity.
Qed.

(** every response of the defect-free model — for ANY header, valid or not — has one of three shapes *)
Lemma model_off_shape q : 0 <= q_size q -> shape q (model flags_off q).
Proof.
  intro Hsz. destruct (specs_of q) as [sps|] eqn:Hsp.
  - rewrite (model_is_ideal q sps Hsz Hsp). apply ideal_shape; [eapply specs_of_wf; eauto|exact Hsz].
  - destruct (q_inm q) eqn:Hinm.
    + unfold model. rewrite Hinm. eapply ShOther; [reflexivity|left; auto].
    + destruct (q_meth q) eqn:Hm.
      * rewrite (model_invalid_get _ q Hinm Hm Hsp). eapply ShOther; [reflexivity|right; left; auto].
      * unfold model. rewrite Hinm, Hm. apply serve_head_shape; assumption.
Qed.

(** ---------- normal forms of the two successful responses ---------- *)
Lemma whole_resp_GET size : 0 <= size ->
  whole_resp GET size = {| r_status := 200; r_cr := CRNone; r_cl := Some size; r_bpos := 0; r_blen := size |}.
Proof. intro H. unfold whole_resp, mk_resp, body_of. f_equal; lia. Qed.

Lemma whole_resp_HEAD size :
  whole_resp HEAD size = {| r_status := 200; r_cr := CRNone; r_cl := Some size; r_bpos := 0; r_blen := 0 |}.
Proof. reflexivity. Qed.

Lemma partial_resp_GET size s e : 0 <= s -> s <= e -> e < size ->
  partial_resp GET size s e =
  {| r_status := 206; r_cr := CRRange s e size; r_cl := Some (e - s + 1); r_bpos := s; r_blen := e - s + 1 |}.
Proof. intros H1 H2 H3. unfold partial_resp, mk_resp, body_of. f_equal; lia. Qed.

Lemma partial_resp_HEAD size s e :
  partial_resp HEAD size s e =
  {| r_status := 206; r_cr := CRRange s e size; r_cl := Some (e - s + 1); r_bpos := 0; r_blen := 0 |}.
Proof. reflexivity. Qed.

(** ---------- consistency, in bytes ---------- *)
Definition body (file : list Z) (r : resp) : list Z :=
  firstn (Z.to_nat (r_blen r)) (skipn (Z.to_nat (r_bpos r)) file).
Definition slice (file : list Z) (s e : Z) : list Z :=
  firstn (Z.to_nat (e - s + 1)) (skipn (Z.to_nat s) file).

Definition resp_consistent (q : req) (file : list Z) (r : resp) : Prop :=
  (r_status r = 200 ->
     r_cr r = CRNone /\ r_cl r = Some (q_size q) /\
     body file r = match q_meth q with GET => file | HEAD => [] end) /\
  (r_status r = 206 ->
     exists s e, 0 <= s /\ s <= e /\ e < q_size q /\
       r_cr r = CRRange s e (q_size q) /\ r_cl r = Some (e - s + 1) /\
       body file r = match q_meth q with GET => slice file s e | HEAD => [] end /\
       (q_meth q = GET -> Z.of_nat (length (body file r)) = e - s + 1)) /\
  (r_status r = 200 \/ r_status r = 206 \/ r_status r = 304 \/ r_status r = 400 \/ r_status r = 416).

Lemma shape_consistent q file r : q_size q = Z.of_nat (length file) -> shape q r -> resp_consistent q file r.
Proof.
  intros Hlen Hsh. assert (Hsz : 0 <= q_size q) by lia.
  unfold resp_consistent, body, slice.
  destruct Hsh as [Hr|s e H1 H2 H3 Hr|st cr Hr Hst]; subst r.
  - destruct (q_meth q).
    + rewrite (whole_resp_GET _ Hsz). cbn [r_status r_cr r_cl r_bpos r_blen].
      split; [intros _|split; [discriminate|auto]].
      split; [reflexivity|]. split; [reflexivity|].
      rewrite Hlen. change (Z.to_nat 0) with 0%nat. cbn [skipn]. rewrite Nat2Z.id. apply firstn_all.
    + rewrite whole_resp_HEAD. cbn [r_status r_cr r_cl r_bpos r_blen].
      split; [intros _|split; [discriminate|auto]].
      split; [reflexivity|]. split; reflexivity.
  - destruct (q_meth q).
    + rewrite (partial_resp_GET _ _ _ H1 H2 H3).
      cbn [r_status r_cr r_cl r_bpos r_blen].
      split; [discriminate|]. split; [intros _|auto].
      exists s, e. split; [exact H1|]. split; [exact H2|]. split; [exact H3|].
      split; [reflexivity|]. split; [reflexivity|]. split; [reflexivity|]. intros _.
      rewrite firstn_length, skipn_length. lia.
    + rewrite partial_resp_HEAD.
      cbn [r_status r_cr r_cl r_bpos r_blen].
      split; [discriminate|]. split; [intros _|auto].
      exists s, e. split; [exact H1|]. split; [exact H2|]. split; [exact H3|].
      split; [reflexivity|]. split; [reflexivity|]. split; [reflexivity|]. discriminate.
  - cbn [err_resp r_status].
    assert (Hst' : st = 304 \/ st = 400 \/ st = 416) by (destruct Hst as [[? _]|[[? _]|[? _]]]; auto).
    split; [intro; lia|]. split; [intro; lia|lia].
Qed.

Lemma consistent_thm q file : q_size q = Z.of_nat (length file) -> resp_consistent q file (model flags_off q).
Proof. intro H. apply shape_consistent; [exact H|]. apply model_off_shape. lia. Qed.

(** ---------- the response is the requested one ---------- *)
Definition eff_specs (q : req) (sps : list rspec) : list rspec :=
  match q_ifr q with IfrFalse => [] | _ => sps end.

Lemma single_range_fits size sps s e : Forall wf_spec sps -> 0 <= size ->
  sats size sps = [(s, e)] -> total [(s, e)] <= size.
Proof.
  intros Hwf Hsz Hs. pose proof (sats_in_file size sps Hwf Hsz) as Hin. rewrite Hs in Hin.
  inversion Hin as [|? ? Hx _]; subst. cbn [fst snd total] in *. lia.
Qed.

Lemma requested_thm q sps : 0 <= q_size q -> specs_of q = Some sps -> q_inm q = false ->
  let r := model flags_off q in
  match sats (q_size q) (eff_specs q sps) with
  | [] => if match eff_specs q sps with [] => true | _ => q_size q =? 0 end
          then r = whole_resp (q_meth q) (q_size q)
          else r = err_resp 416 (CRStar (q_size q))
  | (s, e) :: rest =>
      r = partial_resp (q_meth q) (q_size q) s e \/
      (rest <> [] /\ q_size q < total ((s, e) :: rest) /\ r = whole_resp (q_meth q) (q_size q))
  end.
Proof.
  intros Hsz Hsp Hinm. cbv zeta. rewrite (model_is_ideal q sps Hsz Hsp). unfold ideal. rewrite Hinm.
  fold (eff_specs q sps).
  assert (Hwf : Forall wf_spec (eff_specs q sps)).
  { unfold eff_specs. pose proof (specs_of_wf q sps Hsp). destruct (q_ifr q); auto. }
  destruct (eff_specs q sps) as [|sp0 eff'] eqn:Eeff; [reflexivity|].
  destruct (sats (q_size q) (sp0 :: eff')) as [|[s e] rest] eqn:Es.
  - destruct (q_size q =? 0); reflexivity.
  - destruct (q_size q <? total ((s, e) :: rest)) eqn:Et; [|left; reflexivity].
    apply Z.ltb_lt in Et. right. split; [|split; [exact Et|reflexivity]].
    intro Hrest. subst rest. pose proof (single_range_fits _ _ _ _ Hwf Hsz Es). lia.
Qed.

Lemma status_416_iff q sps : 0 <= q_size q -> specs_of q = Some sps -> q_inm q = false ->
  (r_status (model flags_off q) = 416 <->
   (eff_specs q sps <> [] /\ sats (q_size q) (eff_specs q sps) = [] /\ 0 < q_size q)).
Proof.
  intros Hsz Hsp Hinm. pose proof (requested_thm q sps Hsz Hsp Hinm) as H. cbv zeta in H.
  destruct (sats (q_size q) (eff_specs q sps)) as [|[s e] rest] eqn:Es.
  - destruct (eff_specs q sps) as [|sp0 eff'] eqn:Eeff.
    + rewrite H. split; [|intros [Hc _]; congruence].
      destruct (q_meth q); cbn; discriminate.
    + destruct (q_size q =? 0) eqn:E0; rewrite H.
      * apply Z.eqb_eq in E0. split; [destruct (q_meth q); cbn; discriminate|]. intros [_ [_ Hc]]. lia.
      * apply Z.eqb_neq in E0. cbn [err_resp r_status]. split; [intros _|reflexivity].
        split; [discriminate|]. split; [reflexivity|lia].
  - split; [|intros [_ [Hc _]]; discriminate].
    destruct H as [H|[_ [_ H]]]; rewrite H; destruct (q_meth q); cbn; discriminate.
Qed.

(** ---------- HEAD ---------- *)
Lemma head_no_body fl q : q_meth q = HEAD -> r_blen (model fl q) = 0.
Proof.
  intro Hm. unfold model. destruct (q_inm q); [reflexivity|]. rewrite Hm. unfold serve. rewrite Hm.
  repeat match goal with
         | |- context [match ?x with _ => _ end] => destruct x
         end; reflexivity.
Qed.

Definition with_meth (m : meth) (q : req) : req :=
  {| q_meth := m; q_size := q_size q; q_range := q_range q; q_ifr := q_ifr q; q_inm := q_inm q |}.

Lemma head_same_headers q sps : 0 <= q_size q -> specs_of q = Some sps ->
  let rh := model flags_off (with_meth HEAD q) in
  let rg := model flags_off (with_meth GET q) in
  r_status rh = r_status rg /\ r_cr rh = r_cr rg /\ r_cl rh = r_cl rg.
Proof.
  intros Hsz Hsp. cbv zeta.
  rewrite (model_is_ideal (with_meth HEAD q) sps Hsz Hsp), (model_is_ideal (with_meth GET q) sps Hsz Hsp).
  unfold ideal. cbn [with_meth q_meth q_size q_range q_ifr q_inm].
  destruct (q_inm q); [repeat split|].
  destruct (match q_ifr q with IfrFalse => [] | _ => sps end) as [|sp0 eff']; [repeat split|].
  destruct (sats (q_size q) (sp0 :: eff')) as [|[s e] rest].
  - destruct (q_size q =? 0); repeat split.
  - destruct (q_size q <? total ((s, e) :: rest)); repeat split.
Qed.

(** ---------- the checker's specification function holds of the defect-free model, for every request ---------- *)
Lemma is_whole_whole q : 0 <= q_size q -> is_whole q (obs_of_resp (whole_resp (q_meth q) (q_size q))) = true.
Proof.
  intro Hsz. unfold is_whole, body_is. destruct (q_meth q).
  - rewrite (whole_resp_GET _ Hsz). cbn [obs_of_resp r_status r_cr r_cl r_bpos r_blen o_status o_cr o_cl o_blen o_match
                                          crange_eqb optZ_eqb memZ].
    rewrite !Z.eqb_refl. cbn [andb]. apply orb_true_r.
  - rewrite whole_resp_HEAD. cbn [obs_of_resp r_status r_cr r_cl r_bpos r_blen o_status o_cr o_cl o_blen o_match
                                  crange_eqb optZ_eqb].
    rewrite !Z.eqb_refl. reflexivity.
Qed.

Lemma is_partial_partial q s e : 0 <= s -> s <= e -> e < q_size q ->
  is_partial q (obs_of_resp (partial_resp (q_meth q) (q_size q) s e)) s e = true.
Proof.
  intros H1 H2 H3. unfold is_partial, body_is. destruct (q_meth q).
  - rewrite (partial_resp_GET _ _ _ H1 H2 H3).
    cbn [obs_of_resp r_status r_cr r_cl r_bpos r_blen o_status o_cr o_cl o_blen o_match crange_eqb optZ_eqb memZ].
    rewrite !Z.eqb_refl. cbn [andb]. apply orb_true_r.
  - rewrite partial_resp_HEAD.
    cbn [obs_of_resp r_status r_cr r_cl r_bpos r_blen o_status o_cr o_cl o_blen o_match crange_eqb optZ_eqb].
    rewrite !Z.eqb_refl. reflexivity.
Qed.

Lemma status_whole m size : r_status (whole_resp m size) = 200.
Proof. destruct m; reflexivity. Qed.
Lemma status_partial m size s e : r_status (partial_resp m size s e) = 206.
Proof. destruct m; reflexivity. Qed.
Lemma cr_partial m size s e : r_cr (partial_resp m size s e) = CRRange s e size.
Proof. destruct m; reflexivity. Qed.

Lemma shape_consistent_b q r : 0 <= q_size q -> shape q r -> consistent q (obs_of_resp r) = true.
Proof.
  intros Hsz Hsh. unfold consistent.
  destruct Hsh as [Hr|s e H1 H2 H3 Hr|st cr Hr Hst]; subst r.
  - change (o_status (obs_of_resp ?r)) with (r_status r). rewrite status_whole.
    change (200 =? 200) with true. cbv iota. apply is_whole_whole. exact Hsz.
  - change (o_status (obs_of_resp ?r)) with (r_status r). rewrite status_partial.
    change (206 =? 200) with false. change (206 =? 206) with true. cbv iota.
    change (o_cr (obs_of_resp ?r)) with (r_cr r). rewrite cr_partial.
    rewrite is_partial_partial by assumption.
    replace (0 <=? s) with true by (symmetry; apply Z.leb_le; lia).
    replace (s <=? e) with true by (symmetry; apply Z.leb_le; lia).
    replace (e <? q_size q) with true by (symmetry; apply Z.ltb_lt; lia).
    reflexivity.
  - cbn [obs_of_resp err_resp r_status r_cr r_cl r_bpos r_blen o_status o_cr o_cl o_blen o_match].
    destruct Hst as [[Hst [_ Hcr]]|[[Hst Hcr]|[Hst Hcr]]]; subst st.
    + subst cr. reflexivity.
    + reflexivity.
    + change (416 =? 200) with false. change (416 =? 206) with false. change (416 =? 304) with false.
      change (416 =? 416) with true. cbv iota.
      destruct Hcr as [Hcr|[Hcr Hpos]]; subst cr; [reflexivity|].
      cbn [crange_eqb]. rewrite Z.eqb_refl.
      replace (0 <? q_size q) with true by (symmetry; apply Z.ltb_lt; lia). reflexivity.
Qed.

Lemma requested_ideal q sps : 0 <= q_size q -> specs_of q = Some sps ->
  requested q (obs_of_resp (ideal q sps)) = true.
Proof.
  intros Hsz Hsp. unfold requested, ideal.
  destruct (q_inm q) eqn:Hinm; [reflexivity|].
  pose proof (specs_of_wf q sps Hsp) as Hwf0.
  assert (Hw : is_whole q (obs_of_resp (whole_resp (q_meth q) (q_size q))) = true) by (apply is_whole_whole; exact Hsz).
  assert (Hw304 : (o_status (obs_of_resp (whole_resp (q_meth q) (q_size q))) =? 304) = false)
    by (change (o_status (obs_of_resp ?r)) with (r_status r); rewrite status_whole; reflexivity).
  assert (Hw400 : (o_status (obs_of_resp (whole_resp (q_meth q) (q_size q))) =? 400) = false)
    by (change (o_status (obs_of_resp ?r)) with (r_status r); rewrite status_whole; reflexivity).
  unfold specs_of in Hsp.
  destruct (q_range q) as [|c r] eqn:Er.
  - inversion Hsp; subst sps. destruct (q_ifr q); cbv iota; rewrite Hw304; exact Hw.
  - rewrite Hsp.
    destruct (q_ifr q) eqn:Eifr.
    3: { cbv iota. rewrite Hw304, Hw400. exact Hw. }
    all: destruct sps as [|sp0 sps']; [cbv iota; rewrite Hw304, Hw400; exact Hw|].
    all: pose proof (sats_in_file (q_size q) _ Hwf0 Hsz) as Hin.
    all: destruct (sats (q_size q) (sp0 :: sps')) as [|[s e] rest] eqn:Es.
    1,3: destruct (q_size q =? 0) eqn:E0; [rewrite Hw304, Hw400; exact Hw|];
         cbn [obs_of_resp err_resp r_status r_cr r_cl r_bpos r_blen o_status o_cr o_cl o_blen o_match crange_eqb];
         change (416 =? 304) with false; change (416 =? 400) with false; cbv iota;
         rewrite !Z.eqb_refl; reflexivity.
    all: destruct (q_size q <? total ((s, e) :: rest)) eqn:Et.
    1,3: rewrite Hw304, Hw400, Hw; apply Z.ltb_lt in Et;
         destruct rest as [|x rest']; [|apply orb_true_r];
         pose proof (single_range_fits _ _ _ _ Hwf0 Hsz Es); lia.
    all: inversion Hin as [|? ? Hx _]; subst; cbn [fst snd] in Hx;
         change (o_status (obs_of_resp ?r)) with (r_status r); rewrite status_partial;
         change (206 =? 304) with false; change (206 =? 400) with false; cbv iota;
         rewrite is_partial_partial by lia; reflexivity.
Qed.

Lemma spec_ok_off q : 0 <= q_size q -> spec_ok q (obs_of_resp (model flags_off q)) = true.
Proof.
  intro Hsz. unfold spec_ok.
  rewrite (shape_consistent_b q _ Hsz (model_off_shape q Hsz)). cbn [andb].
  destruct (specs_of q) as [sps|] eqn:Hsp.
  - rewrite (model_is_ideal q sps Hsz Hsp). apply requested_ideal; assumption.
  - (* the header is not a valid byte-range set: anything consistent is accepted, except a 304 *)
    unfold requested.
    destruct (q_inm q) eqn:Hinm; [unfold model; rewrite Hinm; reflexivity|].
    assert (H304 : (o_status (obs_of_resp (model flags_off q)) =? 304) = false).
    { change (o_status (obs_of_resp ?r)) with (r_status r).
      destruct (model_off_shape q Hsz) as [Hr|s e _ _ _ Hr|st cr Hr Hst]; rewrite Hr.
      - rewrite status_whole. reflexivity.
      - rewrite status_partial. reflexivity.
      - cbn [err_resp r_status]. destruct Hst as [[_ [Hc _]]|[[Hst _]|[Hst _]]]; [congruence|subst st; reflexivity..]. }
    rewrite H304. unfold specs_of in Hsp.
    destruct (q_range q) as [|c r]; [discriminate|]. rewrite Hsp. reflexivity.
Qed.

(** ---------- the defects: each switch alone breaks the specification on a concrete request ---------- *)
Definition only (k : nat) : flags :=
  Build_flags (Nat.eqb k 1) (Nat.eqb k 2) (Nat.eqb k 3) (Nat.eqb k 4) (Nat.eqb k 5).

Definition mkq (m : meth) (size : Z) (h : string) (i : ifrange) : req :=
  {| q_meth := m; q_size := size; q_range := s2l h; q_ifr := i; q_inm := false |}.

Definition witness (k : nat) : req :=
  match k with
  | 1%nat => mkq GET 10 "bytes=100-,2-5" IfrNone
  | 2%nat => mkq GET 10 "bytes=5-" IfrFalse
  | 3%nat => mkq GET 10 "bytes=5-9,0-9" IfrNone
  | 4%nat => mkq GET 10 "bytes=-20" IfrNone
  | _ => mkq GET 10 "bytes=-0" IfrNone
  end.

(* the answer of the code as it is (all switches on) to the witness is the one of the model with only switch k on
   (up to the position of an empty body), that answer
   violates the specification, the defect-free answer meets it *)
Definition refutes (k : nat) : Prop :=
  let q := witness k in
  explains q (obs_of_resp (model flags_code q)) (only k) = true /\
  spec_ok q (obs_of_resp (model (only k) q)) = false /\
  spec_ok q (obs_of_resp (model flags_off q)) = true.

Lemma refuted_1 : refutes 1 /\ model flags_code (witness 1) =
  {| r_status := 206; r_cr := CRRange 2 5 10; r_cl := Some 4; r_bpos := 10; r_blen := 0 |}.
Proof. vm_compute. repeat split. Qed.
Lemma refuted_2 : refutes 2 /\ model flags_code (witness 2) =
  {| r_status := 200; r_cr := CRNone; r_cl := Some 10; r_bpos := 5; r_blen := 5 |}.
Proof. vm_compute. repeat split. Qed.
Lemma refuted_3 : refutes 3 /\ model flags_code (witness 3) =
  {| r_status := 200; r_cr := CRNone; r_cl := Some 10; r_bpos := 5; r_blen := 5 |}.
Proof. vm_compute. repeat split. Qed.
Lemma refuted_4 : refutes 4 /\ model flags_code (witness 4) = err_resp 500 CRNone.
Proof. vm_compute. repeat split. Qed.
Lemma refuted_5 : refutes 5 /\ model flags_code (witness 5) =
  {| r_status := 206; r_cr := CRRange 10 9 10; r_cl := Some 0; r_bpos := 0; r_blen := 0 |}.
Proof. vm_compute. repeat split. Qed.
