(** C36 — proofs about the decision-engine model [M_C36], part 3:
    the order in which handleOverflow (defect 1 off) evicts and admits. *)
From Coq Require Import List ZArith Bool NArith Arith Lia Permutation Sorted.
From V Require Import lib.Verdict model.M_C36 proofs.P_C36.
Import ListNotations.
Open Scope Z_scope.

(** ---------- insertion sort ---------- *)
Section SortFacts.
  Context {A : Type} (key : A -> Z).
  Definition kle (a b : A) : Prop := key a <= key b.

  Lemma insert_perm x l : Permutation (insert key x l) (x :: l).
  Proof.
    induction l as [|y r IH]; cbn [insert]; [reflexivity|].
    destruct (key x <=? key y); [reflexivity|].
    eapply Permutation_trans; [apply perm_skip, IH|apply perm_swap].
  Qed.
  Lemma isort_perm l : Permutation (isort key l) l.
  Proof.
    unfold isort. induction l as [|x r IH]; cbn [fold_right]; [reflexivity|].
    eapply Permutation_trans; [apply insert_perm|apply perm_skip, IH].
  Qed.

  Lemma insert_sorted x l : StronglySorted kle l -> StronglySorted kle (insert key x l).
  Proof.
    induction l as [|y r IH]; intros H; cbn [insert].
    - repeat constructor.
    - apply StronglySorted_inv in H. destruct H as [Hr Hy].
      destruct (key x <=? key y) eqn:E.
      + apply Z.leb_le in E. constructor; [constructor; assumption|].
        constructor; [exact E|]. eapply Forall_impl; [|exact Hy]. intros a Ha. unfold kle in *. lia.
      + apply Z.leb_gt in E. constructor; [apply IH, Hr|].
        apply Forall_forall. intros a Ha. apply (Permutation_in _ (insert_perm x r)) in Ha.
        destruct Ha as [<-|Ha]; [unfold kle; lia|]. rewrite Forall_forall in Hy. apply Hy, Ha.
  Qed.
  Lemma isort_sorted l : StronglySorted kle (isort key l).
  Proof. unfold isort. induction l as [|x r IH]; cbn [fold_right]; [constructor|apply insert_sorted, IH]. Qed.

  Lemma SS_app l1 l2 : StronglySorted kle (l1 ++ l2) ->
    StronglySorted kle l1 /\ StronglySorted kle l2 /\ forall x y, In x l1 -> In y l2 -> kle x y.
  Proof.
    induction l1 as [|a r IH]; cbn [app]; intros H.
    - split; [constructor|split; [exact H|intros x y []]].
    - apply StronglySorted_inv in H. destruct H as [Hr Ha]. destruct (IH Hr) as (I1 & I2 & I3).
      rewrite Forall_forall in Ha. split; [|split; [exact I2|]].
      + constructor; [exact I1|]. apply Forall_forall. intros x Hx. apply Ha, in_or_app. left; exact Hx.
      + intros x y [<-|Hx] Hy; [apply Ha, in_or_app; right; exact Hy|apply I3; assumption].
  Qed.
End SortFacts.

Lemma SS_nth {A} (R : A -> A -> Prop) (l : list A) d : StronglySorted R l ->
  forall i j, (i < j)%nat -> (j < length l)%nat -> R (nth i l d) (nth j l d).
Proof.
  induction l as [|a r IH]; intros H i j Hij Hj; cbn [length] in Hj; [lia|].
  apply StronglySorted_inv in H. destruct H as [Hr Ha].
  destruct j as [|j]; [lia|]. destruct i as [|i]; cbn [nth].
  - rewrite Forall_forall in Ha. apply Ha, nth_In. lia.
  - apply IH; [exact Hr|lia|lia].
Qed.

(** ---------- phase 1 ---------- *)
Lemma phase1_facts bl : forall ex ov,
  StronglySorted (kle eprio) ex ->
  let '(pr, kept, rest) := phase1 bl ex ov in
  Permutation ex (map fst pr ++ kept) /\
  ov = map snd pr ++ rest /\
  Forall (fun e => bl (fst e) = true) (map fst pr) /\
  (rest <> [] -> Forall (fun k => bl (fst k) = false) kept) /\
  StronglySorted (kle eprio) kept /\
  (forall e k, In e (map fst pr) -> In k kept -> bl (fst k) = true -> eprio e <= eprio k).
Proof.
  induction ex as [|w ex' IH]; intros ov Hs; destruct ov as [|o ov']; cbn [phase1].
  - cbn [map app]. split; [reflexivity|split; [reflexivity|split; [constructor|split; [intros _; constructor|split; [constructor|intros e k []]]]]].
  - cbn [map app]. split; [reflexivity|split; [reflexivity|split; [constructor|split; [intros _; constructor|split; [constructor|intros e k []]]]]].
  - cbn [map app]. split; [reflexivity|split; [reflexivity|split; [constructor|split; [intros Hr; congruence|split; [exact Hs|intros e k []]]]]].
  - apply StronglySorted_inv in Hs. destruct Hs as [Hs' Hw].
    destruct (bl (fst w)) eqn:Bw.
    + specialize (IH ov' Hs'). destruct (phase1 bl ex' ov') as [[pr kept] rest].
      destruct IH as (I1 & I2 & I3 & I4 & I5 & I6). cbn [map fst snd app].
      split; [apply perm_skip, I1|]. split; [rewrite I2; reflexivity|].
      split; [constructor; assumption|]. split; [exact I4|]. split; [exact I5|].
      intros e k [<-|He] Hk Hb; [|apply I6; assumption].
      rewrite Forall_forall in Hw. apply Hw. apply (Permutation_in _ (Permutation_sym I1)).
      apply in_or_app. right; exact Hk.
    + specialize (IH (o :: ov') Hs'). destruct (phase1 bl ex' (o :: ov')) as [[pr kept] rest].
      destruct IH as (I1 & I2 & I3 & I4 & I5 & I6).
      split; [eapply Permutation_trans; [apply perm_skip, I1|apply Permutation_middle]|].
      split; [exact I2|]. split; [exact I3|].
      split; [intros Hr; constructor; [exact Bw|apply I4, Hr]|].
      split.
      * constructor; [exact I5|]. apply Forall_forall. intros k Hk. rewrite Forall_forall in Hw. apply Hw.
        apply (Permutation_in _ (Permutation_sym I1)). apply in_or_app. right; exact Hk.
      * intros e k He [<-|Hk] Hb; [congruence|apply I6; assumption].
Qed.

(** ---------- phase 2 ---------- *)
Lemma phase2_facts : forall kept ov,
  let pr := phase2 kept ov in
  let n := length pr in
  map fst pr = firstn n kept /\ map snd pr = firstn n ov /\
  Forall (fun eo => eprio (fst eo) <= w_prio (snd eo)) pr /\
  match skipn n ov, skipn n kept with
  | r :: _, k :: _ => w_prio r < eprio k
  | _, _ => True
  end.
Proof.
  induction kept as [|k kept' IH]; intros ov; destruct ov as [|o ov']; cbn [phase2]; cbn zeta.
  - cbn. auto.
  - cbn. auto.
  - cbn. auto.
  - destruct (w_prio o <? eprio k) eqn:E.
    + cbn. apply Z.ltb_lt in E. auto.
    + apply Z.ltb_ge in E. specialize (IH ov'). cbn zeta in IH. destruct IH as (I1 & I2 & I3 & I4).
      cbn [length map fst snd firstn skipn]. rewrite I1, I2.
      split; [reflexivity|]. split; [reflexivity|]. split; [constructor; [cbn [fst snd]; lia|exact I3]|exact I4].
Qed.

(** ---------- the specification of the eviction order ---------- *)
Definition plan_ok (present : cid -> bool) (l0 : list (cid * lent)) (ov : list want)
           (plan : list ((cid * lent) * want)) : Prop :=
  exists kept rej,
    let evicted := map fst plan in
    let admitted := map snd plan in
    (* every existing want is either evicted or kept, every newcomer admitted or rejected *)
    Permutation l0 (evicted ++ kept) /\ Permutation ov (admitted ++ rej) /\
    (* wants without a local block go first *)
    ((exists e, In e evicted /\ present (fst e) = true) -> forall k, In k kept -> present (fst k) = true) /\
    (* within each class the lowest priorities go first *)
    (forall e k, In e evicted -> In k kept -> present (fst e) = present (fst k) -> eprio e <= eprio k) /\
    (* the best newcomers are admitted *)
    (forall a r, In a admitted -> In r rej -> w_prio r <= w_prio a) /\
    (* no want evicted for priority outranks an admitted newcomer *)
    (forall e a, In e evicted -> present (fst e) = true -> In a admitted -> eprio e <= w_prio a) /\
    (* a newcomer is rejected only when every remaining want has a block and outranks it *)
    (forall r k, In r rej -> In k kept -> present (fst k) = true /\ w_prio r < eprio k).

Lemma firstn_skipn_In {A} n (l : list A) x : In x l <-> In x (firstn n l) \/ In x (skipn n l).
Proof. rewrite <- (firstn_skipn n l) at 1. apply in_app_iff. Qed.

Lemma neg_sorted_desc l : StronglySorted (kle (fun w => - w_prio w)) l ->
  forall l1 l2, l = l1 ++ l2 -> forall a r, In a l1 -> In r l2 -> w_prio r <= w_prio a.
Proof.
  intros H l1 l2 -> a r Ha Hr. destruct (SS_app _ _ _ H) as (_ & _ & H3).
  specialize (H3 a r Ha Hr). unfold kle in H3. lia.
Qed.

Theorem overflow_order g b l0 ov :
  plan_ok (fun c => nmem c b) l0 ov (overflow_plan flags_off g b l0 ov).
Proof.
  unfold overflow_plan. cbn [f_sort_desc flags_off].
  set (present := fun c => nmem c b).
  assert (Hbl : forall c, negb (sized flags_off g b c) = negb (present c)).
  { intros c. unfold sized, present. cbn [f_zero_absent flags_off negb orb]. rewrite andb_true_r. reflexivity. }
  set (ovs := isort (fun w => - w_prio w) ov). set (ex := isort eprio l0).
  pose proof (isort_sorted eprio l0) as Sex. fold ex in Sex.
  pose proof (isort_sorted (fun w => - w_prio w) ov) as Sov. fold ovs in Sov.
  pose proof (phase1_facts (fun c => negb (sized flags_off g b c)) ex ovs Sex) as P1.
  destruct (phase1 (fun c => negb (sized flags_off g b c)) ex ovs) as [[pr1 kept1] rest1].
  destruct P1 as (A1 & A2 & A3 & A4 & A5 & A6).
  pose proof (phase2_facts kept1 rest1) as P2. cbn zeta in P2.
  set (pr2 := phase2 kept1 rest1) in *. set (n := length pr2) in *.
  destruct P2 as (B1 & B2 & B3 & B4).
  exists (skipn n kept1), (skipn n rest1). cbn zeta. rewrite !map_app, B1, B2.
  (* all of kept1 has a block as soon as something is left over after phase 1 *)
  assert (Hk1 : rest1 <> [] -> forall k, In k kept1 -> present (fst k) = true).
  { intros Hr k Hk. specialize (A4 Hr). rewrite Forall_forall in A4. specialize (A4 k Hk).
    rewrite Hbl in A4. apply negb_false_iff in A4. exact A4. }
  assert (Hpr2 : forall x, In x (firstn n kept1) -> n <> 0%nat -> rest1 <> []).
  { intros x _ Hn Hr. subst n pr2. rewrite Hr in Hn. destruct kept1; cbn in Hn; congruence. }
  assert (Hn0 : forall {X} (x : X) l, In x (firstn n l) -> n <> 0%nat).
  { intros X x l Hx Hn. rewrite Hn in Hx. destruct Hx. }
  assert (Hev1 : forall e, In e (map fst pr1) -> present (fst e) = false).
  { intros e He. rewrite Forall_forall in A3. specialize (A3 e He). rewrite Hbl in A3.
    apply negb_true_iff in A3. exact A3. }
  split; [|split; [|split; [|split; [|split; [|split]]]]].
  - (* partition of the existing wants *)
    eapply Permutation_trans; [apply Permutation_sym, (isort_perm eprio l0)|]. fold ex.
    eapply Permutation_trans; [exact A1|]. rewrite <- app_assoc. apply Permutation_app_head.
    rewrite firstn_skipn. reflexivity.
  - (* partition of the newcomers *)
    eapply Permutation_trans; [apply Permutation_sym, (isort_perm (fun w => - w_prio w) ov)|]. fold ovs.
    rewrite A2, <- app_assoc, firstn_skipn. reflexivity.
  - intros (e & He & Hp) k Hk. apply in_app_or in He. destruct He as [He|He].
    + rewrite (Hev1 e He) in Hp. discriminate.
    + apply Hk1; [eapply Hpr2; eauto|]. apply (firstn_skipn_In n). right; exact Hk.
  - intros e k He Hk Hsame. apply in_app_or in He. destruct He as [He|He].
    + apply A6; [exact He|apply (firstn_skipn_In n); right; exact Hk|].
      rewrite Hbl. rewrite <- Hsame, (Hev1 e He). reflexivity.
    + rewrite <- (firstn_skipn n kept1) in A5. destruct (SS_app _ _ _ A5) as (_ & _ & H3).
      apply (H3 e k He Hk).
  - intros a r Ha Hr.
    assert (Hovs : ovs = (map snd pr1 ++ firstn n rest1) ++ skipn n rest1).
    { rewrite <- app_assoc, firstn_skipn. exact A2. }
    eapply (neg_sorted_desc ovs Sov _ _ Hovs); eauto.
  - intros e a He Hp Ha. apply in_app_or in He. destruct He as [He|He]; [rewrite (Hev1 e He) in Hp; discriminate|].
    (* e is the j-th replaced want *)
    assert (Hpair : forall j, (j < n)%nat ->
              eprio (nth j (firstn n kept1) e) <= w_prio (nth j (firstn n rest1) a)).
    { intros j Hj. rewrite <- B1, <- B2.
      pose proof (map_nth fst pr2 (e, a) j) as F1. pose proof (map_nth snd pr2 (e, a) j) as F2.
      cbn [fst snd] in F1, F2. rewrite F1, F2.
      rewrite Forall_forall in B3. apply B3. apply nth_In. exact Hj. }
    destruct (In_nth _ _ e He) as (j & Hj & Ej).
    assert (Hjn : (j < n)%nat). { rewrite <- B1, map_length in Hj. exact Hj. }
    assert (Sk : StronglySorted (kle eprio) (firstn n kept1)).
    { rewrite <- (firstn_skipn n kept1) in A5. apply (SS_app _ _ _ A5). }
    assert (Sr : StronglySorted (kle (fun w => - w_prio w)) (map snd pr1 ++ firstn n rest1)).
    { assert (Hovs : ovs = (map snd pr1 ++ firstn n rest1) ++ skipn n rest1)
        by (rewrite <- app_assoc, firstn_skipn; exact A2).
      rewrite Hovs in Sov. apply (SS_app _ _ _ Sov). }
    assert (Lk : length (firstn n kept1) = n) by (rewrite <- B1, map_length; reflexivity).
    assert (Lr : length (firstn n rest1) = n) by (rewrite <- B2, map_length; reflexivity).
    (* position of a *)
    apply in_app_or in Ha. destruct Ha as [Ha|Ha].
    + (* admitted in phase 1: ahead of every phase-2 newcomer *)
      destruct (SS_app _ _ _ Sr) as (_ & _ & H3).
      specialize (H3 a (nth j (firstn n rest1) a) Ha ltac:(apply nth_In; lia)). unfold kle in H3.
      specialize (Hpair j Hjn). rewrite Ej in Hpair. lia.
    + destruct (In_nth _ _ a Ha) as (i & Hi & Ei). rewrite Lr in Hi.
      destruct (Nat.le_gt_cases i j) as [Hij|Hij].
      * (* a comes no later than the newcomer that replaced e *)
        specialize (Hpair j Hjn). rewrite Ej in Hpair.
        assert (w_prio (nth j (firstn n rest1) a) <= w_prio a).
        { destruct (Nat.eq_dec i j) as [->|Hne]; [rewrite Ei; lia|].
          destruct (SS_app _ _ _ Sr) as (_ & S2 & _).
          pose proof (SS_nth _ _ a S2 i j ltac:(lia) ltac:(lia)) as H3. rewrite Ei in H3. unfold kle in H3. lia. }
        lia.
      * (* a replaced a later, hence at least as important, existing want *)
        specialize (Hpair i Hi). rewrite Ei in Hpair.
        pose proof (SS_nth _ _ e Sk j i ltac:(lia) ltac:(lia)) as H3. rewrite Ej in H3. unfold kle in H3.
        lia.
  - intros r k Hr Hk.
    assert (Hrest : rest1 <> []). { intros E. rewrite E in Hr. destruct n; destruct Hr. }
    split; [apply Hk1; [exact Hrest|apply (firstn_skipn_In n); right; exact Hk]|].
    destruct (skipn n rest1) as [|r0 rr] eqn:Er; [destruct Hr|].
    destruct (skipn n kept1) as [|k0 kk] eqn:Ek; [destruct Hk|].
    assert (w_prio r <= w_prio r0).
    { destruct Hr as [<-|Hr]; [lia|].
      assert (Hovs : ovs = ((map snd pr1 ++ firstn n rest1) ++ [r0]) ++ rr).
      { rewrite <- !app_assoc. cbn [app]. rewrite <- Er, firstn_skipn. exact A2. }
      eapply (neg_sorted_desc ovs Sov _ _ Hovs); [apply in_or_app; right; left; reflexivity|exact Hr]. }
    assert (eprio k0 <= eprio k).
    { destruct Hk as [<-|Hk]; [lia|].
      assert (Hsplit : kept1 = (firstn n kept1 ++ [k0]) ++ kk).
      { rewrite <- app_assoc. cbn [app]. rewrite <- Ek, firstn_skipn. reflexivity. }
      rewrite Hsplit in A5. destruct (SS_app _ _ _ A5) as (_ & _ & H3).
      apply (H3 k0 k); [apply in_or_app; right; left; reflexivity|exact Hk]. }
    lia.
Qed.
