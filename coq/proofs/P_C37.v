(** C37 — proofs about the request-path model [M_C37]. *)
From Coq Require Import List Bool Arith Lia.
From V Require Import lib.Verdict model.M_C37.
Import ListNotations.

Lemma nmem_In k s : nmem k s = true <-> In k s.
Proof.
  unfold nmem. rewrite existsb_exists. split.
  - intros (x & Hx & E). apply Nat.eqb_eq in E. subst; exact Hx.
  - intros H. exists k. split; [exact H|apply Nat.eqb_refl].
Qed.
Lemma nmem_false k s : nmem k s = false <-> ~ In k s.
Proof.
  rewrite <- nmem_In. destruct (nmem k s); split.
  - discriminate.
  - intros H. exfalso. apply H. reflexivity.
  - intros _ E. discriminate.
  - reflexivity.
Qed.

Lemma In_nrem x k s : In x (nrem k s) <-> In x s /\ x <> k.
Proof.
  unfold nrem. rewrite filter_In. split; intros [H1 H2]; split; auto.
  - apply negb_true_iff, Nat.eqb_neq in H2. exact H2.
  - apply negb_true_iff, Nat.eqb_neq. exact H2.
Qed.

Lemma In_dedup x l : In x (dedup l) <-> In x l.
Proof.
  induction l as [|a r IH]; cbn [dedup In]; [tauto|].
  rewrite In_nrem, IH. destruct (Nat.eq_dec a x); [subst; tauto|]. split; [tauto|]. intros [H|H]; auto.
Qed.

Lemma NoDup_nrem k s : NoDup s -> NoDup (nrem k s).
Proof. unfold nrem. apply NoDup_filter. Qed.

Lemma NoDup_dedup l : NoDup (dedup l).
Proof.
  induction l as [|a r IH]; cbn [dedup]; [constructor|].
  constructor; [|apply NoDup_nrem, IH]. rewrite In_nrem. tauto.
Qed.

(** the invariant of one request *)
Definition rinv (r : req) : Prop :=
  NoDup (q_sub r) /\ NoDup (q_out r) /\
  (forall k, In k (q_sub r) -> ~ In k (q_out r)) /\
  (forall k, In k (q_keys r) <-> In k (q_sub r) \/ In k (q_out r)) /\
  (q_sub r = [] -> q_done r = true) /\
  match q_cb r with
  | None => True
  | Some l => q_done r = true /\ l = q_sub r
  end.

Lemma rinv_start s ks : rinv (start s ks).
Proof.
  unfold rinv, start; cbn [q_sub q_out q_keys q_done q_cb].
  split; [apply NoDup_dedup|]. split; [constructor|]. split; [intros k _ []|]. split.
  { intros k. rewrite In_dedup. cbn [In]. tauto. }
  split; [|exact I].
  destruct ks as [|a r]; [reflexivity|]. cbn [dedup]. discriminate.
Qed.

Lemma NoDup_snoc {A} (l : list A) x : NoDup l -> ~ In x l -> NoDup (l ++ [x]).
Proof.
  induction l as [|a r IH]; cbn [app]; intros Hn Hx; [repeat constructor; intros []|].
  inversion Hn as [|y l' Hy Hr]; subst. constructor.
  - rewrite in_app_iff. cbn [In]. intros [H|[H|[]]]; [auto|]. apply Hx. left; symmetry; exact H.
  - apply IH; [exact Hr|]. intros H. apply Hx. right; exact H.
Qed.

Lemma rinv_arrive k r : rinv r -> rinv (arrive k r).
Proof.
  intros Hinv. unfold arrive.
  destruct (q_done r) eqn:D; [exact Hinv|].
  destruct (nmem k (q_sub r)) eqn:M; [|exact Hinv].
  destruct Hinv as (I1 & I2 & I3 & I4 & I5 & I6).
  apply nmem_In in M. unfold rinv; cbn [q_sub q_out q_keys q_done q_cb].
  split; [apply NoDup_nrem, I1|]. split; [apply NoDup_snoc; [exact I2|apply I3, M]|].
  split.
  { intros x Hx Ho. apply In_nrem in Hx. destruct Hx as [Hx Hne]. apply in_app_or in Ho.
    destruct Ho as [Ho|[Ho|[]]]; [apply (I3 x Hx Ho)|congruence]. }
  split.
  { intros x. rewrite I4, In_nrem, in_app_iff. cbn [In]. destruct (Nat.eq_dec x k) as [->|Hne]; [tauto|].
    split; [intros [H|H]; auto|intros [[H _]|[H|[H|[]]]]; auto; congruence]. }
  split.
  { intros ->. reflexivity. }
  destruct (nrem k (q_sub r)); [auto|exact I].
Qed.

Lemma rinv_cancel r : rinv r -> rinv (cancel r).
Proof.
  intros Hinv. unfold cancel.
  destruct (q_done r) eqn:D; [exact Hinv|].
  destruct Hinv as (I1 & I2 & I3 & I4 & I5 & I6).
  unfold rinv; cbn [q_sub q_out q_keys q_done q_cb].
  split; [exact I1|]. split; [exact I2|]. split; [exact I3|]. split; [exact I4|]. split; auto.
Qed.

(** a run over several requests *)
Lemma upd_Forall {A} (P : A -> Prop) (f : A -> A) l i :
  (forall a, P a -> P (f a)) -> Forall P l -> Forall P (upd l i f).
Proof.
  intros Hf. revert i. induction l as [|a r IH]; intros i H; cbn [upd]; [constructor|].
  inversion H; subst. destruct i; constructor; auto.
Qed.

Lemma ustep_inv rs e : Forall rinv rs -> Forall rinv (ustep rs e).
Proof.
  intros H. destruct e as [k|i]; cbn [ustep].
  - apply Forall_map. eapply Forall_impl; [|exact H]. intros a. apply rinv_arrive.
  - apply upd_Forall; [apply rinv_cancel|exact H].
Qed.

Lemma urun_inv evs : forall rs, Forall rinv rs -> Forall rinv (urun rs evs).
Proof.
  unfold urun. induction evs as [|e r IH]; intros rs H; cbn [fold_left]; [exact H|].
  apply IH, ustep_inv, H.
Qed.

Lemma start_all_inv reqs s : Forall rinv (map (start s) reqs).
Proof. apply Forall_map, Forall_forall. intros ks _. apply rinv_start. Qed.

(** bool <-> Prop for the specification functions *)
Lemma nodupb_true l : NoDup l -> nodupb l = true.
Proof.
  induction 1 as [|x l Hx Hn IH]; cbn [nodupb]; [reflexivity|].
  rewrite IH, andb_true_r. apply negb_true_iff, nmem_false, Hx.
Qed.
Lemma subsetb_true a b : (forall x, In x a -> In x b) -> subsetb a b = true.
Proof. intros H. unfold subsetb. apply forallb_forall. intros x Hx. apply nmem_In, H, Hx. Qed.

Theorem at_most_once reqs evs :
  forallb (fun r => delivered_ok (q_keys r) (q_out r)) (urun (map (start 0) reqs) evs) = true.
Proof.
  apply forallb_forall. intros r Hr.
  pose proof (urun_inv evs _ (start_all_inv reqs 0)) as H. rewrite Forall_forall in H.
  destruct (H r Hr) as (I1 & I2 & I3 & I4 & I5 & I6).
  unfold delivered_ok. rewrite nodupb_true by exact I2. cbn [andb].
  apply subsetb_true. intros x Hx. apply I4. right; exact Hx.
Qed.

(** the cancel callback receives exactly the requested keys that were not delivered *)
Theorem cleanup reqs evs r l :
  In r (urun (map (start 0) reqs) evs) -> q_cb r = Some l ->
  q_done r = true /\ forall k, In k l <-> In k (q_keys r) /\ ~ In k (q_out r).
Proof.
  intros Hr Hl.
  pose proof (urun_inv evs _ (start_all_inv reqs 0)) as H. rewrite Forall_forall in H.
  destruct (H r Hr) as (I1 & I2 & I3 & I4 & I5 & I6). rewrite Hl in I6. destruct I6 as [Hd ->].
  split; [exact Hd|]. intros k. rewrite I4. split.
  - intros Hk. split; [left; exact Hk|apply I3, Hk].
  - intros [[Hk|Hk] Hn]; [exact Hk|contradiction].
Qed.

(** ---------- completeness of one request that is not cancelled ---------- *)
Definition pubs (r : req) (ks : list nat) : req := fold_left (fun r k => arrive k r) ks r.

Definition jinv (r : req) : Prop := rinv r /\ (q_done r = true -> q_sub r = []).

Lemma jinv_start s ks : jinv (start s ks).
Proof.
  split; [apply rinv_start|]. unfold start; cbn [q_done q_sub]. destruct ks; [reflexivity|discriminate].
Qed.

Lemma jinv_arrive k r : jinv r -> jinv (arrive k r).
Proof.
  intros [H1 H2]. split; [apply rinv_arrive, H1|]. unfold arrive.
  destruct (q_done r) eqn:D; [intros _; apply H2; reflexivity|].
  destruct (nmem k (q_sub r)); [|rewrite D; discriminate].
  cbn [q_done q_sub]. destruct (nrem k (q_sub r)); [reflexivity|discriminate].
Qed.

Lemma arrive_sub_shrinks k r x : In x (q_sub (arrive k r)) -> In x (q_sub r).
Proof.
  unfold arrive. destruct (q_done r); [auto|]. destruct (nmem k (q_sub r)); [|auto].
  cbn [q_sub]. intros H. apply In_nrem in H. apply H.
Qed.

Lemma arrive_removes k r : jinv r -> ~ In k (q_sub (arrive k r)).
Proof.
  intros [H1 H2]. unfold arrive. destruct (q_done r) eqn:D.
  - rewrite (H2 eq_refl). intros [].
  - destruct (nmem k (q_sub r)) eqn:M; [cbn [q_sub]; rewrite In_nrem; tauto|apply nmem_false, M].
Qed.

Lemma pubs_facts ks : forall r, jinv r ->
  jinv (pubs r ks) /\ (forall x, In x (q_sub (pubs r ks)) -> In x (q_sub r) /\ ~ In x ks) /\
  q_keys (pubs r ks) = q_keys r.
Proof.
  unfold pubs. induction ks as [|k rest IH]; intros r J; cbn [fold_left].
  - split; [exact J|split; [intros x Hx; split; [exact Hx|intros []]|reflexivity]].
  - destruct (IH (arrive k r) (jinv_arrive k r J)) as (A & B & C). split; [exact A|split].
    + intros x Hx. destruct (B x Hx) as [B1 B2]. split; [eapply arrive_sub_shrinks; eauto|].
      intros [<-|Hin]; [apply (arrive_removes k r J B1)|apply B2, Hin].
    + rewrite C. unfold arrive. destruct (q_done r); [reflexivity|]. destruct (nmem k (q_sub r)); reflexivity.
Qed.

Theorem complete s ks pub :
  (forall k, In k ks -> In k pub) ->
  let r := pubs (start s ks) pub in
  q_done r = true /\ (forall k, In k ks -> In k (q_out r)) /\ NoDup (q_out r).
Proof.
  intros Hall. cbn zeta.
  destruct (pubs_facts pub (start s ks) (jinv_start s ks)) as ([R J] & B & C).
  destruct R as (I1 & I2 & I3 & I4 & I5 & I6).
  assert (Hsub : q_sub (pubs (start s ks) pub) = []).
  { destruct (q_sub (pubs (start s ks) pub)) as [|x l] eqn:E; [reflexivity|]. exfalso.
    destruct (B x ltac:(left; reflexivity)) as [B1 B2]. apply B2, Hall.
    unfold start in B1; cbn [q_sub] in B1. apply In_dedup, B1. }
  split; [apply I5, Hsub|]. split; [|exact I2].
  intros k Hk. assert (Hk' : In k (q_keys (pubs (start s ks) pub))) by (rewrite C; exact Hk).
  apply I4 in Hk'. rewrite Hsub in Hk'. destruct Hk' as [[]|Hk']. exact Hk'.
Qed.
