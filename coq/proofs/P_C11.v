(** C11 — the cache model of ProtoNode (flags off) refines the cache-free
    specification for every history; consequences; refutation with the flag on. *)
From Coq Require Import List ZArith Bool Lia Sorted Permutation.
From V Require Import lib.Verdict lib.C11_DagPb model.M_C11 proofs.P_C11_sort proofs.P_C11_codec.
Import ListNotations.
Open Scope Z_scope.

(** ---------- what a history must satisfy (facts Go's types guarantee) ----------
    link CIDs handed in are undefined ([]) or real CIDs, Tsize is a uint64,
    and a block that gets decoded is shorter than 2^64 bytes. *)
Definition link_in_ok (l : link) : Prop :=
  0 <= l_size l /\ (l_cid l = [] \/ cid_valid (l_cid l)).

Definition op_ok (a : anode) (o : op) : Prop :=
  match o with
  | OAdd name size cid | OUpdate name size cid => link_in_ok (mkLink name size cid)
  | OSetLinks ls => Forall link_in_ok ls
  | ORedecode | OReblock | RDecode => len (a_raw a) < two64
  | _ => True
  end.

(** the abstract state after an op does not depend on the hash *)
Definition anext (a : anode) (o : op) : anode := fst (astep (fun _ _ => 0) a o).

Fixpoint hist_ok (a : anode) (ops : list op) : Prop :=
  match ops with
  | [] => True
  | o :: r => op_ok a o /\ hist_ok (anext a o) r
  end.

Lemma astep_state : forall H a o, fst (astep H a o) = anext a o.
Proof.
  intros H a o. unfold anext. destruct o as [n s c| n | d | [b|] | | ls | | n s c | | | | | | | | ]; cbn [astep];
    reflexivity.
Qed.

(** ---------- the refinement relation ---------- *)
Section Refine.
Variable H : Z -> bytes -> Z.

Definition R (n : node) (a : anode) : Prop :=
  same_groups (n_links n) (a_links a) /\
  n_data n = a_data a /\
  n_builder n = a_builder a /\
  (n_dirty n = false -> Sorted name_le (n_links n)) /\
  (forall e, n_enc n = Some e -> n_dirty n = false /\ e = encode (n_links n) (n_data n)) /\
  (forall e c, n_enc n = Some e -> n_cached n = Some c -> c = H (n_builder n) e).

Definition links_ok (a : anode) : Prop :=
  forall l, In l (a_links a) -> cid_valid (l_cid l) /\ 0 <= l_size l < two64.

Lemma R_fresh : forall d, R (fresh d) (afresh d).
Proof.
  intro d. unfold R, fresh, afresh. cbn. repeat split; try discriminate.
  intros _. constructor.
Qed.

Lemma R_sorted_links : forall n a, R n a ->
  (if n_dirty n then sort_links (n_links n) else n_links n) = sort_links (a_links a).
Proof.
  intros n a (G & _ & _ & S & _). destruct (n_dirty n) eqn:D.
  - apply sort_same_groups. exact G.
  - rewrite <- (sort_of_sorted (n_links n)) by (apply S; reflexivity).
    apply sort_same_groups. exact G.
Qed.

Lemma do_encode_spec : forall n a, R n a ->
  R (do_encode H n) a /\ n_enc (do_encode H n) = Some (a_raw a) /\
  n_cached (do_encode H n) = Some (H (a_builder a) (a_raw a)) /\
  n_links (do_encode H n) = sort_links (a_links a).
Proof.
  intros n a HR. pose proof HR as HR0. pose proof (R_sorted_links n a HR) as HS.
  destruct HR as (G & Dd & Bb & S & E & C).
  unfold do_encode.
  destruct (negb (is_some (n_enc n)) || n_dirty n) eqn:Cond.
  - (* re-encode *)
    cbn [n_cached n_links n_dirty n_data n_enc n_builder odefault].
    rewrite HS. unfold a_raw. rewrite Dd, Bb.
    split; [|repeat split; reflexivity].
    unfold R. cbn [n_links n_dirty n_data n_enc n_cached n_builder].
    repeat split.
    + intro k. rewrite group_sort. reflexivity.
    + intros _. apply sort_sorted.
    + match goal with Hx : Some _ = Some _ |- _ => injection Hx as <- end. reflexivity.
    + intros e c He Hc. injection He as <-. injection Hc as <-. reflexivity.
  - (* the cached encoding is current *)
    apply orb_false_iff in Cond as [Ce Cd]. apply negb_false_iff in Ce.
    destruct (n_enc n) as [e|] eqn:En; [|discriminate Ce].
    destruct (E e eq_refl) as [_ Ee].
    rewrite Cd in HS.
    assert (He : e = a_raw a) by (unfold a_raw; rewrite <- HS, <- Dd; exact Ee).
    destruct (n_cached n) as [c|] eqn:Cn.
    + rewrite ?En, ?Cn.
      split; [exact HR0|]. split; [rewrite He; reflexivity|]. split; [|exact HS].
      rewrite (C e c eq_refl eq_refl), Bb, He. reflexivity.
    + cbn [n_cached n_links n_dirty n_data n_enc n_builder odefault]. rewrite ?En. cbn [odefault].
      split; [|split; [rewrite He; reflexivity| split; [rewrite Bb, He; reflexivity| exact HS]]].
      destruct HR0 as (G0 & Dd0 & Bb0 & S0 & E0 & C0).
      unfold R. cbn [n_links n_dirty n_data n_enc n_cached n_builder].
      split; [exact G0|]. split; [exact Dd0|]. split; [exact Bb0|]. split; [exact S0|].
      split; [first [exact E0 | exact E]|].
      intros e' c' He' Hc'. injection Hc' as <-. rewrite ?En in He'. injection He' as <-. reflexivity.
Qed.

Lemma settle_spec : forall n a, R n a ->
  R (settle n) a /\ n_links (settle n) = sort_links (a_links a).
Proof.
  intros n a HR. pose proof HR as HR0. pose proof (R_sorted_links n a HR) as HS.
  destruct HR as (G & Dd & Bb & S & E & C). unfold settle.
  destruct (n_dirty n) eqn:D.
  - cbn [n_links]. split; [|exact HS].
    unfold R. cbn [n_links n_dirty n_data n_enc n_cached n_builder].
    repeat split; try assumption; try discriminate.
    + intro k. rewrite group_sort. apply G.
    + intros _. apply sort_sorted.
  - split; [exact HR0| exact HS].
Qed.

Lemma filter_none : forall k (l : list link),
  existsb (name_is k) l = false -> filter (fun x => negb (name_is k x)) l = l.
Proof.
  intros k l. induction l as [|x l IH]; intro E; [reflexivity|].
  cbn [existsb] in E. apply orb_false_iff in E as [E1 E2].
  cbn [filter]. rewrite E1. cbn [negb]. f_equal. apply IH. exact E2.
Qed.

Lemma in_sort : forall x l, In x (sort_links l) <-> In x l.
Proof.
  intros x l. split; intro Hin.
  - eapply Permutation_in; [symmetry; apply sort_perm| exact Hin].
  - eapply Permutation_in; [apply sort_perm| exact Hin].
Qed.

Lemma a_wf : forall a, links_ok a -> len (a_raw a) < two64 ->
  node_wf (sort_links (a_links a)) (a_data a).
Proof.
  intros a L Hlen. apply node_wf_intro; [|exact Hlen].
  intros l Hin. apply L. apply in_sort. exact Hin.
Qed.

Lemma link_ok_in : forall l, link_ok l = true -> link_in_ok l ->
  cid_valid (l_cid l) /\ 0 <= l_size l < two64.
Proof.
  intros l Hok [Hs Hc]. unfold link_ok in Hok. apply andb_true_iff in Hok as [H1 H2].
  apply negb_true_iff in H1. apply Z.ltb_ge in H1. unfold max_int64 in H1.
  split.
  - destruct Hc as [Hc|Hc]; [|exact Hc]. rewrite Hc in H2. discriminate H2.
  - unfold two64. lia.
Qed.

(** one step: same answer, relation and link invariant preserved *)
Lemma step_refines : forall n a o, R n a -> links_ok a -> op_ok a o ->
  snd (step flags_off H n o) = snd (astep H a o) /\
  R (fst (step flags_off H n o)) (fst (astep H a o)) /\
  links_ok (fst (astep H a o)).
Proof.
  intros n a o HR L Hop. pose proof HR as HR0.
  destruct o as [nm sz c| nm | d | [b|] | | ls | | nm sz c | | | | | | | | ].
  - (* OAdd *)
    cbn [step astep]. unfold add_link. cbv zeta. destruct (link_ok (mkLink nm sz c)) eqn:Ok; cbn [fst snd].
    + destruct HR as (G & Dd & Bb & S & E & C).
      split; [reflexivity|]. split.
      * unfold R. cbn [n_links n_dirty n_data n_enc n_cached n_builder a_links a_data a_builder].
        repeat split; try assumption; try discriminate.
        apply same_groups_app. exact G.
      * intros l Hin. cbn [a_links] in Hin. apply in_app_or in Hin as [Hin|[<-|[]]].
        -- apply L. exact Hin.
        -- apply link_ok_in; assumption.
    + split; [reflexivity| split; [exact HR0| exact L]].
  - (* ORemove *)
    cbn [step astep]. unfold remove_link.
    destruct HR as (G & Dd & Bb & S & E & C).
    rewrite (same_groups_existsb nm _ _ G).
    destruct (existsb (name_is nm) (a_links a)) eqn:Ex; cbn [fst snd].
    + split; [reflexivity|]. split.
      * unfold R. cbn [n_links n_dirty n_data n_enc n_cached n_builder a_links a_data a_builder].
        repeat split; try assumption; try discriminate.
        apply same_groups_filter. exact G.
      * intros l Hin. cbn [a_links] in Hin. apply filter_In in Hin as [Hin _]. apply L. exact Hin.
    + split; [reflexivity| split; [exact HR0| exact L]].
  - (* OSetData *)
    cbn [step astep fst snd]. destruct HR as (G & Dd & Bb & S & E & C).
    split; [reflexivity|]. split; [|exact L].
    unfold R. cbn [n_links n_dirty n_data n_enc n_cached n_builder a_links a_data a_builder].
    repeat split; try assumption; try discriminate.
  - (* OSetBuilder (Some b) *)
    cbn [step astep fst snd]. destruct HR as (G & Dd & Bb & S & E & C).
    split; [reflexivity|]. split; [|exact L].
    unfold R. cbn [n_links n_dirty n_data n_enc n_cached n_builder a_links a_data a_builder].
    repeat split; try assumption; try discriminate;
      solve [eapply proj1; apply E; eassumption | eapply proj2; apply E; eassumption].
  - (* OSetBuilder None, flag off *)
    cbn [step astep fst snd flags_off f_setbuilder_nil]. destruct HR as (G & Dd & Bb & S & E & C).
    split; [reflexivity|]. split; [|exact L].
    unfold R. cbn [n_links n_dirty n_data n_enc n_cached n_builder a_links a_data a_builder].
    repeat split; try assumption; try discriminate;
      solve [eapply proj1; apply E; eassumption | eapply proj2; apply E; eassumption].
  - (* OSetBuilderBad *)
    cbn [step astep fst snd]. split; [reflexivity| split; [exact HR0| exact L]].
  - (* OSetLinks *)
    cbn [step astep]. destruct (forallb link_ok ls) eqn:Ok; cbn [fst snd].
    + destruct HR as (G & Dd & Bb & S & E & C).
      split; [reflexivity|]. split.
      * unfold R. cbn [n_links n_dirty n_data n_enc n_cached n_builder a_links a_data a_builder].
        repeat split; try assumption; try discriminate.
      * intros l Hin. cbn [a_links] in Hin. cbn [op_ok] in Hop.
        rewrite forallb_forall in Ok. rewrite Forall_forall in Hop.
        apply link_ok_in; [apply Ok| apply Hop]; exact Hin.
    + split; [reflexivity| split; [exact HR0| exact L]].
  - (* OCopy *)
    cbn [step astep fst snd]. unfold copy. destruct HR as (G & Dd & Bb & S & E & C).
    split; [reflexivity|]. split; [|exact L].
    unfold R. cbn [n_links n_dirty n_data n_enc n_cached n_builder a_links a_data a_builder].
    rewrite Dd. repeat split; try assumption; try discriminate.
    + intro k. rewrite group_sort. apply G.
    + intros _. apply sort_sorted.
  - (* OUpdate *)
    cbn [step astep]. destruct HR as (G & Dd & Bb & S & E & C).
    assert (Hc : n_links (fst (remove_link (copy n) nm)) =
                 filter (fun l => negb (name_is nm l)) (sort_links (n_links n))).
    { unfold remove_link, copy. cbn [n_links].
      destruct (existsb (name_is nm) (sort_links (n_links n))) eqn:Ex; cbn [fst n_links]; [reflexivity|].
      symmetry. apply filter_none. exact Ex. }
    assert (Hd : n_data (fst (remove_link (copy n) nm)) =
                 match a_data a with Some ((_ :: _) as d) => Some d | _ => None end).
    { unfold remove_link, copy. cbn [n_links n_data]. rewrite Dd.
      destruct (existsb _ _); reflexivity. }
    assert (Hb : n_builder (fst (remove_link (copy n) nm)) = a_builder a).
    { unfold remove_link, copy. cbn [n_links n_builder]. rewrite Bb.
      destruct (existsb _ _); reflexivity. }
    unfold add_link. destruct (link_ok (mkLink nm sz c)) eqn:Ok; cbn [fst snd].
    + split; [reflexivity|]. split.
      * unfold R. cbn [n_links n_dirty n_data n_enc n_cached n_builder a_links a_data a_builder].
        rewrite Hc, Hd, Hb.
        repeat split; try assumption; try discriminate.
        apply same_groups_app. apply same_groups_filter. intro k. rewrite group_sort. apply G.
      * intros l Hin. cbn [a_links] in Hin. apply in_app_or in Hin as [Hin|[<-|[]]].
        -- apply filter_In in Hin as [Hin _]. apply L. exact Hin.
        -- apply link_ok_in; assumption.
    + split; [reflexivity| split; [exact HR0| exact L]].
  - (* ORedecode *)
    cbn [step astep]. cbn [op_ok] in Hop.
    destruct (do_encode_spec n a HR) as (HR' & En & Cn & Ln).
    rewrite En. cbn [odefault].
    unfold a_raw. rewrite decode_encode by (apply a_wf; assumption).
    cbn [fst snd]. split; [reflexivity|]. split; [|exact L].
    unfold R, of_decoded. cbn [fst snd n_links n_dirty n_data n_enc n_cached n_builder a_links a_data a_builder].
    repeat split; try discriminate.
    + intro k. rewrite group_sort. reflexivity.
    + intros _. apply sort_sorted.
    + injection H0 as <-. reflexivity.
  - (* OReblock *)
    cbn [step astep]. cbn [op_ok] in Hop.
    destruct (do_encode_spec n a HR) as (HR' & En & Cn & Ln).
    rewrite En, Cn. cbn [odefault].
    unfold a_raw. rewrite decode_encode by (apply a_wf; assumption).
    cbn [fst snd]. split; [reflexivity|]. split; [|exact L].
    destruct HR' as (G' & Dd' & Bb' & _).
    unfold R. cbn [fst snd n_links n_dirty n_data n_enc n_cached n_builder a_links a_data a_builder].
    split; [intro k; rewrite group_sort; reflexivity|]. split; [reflexivity|]. split; [exact Bb'|].
    split; [intros _; apply sort_sorted|].
    split.
    + intros e He. injection He as <-. split; reflexivity.
    + intros e c He Hc. injection He as <-. injection Hc as <-. rewrite Bb'. reflexivity.
  - (* RCid *)
    cbn [step astep fst snd].
    destruct (do_encode_spec n a HR) as (HR' & En & Cn & Ln).
    rewrite Cn. cbn [odefault]. split; [reflexivity| split; [assumption| exact L]].
  - (* RRaw *)
    cbn [step astep fst snd].
    destruct (do_encode_spec n a HR) as (HR' & En & Cn & Ln).
    rewrite En. cbn [odefault]. split; [reflexivity| split; [assumption| exact L]].
  - (* RLinks *)
    cbn [step astep fst snd]. destruct (settle_spec n a HR) as [HR' Ln]. rewrite Ln.
    split; [reflexivity| split; [assumption| exact L]].
  - (* RData *)
    cbn [step astep fst snd]. destruct HR as (G & Dd & Bb & S & E & C). rewrite Dd.
    split; [reflexivity| split; [assumption| exact L]].
  - (* RTree *)
    cbn [step astep fst snd]. destruct (settle_spec n a HR) as [HR' Ln]. rewrite Ln.
    split; [reflexivity| split; [assumption| exact L]].
  - (* RDecode *)
    cbn [step astep fst snd]. cbn [op_ok] in Hop.
    destruct (do_encode_spec n a HR) as (HR' & En & Cn & Ln).
    rewrite En. cbn [odefault]. unfold a_raw. rewrite decode_encode by (apply a_wf; assumption).
    split; [reflexivity| split; [assumption| exact L]].
Qed.

Lemma run_refines_gen : forall ops n a, R n a -> links_ok a -> hist_ok a ops ->
  snd (run flags_off H n ops) = snd (arun H a ops) /\
  R (fst (run flags_off H n ops)) (fst (arun H a ops)) /\
  links_ok (fst (arun H a ops)).
Proof.
  induction ops as [|o r IH]; intros n a HR L Hh.
  - cbn [run arun fst snd]. split; [reflexivity| split; assumption].
  - cbn [hist_ok] in Hh. destruct Hh as [Ho Hr].
    destruct (step_refines n a o HR L Ho) as (Eo & HR' & L').
    cbn [run arun].
    destruct (step flags_off H n o) as [n' b] eqn:Es.
    destruct (astep H a o) as [a' b'] eqn:Ea. cbn [fst snd] in *.
    assert (a' = anext a o) as Ea' by (rewrite <- (astep_state H a o), Ea; reflexivity).
    rewrite <- Ea' in Hr.
    destruct (IH n' a' HR' L' Hr) as (Eo2 & HR2 & L2).
    destruct (run flags_off H n' r) as [n'' bs]. destruct (arun H a' r) as [a'' bs'].
    cbn [fst snd] in *. subst. split; [reflexivity| split; assumption].
Qed.

Lemma links_ok_fresh : forall d, links_ok (afresh d).
Proof. intros d l Hin. destruct Hin. Qed.

(** the cache model answers every history exactly like the cache-free specification *)
Lemma refines : forall d0 ops, hist_ok (afresh d0) ops ->
  snd (run flags_off H (fresh d0) ops) = snd (arun H (afresh d0) ops).
Proof.
  intros d0 ops Hh. apply (run_refines_gen ops _ _ (R_fresh d0) (links_ok_fresh d0) Hh).
Qed.

(** after every history: Cid() is the hash of the CURRENT content under the CURRENT builder,
    RawData() the canonical encoding of the current content *)
Lemma cid_fresh : forall d0 ops, hist_ok (afresh d0) ops ->
  let n := fst (run flags_off H (fresh d0) ops) in
  snd (step flags_off H n RCid) = BCid (H (n_builder n) (encode (sort_links (n_links n)) (n_data n))) /\
  snd (step flags_off H n RRaw) = BRaw (encode (sort_links (n_links n)) (n_data n)).
Proof.
  intros d0 ops Hh n.
  destruct (run_refines_gen ops _ _ (R_fresh d0) (links_ok_fresh d0) Hh) as (_ & HR & _).
  fold n in HR. set (a := fst (arun H (afresh d0) ops)) in *.
  destruct (do_encode_spec n a HR) as (_ & En & Cn & _).
  destruct HR as (G & Dd & Bb & _).
  cbn [step snd]. rewrite En, Cn. cbn [odefault]. unfold a_raw.
  rewrite (sort_same_groups _ _ G), Dd, Bb. split; reflexivity.
Qed.

(** and decoding what RawData() returns gives back the data and the (sorted) links *)
Lemma roundtrip_hist : forall d0 ops, hist_ok (afresh d0) (ops ++ [RDecode]) ->
  let n := fst (run flags_off H (fresh d0) ops) in
  snd (step flags_off H n RDecode) = BDecode (Some (n_data n, sort_links (n_links n))).
Proof.
  intros d0 ops Hh n.
  assert (Hh1 : hist_ok (afresh d0) ops /\ op_ok (fst (arun H (afresh d0) ops)) RDecode).
  { clear n. revert Hh. generalize (afresh d0). induction ops as [|o r IH]; intros a Hh.
    - cbn in *. tauto.
    - cbn [app hist_ok] in Hh. destruct Hh as [Ho Hr]. cbn [hist_ok arun].
      destruct (astep H a o) as [a' b] eqn:Ea.
      assert (a' = anext a o) as Ea' by (rewrite <- (astep_state H a o), Ea; reflexivity).
      rewrite <- Ea' in Hr. destruct (IH a' Hr) as [I1 I2].
      destruct (arun H a' r) as [a'' bs] eqn:Er. cbn [fst] in *.
      rewrite <- Ea'. tauto. }
  destruct Hh1 as [Hh1 Hd].
  destruct (run_refines_gen ops _ _ (R_fresh d0) (links_ok_fresh d0) Hh1) as (_ & HR & L).
  fold n in HR. set (a := fst (arun H (afresh d0) ops)) in *.
  destruct (step_refines n a RDecode HR L Hd) as (Eo & _ & _).
  rewrite Eo. cbn [astep snd]. destruct HR as (G & Dd & _).
  rewrite (sort_same_groups _ _ G), Dd. reflexivity.
Qed.
End Refine.

(** ---------- codec-level statements ---------- *)
Lemma roundtrip : forall ls d,
  (forall l, In l ls -> cid_valid (l_cid l) /\ 0 <= l_size l <= max_int64) ->
  len (encode (sort_links ls) d) < two64 ->
  decode (encode (sort_links ls) d) = Some (d, sort_links ls).
Proof.
  intros ls d Hl Hlen. apply decode_encode. apply node_wf_intro; [|exact Hlen].
  intros l Hin. apply (proj1 (in_sort _ _)) in Hin. destruct (Hl l Hin) as [Hc Hs].
  split; [exact Hc|]. unfold max_int64 in Hs. unfold two64. lia.
Qed.

Lemma sorted_stable : forall ls,
  Sorted name_le (sort_links ls) /\
  (forall k, filter (name_is k) (sort_links ls) = filter (name_is k) ls) /\
  Permutation ls (sort_links ls) /\
  (forall s, Sorted name_le s -> (forall k, filter (name_is k) s = filter (name_is k) ls) -> s = sort_links ls).
Proof.
  intro ls. split; [apply sort_sorted|]. split; [intro k; exact (group_sort k ls)|]. split; [apply sort_perm|].
  intros s S G. exact (sort_characterised ls s S G).
Qed.

Lemma order_independent : forall l1 l2 d,
  Permutation l1 l2 -> NoDup (map l_name l1) ->
  encode (sort_links l1) d = encode (sort_links l2) d.
Proof. intros l1 l2 d P ND. rewrite (sort_order_independent l1 l2 P ND). reflexivity. Qed.

(** histories that only add links: the encoding does not depend on the order of the additions *)
Definition adds (ls : list link) : list op := map (fun l => OAdd (l_name l) (l_size l) (l_cid l)) ls.

Lemma arun_adds : forall H ls a, forallb link_ok ls = true ->
  fst (arun H a (adds ls)) = mkA (a_links a ++ ls) (a_data a) (a_builder a).
Proof.
  intros H ls. induction ls as [|l ls IH]; intros a Ok.
  - cbn. rewrite app_nil_r. destruct a; reflexivity.
  - cbn [forallb] in Ok. apply andb_true_iff in Ok as [Ok1 Ok2].
    cbn [adds map arun astep]. destruct l as [nm sz c]. cbn [l_name l_size l_cid]. rewrite Ok1.
    specialize (IH (mkA (a_links a ++ [mkLink nm sz c]) (a_data a) (a_builder a)) Ok2).
    fold (adds ls). destruct (arun H _ (adds ls)) as [a' bs]. cbn [fst] in *.
    rewrite IH. cbn [a_links a_data a_builder]. rewrite <- app_assoc. reflexivity.
Qed.

Lemma hist_ok_adds : forall ls a, Forall link_in_ok ls -> hist_ok a (adds ls).
Proof.
  induction ls as [|l ls IH]; intros a F; [exact I|].
  inversion F as [|? ? Hl Fr]; subst. cbn [adds map hist_ok]. split.
  - destruct l; exact Hl.
  - apply IH. exact Fr.
Qed.

Lemma hist_ok_app : forall o1 o2 a, hist_ok a o1 -> hist_ok (fold_left anext o1 a) o2 -> hist_ok a (o1 ++ o2).
Proof.
  induction o1 as [|o r IH]; intros o2 a H1 H2; [exact H2|].
  cbn [app hist_ok] in *. destruct H1 as [Ho Hr]. split; [exact Ho|]. apply IH; assumption.
Qed.

Lemma arun_app_snd : forall H o1 o2 a,
  snd (arun H a (o1 ++ o2)) = snd (arun H a o1) ++ snd (arun H (fst (arun H a o1)) o2).
Proof.
  intros H o1. induction o1 as [|o r IH]; intros o2 a.
  - cbn [app arun fst snd]. reflexivity.
  - cbn [app arun]. destruct (astep H a o) as [a' b]. specialize (IH o2 a').
    destruct (arun H a' (r ++ o2)) as [x y]. destruct (arun H a' r) as [x' y']. cbn [fst snd] in *.
    rewrite IH. reflexivity.
Qed.

Lemma order_independent_hist : forall H d l1 l2,
  Permutation l1 l2 -> NoDup (map l_name l1) ->
  forallb link_ok l1 = true -> Forall link_in_ok l1 ->
  snd (run flags_off H (fresh d) (adds l1 ++ [RRaw; RCid])) =
  map (fun _ => BOk) l1 ++ [BRaw (encode (sort_links l1) d); BCid (H 0 (encode (sort_links l1) d))] /\
  encode (sort_links l1) d = encode (sort_links l2) d.
Proof.
  intros H d l1 l2 P ND Ok F. split; [|apply order_independent; assumption].
  rewrite refines.
  - rewrite arun_app_snd, arun_adds by exact Ok. cbn [afresh a_links a_data a_builder app arun astep snd].
    unfold a_raw. cbn [a_links a_data a_builder]. f_equal.
    clear P ND. generalize (afresh d). induction l1 as [|l r IH]; intro a; [reflexivity|].
    cbn [forallb] in Ok. apply andb_true_iff in Ok as [Ok1 Ok2]. inversion F; subst.
    cbn [adds map arun astep]. destruct l as [nm sz c]. cbn [l_name l_size l_cid]. rewrite Ok1.
    fold (adds r). specialize (IH Ok2 ltac:(assumption)
      (mkA (a_links a ++ [mkLink nm sz c]) (a_data a) (a_builder a))).
    destruct (arun H _ (adds r)) as [a' bs]. cbn [snd map] in *. rewrite IH. reflexivity.
  - apply hist_ok_app; [apply hist_ok_adds; exact F|]. cbn [hist_ok op_ok]. tauto.
Qed.

(** ---------- the defect: with the flag on the CID can be stale ---------- *)
Lemma builder_nil_refuted :
  exists (H : Z -> bytes -> Z) d0 ops n obs,
    hist_ok (afresh d0) ops /\
    run flags_on H (fresh d0) ops = (n, obs) /\
    snd (step flags_on H n RCid) <> BCid (H (n_builder n) (encode (sort_links (n_links n)) (n_data n))).
Proof.
  exists (fun b _ => b + 1), (Some [120]), [OSetBuilder (Some 1); RCid; OSetBuilder None].
  eexists. eexists. split; [cbn; tauto|]. split. { vm_compute. reflexivity. }
  vm_compute. intro E. discriminate E.
Qed.

(** ... and only there: the same history on the flag-off model is fresh *)
Lemma builder_nil_off_ok :
  let H := fun (b : Z) (_ : bytes) => b + 1 in
  let ops := [OSetBuilder (Some 1); RCid; OSetBuilder None] in
  let n := fst (run flags_off H (fresh (Some [120])) ops) in
  snd (step flags_off H n RCid) = BCid (H (n_builder n) (encode (sort_links (n_links n)) (n_data n))).
Proof. vm_compute. reflexivity. Qed.
