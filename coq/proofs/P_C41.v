(** C41 — proofs about the filestore path model [M_C41]. *)
From Coq Require Import List NArith Bool Lia.
From V Require Import lib.Verdict model.M_C41.
Import ListNotations.
Open Scope N_scope.

(** * strings *)
Lemma str_eqb_eq : forall a b, str_eqb a b = true <-> a = b.
Proof.
  induction a as [|x a IH]; intros [|y b]; cbn [str_eqb]; split; intros H; try congruence; try discriminate.
  - apply andb_prop in H. destruct H as [H1 H2]. apply N.eqb_eq in H1. apply IH in H2. congruence.
  - injection H as -> ->. rewrite N.eqb_refl. cbn. now apply IH.
Qed.

Lemma str_eqb_refl : forall a, str_eqb a a = true.
Proof. intros a. now apply str_eqb_eq. Qed.

Definition noslash (c : str) : Prop := Forall (fun x => x <> sl) c.
(** a real path element: no '/', not empty, not "." *)
Definition good (c : str) : Prop := noslash c /\ keep c = true.
Definition nodd (c : str) : Prop := is_dotdot c = false.
Definition isdd (c : str) : Prop := is_dotdot c = true.

(** * splitting *)
Lemma split_go_app : forall a cur b, split_go (a ++ sl :: b) cur = split_go a cur ++ split_go b [].
Proof.
  induction a as [|c a IH]; intros cur b; cbn [app split_go].
  - rewrite N.eqb_refl. reflexivity.
  - destruct (c =? sl); [cbn [app]; f_equal|]; apply IH.
Qed.

Lemma split_go_noslash : forall s cur, noslash s -> split_go s cur = [rev cur ++ s].
Proof.
  induction s as [|c s IH]; intros cur H; cbn [split_go].
  - now rewrite app_nil_r.
  - inversion H as [|? ? Hc Hs]; subst. destruct (N.eqb_spec c sl); [contradiction|].
    rewrite IH by assumption. cbn [rev]. now rewrite <- app_assoc.
Qed.

Lemma split_go_elems_noslash : forall s cur, noslash cur -> Forall noslash (split_go s cur).
Proof.
  induction s as [|c s IH]; intros cur H; cbn [split_go].
  - constructor; [|constructor]. unfold noslash in *. now apply Forall_rev.
  - destruct (N.eqb_spec c sl).
    + constructor; [unfold noslash in *; now apply Forall_rev|]. apply IH. constructor.
    + apply IH. constructor; assumption.
Qed.

Lemma comps_good : forall s, Forall good (comps s).
Proof.
  intros s. unfold comps, split. apply Forall_forall. intros c Hc. apply filter_In in Hc.
  destruct Hc as [Hin Hk]. split; [|exact Hk].
  pose proof (split_go_elems_noslash s [] ltac:(constructor)) as H. rewrite Forall_forall in H. now apply H.
Qed.

Lemma comps_app : forall a b, comps (a ++ sl :: b) = comps a ++ comps b.
Proof. intros a b. unfold comps, split. now rewrite split_go_app, filter_app. Qed.

Lemma comps_good_single : forall c, good c -> comps c = [c].
Proof.
  intros c [Hn Hk]. unfold comps, split. rewrite split_go_noslash by assumption. cbn [rev app filter]. now rewrite Hk.
Qed.

Lemma comps_nil : comps [] = [].
Proof. reflexivity. Qed.

Lemma comps_intercalate : forall cs, Forall good cs -> cs <> [] -> comps (intercalate cs) = cs.
Proof.
  induction cs as [|c cs IH]; intros H Hne; [congruence|].
  inversion H as [|? ? Hc Hcs]; subst. destruct cs as [|c2 r].
  - cbn [intercalate]. now apply comps_good_single.
  - change (intercalate (c :: c2 :: r)) with (c ++ sl :: intercalate (c2 :: r)).
    rewrite comps_app, comps_good_single by assumption. rewrite IH; [reflexivity|assumption|discriminate].
Qed.

Lemma comps_render_rel : forall cs, Forall good cs -> comps (render_rel cs) = cs.
Proof.
  intros cs H. destruct cs as [|c r]; [reflexivity|]. unfold render_rel. apply comps_intercalate; [assumption|discriminate].
Qed.

Lemma good_nonempty : forall c, good c -> exists x r, c = x :: r /\ x <> sl.
Proof.
  intros c [Hn Hk]. destruct c as [|x r]; [discriminate|]. exists x, r. split; [reflexivity|]. now inversion Hn.
Qed.

Lemma render_rel_shape : forall cs, Forall good cs -> exists x r, render_rel cs = x :: r /\ x <> sl.
Proof.
  intros cs H. destruct cs as [|c cs]; [exists 46, []; split; [reflexivity|discriminate]|].
  inversion H as [|? ? Hc Hcs]; subst. destruct (good_nonempty c Hc) as (x & r & -> & Hx).
  unfold render_rel. destruct cs as [|c2 cs']; cbn [intercalate app]; eexists _, _; split; try reflexivity; assumption.
Qed.

(** * Clean's stack *)
Definition stk_ok (stk : list str) : Prop :=
  exists ns ds, stk = ns ++ ds /\ Forall nodd ns /\ Forall isdd ds.

Lemma push_ok : forall r stk c, stk_ok stk -> stk_ok (push r stk c).
Proof.
  intros r stk c (ns & ds & -> & Hns & Hds). unfold push. destruct (is_dotdot c) eqn:Ec.
  - destruct ns as [|n ns'].
    + cbn [app]. destruct ds as [|d ds'].
      * destruct r; [exists [], []; repeat split; constructor|].
        exists [], [c]. repeat split; constructor; [exact Ec|constructor].
      * inversion Hds as [|? ? Hd Hds']; subst. unfold isdd in Hd. rewrite Hd.
        exists [], (c :: d :: ds'). repeat split; [constructor|]. constructor; [exact Ec|assumption].
    + cbn [app]. inversion Hns as [|? ? Hn Hns']; subst. unfold nodd in Hn. rewrite Hn.
      exists ns', ds. repeat split; assumption.
  - exists (c :: ns), ds. repeat split; [|assumption]. constructor; assumption.
Qed.

Lemma fold_push_ok : forall r cs stk, stk_ok stk -> stk_ok (fold_left (push r) cs stk).
Proof. intros r cs. induction cs as [|c cs IH]; intros stk H; [exact H|]. cbn [fold_left]. apply IH. now apply push_ok. Qed.

Lemma push_Forall : forall (P : str -> Prop) r stk c, Forall P stk -> P c -> Forall P (push r stk c).
Proof.
  intros P r stk c Hs Hc. unfold push. destruct (is_dotdot c).
  - destruct stk as [|top rest].
    + destruct r; constructor; [assumption|constructor].
    + inversion Hs; subst. destruct (is_dotdot top); [constructor|]; assumption.
  - constructor; assumption.
Qed.

Lemma fold_push_Forall : forall (P : str -> Prop) r cs stk, Forall P stk -> Forall P cs ->
  Forall P (fold_left (push r) cs stk).
Proof.
  intros P r cs. induction cs as [|c cs IH]; intros stk Hs Hc; [exact Hs|]. cbn [fold_left].
  inversion Hc; subst. apply IH; [|assumption]. now apply push_Forall.
Qed.

Lemma clean_comps_Forall : forall (P : str -> Prop) r cs, Forall P cs -> Forall P (clean_comps r cs).
Proof. intros P r cs H. unfold clean_comps. apply Forall_rev. apply fold_push_Forall; [constructor|assumption]. Qed.

(** a cleaned component list: ".." elements only in front *)
Lemma clean_comps_shape : forall r cs, exists ds ns, clean_comps r cs = ds ++ ns /\ Forall isdd ds /\ Forall nodd ns.
Proof.
  intros r cs. unfold clean_comps.
  destruct (fold_push_ok r cs [] ltac:(exists [], []; repeat split; constructor)) as (ns & ds & E & Hns & Hds).
  rewrite E, rev_app_distr. exists (rev ds), (rev ns). repeat split; now apply Forall_rev.
Qed.

Lemma fold_push_nodd : forall r cs stk, Forall nodd cs -> fold_left (push r) cs stk = rev cs ++ stk.
Proof.
  intros r cs. induction cs as [|c cs IH]; intros stk H; [reflexivity|]. cbn [fold_left rev].
  inversion H as [|? ? Hc Hcs]; subst. rewrite IH by assumption. unfold push. unfold nodd in Hc. rewrite Hc.
  now rewrite <- app_assoc.
Qed.

(** pushing elements without ".." on top of a cleaned prefix just appends them *)
Lemma clean_comps_app_nodd : forall r xs cs, Forall nodd cs -> clean_comps r (xs ++ cs) = clean_comps r xs ++ cs.
Proof.
  intros r xs cs H. unfold clean_comps. rewrite fold_left_app, fold_push_nodd by assumption.
  now rewrite rev_app_distr, rev_involutive.
Qed.

(** * Rel *)
Lemma strip_common_spec : forall b t b' t', strip_common b t = (b', t') ->
  exists c, b = c ++ b' /\ t = c ++ t'.
Proof.
  induction b as [|x b IH]; intros t b' t' H; cbn [strip_common] in H.
  - injection H as <- <-. now exists [].
  - destruct t as [|y t]; [injection H as <- <-; now exists []|].
    destruct (str_eqb x y) eqn:E.
    + apply str_eqb_eq in E. subst y. destruct (IH _ _ _ H) as (c & -> & ->). now exists (x :: c).
    + injection H as <- <-. now exists [].
Qed.

Lemma suffix_nodd : forall ds ns c t', Forall isdd ds -> Forall nodd ns -> ds ++ ns = c ++ t' ->
  starts_dotdot t' = false -> Forall nodd t'.
Proof.
  induction ds as [|d ds IH]; intros ns c t' Hds Hns E Hs.
  - cbn [app] in E. subst ns. apply Forall_app in Hns. tauto.
  - inversion Hds as [|? ? Hd Hds']; subst. destruct c as [|x c'].
    + cbn [app] in E. subst t'. cbn [starts_dotdot] in Hs. unfold isdd in Hd. congruence.
    + cbn [app] in E. injection E as _ E. now apply (IH ns c' t').
Qed.

Lemma drop_prefix_app : forall b t, drop_prefix b (b ++ t) = Some t.
Proof. induction b as [|x b IH]; intros t; cbn [drop_prefix app]; [reflexivity|]. now rewrite str_eqb_refl, IH. Qed.

Lemma forallb_nodd : forall l, Forall nodd l -> forallb (fun x => negb (is_dotdot x)) l = true.
Proof.
  intros l H. induction H as [|x l Hx H IH]; [reflexivity|]. cbn [forallb]. unfold nodd in Hx. now rewrite Hx, IH.
Qed.

Lemma keep_not_dot : forall x, keep x = true -> str_eqb x s_dot = false.
Proof. intros x H. unfold keep in H. apply andb_prop in H. destruct H as [_ H]. now apply negb_true_iff in H. Qed.

(** * the repaired check: every accepted reference resolves inside the root,
      namely to the (cleaned) path that was referenced *)
Theorem put_inside : forall root p s, put false root p = Some s ->
  inside root (resolved root s) = true /\
  cp_rooted (resolved root s) = cp_rooted (clean p) /\
  cp_comps (resolved root s) = cp_comps (clean p).
Proof.
  intros root p s H. unfold put in H.
  destruct (has_prefix p root); [|discriminate].
  destruct (rel (clean root) (clean p)) as [cs|] eqn:Er; [|discriminate].
  cbn [negb andb] in H. destruct (starts_dotdot cs) eqn:Es; [discriminate|]. injection H as <-.
  (* unfold Rel *)
  unfold rel in Er. cbn [clean cp_rooted cp_comps] in Er.
  set (B := clean_comps (rooted root) (comps root)) in *.
  set (T := clean_comps (rooted p) (comps p)) in *.
  destruct (Bool.eqb (rooted root) (rooted p)) eqn:Err; [|discriminate]. cbn [negb] in Er.
  apply Bool.eqb_prop in Err.
  assert (HgB : Forall good B) by (apply clean_comps_Forall, comps_good).
  assert (HgT : Forall good T) by (apply clean_comps_Forall, comps_good).
  set (tc := if negb (rooted p) && is_nil T && negb (is_nil B) then [s_dot] else T) in *.
  destruct (strip_common B tc) as [b' t'] eqn:Esc.
  destruct (starts_dotdot b') eqn:Esb; [discriminate|]. injection Er as <-.
  assert (Hb' : b' = []).
  { destruct b' as [|x b'']; [reflexivity|]. cbn [map app starts_dotdot] in Es. discriminate. }
  subst b'. cbn [map app] in *.
  (* the "." element of a target that cleans to "." cannot be reached here *)
  assert (Htc : tc = T).
  { subst tc. destruct (negb (rooted p) && is_nil T && negb (is_nil B)) eqn:Ec; [|reflexivity]. exfalso.
    apply andb_prop in Ec. destruct Ec as [_ Ec].
    destruct B as [|x B']; [discriminate|]. cbn [strip_common] in Esc.
    inversion HgB as [|? ? [_ Hk] _]; subst. rewrite (keep_not_dot x Hk) in Esc. discriminate. }
  rewrite Htc in Esc. destruct (strip_common_spec _ _ _ _ Esc) as (c & EB & ET). rewrite app_nil_r in EB. subst c.
  (* the remaining target elements are real elements without ".." *)
  assert (Hnd : Forall nodd t').
  { destruct (clean_comps_shape (rooted p) (comps p)) as (ds & ns & Esh & Hds & Hns). fold T in Esh.
    rewrite ET in Esh. symmetry in Esh. now apply (suffix_nodd ds ns B t'). }
  assert (Hgt : Forall good t') by (rewrite ET in HgT; apply Forall_app in HgT; tauto).
  (* Join(root, stored) *)
  destruct (render_rel_shape t' Hgt) as (x & r & Ex & Hx).
  assert (Hcomps : comps (join2 root (render_rel t')) = comps root ++ t').
  { unfold join2. destruct root as [|y root'].
    - now rewrite comps_render_rel.
    - rewrite Ex. rewrite <- Ex. rewrite comps_app, comps_render_rel by assumption. reflexivity. }
  assert (Hroot : rooted (join2 root (render_rel t')) = rooted root).
  { unfold join2. destruct root as [|y root'].
    - rewrite Ex. cbn [rooted]. now apply N.eqb_neq.
    - rewrite Ex. reflexivity. }
  unfold resolved, clean. cbn [cp_rooted cp_comps]. rewrite Hroot, Hcomps, clean_comps_app_nodd by assumption.
  fold B. unfold inside, clean. cbn [cp_rooted cp_comps]. fold B. fold T.
  rewrite Bool.eqb_reflx, drop_prefix_app, forallb_nodd by assumption. repeat split; [exact Err|now rewrite ET].
Qed.

(** the repair only rejects more: what it accepts, the current code accepts with the same reference *)
Lemma put_fixed_sub : forall root p s, put false root p = Some s -> put true root p = Some s.
Proof.
  intros root p s H. unfold put in *. destruct (has_prefix p root); [|discriminate].
  destruct (rel (clean root) (clean p)) as [cs|]; [|discriminate].
  cbn [negb andb] in *. destruct (starts_dotdot cs); [discriminate|exact H].
Qed.

(** and it rejects exactly the references that would resolve outside the root's components:
    a reference starting with ".." never resolves inside *)
Lemma put_current_accepts : forall root p s, put true root p = Some s ->
  put false root p = Some s \/ put false root p = None.
Proof.
  intros root p s H. unfold put in *. destruct (has_prefix p root); [|discriminate].
  destruct (rel (clean root) (clean p)) as [cs|]; [|discriminate].
  cbn [negb andb] in *. destruct (starts_dotdot cs); [now right|now left].
Qed.

(** * the repair rejects ONLY references that resolve outside the root *)

(** cleaned lists, with the rooted refinement: a rooted cleaned path has no ".." at all *)
Definition shape (r : bool) (l : list str) : Prop :=
  exists ds ns, l = ds ++ ns /\ Forall isdd ds /\ Forall nodd ns /\ (r = true -> ds = []).

Definition stk_ok_r (r : bool) (stk : list str) : Prop :=
  exists ns ds, stk = ns ++ ds /\ Forall nodd ns /\ Forall isdd ds /\ (r = true -> ds = []).

Lemma push_ok_r : forall r stk c, stk_ok_r r stk -> stk_ok_r r (push r stk c).
Proof.
  intros r stk c (ns & ds & -> & Hns & Hds & Hr). unfold push. destruct (is_dotdot c) eqn:Ec.
  - destruct ns as [|n ns'].
    + cbn [app]. destruct ds as [|d ds'].
      * destruct r; [exists [], []; repeat split; constructor|].
        exists [], [c]. repeat split; try constructor; try assumption; try constructor. discriminate.
      * destruct r; [specialize (Hr eq_refl); discriminate|].
        inversion Hds as [|? ? Hd Hds']; subst. unfold isdd in Hd. rewrite Hd.
        exists [], (c :: d :: ds'). repeat split; [constructor| |discriminate]. constructor; [exact Ec|assumption].
    + cbn [app]. inversion Hns as [|? ? Hn Hns']; subst. unfold nodd in Hn. rewrite Hn.
      exists ns', ds. repeat split; assumption.
  - exists (c :: ns), ds. repeat split; try assumption. constructor; assumption.
Qed.

Lemma clean_comps_shape_r : forall r cs, shape r (clean_comps r cs).
Proof.
  intros r cs. unfold clean_comps.
  assert (H : stk_ok_r r (fold_left (push r) cs [])).
  { assert (H0 : stk_ok_r r []) by (exists [], []; repeat split; constructor).
    revert H0. generalize (@nil str). induction cs as [|c cs IH]; intros stk H0; [exact H0|].
    cbn [fold_left]. apply IH. now apply push_ok_r. }
  destruct H as (ns & ds & E & Hns & Hds & Hr). rewrite E, rev_app_distr.
  exists (rev ds), (rev ns). repeat split; try (now apply Forall_rev).
  intros Hr'. now rewrite (Hr Hr').
Qed.

Lemma shape_prefix : forall r c x, shape r (c ++ x) -> shape r c.
Proof.
  intros r c x (ds & ns & E & Hds & Hns & Hr). revert c E Hr.
  induction Hds as [|d ds Hd Hds IH]; intros c E Hr.
  - cbn [app] in E. exists [], c. split; [reflexivity|]. split; [constructor|]. split; [|auto].
    subst ns. apply Forall_app in Hns. tauto.
  - destruct c as [|y c'].
    + exists [], []. split; [reflexivity|]. split; [constructor|]. split; [constructor|reflexivity].
    + cbn [app] in E. injection E as -> E.
      assert (Hr' : r = true -> ds = []) by (intros Hq; specialize (Hr Hq); discriminate).
      destruct r; [specialize (Hr eq_refl); discriminate|].
      destruct (IH c' E ltac:(discriminate)) as (ds' & ns' & E' & Hds' & Hns' & _).
      exists (d :: ds'), ns'. repeat split; try assumption; [now rewrite E'|now constructor|discriminate].
Qed.

Lemma fold_push_dd : forall ds stk, Forall isdd ds -> Forall isdd stk ->
  fold_left (push false) ds stk = rev ds ++ stk.
Proof.
  induction ds as [|d ds IH]; intros stk Hds Hstk; [reflexivity|]. cbn [fold_left rev].
  inversion Hds as [|? ? Hd Hds']; subst. unfold isdd in Hd.
  assert (Ep : push false stk d = d :: stk).
  { unfold push. rewrite Hd. destruct stk as [|top rest]; [reflexivity|].
    inversion Hstk as [|? ? Ht _]; subst. unfold isdd in Ht. now rewrite Ht. }
  rewrite Ep, IH by (try assumption; now constructor). now rewrite <- app_assoc.
Qed.

(** Clean is idempotent: pushing a cleaned list onto the empty stack rebuilds it *)
Lemma fold_push_clean : forall r l, shape r l -> fold_left (push r) l [] = rev l.
Proof.
  intros r l (ds & ns & -> & Hds & Hns & Hr). rewrite fold_left_app.
  destruct r.
  - rewrite (Hr eq_refl). cbn [fold_left app]. rewrite fold_push_nodd by assumption. now rewrite app_nil_r.
  - rewrite (fold_push_dd ds []) by (try assumption; constructor). rewrite fold_push_nodd by assumption.
    now rewrite rev_app_distr, app_nil_r.
Qed.

Lemma fold_push_suffix : forall r c x, shape r (c ++ x) -> fold_left (push r) x (rev c) = rev (c ++ x).
Proof.
  intros r c x H. rewrite <- (fold_push_clean r c (shape_prefix r c x H)), <- fold_left_app.
  now apply fold_push_clean.
Qed.

Lemma fold_push_pop : forall r ys stk, Forall nodd ys ->
  fold_left (push r) (repeat s_dotdot (length ys)) (ys ++ stk) = stk.
Proof.
  intros r ys stk H. induction H as [|y ys Hy H IH]; [reflexivity|].
  cbn [length repeat fold_left app]. unfold push at 2. cbn [is_dotdot str_eqb s_dotdot]. cbn.
  unfold nodd in Hy. rewrite Hy. exact IH.
Qed.

Lemma fold_push_pop_rev : forall r xs stk, Forall nodd xs ->
  fold_left (push r) (repeat s_dotdot (length xs)) (rev xs ++ stk) = stk.
Proof. intros r xs stk H. rewrite <- (rev_length xs). apply fold_push_pop. now apply Forall_rev. Qed.

Lemma fold_push_pop_all : forall r xs, Forall nodd xs ->
  fold_left (push r) (repeat s_dotdot (length xs)) (rev xs) = [].
Proof. intros r xs H. rewrite <- (app_nil_r (rev xs)). now apply fold_push_pop_rev. Qed.

Lemma map_const_repeat : forall (b' : list str), map (fun _ => s_dotdot) b' = repeat s_dotdot (length b').
Proof. induction b' as [|x b' IH]; [reflexivity|]. cbn [map length repeat]. now rewrite IH. Qed.

Lemma strip_common_max : forall b t x b' t', strip_common b t = (x :: b', t') ->
  match t' with [] => True | y :: _ => str_eqb x y = false end.
Proof.
  induction b as [|u b IH]; intros t x b' t' H; cbn [strip_common] in H; [discriminate|].
  destruct t as [|v t]; [injection H as _ _ <-; exact I|].
  destruct (str_eqb u v) eqn:E; [now apply (IH t x b' t')|]. injection H as <- _ <-. exact E.
Qed.

Lemma drop_prefix_common : forall c b t, drop_prefix (c ++ b) (c ++ t) = drop_prefix b t.
Proof. induction c as [|x c IH]; intros b t; cbn [app drop_prefix]; [reflexivity|]. now rewrite str_eqb_refl. Qed.

Lemma good_dotdot : good s_dotdot.
Proof. split; [repeat constructor; discriminate|reflexivity]. Qed.

Lemma comps_join2 : forall root cs, Forall good cs -> comps (join2 root (render_rel cs)) = comps root ++ cs.
Proof.
  intros root cs Hg. destruct (render_rel_shape cs Hg) as (x & r & Ex & Hx).
  unfold join2. destruct root as [|y root'].
  - now rewrite comps_render_rel.
  - rewrite Ex. rewrite <- Ex. rewrite comps_app, comps_render_rel by assumption. reflexivity.
Qed.

Lemma rooted_join2 : forall root cs, Forall good cs -> rooted (join2 root (render_rel cs)) = rooted root.
Proof.
  intros root cs Hg. destruct (render_rel_shape cs Hg) as (x & r & Ex & Hx).
  unfold join2. destruct root as [|y root']; rewrite Ex; [|reflexivity]. cbn [rooted]. now apply N.eqb_neq.
Qed.

Lemma forallb_head_dd : forall x l, is_dotdot x = true -> forallb (fun c => negb (is_dotdot c)) (x :: l) = false.
Proof. intros x l H. cbn [forallb]. now rewrite H. Qed.

Lemma intercalate_snoc : forall l z, l <> [] -> intercalate (l ++ [z]) = intercalate l ++ sl :: z.
Proof.
  induction l as [|u l IH]; intros z Hne; [congruence|]. destruct l as [|v l'].
  - reflexivity.
  - change (intercalate ((u :: v :: l') ++ [z])) with (u ++ sl :: intercalate ((v :: l') ++ [z])).
    rewrite IH by discriminate.
    change (intercalate (u :: v :: l')) with (u ++ sl :: intercalate (v :: l')).
    now rewrite <- app_assoc.
Qed.

(** a reference "../../." : the trailing "." element disappears on Join *)
Lemma join2_dot : forall root dds, Forall good dds -> dds <> [] ->
  comps (join2 root (render_rel (dds ++ [s_dot]))) = comps root ++ dds /\
  rooted (join2 root (render_rel (dds ++ [s_dot]))) = rooted root.
Proof.
  intros root dds Hg Hne.
  assert (Er : render_rel (dds ++ [s_dot]) = render_rel dds ++ sl :: s_dot).
  { unfold render_rel. destruct dds as [|u l]; [congruence|]. rewrite <- app_comm_cons.
    rewrite app_comm_cons. now apply intercalate_snoc. }
  destruct (render_rel_shape dds Hg) as (y & r0 & Ey & Hy).
  rewrite Er. destruct root as [|y0 root'].
  - assert (Ej : join2 [] (render_rel dds ++ sl :: s_dot) = render_rel dds ++ sl :: s_dot) by reflexivity.
    rewrite Ej. split.
    + rewrite comps_app, comps_render_rel by assumption. now rewrite app_nil_r.
    + rewrite Ey. cbn [app rooted]. now apply N.eqb_neq.
  - assert (Ej : join2 (y0 :: root') (render_rel dds ++ sl :: s_dot) =
                 (y0 :: root') ++ sl :: (render_rel dds ++ sl :: s_dot)) by (rewrite Ey; reflexivity).
    rewrite Ej. split; [|reflexivity].
    rewrite comps_app, comps_app, comps_render_rel by assumption. now rewrite app_nil_r.
Qed.

Theorem put_rejected_outside : forall root p s,
  put true root p = Some s -> put false root p = None -> inside root (resolved root s) = false.
Proof.
  intros root p s Hon Hoff. unfold put in *.
  destruct (has_prefix p root); [|discriminate].
  destruct (rel (clean root) (clean p)) as [cs|] eqn:Er; [|discriminate].
  cbn [negb andb] in *. destruct (starts_dotdot cs) eqn:Es; [|discriminate]. injection Hon as <-. clear Hoff.
  unfold rel in Er. cbn [clean cp_rooted cp_comps] in Er.
  pose proof (clean_comps_shape_r (rooted root) (comps root)) as HsB.
  pose proof (clean_comps_shape_r (rooted p) (comps p)) as HsT.
  assert (HgB : Forall good (clean_comps (rooted root) (comps root))) by (apply clean_comps_Forall, comps_good).
  assert (HgT : Forall good (clean_comps (rooted p) (comps p))) by (apply clean_comps_Forall, comps_good).
  assert (HstkB : fold_left (push (rooted root)) (comps root) [] = rev (clean_comps (rooted root) (comps root))).
  { unfold clean_comps. now rewrite rev_involutive. }
  unfold inside, resolved, clean. cbn [cp_rooted cp_comps].
  remember (clean_comps (rooted root) (comps root)) as B eqn:HB.
  remember (clean_comps (rooted p) (comps p)) as T eqn:HT.
  destruct (Bool.eqb (rooted root) (rooted p)) eqn:Err; [|discriminate]. cbn [negb] in Er.
  apply Bool.eqb_prop in Err. rewrite <- Err in HsT.
  destruct (negb (rooted p) && is_nil T && negb (is_nil B)) eqn:Ec.
  - (* the target cleans to "." : the reference "../.. /." climbs to the empty relative path *)
    destruct B as [|x B']; [apply andb_prop in Ec; destruct Ec as [_ Ec]; discriminate|].
    cbn [strip_common] in Er.
    assert (Hk : str_eqb x s_dot = false) by (inversion HgB as [|? ? [_ Hk] _]; now apply keep_not_dot).
    rewrite Hk in Er.
    destruct (starts_dotdot (x :: B')) eqn:Esb; [discriminate|]. injection Er as <-.
    assert (HndB : Forall nodd (x :: B')).
    { destruct HsB as (ds & ns & E & Hds & Hns & _). apply (suffix_nodd ds ns [] (x :: B')); auto. }
    set (dd := map (fun _ : str => s_dotdot) (x :: B')).
    assert (Hgd : Forall good dd) by (subst dd; rewrite Forall_map; apply Forall_forall; intros; apply good_dotdot).
    destruct (join2_dot root dd Hgd ltac:(subst dd; discriminate)) as [Hcomps Hroot].
    change (s_dotdot :: map (fun _ : str => s_dotdot) B' ++ [s_dot]) with (dd ++ [s_dot]).
    rewrite Hroot, Hcomps. unfold clean_comps. rewrite fold_left_app, HstkB. subst dd. rewrite map_const_repeat.
    rewrite fold_push_pop_all by assumption.
    cbn [rev drop_prefix]. now rewrite andb_false_r.
  - destruct (strip_common B T) as [b' t'] eqn:Esc.
    destruct (starts_dotdot b') eqn:Esb; [discriminate|]. injection Er as <-.
    destruct (strip_common_spec _ _ _ _ Esc) as (c & EB & ET).
    assert (Hgt : Forall good t') by (rewrite ET in HgT; apply Forall_app in HgT; tauto).
    assert (Hndb : Forall nodd b').
    { destruct HsB as (ds & ns & E & Hds & Hns & _). apply (suffix_nodd ds ns c b'); auto. congruence. }
    assert (Hgcs : Forall good (map (fun _ => s_dotdot) b' ++ t')).
    { apply Forall_app. split; [|assumption]. rewrite Forall_map. apply Forall_forall. intros; apply good_dotdot. }
    rewrite rooted_join2, comps_join2 by assumption.
    unfold clean_comps. rewrite !fold_left_app, HstkB, map_const_repeat.
    assert (Hstk2 : fold_left (push (rooted root)) (repeat s_dotdot (length b')) (rev B) = rev c).
    { rewrite EB, rev_app_distr. now apply fold_push_pop_rev. }
    rewrite Hstk2, (fold_push_suffix (rooted root) c t') by (now rewrite <- ET).
    rewrite rev_involutive, EB, drop_prefix_common.
    destruct b' as [|x b''].
    + (* nothing left of the base: the reference itself starts with ".." *)
      cbn [map app] in Es. cbn [drop_prefix]. destruct t' as [|y t'']; [discriminate|].
      cbn [starts_dotdot] in Es. rewrite (forallb_head_dd y t'' Es). now rewrite andb_false_r.
    + pose proof (strip_common_max _ _ _ _ _ Esc) as Hmax. cbn [drop_prefix].
      destruct t' as [|y t'']; [now rewrite andb_false_r|]. rewrite Hmax. now rewrite andb_false_r.
Qed.

(** of the references the current code accepts, the repair keeps exactly those that resolve inside the root *)
Theorem fix_exact : forall root p s, put true root p = Some s ->
  (put false root p = Some s <-> inside root (resolved root s) = true).
Proof.
  intros root p s Hon. split.
  - intros H. now apply put_inside in H.
  - intros Hin. destruct (put_current_accepts root p s Hon) as [H|H]; [exact H|].
    rewrite (put_rejected_outside root p s Hon H) in Hin. discriminate.
Qed.

(** * reference kinds and the read-side dispatcher *)

(** two consecutive '/' somewhere in a string ([prev] = the previous character was '/') *)
Fixpoint ds (prev : bool) (s : str) : bool :=
  match s with
  | [] => false
  | a :: r => (prev && (a =? sl)) || ds (a =? sl) r
  end.
Definition dslash (s : str) : bool := ds false s.

Lemma ds_mid : forall l1 prev l2, ds prev (l1 ++ sl :: sl :: l2) = true.
Proof.
  induction l1 as [|a l1 IH]; intros prev l2; cbn [app ds].
  - rewrite !N.eqb_refl. cbn [andb]. now rewrite orb_true_r.
  - rewrite IH. apply orb_true_r.
Qed.

Lemma is_url_dslash : forall s, is_url s = true -> dslash s = true.
Proof.
  intros s H. unfold is_url in H.
  destruct s as [|c0 [|c1 [|c2 [|c3 [|c4 [|c5 [|c6 [|c7 r]]]]]]]]; try discriminate.
  apply andb_prop in H. destruct H as [_ H]. apply orb_prop in H. destruct H as [H|H].
  - apply andb_prop in H. destruct H as [H H7]. apply andb_prop in H. destruct H as [_ H6].
    apply N.eqb_eq in H6, H7. subst c6 c7. exact (ds_mid [c0; c1; c2; c3; c4; c5] false r).
  - apply andb_prop in H. destruct H as [H H6]. apply andb_prop in H. destruct H as [_ H5].
    apply N.eqb_eq in H5, H6. subst c5 c6. exact (ds_mid [c0; c1; c2; c3; c4] false (c7 :: r)).
Qed.

Lemma ds_noslash : forall c prev, noslash c -> ds prev c = false.
Proof.
  induction c as [|a c IH]; intros prev H; [reflexivity|]. inversion H as [|? ? Ha Hc]; subst.
  cbn [ds]. destruct (N.eqb_spec a sl); [contradiction|]. rewrite andb_false_r. cbn [orb]. now apply IH.
Qed.

Lemma ds_app_sl : forall a prev x r, noslash a -> (a = [] -> prev = false) -> x <> sl -> ds false (x :: r) = false ->
  ds prev (a ++ sl :: x :: r) = false.
Proof.
  induction a as [|c a IH]; intros prev x r Ha Hp Hx Hb.
  - rewrite (Hp eq_refl). cbn [app ds] in *. rewrite N.eqb_refl. destruct (N.eqb_spec x sl); [contradiction|].
    cbn [andb orb] in *. exact Hb.
  - inversion Ha as [|? ? Hc Ha']; subst. cbn [app ds]. destruct (N.eqb_spec c sl); [contradiction|].
    rewrite andb_false_r. cbn [orb]. apply IH; auto.
Qed.

Lemma intercalate_no_dslash : forall cs, Forall good cs -> dslash (intercalate cs) = false.
Proof.
  induction cs as [|c cs IH]; intros H; [reflexivity|].
  inversion H as [|? ? Hc Hcs]; subst. destruct cs as [|c2 r].
  - cbn [intercalate]. apply ds_noslash. now destruct Hc.
  - change (intercalate (c :: c2 :: r)) with (c ++ sl :: intercalate (c2 :: r)).
    destruct (render_rel_shape (c2 :: r) Hcs) as (x & r0 & Ex & Hx). unfold render_rel in Ex.
    specialize (IH Hcs). rewrite Ex in *. unfold dslash in *.
    apply ds_app_sl; [now destruct Hc|reflexivity|exact Hx|exact IH].
Qed.

(** what the repaired check stores for a file reference: real elements only *)
Lemma put_false_shape : forall root p s, put false root p = Some s ->
  exists t', s = render_rel t' /\ Forall good t'.
Proof.
  intros root p s H. unfold put in H.
  destruct (has_prefix p root); [|discriminate].
  destruct (rel (clean root) (clean p)) as [cs|] eqn:Er; [|discriminate].
  cbn [negb andb] in H. destruct (starts_dotdot cs) eqn:Es; [discriminate|]. injection H as <-.
  unfold rel in Er. cbn [clean cp_rooted cp_comps] in Er.
  assert (HgB : Forall good (clean_comps (rooted root) (comps root))) by (apply clean_comps_Forall, comps_good).
  assert (HgT : Forall good (clean_comps (rooted p) (comps p))) by (apply clean_comps_Forall, comps_good).
  remember (clean_comps (rooted root) (comps root)) as B eqn:HB.
  remember (clean_comps (rooted p) (comps p)) as T eqn:HT.
  destruct (Bool.eqb (rooted root) (rooted p)); [|discriminate]. cbn [negb] in Er.
  destruct (negb (rooted p) && is_nil T && negb (is_nil B)) eqn:Ec.
  - exfalso. destruct B as [|x B']; [apply andb_prop in Ec; destruct Ec as [_ Ec]; discriminate|].
    cbn [strip_common] in Er.
    assert (Hk : str_eqb x s_dot = false) by (inversion HgB as [|? ? [_ Hk] _]; now apply keep_not_dot).
    rewrite Hk in Er. destruct (starts_dotdot (x :: B')); [discriminate|]. injection Er as <-.
    cbn [map app starts_dotdot] in Es. discriminate.
  - destruct (strip_common B T) as [b' t'] eqn:Esc.
    destruct (starts_dotdot b'); [discriminate|]. injection Er as <-.
    destruct b' as [|x b'']; [|cbn [map app starts_dotdot] in Es; discriminate].
    cbn [map app] in *. exists t'. split; [reflexivity|].
    destruct (strip_common_spec _ _ _ _ Esc) as (c & _ & ET). rewrite ET in HgT. apply Forall_app in HgT. tauto.
Qed.

(** a file reference is never stored in a URL-shaped form *)
Theorem put_not_url : forall root p s, put false root p = Some s -> is_url s = false.
Proof.
  intros root p s H. destruct (put_false_shape root p s H) as (t' & -> & Hg).
  destruct (is_url (render_rel t')) eqn:E; [|reflexivity]. apply is_url_dslash in E.
  unfold render_rel in E. destruct t' as [|c r]; [discriminate|].
  now rewrite (intercalate_no_dslash (c :: r) Hg) in E.
Qed.

(** read-side confinement: for every reference the (repaired) Put accepts, under ANY flags at Put
    time, and for ANY flags at read time, the local path the dispatcher opens (if any) is inside the root *)
Theorem read_confined : forall root p af au s,
  put_ref false af au root p = PStored s ->
  forall gf gu, match read_disp gf gu root s with
                | DFile c => inside root c = true
                | _ => True
                end.
Proof.
  intros root p af au s H gf gu. unfold put_ref in H. unfold read_disp.
  destruct (is_url p) eqn:Eu.
  - destruct au; [|discriminate]. injection H as <-. rewrite Eu. now destruct gu.
  - destruct af; [|discriminate]. destruct (put false root p) as [s'|] eqn:Ep; [|discriminate]. injection H as <-.
    destruct (is_url s'); [now destruct gu|]. destruct gf; [|exact I]. now apply put_inside in Ep.
Qed.

Lemma read_confined_b : forall root p af au s,
  put_ref false af au root p = PStored s -> confined root s = true.
Proof.
  intros root p af au s H. unfold confined. cbn [forallb fst snd].
  pose proof (read_confined root p af au s H) as R.
  pose proof (R false false) as R1. pose proof (R false true) as R2.
  pose proof (R true false) as R3. pose proof (R true true) as R4.
  destruct (read_disp false false root s); destruct (read_disp false true root s);
    destruct (read_disp true false root s); destruct (read_disp true true root s);
    try rewrite R1; try rewrite R2; try rewrite R3; try rewrite R4; reflexivity.
Qed.

(** the dispatcher respects the kind a reference was stored as: a URL reference is never opened as a
    local file, a file reference is never fetched as a URL, and each reader needs its own flag *)
Theorem dispatch_kind : forall root p af au s gf gu,
  put_ref false af au root p = PStored s ->
  match read_disp gf gu root s with
  | DFile c => is_url p = false /\ gf = true /\ af = true
  | DUrl => is_url p = true /\ gu = true /\ au = true /\ s = p
  | DNotEnabled => if is_url p then gu = false else gf = false
  end.
Proof.
  intros root p af au s gf gu H. unfold put_ref in H. unfold read_disp.
  destruct (is_url p) eqn:Eu.
  - destruct au; [|discriminate]. injection H as <-. rewrite Eu. destruct gu; repeat split; reflexivity.
  - destruct af; [|discriminate]. destruct (put false root p) as [s'|] eqn:Ep; [|discriminate]. injection H as <-.
    rewrite (put_not_url root p s' Ep). destruct gf; repeat split; reflexivity.
Qed.

(** * PutMany: every element is checked on its own *)
Theorem batch_confined : forall root af au paths ss,
  batch_put false af au root paths = Some ss ->
  Forall2 (fun p s => put_ref false af au root p = PStored s) paths ss /\
  Forall (fun s => confined root s = true) ss.
Proof.
  intros root af au paths. induction paths as [|p r IH]; intros ss H; cbn [batch_put] in H.
  - injection H as <-. split; constructor.
  - destruct (put_ref false af au root p) as [s| |] eqn:Ep; try discriminate.
    destruct (batch_put false af au root r) as [ss'|]; [|discriminate]. cbn [option_map] in H. injection H as <-.
    destruct (IH ss' eq_refl) as [H1 H2]. split; constructor; try assumption.
    now apply (read_confined_b root p af au s).
Qed.
