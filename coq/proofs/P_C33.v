(** C33 — proofs about the model of path/resolver/resolver.go (model/M_C33.v). *)
From Coq Require Import List String Bool NArith Arith Lia.
From V Require Import lib.Verdict model.M_C33.
Import ListNotations.
Open Scope string_scope.

(** the selector walk over a prefix either resolves all of it, or stops at the
    first missing name — and successive lookup ([spec_resolve]) agrees in both cases,
    whatever follows the prefix *)
Lemma walk_spec : forall pre root k parent,
  walk root pre = (k, parent) ->
  (k = S (List.length pre) /\
   forall rest, spec_resolve root (pre ++ rest) = spec_resolve parent rest) \/
  (1 <= k <= List.length pre /\
   forall rest, spec_resolve root (pre ++ rest) = RNoLink (nth (k - 1) pre "") (nid parent)).
Proof.
  induction pre as [|s r IH]; intros root k parent H.
  - cbn [walk] in H. injection H as <- <-. left. split; [reflexivity|]. intros; reflexivity.
  - cbn [walk] in H.
    destruct (lookup root s) as [c|] eqn:El.
    + destruct (walk c r) as [k' l] eqn:Ew. injection H as <- <-.
      destruct (IH _ _ _ Ew) as [[Hk Hs]|[Hk Hs]].
      * left. split; [cbn [List.length]; lia|].
        intros rest. cbn [app spec_resolve]. rewrite El. apply Hs.
      * right. split; [cbn [List.length]; lia|].
        intros rest. cbn [app spec_resolve]. rewrite El. rewrite Hs.
        replace (S k' - 1) with (S (k' - 1)) by lia. reflexivity.
    + injection H as <- <-. right. split; [cbn [List.length]; lia|].
      intros rest. cbn [app spec_resolve]. rewrite El. reflexivity.
Qed.

(** ResolveToLastNode (selector over all but the last segment, the index arithmetic
    of the error case, the final lookup) = successive lookup, for every tree and path *)
Lemma resolve_to_last_snoc : forall root pre l,
  resolve_to_last flags_off root (pre ++ [l]) = spec_resolve root (pre ++ [l]).
Proof.
  intros root pre l. unfold resolve_to_last.
  destruct (pre ++ [l])%list as [|a b] eqn:E; [destruct pre; discriminate|]. rewrite <- E. clear E a b.
  rewrite removelast_last, last_last, app_length. cbn [List.length].
  destruct (walk root pre) as [k parent] eqn:Ew.
  destruct (walk_spec _ _ _ _ Ew) as [[Hk Hs]|[Hk Hs]].
  - replace (Nat.ltb k (List.length pre + 1)) with false by (symmetry; apply Nat.ltb_ge; lia).
    rewrite Hs. cbn [spec_resolve].
    destruct parent as [i pb|i sh es]; cbn [lookup f_leaf_last flags_off andb].
    + reflexivity.
    + destruct (assoc l es); reflexivity.
  - replace (Nat.ltb k (List.length pre + 1)) with true by (symmetry; apply Nat.ltb_lt; lia).
    rewrite Hs. rewrite app_nth1 by lia. reflexivity.
Qed.

Theorem resolve_to_last_spec : forall root segs,
  resolve_to_last flags_off root segs = spec_resolve root segs.
Proof.
  intros root segs. destruct segs as [|s0 r0]; [reflexivity|].
  assert (Hne : s0 :: r0 <> []) by discriminate.
  rewrite (app_removelast_last "" Hne). apply resolve_to_last_snoc.
Qed.

(** ---------- the property in relational form ---------- *)
Inductive reaches : node -> list string -> node -> Prop :=
| reach_nil : forall n, reaches n [] n
| reach_cons : forall n s c r t, lookup n s = Some c -> reaches c r t -> reaches n (s :: r) t.

Lemma reaches_spec : forall root segs t rest,
  reaches root segs t -> spec_resolve root (segs ++ rest) = spec_resolve t rest.
Proof.
  intros root segs t rest H. induction H as [n|n s c r t Hl Hr IH]; [reflexivity|].
  cbn [app spec_resolve]. rewrite Hl. exact IH.
Qed.

Lemma reaches_walk : forall root segs t rest,
  reaches root segs t ->
  walk root (segs ++ rest) = (List.length segs + fst (walk t rest), snd (walk t rest)).
Proof.
  intros root segs t rest H. induction H as [n|n s c r t Hl Hr IH].
  - cbn [app List.length]. destruct (walk n rest); reflexivity.
  - cbn [app walk List.length]. rewrite Hl, IH. reflexivity.
Qed.

Theorem resolve_ok : forall root segs t,
  reaches root segs t ->
  resolve_to_last flags_off root segs = ROk (nid t) [] /\
  resolve_path root segs = Some (nid t) /\
  resolve_components root segs = S (List.length segs).
Proof.
  intros root segs t H.
  pose proof (reaches_spec _ _ _ [] H) as Hs. rewrite app_nil_r in Hs.
  pose proof (reaches_walk _ _ _ [] H) as Hw. rewrite app_nil_r in Hw. cbn [walk fst snd] in Hw.
  split; [rewrite resolve_to_last_spec, Hs; reflexivity|].
  unfold resolve_path, resolve_components. rewrite Hw.
  replace (List.length segs + 1) with (S (List.length segs)) by lia.
  rewrite Nat.eqb_refl. split; reflexivity.
Qed.

Theorem nolink_first_missing : forall root pre d s post,
  reaches root pre d -> lookup d s = None ->
  resolve_to_last flags_off root (pre ++ s :: post) = RNoLink s (nid d) /\
  resolve_path root (pre ++ s :: post) = None /\
  resolve_components root (pre ++ s :: post) = S (List.length pre).
Proof.
  intros root pre d s post H Hl.
  pose proof (reaches_spec _ _ _ (s :: post) H) as Hs. cbn [spec_resolve] in Hs. rewrite Hl in Hs.
  pose proof (reaches_walk _ _ _ (s :: post) H) as Hw. cbn [walk] in Hw. rewrite Hl in Hw. cbn [fst snd] in Hw.
  split; [rewrite resolve_to_last_spec; exact Hs|].
  unfold resolve_path, resolve_components. rewrite Hw. cbn [fst].
  split; [|lia].
  replace (Nat.eqb (List.length pre + 1) (S (List.length (pre ++ s :: post)))) with false; [reflexivity|].
  symmetry. apply Nat.eqb_neq. rewrite app_length. cbn [List.length]. lia.
Qed.

(** every path either reaches a node or has a first missing segment: the two
    theorems above cover all inputs *)
Theorem reaches_or_missing : forall segs root,
  (exists t, reaches root segs t) \/
  (exists pre d s post, segs = (pre ++ s :: post)%list /\ reaches root pre d /\ lookup d s = None).
Proof.
  induction segs as [|s r IH]; intros root.
  - left. exists root. constructor.
  - destruct (lookup root s) as [c|] eqn:El.
    + destruct (IH c) as [[t Ht]|(pre & d & s' & post & -> & Hr & Hn)].
      * left. exists t. econstructor; eauto.
      * right. exists (s :: pre), d, s', post. split; [reflexivity|]. split; [econstructor; eauto|exact Hn].
    + right. exists [], root, s, r. split; [reflexivity|]. split; [constructor|exact El].
Qed.

(** ---------- the on-disk shape of a directory is invisible ---------- *)
Fixpoint unshard (n : node) : node :=
  match n with
  | Leaf i p => Leaf i p
  | Dir i _ es => Dir i false (map (fun p => (fst p, unshard (snd p))) es)
  end.

Lemma nid_unshard : forall n, nid (unshard n) = nid n.
Proof. destruct n; reflexivity. Qed.

Lemma lookup_unshard : forall n s, lookup (unshard n) s = option_map unshard (lookup n s).
Proof.
  intros n s. destruct n as [i p|i sh es]; [reflexivity|].
  cbn [unshard lookup]. induction es as [|[k v] es IH]; [reflexivity|].
  cbn [map assoc fst snd]. destruct (String.eqb k s); [reflexivity|exact IH].
Qed.

Theorem sharding_invisible : forall segs root,
  resolve_to_last flags_off (unshard root) segs = resolve_to_last flags_off root segs.
Proof.
  intros segs root. rewrite !resolve_to_last_spec. revert root.
  induction segs as [|s r IH]; intros root; cbn [spec_resolve].
  - now rewrite nid_unshard.
  - rewrite lookup_unshard. destruct (lookup root s) as [c|]; cbn [option_map].
    + apply IH.
    + now rewrite nid_unshard.
Qed.

(** ---------- finding C33-1: a name below a file as the LAST segment ---------- *)
Definition tree_c33_1 : node := Dir 2 false [("f", Leaf 1 true)].

Theorem leaf_last_refuted :
  resolve_to_last flags_on tree_c33_1 ["f"; "x"] = RErr /\
  spec_resolve tree_c33_1 ["f"; "x"] = RNoLink "x" 1 /\
  resolve_to_last flags_on tree_c33_1 ["f"; "x"; "y"] = RNoLink "x" 1.
Proof. vm_compute. repeat split. Qed.
