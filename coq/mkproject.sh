#!/bin/sh
# Regenerates _CoqProject and Makefile from the files on disk (lib, gen, model, proofs, props).
cd "$(dirname "$0")"
{
  echo "-Q . V"
  echo "-arg -w -arg -notation-overridden,-deprecated-hint-without-locality,-deprecated-instance-without-locality,-future-coercion-class-field,-ambiguous-paths"
  for d in lib gen model proofs props; do
    ls $d/*.v 2>/dev/null | LC_ALL=C sort
  done
} > _CoqProject.new
if ! cmp -s _CoqProject.new _CoqProject; then mv _CoqProject.new _CoqProject; coq_makefile -f _CoqProject -o Makefile >/dev/null; else rm _CoqProject.new; [ -f Makefile ] || coq_makefile -f _CoqProject -o Makefile >/dev/null; fi
