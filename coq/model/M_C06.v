(** C06 — chunkers are lossless, bounded and deterministic (chunker/*.go).

    Executable model of the mechanism, transcribed from the Go sources:
      splitting.go  sizeSplitterv2.NextBytes : io.ReadFull into [size] bytes
      buzhash.go    Buzhash.NextBytes        : 512 KiB buffer with carry-over,
                    32-byte rolling hash, cut at state & mask = 0 from 128 KiB on
      rabin.go      NewRabin / NewRabinMinMax: parameter arithmetic; the
                    dependency whyrusleeping/chunker enters by its contract
                    ([pre = MinSize - 16] in uint64, cut at the first position
                    >= MinSize where an ORACLE hits or MaxSize is reached)
      parse.go, registry.go  FromString and the three registered parsers
    plus io.ReadFull over an explicitly fragmented reader.
    Bytes are [N] (0..255), byte strings are [list N].  No proofs in this file. *)
From Coq Require Import String Ascii.
From Coq Require Import List ZArith NArith Bool Arith.
From V Require Import lib.Verdict.
Import ListNotations.

(* ------------------------------------------------------------------ *)
(** * 0. small executable helpers *)

Fixpoint list_eqb {A} (eqb : A -> A -> bool) (l1 l2 : list A) : bool :=
  match l1, l2 with
  | [], [] => true
  | a :: r1, b :: r2 => eqb a b && list_eqb eqb r1 r2
  | _, _ => false
  end.
Definition bytes_eqb : list N -> list N -> bool := list_eqb N.eqb.
Definition lenN {A} (l : list A) : N := N.of_nat (length l).
Definition sumN (l : list N) : N := fold_left N.add l 0%N.
Definition is_nil {A} (l : list A) : bool := match l with [] => true | _ => false end.

(* ------------------------------------------------------------------ *)
(** * 1. A chunker = a cut function iterated over the remaining input *)

Section Chunks.
  Variable cut : list N -> nat.   (* length of the next chunk, given the remaining input *)

  (** [None] = the implementation would not make progress / would overrun
      (a cut of 0 is an endless stream of empty chunks in the Go loop). *)
  Fixpoint chunksf (fuel : nat) (d : list N) : option (list (list N)) :=
    match d with
    | [] => Some []
    | _ :: _ =>
        match fuel with
        | O => None
        | S f =>
            let n := cut d in
            if (n =? 0) || (length d <? n) then None
            else match chunksf f (skipn n d) with
                 | Some r => Some (firstn n d :: r)
                 | None => None
                 end
        end
    end.
  Definition chunks (d : list N) : option (list (list N)) := chunksf (length d) d.
End Chunks.

(* ------------------------------------------------------------------ *)
(** * 2. Specification of the property on one run *)

Fixpoint all_but_last (P : N -> bool) (ls : list N) : bool :=
  match ls with
  | [] => true
  | x :: r => match r with [] => true | _ => P x && all_but_last P r end
  end.

(** chunk lengths [ls]: none empty, none above [limit], all but the last within [mn, mx] *)
Definition lens_ok (mn mx limit : N) (ls : list N) : bool :=
  forallb (fun n => (1 <=? n)%N && (n <=? limit)%N) ls &&
  all_but_last (fun n => (mn <=? n)%N && (n <=? mx)%N) ls.

(** a whole run: lossless + [lens_ok] *)
Definition run_ok (mn mx limit : N) (d : list N) (cs : list (list N)) : bool :=
  bytes_eqb (concat cs) d && lens_ok mn mx limit (map lenN cs).

(* ------------------------------------------------------------------ *)
(** * 3. io.ReadFull over a fragmented reader

    A reader holds the remaining bytes and a script of fragments: entry
    [(k, e)] makes the next Read return at most [k] bytes (k = 0: a
    zero-length read with nil error) and, if [e] and this read hands out the
    last byte, io.EOF together with the data.  With the script exhausted a Read
    fills the whole buffer.  EOF is sticky. *)
Record reader := { rd_data : list N; rd_frags : list (N * bool) }.

Inductive rerr := ENil | EEOF | EUnexpected.

(** one Read into a buffer of [want] > 0 bytes: (bytes, err = io.EOF?, reader') *)
Definition rd_read (r : reader) (want : nat) : list N * bool * reader :=
  match rd_data r with
  | [] => ([], true, r)
  | _ :: _ =>
      let '(k, e, frs) := match rd_frags r with
                          | [] => (want, false, [])
                          | (k, e) :: frs => (N.to_nat k, e, frs)
                          end in
      let k' := Nat.min k want in
      let rest := skipn k' (rd_data r) in
      (firstn k' (rd_data r), e && is_nil rest, {| rd_data := rest; rd_frags := frs |})
  end.

(** io.ReadFull = io.ReadAtLeast(r, buf, len(buf)) *)
Fixpoint read_fullf (fuel : nat) (r : reader) (want : nat) (acc : list N)
  : option (list N * rerr * reader) :=
  if want =? 0 then Some (acc, ENil, r) else
  match fuel with
  | O => None
  | S f =>
      let '(got, eof, r') := rd_read r want in
      let acc' := acc ++ got in
      let want' := want - length got in
      if eof then
        Some (acc', (if want' =? 0 then ENil else if is_nil acc' then EEOF else EUnexpected), r')
      else read_fullf f r' want' acc'
  end.
Definition read_full (r : reader) (want : nat) : option (list N * rerr * reader) :=
  read_fullf (length (rd_frags r) + 2) r want [].

(* ------------------------------------------------------------------ *)
(** * 4. The fixed-size splitter *)

Definition cut_size (size : N) (d : list N) : nat := Nat.min (N.to_nat size) (length d).

(** sizeSplitterv2 as a state machine: (reader, sticky err) *)
Definition size_next (size : N) (st : reader * bool) : option (option (list N) * (reader * bool)) :=
  let '(r, err) := st in
  if err then Some (None, st) else
  match read_full r (N.to_nat size) with
  | None => None
  | Some (got, ENil, r') => Some (Some got, (r', false))
  | Some (got, EUnexpected, r') => Some (Some got, (r', true))   (* reallocChunk(full, n), n > 0 *)
  | Some (_, EEOF, r') => Some (None, (r', false))
  end.

(* ------------------------------------------------------------------ *)
(** * 5. Buzhash *)

Record bzp := { bz_min : N; bz_max : N; bz_mask : N; bz_bh : N -> N (* the byte table *) }.

(** bits.RotateLeft32(x, 1) on a value below 2^32: the top bit moves to bit 0 *)
Definition rotl1 (x : N) : N :=
  if (x <? 2147483648)%N then N.double x else N.succ_double (x - 2147483648).
(** the same with shifts and masks; [P_C06.rotl1_bits_eq] proves them equal below 2^32 *)
Definition rotl1_bits (x : N) : N :=
  N.lor (N.land (N.shiftl x 1) 4294967295) (N.shiftr x 31).
Definition bh (p : bzp) (b : N) : N := bz_bh p b.

(** first loop of NextBytes: state over buf[min-32 .. min) *)
Definition buz_init (p : bzp) (w : list N) : N :=
  fold_left (fun s b => N.lxor (rotl1 s) (bh p b)) w 0%N.

(** second loop: [outs] = buf[i..], [ins] = buf[i+32..]; the number of
    completed iterations (the loop stops on a masked-zero state or when
    [ins] is exhausted, i.e. i > max) *)
Fixpoint buz_scan (p : bzp) (state : N) (outs ins : list N) {struct ins} : nat :=
  if (N.land state (bz_mask p) =? 0)%N then O else
  match ins with
  | [] => O
  | b_in :: ins' =>
      match outs with
      | [] => O   (* unreachable: outs is 32 longer than ins *)
      | b_out :: outs' =>
          S (buz_scan p (N.lxor (N.lxor (rotl1 state) (bh p b_out)) (bh p b_in)) outs' ins')
      end
  end.

(** cut position inside the buffered bytes [buf] (|buf| >= min) *)
Definition buz_cut_buf (p : bzp) (buf : list N) : nat :=
  let mn := N.to_nat (bz_min p) in
  let outs := skipn (mn - 32) buf in
  mn + buz_scan p (buz_init p (firstn 32 outs)) outs (skipn mn buf).

Definition cut_buz (p : bzp) (d : list N) : nat :=
  let buf := firstn (N.to_nat (bz_max p)) d in
  if length buf <? N.to_nat (bz_min p) then length buf else buz_cut_buf p buf.

(** Buzhash as a state machine: (carry = b.buf[:b.n], reader, sticky err) *)
Definition buz_next (p : bzp) (st : list N * reader * bool)
  : option (option (list N) * (list N * reader * bool)) :=
  let '(carry, r, err) := st in
  if err then Some (None, st) else
  match read_full r (N.to_nat (bz_max p) - length carry) with
  | None => None
  | Some (got, e, r') =>
      let buf := carry ++ got in
      let short := match e with ENil => false | _ => length buf <? N.to_nat (bz_min p) end in
      if short then
        if is_nil buf then Some (None, ([], r', true)) else Some (Some buf, ([], r', true))
      else
        let i := buz_cut_buf p buf in
        Some (Some (firstn i buf), (skipn i buf, r', false))
  end.

(** drive a splitter state machine until it reports EOF *)
Section Drive.
  Context {S : Type}.
  Variable next : S -> option (option (list N) * S).
  Fixpoint drive (fuel : nat) (st : S) : option (list (list N)) :=
    match fuel with
    | O => None
    | Datatypes.S f =>
        match next st with
        | None => None
        | Some (None, _) => Some []
        | Some (Some c, st') =>
            match drive f st' with Some r => Some (c :: r) | None => None end
        end
    end.
End Drive.

Definition run_size (size : N) (r : reader) : option (list (list N)) :=
  drive (size_next size) (length (rd_data r) + 2) (r, false).
Definition run_buz (p : bzp) (r : reader) : option (list (list N)) :=
  drive (buz_next p) (length (rd_data r) + 2) ([], r, false).

(** the constants and the byte table of buzhash.go *)
Definition bytehash : list N := [
  1647765461; 271031051; 1921089922; 3696387348; 802430525; 2004809928; 2213433989; 747583031;
  788831258; 1474271121; 2449937695; 2605991960; 1961817688; 539544160; 41015578; 665737342;
  3975805535; 594440653; 4097477166; 196162432; 2656538924; 2309123291; 2681159025; 2825758449;
  2622092150; 879422663; 4036274670; 3935955403; 2954302406; 143314939; 694198523; 877290092;
  2146576966; 1836718757; 1785809174; 1104434378; 2200287280; 191231331; 1149234378; 4191218270;
  3252278228; 3411985780; 1437264130; 2263728359; 221945395; 3876438497; 3821401657; 2604864522;
  3326675653; 1581265147; 2392288725; 2826201322; 4163956591; 3424572837; 1629441656; 3721468165;
  4066457860; 1449945017; 2421841100; 2067248036; 1263765898; 1804587677; 2866287989; 1360782356;
  1023066599; 2150211961; 3557752538; 121114114; 3701207037; 755273858; 2579265585; 4283433640;
  567178822; 30213275; 256088399; 3284583845; 3151650640; 247553735; 2598050230; 203325625;
  3115657576; 2920686617; 625128453; 2443456157; 1809905256; 1859626681; 3156703156; 3781348950;
  1114024661; 1627240196; 1727541925; 2509633226; 4276632813; 1428327833; 314510888; 1720280153;
  126463962; 42121896; 593994563; 1494520240; 804365489; 1090992566; 2607830432; 772715049;
  620528210; 858248159; 2960664169; 476242025; 2135961857; 4110783406; 3656066909; 3759060600;
  1494731998; 2545509898; 3708166189; 3978468898; 2848404927; 3593564134; 1875324492; 34004898;
  3601947738; 1775795017; 164198213; 323247457; 900298154; 2241505721; 1698168851; 3522913169;
  3264370173; 2018130833; 3118943270; 1674464576; 3229400734; 3873723038; 263414575; 2486753737;
  1747948712; 4177348113; 629064173; 1197269974; 1626222001; 721072130; 731793528; 2259894494;
  344128970; 4265718719; 3567522480; 3768433036; 3249495379; 2119557727; 3543427896; 3080793277;
  2624071610; 1912048622; 2352615250; 352620976; 4067289362; 591280718; 3540642746; 2695487743;
  3391838497; 4005136700; 864198280; 2557529130; 600095184; 3953340067; 3182185762; 1003013196;
  512557975; 4180834101; 2017132703; 246953794; 639753329; 3976297731; 1551239841; 1516863819;
  2531460223; 2839321822; 1633453813; 3023186597; 1109742413; 221130211; 3439119435; 195832407;
  4037045508; 3162036023; 4073846630; 4121400636; 3168787077; 1377023957; 3169362728; 3549388568;
  3674817092; 4267119187; 830449646; 1244811075; 1073494489; 1370749582; 2051796639; 2025571970;
  2673607504; 50210924; 609924742; 3983275991; 180656266; 1071649018; 3328172905; 2757183947;
  730129719; 3735024483; 542379930; 2861341492; 1539602099; 492260311; 2458976429; 1193401933;
  668932869; 1488028998; 3085395812; 3750776408; 2544850849; 3175990323; 2787470845; 4130969843;
  4058011699; 3792359206; 4118796758; 2419067725; 2313110160; 1758469308; 3481878243; 3426918470;
  2005800987; 1730567286; 3917587652; 2191072673; 1888449172; 3873615458; 4232321136; 2514596022;
  71694373; 1519629439; 1587344574; 2228908519; 2643821232; 2616735215; 1495228898; 1127373189;
  1563288366; 2375008015; 2511540024; 128801646; 1318276831; 1020565774; 2421416537; 1547797885
]%N.
(** table lookup in two levels of 16 (a plain [nth] walks up to 255 cells per byte) *)
Fixpoint group16 (fuel : nat) (l : list N) : list (list N) :=
  match fuel with
  | O => []
  | S f => match l with [] => [] | _ => firstn 16 l :: group16 f (skipn 16 l) end
  end.
Definition bytehash2 : list (list N) := Eval vm_compute in group16 16 bytehash.
Definition bh_real (b : N) : N :=
  nth (N.to_nat (N.land b 15)) (nth (N.to_nat (N.shiftr b 4)) bytehash2 []) 0%N.
Definition buz_real : bzp :=
  {| bz_min := 131072; bz_max := 524288; bz_mask := 131071; bz_bh := bh_real |}.

(* ------------------------------------------------------------------ *)
(** * 6. Rabin: parameter arithmetic of rabin.go + contract of the dependency *)

Definition two64 : Z := 18446744073709551616.
(** chunker.reset: [c.pre = c.MinSize - windowSize] in uint64 *)
Definition rabin_pre (mn : N) : Z := ((Z.of_N mn - 16) mod two64)%Z.

Section Rabin.
  Variable hit : list N -> nat -> bool.  (* digest & sizeMask = 0 after k bytes of the remaining input *)
  Variables mn mx : N.

  (** bytes after [pre]: [k] consumed so far *)
  Fixpoint rabin_scan (d : list N) (k : nat) (rest : list N) : nat :=
    match rest with
    | [] => k
    | _ :: rest' =>
        let k' := S k in
        if (N.to_nat mn <=? k') && (hit d k' || (N.to_nat mx <=? k')) then k'
        else rabin_scan d k' rest'
    end.

  Definition cut_rabin (d : list N) : nat :=
    let pre := rabin_pre mn in
    if (Z.of_nat (length d) <=? pre)%Z then length d
    else rabin_scan d (Z.to_nat pre) (skipn (Z.to_nat pre) d).
End Rabin.

(** NewRabin(r, avg): min = avg/3, max = avg + avg/2 *)
Definition rabin_min_of (avg : N) : N := (avg / 3)%N.
Definition rabin_max_of (avg : N) : N := (avg + avg / 2)%N.

(** chunk-length lists that the rabin model can produce on an input of
    [total] bytes for SOME oracle: every chunk is at most the forced cut
    position, every chunk but the last is at least the first position where a
    cut is allowed *)
Definition rabin_first (mn : N) : Z := Z.max (rabin_pre mn + 1) (Z.of_N mn).
Definition rabin_force (mn mx : N) : Z := Z.max (rabin_first mn) (Z.of_N mx).
Fixpoint rabin_cons (mn mx : N) (total : Z) (ls : list N) : bool :=
  match ls with
  | [] => (total =? 0)%Z
  | l :: r =>
      let l := Z.of_N l in
      (1 <=? l)%Z && (l <=? total)%Z && (l <=? rabin_force mn mx)%Z &&
      ((l =? total)%Z || (rabin_first mn <=? l)%Z) &&
      rabin_cons mn mx (total - l) r
  end.

(* ------------------------------------------------------------------ *)
(** * 7. FromString and the registered parsers, over byte strings *)

Fixpoint bos (s : String.string) : list N :=
  match s with String.EmptyString => [] | String.String a r => N_of_ascii a :: bos r end.

(** strings.Split(s, sep) for a one-byte separator (always at least one part) *)
Fixpoint split_on (sep : N) (s : list N) : list (list N) :=
  match s with
  | [] => [[]]
  | c :: r =>
      if (c =? sep)%N then [] :: split_on sep r
      else match split_on sep r with
           | p :: ps => (c :: p) :: ps
           | [] => [[c]]
           end
  end.

Fixpoint digits (s : list N) (acc : Z) : option Z :=
  match s with
  | [] => Some acc
  | c :: r => if (48 <=? c)%N && (c <=? 57)%N then digits r (acc * 10 + Z.of_N (c - 48))%Z else None
  end.

(** strconv.Atoi on a 64-bit platform: optional sign, at least one decimal
    digit, value within int64; anything else is an error *)
Definition atoi (s : list N) : option Z :=
  match s with
  | [] => None
  | c :: r =>
      let '(neg, ds) := if (c =? 45)%N then (true, r) else if (c =? 43)%N then (false, r) else (false, s) in
      match ds with
      | [] => None
      | _ => match digits ds 0%Z with
             | None => None
             | Some v =>
                 let z := if neg then (- v)%Z else v in
                 if ((- 9223372036854775808 <=? z) && (z <=? 9223372036854775807))%Z then Some z else None
             end
      end
  end.

Definition limitZ : Z := 2096896.          (* ChunkSizeLimit = 2 MiB - 256 *)
Definition limitN : N := 2096896.
Definition default_block : N := 262144.    (* DefaultBlockSize *)

Inductive errclass := ESize | ESizeMax | ERabinMin | EOther.
Inductive presult :=
| PErr (e : errclass)
| PSize (n : N)
| PRabin (mn avg mx : N)
| PBuz
| PPanic.

(** defect switches: [true] = behaviour of the tree the design was written against *)
Record flags := { f_rabin_small : bool;   (* rabin-N: no check of N/3 >= 16 *)
                  f_rabin_huge : bool }.  (* rabin-N: int(float32(N)*1.5) overflows for N*1.5 >= 2^63 *)
Definition flags_off : flags := {| f_rabin_small := false; f_rabin_huge := false |}.

Definition parse_size (s : list N) : presult :=
  match split_on 45 s with
  | [_; p] =>
      match atoi p with
      | None => PErr EOther
      | Some z => if (z <=? 0)%Z then PErr ESize
                  else if (limitZ <? z)%Z then PErr ESizeMax
                  else PSize (Z.to_N z)
      end
  | _ => PErr EOther
  end.

(** one "label:value" component: strings.Split(part, ":"), label checked only
    when there is more than one sub-part, value = last sub-part *)
Definition labelled (lbl : String.string) (part : list N) : option (list N) :=
  let sub := split_on 58 part in
  if (1 <? length sub) && negb (bytes_eqb (hd [] sub) (bos lbl)) then None
  else Some (last sub []).

Definition parse_rabin (fl : flags) (s : list N) : presult :=
  match split_on 45 s with
  | [_] => PRabin (rabin_min_of default_block) default_block (rabin_max_of default_block)
  | [_; p] =>
      match atoi p with
      | None => PErr EOther
      | Some z =>
          (* z >= 0 here would need a '-' inside a part; Z.quot is Go's "/" *)
          if negb (f_rabin_small fl) && (Z.quot z 3 <? 16)%Z then PErr ERabinMin
          else if f_rabin_huge fl && (9223372036854775808 <=? z + Z.quot z 2)%Z then PPanic
          else if (limitZ <? z)%Z || (limitZ <? z + Z.quot z 2)%Z then PErr ESizeMax
          else PRabin (rabin_min_of (Z.to_N z)) (Z.to_N z) (rabin_max_of (Z.to_N z))
      end
  | [_; p1; p2; p3] =>
      match labelled "min" p1 with
      | None => PErr EOther
      | Some v1 =>
      match atoi v1 with
      | None => PErr EOther
      | Some mn =>
      if (mn <? 16)%Z then PErr ERabinMin else
      match labelled "avg" p2 with
      | None => PErr EOther
      | Some v2 =>
      match atoi v2 with
      | None => PErr EOther
      | Some avg =>
      match labelled "max" p3 with
      | None => PErr EOther
      | Some v3 =>
      match atoi v3 with
      | None => PErr EOther
      | Some mx =>
          if (avg <=? mn)%Z then PErr EOther
          else if (mx <=? avg)%Z then PErr EOther
          else if (limitZ <? mx)%Z then PErr ESizeMax
          else PRabin (Z.to_N mn) (Z.to_N avg) (Z.to_N mx)
      end end end end end end
  | _ => PErr EOther
  end.

Definition from_string (fl : flags) (s : list N) : presult :=
  if is_nil s || bytes_eqb s (bos "default") then PSize default_block else
  let name := hd [] (split_on 45 s) in
  if bytes_eqb name (bos "size") then parse_size s
  else if bytes_eqb name (bos "rabin") then parse_rabin fl s
  else if bytes_eqb name (bos "buzhash") then PBuz
  else PErr EOther.

(** the (min, max) each accepted specification advertises *)
Definition params_ok (r : presult) : bool :=
  match r with
  | PErr _ => true
  | PSize n => (1 <=? n)%N && (n <=? limitN)%N
  | PRabin mn avg mx => (16 <=? mn)%N && (mn <? avg)%N && (avg <? mx)%N && (mx <=? limitN)%N
  | PBuz => true
  | PPanic => false
  end.

(** the pure chunking model of an accepted specification *)
Definition cut_of (hit : list N -> nat -> bool) (r : presult) : option (list N -> nat) :=
  match r with
  | PSize n => Some (cut_size n)
  | PRabin mn _ mx => Some (cut_rabin hit mn mx)
  | PBuz => Some (cut_buz buz_real)
  | _ => None
  end.
Definition bounds_of (r : presult) : N * N :=
  match r with
  | PSize n => (n, n)
  | PRabin mn _ mx => (mn, mx)
  | PBuz => (bz_min buz_real, bz_max buz_real)
  | _ => (0, 0)%N
  end.

(* ------------------------------------------------------------------ *)
(** * 8. Correspondence cases *)

(** what the harness saw FromString return *)
Inductive iresult :=
| IErr (e : errclass)
| ISize (n : N)
| IRabin (mn mx : N)       (* MinSize, MaxSize of the underlying chunker *)
| IBuz
| IPanic
| IOther.

Definition err_eqb (a b : errclass) : bool :=
  match a, b with
  | ESize, ESize | ESizeMax, ESizeMax | ERabinMin, ERabinMin | EOther, EOther => true
  | _, _ => false
  end.
Definition res_match (m : presult) (i : iresult) : bool :=
  match m, i with
  | PErr a, IErr b => err_eqb a b
  | PSize a, ISize b => (a =? b)%N
  | PRabin mn _ mx, IRabin a b => (mn =? a)%N && (mx =? b)%N
  | PBuz, IBuz => true
  | PPanic, IPanic => true
  | _, _ => false
  end.
Definition ires_ok (i : iresult) : bool :=
  match i with
  | IErr _ => true
  | ISize n => (1 <=? n)%N && (n <=? limitN)%N
  | IRabin mn mx => (16 <=? mn)%N && (mn <=? mx)%N && (mx <=? limitN)%N
  | IBuz => true
  | IPanic | IOther => false
  end.

(** parser part of a verdict *)
Definition parse_verdict (s : list N) (i : iresult) : verdict :=
  let off := from_string flags_off s in
  if res_match off i then verdict_of true (ires_ok i && params_ok off)
  else if ires_ok i then VModelMismatch
  else if params_ok off && res_match (from_string {| f_rabin_small := true; f_rabin_huge := false |} s) i then VKnown 1
  else if params_ok off && res_match (from_string {| f_rabin_small := false; f_rabin_huge := true |} s) i then VKnown 2
  else VSpecFail.

(** input data too large to write down: run-length segments, or only a length *)
Inductive seg := Run (b : N) (n : N) | Lit (l : list N).
Inductive data := DLen (n : N) | DSegs (l : list seg).
Definition expand (l : list seg) : list N :=
  flat_map (fun s => match s with Run b n => N.iter n (cons b) [] | Lit l => l end) l.
Definition data_len (d : data) : N :=
  match d with
  | DLen n => n
  | DSegs l => fold_left (fun a s => (a + match s with Run _ n => n | Lit l => lenN l end)%N) l 0%N
  end.

Definition opt_eqb (m : option (list (list N))) (out : list (list N)) : bool :=
  match m with Some cs => list_eqb bytes_eqb cs out | None => false end.
Definition opt_lens_eqb (m : option (list (list N))) (ls : list N) : bool :=
  match m with Some cs => list_eqb N.eqb (map lenN cs) ls | None => false end.

Inductive case :=
(** constants of the implementation: buzMin, buzMax, buzMask, bytehash, ChunkSizeLimit, DefaultBlockSize *)
| CConsts (bmin bmax bmask : N) (tab : list N) (limit defblk : N)
(** FromString(s) returned [i] *)
| CParse (s : list N) (i : iresult)
(** a 32-byte window of a large input; [z] = the implementation cut right after it
    (not forced by max / end of input) *)
| CBuzWin (w : list N) (z : bool)
(** FromString(s) = i, then the splitter was drained over reader (d, frs): chunks [out] *)
| CBytes (s : list N) (i : iresult) (d : list N) (frs : list (N * bool)) (out : list (list N))
(** same on a large input, one chunk-length list per read fragmentation *)
| CLens (s : list N) (i : iresult) (d : data) (runs : list (list N)).

(** worst of two verdicts: SpecFail > Known > ModelMismatch > Ok *)
Definition vrank (v : verdict) : N :=
  match v with VOk => 0 | VModelMismatch => 1 | VKnown _ => 2 | VSpecFail => 3 end.
Definition vworst (a b : verdict) : verdict := if (vrank a <? vrank b)%N then b else a.

(** verdict of the chunking part, relative to the parameters the implementation
    reported; a specification failure that the model reproduces under parameters
    the parser should not have accepted is attributed to the parser's finding *)
Definition chunk_verdict (pv : verdict) (model_ok spec_ok : bool) : verdict :=
  if spec_ok then (if model_ok then pv else vworst pv VModelMismatch)
  else match pv with
       | VKnown k => if model_ok then VKnown k else VSpecFail
       | _ => VSpecFail
       end.

Definition check_case (c : case) : verdict :=
  match c with
  | CConsts bmin bmax bmask tab limit defblk =>
      verdict_of ((bmin =? bz_min buz_real)%N && (bmax =? bz_max buz_real)%N &&
                  (bmask =? bz_mask buz_real)%N && list_eqb N.eqb tab bytehash &&
                  (limit =? limitN)%N && (defblk =? default_block)%N)
                 ((bmax <=? limit)%N && (1 <=? defblk)%N && (defblk <=? limit)%N)
  | CParse s i => parse_verdict s i
  | CBuzWin w z =>
      verdict_of (Bool.eqb (N.land (buz_init buz_real w) (bz_mask buz_real) =? 0)%N z) true
  | CBytes s i d frs out =>
      let pv := parse_verdict s i in
      let rd := {| rd_data := d; rd_frags := frs |} in
      match i with
      | ISize n =>
          chunk_verdict pv (opt_eqb (run_size n rd) out && opt_eqb (chunks (cut_size n) d) out)
                        (run_ok n n limitN d out)
      | IBuz =>
          chunk_verdict pv (opt_eqb (run_buz buz_real rd) out && opt_eqb (chunks (cut_buz buz_real) d) out)
                        (run_ok (bz_min buz_real) (bz_max buz_real) limitN d out)
      | IRabin mn mx =>
          chunk_verdict pv (rabin_cons mn mx (Z.of_N (lenN d)) (map lenN out))
                        (run_ok mn mx limitN d out)
      | _ => VModelMismatch    (* nothing to drain *)
      end
  | CLens s i d runs =>
      let pv := parse_verdict s i in
      let total := data_len d in
      let same := match runs with [] => false | r0 :: rs => forallb (list_eqb N.eqb r0) rs end in
      let ls := hd [] runs in
      let lossless := (sumN ls =? total)%N in
      match i with
      | ISize n =>
          chunk_verdict pv same (same && lossless && lens_ok n n limitN ls)
      | IBuz =>
          chunk_verdict pv
            (same && match d with
                     | DLen _ => true
                     | DSegs l => opt_lens_eqb (chunks (cut_buz buz_real) (expand l)) ls
                     end)
            (same && lossless && lens_ok (bz_min buz_real) (bz_max buz_real) limitN ls)
      | IRabin mn mx =>
          chunk_verdict pv (same && rabin_cons mn mx (Z.of_N total) ls)
                        (same && lossless && lens_ok mn mx limitN ls)
      | _ => VModelMismatch
      end
  end.
