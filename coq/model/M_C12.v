(** C12 — DAG walks of ipld/merkledag (merkledag.go): sequentialWalkDepth,
    parallelWalkDepth, the walk options with addHandler's handler composition,
    and FetchGraphWithDepthLimit's depth-aware visit function.

    Executable model, transcribed from the Go source.  The parallel walk is a
    transition system over a bag of pending (cid, depth) items: one step takes ANY
    pending item, runs [visit] on it (the code does that under [visitlk]) and, if
    it is to be visited, fetches its links, runs the error handler / provider and
    adds the children to the bag.  Every interleaving of the real workers is such
    a sequence of picks (a child is only fed to a worker after its parent was
    visited and fetched).  The sequential walk is the recursion of the code.
    Defect switches (flags): what the code did when this check was written.
    No proofs in this file. *)
From Coq Require Import List ZArith Bool NArith.
From V Require Import lib.Verdict.
Import ListNotations.
Open Scope Z_scope.

Definition cid := N.
Definition mem (c : cid) (l : list cid) : bool := existsb (N.eqb c) l.

(** error classes *)
(** [EProvider]: an error returned by the provider's StartProviding.  The code
    only logs it, so no node of the model ever fails with it and the model has no
    notion of a failing provider; the harness makes StartProviding fail for chosen
    nodes, and a walk that returns such an error (or is otherwise influenced by
    it) fails the specification: the returned error must name a node whose FETCH fails. *)
Inductive ekind := ENotFound | EOther | ECustom | EProvider.
Definition ekind_eqb (a b : ekind) : bool :=
  match a, b with
  | ENotFound, ENotFound | EOther, EOther | ECustom, ECustom | EProvider, EProvider => true
  | _, _ => false
  end.

(** a node: its links, and what fetching it answers ([None] = success) *)
Record node := mkNode { n_links : list cid; n_fail : option ekind }.
Definition graph := list (cid * node).
Definition missing_node : node := mkNode [] (Some ENotFound).
Fixpoint lookup (g : graph) (c : cid) : node :=
  match g with
  | [] => missing_node
  | (c', n) :: r => if (c =? c')%N then n else lookup r c
  end.

(** ---------- the visit function of FetchGraphWithDepthLimit ----------
    [set : map cid -> depth] as an association list, newest binding first.
    With [lim < 0] it answers exactly like [cid.Set.Visit]. *)
Definition dset := list (cid * Z).
Fixpoint find (s : dset) (c : cid) : option Z :=
  match s with
  | [] => None
  | (c', d) :: r => if (c =? c')%N then Some d else find r c
  end.

Definition visit (lim : Z) (s : dset) (c : cid) (depth : Z) : bool * dset :=
  match find s c with
  | Some old =>
      if (lim <? 0) || ((0 <=? lim) && (lim <? depth)) then (false, s)
      else if depth <? old then (true, (c, depth) :: s)
      else (false, s)
  | None =>
      if (0 <=? lim) && (lim <? depth) then (false, s)
      else (true, (c, depth) :: s)
  end.

(** ---------- walk options: error handlers ---------- *)
Inductive policy := PSwallow | PKeep | PReplace.       (* the harness' OnError handlers: return nil / the error
                                                          they were given / a new error wrapping a non-nil one *)
Inductive hopt := HIgnoreErrors | HIgnoreMissing | HOnMissing | HOnError (p : policy).
(** callback invocations seen by the caller *)
Inductive hcall := CMissing (c : cid) | CError (c : cid) (e : option ekind).

Definition is_notfound (e : option ekind) : bool :=
  match e with Some ENotFound => true | _ => false end.

(** one handler, as installed by the option *)
Definition apply1 (h : hopt) (c : cid) (e : option ekind) : option ekind * list hcall :=
  match h with
  | HIgnoreErrors => (None, [])
  | HIgnoreMissing => (if is_notfound e then None else e, [])
  | HOnMissing => (e, if is_notfound e then [CMissing c] else [])
  | HOnError p =>
      (match p with PSwallow => None | PKeep => e
                | PReplace => match e with None => None | Some _ => Some ECustom end end, [CError c e])
  end.

(** [wo.ErrorHandler] after a sequence of addHandler calls.  [HComp h selfref prev]:
    the closure built when a handler was already installed; with [selfref] it
    calls whatever [wo.ErrorHandler] is AT CALL TIME (the code as found: the
    closure captures [wo], not the previous handler), otherwise [prev]. *)
Inductive hnd := HBase (h : hopt) | HComp (h : hopt) (selfref : bool) (prev : hnd).

Definition add_handler (selfref : bool) (cur : option hnd) (h : hopt) : option hnd :=
  match cur with
  | None => Some (HBase h)
  | Some p => Some (HComp h selfref p)
  end.

Definition install (selfref : bool) (hs : list hopt) : option hnd :=
  fold_left (add_handler selfref) hs None.

(** calling a handler; [None] = out of fuel = unbounded recursion (a fatal stack overflow) *)
Fixpoint eval (fuel : nat) (top x : hnd) (c : cid) (e : option ekind) : option (option ekind * list hcall) :=
  match fuel with
  | O => None
  | S f =>
      match x with
      | HBase h => Some (apply1 h c e)
      | HComp h selfref prev =>
          match eval f top (if selfref then top else prev) c e with
          | None => None
          | Some (e', l) => let (e'', l') := apply1 h c e' in Some (e'', l ++ l')
          end
      end
  end.

Fixpoint hdepth (x : hnd) : nat := match x with HBase _ => 1 | HComp _ _ p => S (hdepth p) end.

(** the specification of a handler list: the handlers run in option order, each
    on the result of the one before *)
Fixpoint fold_handlers (hs : list hopt) (c : cid) (e : option ekind) : option ekind * list hcall :=
  match hs with
  | [] => (e, [])
  | h :: r => let (e', l) := apply1 h c e in
              let (e'', l') := fold_handlers r c e' in (e'', l ++ l')
  end.

(** ---------- configuration ---------- *)
Record flags := mkFlags {
  f_parallel_root_arg : bool;     (* C12-1: parallel walk hands [root] to handler and provider *)
  f_handler_selfref : bool        (* C12-2: composed handler calls itself *)
}.
Definition flags_off := mkFlags false false.

Record cfg := mkCfg {
  c_lim : Z;                 (* depth limit of the visit function; < 0 = unlimited *)
  c_skip_root : bool;
  c_handlers : list hopt;    (* in option order *)
  c_provider : bool;
  c_parallel : bool          (* Concurrency > 1 *)
}.

(** ---------- processing one node (after the visit decision said yes) ---------- *)
Record core := mkCore {
  k_set : dset;
  k_hcalls : list hcall;                 (* callback invocations, in order *)
  k_prov : list cid;                     (* StartProviding calls, in order *)
  k_errs : list (cid * ekind);           (* errors that end the walk: (failing node, returned class) *)
  k_crash : bool                         (* a handler call did not return *)
}.
Definition init_core : core := mkCore [] [] [] [] false.
Definition with_set (k : core) (s : dset) : core :=
  mkCore s (k_hcalls k) (k_prov k) (k_errs k) (k_crash k).

Definition ok_links (g : graph) (c : cid) : list cid :=
  match n_fail (lookup g c) with None => n_links (lookup g c) | Some _ => [] end.

(** fetch + handler + provider of item (c, d); returns the children to walk.
    [arg] = the CID handed to handler and provider *)
Definition process (fl : flags) (g : graph) (cf : cfg) (root : cid) (c : cid) (d : Z) (k : core)
  : core * list (cid * Z) :=
  let arg := if f_parallel_root_arg fl && c_parallel cf then root else c in
  let handled :=
    match n_fail (lookup g c) with
    | None => Some (None, [])
    | Some e =>
        match install (f_handler_selfref fl) (c_handlers cf) with
        | None => Some (Some e, [])
        | Some h => eval (S (hdepth h)) h h arg (Some e)
        end
    end in
  match handled with
  | None => (mkCore (k_set k) (k_hcalls k) (k_prov k) (k_errs k) true, [])
  | Some (Some e', calls) =>
      (mkCore (k_set k) (k_hcalls k ++ calls) (k_prov k) (k_errs k ++ [(c, e')]) (k_crash k), [])
  | Some (None, calls) =>
      (mkCore (k_set k) (k_hcalls k ++ calls)
              (if c_provider cf then k_prov k ++ [arg] else k_prov k) (k_errs k) (k_crash k),
       map (fun x => (x, d + 1)) (ok_links g c))
  end.

(** one worker iteration on an item: visit (unless it is the skipped root), then [process] *)
Definition work (fl : flags) (g : graph) (cf : cfg) (root : cid) (c : cid) (d : Z) (k : core)
  : bool * (core * list (cid * Z)) :=
  if c_skip_root cf && (d =? 0) then (true, process fl g cf root c d k)
  else
    let (b, set') := visit (c_lim cf) (k_set k) c d in
    if b then (true, process fl g cf root c d (with_set k set')) else (false, (with_set k set', [])).

(** ---------- the parallel walk: pick the i-th pending item ---------- *)
Fixpoint remove_nth {A} (i : nat) (l : list A) : list A :=
  match l, i with
  | [], _ => []
  | _ :: r, O => r
  | a :: r, S j => a :: remove_nth j r
  end.

Definition pstate := (core * list (cid * Z))%type.
Definition init_st (root : cid) : pstate := (init_core, [(root, 0)]).

Definition step (fl : flags) (g : graph) (cf : cfg) (root : cid) (s : pstate) (i : nat) : pstate :=
  match nth_error (snd s) i with
  | None => s
  | Some (c, d) =>
      let '(_, (k', kids)) := work fl g cf root c d (fst s) in
      (k', kids ++ remove_nth i (snd s))
  end.

Definition run_sched (fl : flags) (g : graph) (cf : cfg) (root : cid) (is : list nat) : pstate :=
  fold_left (step fl g cf root) is (init_st root).

(** ---------- the sequential walk: the recursion of sequentialWalkDepth ----------
    [vlog]: the visit calls (cid, depth, answer) in order.  Returns [None] when out
    of fuel, otherwise the state and whether the walk was aborted by an error. *)
Definition vlog := list (cid * Z * bool).

Fixpoint seqw (fuel : nat) (fl : flags) (g : graph) (cf : cfg) (root : cid) (c : cid) (d : Z)
              (k : core) (lg : vlog) : option (core * vlog * bool) :=
  match fuel with
  | O => None
  | S f =>
      let '(b, (k1, kids)) := work fl g cf root c d k in
      let lg' := if c_skip_root cf && (d =? 0) then lg else lg ++ [(c, d, b)] in
      if k_crash k1 then Some (k1, lg', true) else
      match k_errs k1 with
      | _ :: _ => Some (k1, lg', true)
      | [] =>
          (fix children (ls : list (cid * Z)) (k : core) (lg : vlog) : option (core * vlog * bool) :=
             match ls with
             | [] => Some (k, lg, false)
             | (x, dx) :: r =>
                 match seqw f fl g cf root x dx k lg with
                 | None => None
                 | Some (k', lg', true) => Some (k', lg', true)
                 | Some (k', lg', false) => children r k' lg'
                 end
             end) kids k1 lg'
      end
  end.

(** ---------- replaying a logged visit sequence on the transition system ---------- *)
Fixpoint index_of (c : cid) (d : Z) (l : list (cid * Z)) : option nat :=
  match l with
  | [] => None
  | (c', d') :: r => if (c =? c')%N && (d =? d') then Some O
                     else match index_of c d r with Some i => Some (S i) | None => None end
  end.

(** [None]: the log is not a run of the model (an item that is not pending, or a
    visit answer the model does not give) *)
Fixpoint replay (fl : flags) (g : graph) (cf : cfg) (root : cid) (lg : vlog) (s : pstate) : option pstate :=
  match lg with
  | [] => Some s
  | (c, d, b) :: r =>
      match index_of c d (snd s) with
      | None => None
      | Some i =>
          let '(b', (k', kids)) := work fl g cf root c d (fst s) in
          if Bool.eqb b b' then replay fl g cf root r (k', kids ++ remove_nth i (snd s)) else None
      end
  end.

(** the skipped root is processed first, without a visit call *)
Definition start (fl : flags) (g : graph) (cf : cfg) (root : cid) : pstate :=
  if c_skip_root cf then step fl g cf root (init_st root) 0 else init_st root.

(** ---------- reachability and distances, computed ---------- *)
(** breadth-first layers: [bfs fuel frontier seen d] = association list node -> shortest distance *)
Fixpoint bfs (fuel : nat) (g : graph) (lim : Z) (frontier : list cid) (seen : dset) (d : Z) : dset :=
  match fuel with
  | O => seen
  | S f =>
      if (0 <=? lim) && (lim <? d) then seen else
      match frontier with
      | [] => seen
      | _ =>
          let fresh := fold_left (fun acc c => if mem c (map fst acc) then acc else acc ++ [(c, d)])
                                 frontier seen in
          let newly := filter (fun c => negb (mem c (map fst seen))) (map fst fresh) in
          bfs f g lim (flat_map (ok_links g) newly) fresh (d + 1)
      end
  end.

(** ---------- comparison helpers ---------- *)
Fixpoint list_eqb {A} (eqb : A -> A -> bool) (l1 l2 : list A) : bool :=
  match l1, l2 with
  | [], [] => true
  | a :: r1, b :: r2 => eqb a b && list_eqb eqb r1 r2
  | _, _ => false
  end.
Definition oek_eqb (a b : option ekind) : bool :=
  match a, b with None, None => true | Some x, Some y => ekind_eqb x y | _, _ => false end.
Definition hcall_eqb (a b : hcall) : bool :=
  match a, b with
  | CMissing x, CMissing y => (x =? y)%N
  | CError x e, CError y f => (x =? y)%N && oek_eqb e f
  | _, _ => false
  end.
Definition vl_eqb (a b : cid * Z * bool) : bool :=
  let '(c1, d1, b1) := a in let '(c2, d2, b2) := b in (c1 =? c2)%N && (d1 =? d2) && Bool.eqb b1 b2.

(** multiset equality of lists (order-insensitive) *)
Fixpoint remove1 {A} (eqb : A -> A -> bool) (x : A) (l : list A) : option (list A) :=
  match l with
  | [] => None
  | y :: r => if eqb x y then Some r else
              match remove1 eqb x r with Some r' => Some (y :: r') | None => None end
  end.
Fixpoint perm_b {A} (eqb : A -> A -> bool) (l1 l2 : list A) : bool :=
  match l1 with
  | [] => match l2 with [] => true | _ => false end
  | x :: r => match remove1 eqb x l2 with Some l2' => perm_b eqb r l2' | None => false end
  end.
Definition subset_b (a b : list cid) : bool := forallb (fun x => mem x b) a.
Definition seteq_b (a b : list cid) : bool := subset_b a b && subset_b b a.

(** ---------- cases ---------- *)
(** what was observed on the real walk *)
Record obs := mkObs {
  o_vlog : vlog;                       (* visit calls, in the walk's own serialisation (CWalk only) *)
  o_hcalls : list hcall;               (* callback invocations (order meaningful only in sequential walks) *)
  o_prov : list cid;                   (* provider calls (idem) *)
  o_err : option (cid * ekind);        (* returned error: the failing node it names, its class *)
  o_crash : bool                       (* the walk died with a stack overflow (run in a subprocess) *)
}.

(** [CWalk]: WalkDepth with the harness' logging twin of the depth-aware visit function.
    [CFetch]: FetchGraphWithDepthLimit (visit function inside boxo; no visit log);
    [fetched] = the CIDs whose Get succeeded, one entry per Get, in order. *)
Inductive case :=
| CWalk (g : graph) (cf : cfg) (root : cid) (o : obs)
| CFetch (g : graph) (cf : cfg) (root : cid) (o : obs) (fetched : list cid).

Definition err_eqb (a b : cid * ekind) : bool := (fst a =? fst b)%N && ekind_eqb (snd a) (snd b).

(** recursion depth of the sequential walk: at most one new node of [g] per level
    (unlimited walks), at most [lim + 1] levels (limited walks) *)
Definition fuel_seq (g : graph) (cf : cfg) : nat :=
  (length g + 3 + (if (c_lim cf <? 0)%Z then 0 else Z.to_nat (c_lim cf)))%nat.

Definition is_ok (g : graph) (c : cid) : bool :=
  match n_fail (lookup g c) with None => true | Some _ => false end.

Definition visited_true (lg : vlog) : list cid :=
  map (fun x => fst (fst x)) (filter (fun x => snd x) lg).

(** the Get calls that succeed, from the visit log *)
Definition fetched_of (g : graph) (cf : cfg) (root : cid) (lg : vlog) : list cid :=
  filter (is_ok g) ((if c_skip_root cf then [root] else []) ++ visited_true lg).

Definition hset_sub (a b : list hcall) : bool := forallb (fun x => existsb (hcall_eqb x) b) a.
Definition hset_eq (a b : list hcall) : bool := hset_sub a b && hset_sub b a.

Definition err_matches (o : obs) (k : core) (aborted : bool) : bool :=
  match o_err o, k_errs k with
  | None, [] => negb aborted
  | Some e, [e'] => err_eqb e e' && aborted
  | _, _ => false
  end.

(** callbacks that processing node [c] triggers under flags [fl] *)
Definition calls_for (fl : flags) (g : graph) (cf : cfg) (root c : cid) : list hcall :=
  let arg := if f_parallel_root_arg fl && c_parallel cf then root else c in
  match n_fail (lookup g c) with
  | None => []
  | Some e =>
      match install (f_handler_selfref fl) (c_handlers cf) with
      | None => []
      | Some h => match eval (S (hdepth h)) h h arg (Some e) with Some (_, calls) => calls | None => [] end
      end
  end.

Definition within_lim (g : graph) (cf : cfg) (root : cid) : list cid :=
  map fst (bfs (S (S (length g))) g (c_lim cf) [root] [] 0).

Fixpoint count (c : cid) (l : list cid) : nat :=
  match l with [] => O | x :: r => (if (c =? x)%N then 1 else 0) + count c r end.

(** does the observation equal the model with flags [fl]?
    mode 0: sequential walk, everything compared in order (visit log if [with_log]);
    mode 1: concurrent walk with a visit log: replay along it, callbacks/provider as multisets;
    mode 2: concurrent walk without a log (FetchGraph): the model's depth-first schedule stands
            for all schedules ([C12_depth_limit]); callbacks, provider, Gets compared as sets. *)
Definition matches (fl : flags) (g : graph) (cf : cfg) (root : cid) (o : obs) (with_log : bool)
                   (fetched : option (list cid)) : bool :=
  if c_parallel cf && with_log && negb (o_crash o) then
    match replay fl g cf root (o_vlog o) (start fl g cf root) with
    | None => false
    | Some (k, pend) =>
        Bool.eqb (k_crash k) (o_crash o) &&
        (if k_crash k then true else
         perm_b hcall_eqb (k_hcalls k) (o_hcalls o) &&
         perm_b N.eqb (k_prov k) (o_prov o) &&
         match o_err o with
         | None => match k_errs k with [] => match pend with [] => true | _ => false end | _ => false end
         | Some e => existsb (err_eqb e) (k_errs k)
         end)
    end
  else
    match seqw (fuel_seq g cf) fl g cf root root 0 init_core [] with
    | None => false
    | Some (k, lg, aborted) =>
        Bool.eqb (k_crash k) (o_crash o) &&
        (if k_crash k then true else
         if c_parallel cf then
           (match o_err o with
            | None => negb aborted && hset_eq (k_hcalls k) (o_hcalls o) && seteq_b (k_prov k) (o_prov o) &&
                      match fetched with Some f => seteq_b (fetched_of g cf root lg) f | None => true end
            | Some _ =>
                (* an aborted concurrent walk: which nodes were processed depends on the schedule *)
                let dist := within_lim g cf root in
                aborted && hset_sub (o_hcalls o) (flat_map (calls_for fl g cf root) dist) &&
                subset_b (o_prov o) (if f_parallel_root_arg fl then [root] else dist)
            end)
         else
           (if with_log then list_eqb vl_eqb lg (o_vlog o) else true) &&
           list_eqb hcall_eqb (k_hcalls k) (o_hcalls o) &&
           list_eqb N.eqb (k_prov k) (o_prov o) &&
           match fetched with Some f => list_eqb N.eqb (fetched_of g cf root lg) f | None => true end &&
           err_matches o k aborted)
    end.

(** the specification, evaluated on the observation and the graph alone:
    - no crash, whatever the option combination;
    - every handler / OnMissing call names a node whose fetch fails (OnMissing: is missing);
    - a walk that returns nil visited (answer true) exactly the nodes within the depth
      limit by shortest distance, fetched exactly the present ones among them, and the
      provider was asked for exactly the visited nodes (and the skipped root);
    - a walk that returns an error stayed inside that set and the error names a failing
      node of it. *)
Definition drop_root (skip : bool) (root : cid) (l : list cid) : list cid :=
  if skip then filter (fun c => negb (c =? root)%N) l else l.

Definition spec_ok (g : graph) (cf : cfg) (root : cid) (o : obs)
                   (visited : option (list cid)) (fetched : option (list cid)) : bool :=
  let dist := within_lim g cf root in
  let skip := c_skip_root cf in
  negb (o_crash o) &&
  (* the provider is never asked more often for a node than the node was visited / fetched *)
  match visited with
  | Some v => forallb (fun c => count c (o_prov o) <=? count c v + (if skip && (c =? root)%N then 1 else 0))%nat (o_prov o)
  | None => true
  end &&
  match fetched with
  | Some f => forallb (fun c => negb (is_ok g c) || (count c (o_prov o) <=? count c f)%nat) (o_prov o)
  | None => true
  end &&
  forallb (fun h => match h with
                    | CMissing c => is_notfound (n_fail (lookup g c))
                    | CError c _ => negb (is_ok g c)
                    end) (o_hcalls o) &&
  match o_err o with
  | None =>
      match visited with Some v => seteq_b (drop_root skip root v) (drop_root skip root dist) | None => true end &&
      match fetched with Some f => seteq_b (drop_root skip root f) (drop_root skip root (filter (is_ok g) dist)) | None => true end &&
      (if c_provider cf then seteq_b (drop_root skip root (o_prov o)) (drop_root skip root dist) && (negb skip || mem root (o_prov o))
       else match o_prov o with [] => true | _ => false end)
  | Some (c, _) =>
      match visited with Some v => subset_b v dist | None => true end &&
      match fetched with Some f => subset_b f dist | None => true end &&
      mem c dist && negb (is_ok g c)
  end.

Definition classify (g : graph) (cf : cfg) (root : cid) (o : obs) (with_log : bool)
                    (visited fetched : option (list cid)) : verdict :=
  let sp := spec_ok g cf root o visited fetched in
  if sp then verdict_of (matches flags_off g cf root o with_log fetched) true
  else if matches (mkFlags true false) g cf root o with_log fetched then VKnown 1
  else if matches (mkFlags false true) g cf root o with_log fetched
          || matches (mkFlags true true) g cf root o with_log fetched then VKnown 2
  else VSpecFail.

Definition check_case (c : case) : verdict :=
  match c with
  | CWalk g cf root o => classify g cf root o true (Some (visited_true (o_vlog o))) None
  | CFetch g cf root o fetched => classify g cf root o false None (Some fetched)
  end.
