(** C09 — UnixFS file reader behaves as a seekable byte reader (ipld/unixfs/io/dagreader.go).

    The file DAG is a tree whose internal nodes record a size for every child
    (UnixFS blocksizes) and whose leaves hold the data (raw nodes, or dag-pb
    nodes without links).  The reader state is
       offset            -> [r_off]
       currentNodeData   -> [r_cur]   (None = nil; Some d = the unread rest of the
                                       leaf visited last, possibly empty)
       dagWalker         -> [r_rest]  (the leaves the walker has not visited yet,
                                       in the depth-first order of Walker.Iterate)
       size              -> [r_size]  (the size recorded at the root)
    and the methods are transcribed from the Go source: CtxReadFull/Read (drain the
    partial leaf, then iterate leaves until the buffer is full -> Pause, or the DAG
    ends -> EOF), WriteTo, and Seek (SeekStart: shortcuts for "same offset" and 0,
    otherwise reset and descend by the recorded child sizes: [childSize > left]
    -> go down, else [left -= childSize] and next child; in a leaf, seek inside
    its data; SeekCurrent/SeekEnd delegate to SeekStart).
    go-ipld-format's Walker itself is a dependency: its depth-first iteration and
    its Seek descent are represented by [leaves] and [seek_tree] (validated
    against the real Walker on every run, also on trees with wrong recorded sizes).
    No proofs in this file. *)
From Coq Require Import List ZArith Bool NArith.
From V Require Import lib.Verdict model.M_C10.   (* byte strings: len takeZ dropZ zeros getZ, gen/seg/ex *)
Import ListNotations.
Open Scope Z_scope.

(** ---------- file DAGs ---------- *)
Inductive tree :=
| Leaf (d : list Z)
| Node (f : forest)
with forest :=
| FNil
| FCons (sz : Z) (t : tree) (f : forest).      (* recorded size of the child, the child *)

Fixpoint leaves (t : tree) : list (list Z) :=
  match t with
  | Leaf d => [d]
  | Node f => leaves_f f
  end
with leaves_f (f : forest) : list (list Z) :=
  match f with
  | FNil => []
  | FCons _ t r => leaves t ++ leaves_f r
  end.

Definition flatten (t : tree) : list Z := concat (leaves t).
Definition flatten_f (f : forest) : list Z := concat (leaves_f f).

(** every recorded size is the length of the content below it *)
Fixpoint consistent (t : tree) : bool :=
  match t with
  | Leaf _ => true
  | Node f => consistent_f f
  end
with consistent_f (f : forest) : bool :=
  match f with
  | FNil => true
  | FCons sz t r => (sz =? len (flatten t)) && consistent t && consistent_f r
  end.

(** ---------- the reader ---------- *)
Record rd := { r_off : Z; r_cur : option (list Z); r_rest : list (list Z) }.

Definition flat (c : option (list Z)) : list Z := match c with Some d => d | None => [] end.

Definition rd_init (t : tree) : rd := {| r_off := 0; r_cur := None; r_rest := leaves t |}.

(** readNodeDataBuffer / writeNodeDataBuffer leave [nil] when the leaf is used up *)
Definition rest_of (d : list Z) (k : Z) : option (list Z) :=
  if len d - k =? 0 then None else Some (dropZ k d).

(** Walker.Iterate with the visitor of CtxReadFull: visit the next leaves until [need]
    bytes are delivered (Pause) or none is left (EndOfDag -> EOF).
    Result: bytes, new currentNodeData, leaves not visited, EOF *)
Fixpoint iter (need : Z) (rest : list (list Z)) : list Z * option (list Z) * list (list Z) * bool :=
  match rest with
  | [] => ([], None, [], true)
  | d :: r =>
      let k := Z.min need (len d) in
      if need - k =? 0 then (takeZ k d, rest_of d k, r, false)
      else let '(o, c, r', e) := iter (need - k) r in (takeZ k d ++ o, c, r', e)
  end.

Inductive err := ENone | EEOF | EOther.

(** CtxReadFull(out) with len(out) = n *)
Definition read (r : rd) (n : Z) : rd * list Z * err :=
  match r_cur r with
  | Some d =>
      let k := Z.min n (len d) in
      if k =? n then
        ({| r_off := r_off r + k; r_cur := rest_of d k; r_rest := r_rest r |}, takeZ k d, ENone)
      else
        let '(o, c, r', e) := iter (n - k) (r_rest r) in
        ({| r_off := r_off r + k + len o; r_cur := c; r_rest := r' |}, takeZ k d ++ o,
         if e then EEOF else ENone)
  | None =>
      let '(o, c, r', e) := iter n (r_rest r) in
      ({| r_off := r_off r + len o; r_cur := c; r_rest := r' |}, o, if e then EEOF else ENone)
  end.

(** WriteTo(w): the partial leaf, then every remaining leaf; EndOfDag is not an error *)
Definition write_to (r : rd) : rd * list Z :=
  let o := flat (r_cur r) ++ concat (r_rest r) in
  ({| r_off := r_off r + len o; r_cur := None; r_rest := [] |}, o).

(** Walker.Seek with the visitor of Seek: descend by the recorded sizes.
    Result: currentNodeData and the leaves that a following Iterate will still visit. *)
Fixpoint seek_tree (t : tree) (left : Z) : option (list Z) * list (list Z) :=
  match t with
  | Leaf d => (Some (dropZ left d), [])
  | Node f => seek_f f left
  end
with seek_f (f : forest) (left : Z) : option (list Z) * list (list Z) :=
  match f with
  | FNil => (None, [])                                   (* ErrNextNoChild: the search stops here *)
  | FCons sz t r =>
      if left <? sz                                      (* childSize > left: go down this child *)
      then let (c, rest) := seek_tree t left in (c, rest ++ leaves_f r)
      else seek_f r (left - sz)                          (* skip this child *)
  end.

(** Seek(off, whence) on the reader over tree [t] with recorded size [size];
    returns the new state, the returned offset and whether an error was returned *)
Definition seek_start (t : tree) (r : rd) (off : Z) : rd * Z * bool :=
  if off <? 0 then (r, r_off r, false)
  else if off =? r_off r then (r, off, true)
  else if off =? 0 then (rd_init t, 0, true)
  else let (c, rest) := seek_tree t off in ({| r_off := off; r_cur := c; r_rest := rest |}, off, true).

Definition seek (t : tree) (size : Z) (r : rd) (off wh : Z) : rd * Z * bool :=
  if wh =? 0 then seek_start t r off
  else if wh =? 1 then (if off =? 0 then (r, r_off r, true) else seek_start t r (r_off r + off))
  else if wh =? 2 then seek_start t r (size + off)
  else (r, 0, false).

(** ---------- operations ---------- *)
Inductive op := ORead (n : Z) | OSeek (off wh : Z) | OWriteTo.
Inductive ob := BRead (d : list Z) (e : err) | BSeek (pos : Z) (ok : bool) | BWrite (d : list Z) (n : Z) (e : err).   (* WriteTo: bytes written to w, returned count *)

Definition step (t : tree) (size : Z) (r : rd) (o : op) : rd * ob :=
  match o with
  | ORead n => let '(r', d, e) := read r n in (r', BRead d e)
  | OSeek off wh => let '(r', p, ok) := seek t size r off wh in (r', BSeek p ok)
  | OWriteTo =>
      (* the returned count: what the drained leaf buffer held plus what the iteration wrote *)
      let n := len (flat (r_cur r)) + len (concat (r_rest r)) in
      let (r', d) := write_to r in (r', BWrite d n ENone)
  end.

Fixpoint run (t : tree) (size : Z) (r : rd) (ops : list op) : rd * list ob :=
  match ops with
  | [] => (r, [])
  | o :: q => let (r', b) := step t size r o in let (r'', bs) := run t size r' q in (r'', b :: bs)
  end.

(** ---------- the specification: an in-memory byte reader ----------
    Conventions (stated in Props_C09.v): Read delivers as many bytes as there are, up to n,
    and reports EOF exactly when it delivers fewer than n; a Seek to a negative target or
    with an unknown whence fails and leaves the position alone (the number returned with
    the error is not specified); seeking past the end is allowed and then reads deliver
    nothing; WriteTo delivers everything from the position to the end and returns
    the number of bytes it delivered. *)
Record br := { b_pos : Z }.

Definition spec_step (c : list Z) (s : br) (o : op) : br * ob :=
  let p := b_pos s in
  match o with
  | ORead n =>
      let d := takeZ n (dropZ p c) in
      ({| b_pos := p + len d |}, BRead d (if len d <? n then EEOF else ENone))
  | OSeek off wh =>
      let tgt := if wh =? 0 then Some off else if wh =? 1 then Some (p + off)
                 else if wh =? 2 then Some (len c + off) else None in
      match tgt with
      | None => (s, BSeek 0 false)
      | Some t => if t <? 0 then (s, BSeek 0 false) else ({| b_pos := t |}, BSeek t true)
      end
  | OWriteTo => let d := dropZ p c in ({| b_pos := p + len d |}, BWrite d (len d) ENone)
  end.

Fixpoint spec_run (c : list Z) (s : br) (ops : list op) : br * list ob :=
  match ops with
  | [] => (s, [])
  | o :: q => let (s', b) := spec_step c s o in let (s'', bs) := spec_run c s' q in (s'', b :: bs)
  end.

(** ---------- comparison ---------- *)
Definition err_eqb (a b : err) : bool :=
  match a, b with ENone, ENone | EEOF, EEOF | EOther, EOther => true | _, _ => false end.

(** a Read into an empty buffer may report nil or EOF; the number returned by a failed
    Seek is not compared *)
Definition ob_match (o : op) (a b : ob) : bool :=
  match a, b with
  | BRead d e, BRead d' f =>
      zlist_eqb d d' &&
      (err_eqb e f ||
       match o with
       | ORead 0 => negb (err_eqb e EOther) && negb (err_eqb f EOther)
       | _ => false
       end)
  | BSeek p ok, BSeek p' ok' => Bool.eqb ok ok' && (negb ok || (p =? p'))
  | BWrite d n e, BWrite d' n' f => zlist_eqb d d' && (n =? n') && err_eqb e f
  | _, _ => false
  end.

Fixpoint obs_match (ops : list op) (l1 l2 : list ob) : bool :=
  match ops, l1, l2 with
  | [], [], [] => true
  | o :: r, a :: r1, b :: r2 => ob_match o a b && obs_match r r1 r2
  | _, _, _ => false
  end.

(** ---------- the correspondence case ----------
    [c_tree]: the DAG as the harness found it by walking the blocks itself (recorded
    sizes, leaf data); [c_size]: the size recorded at the root (DagReader.Size());
    [c_expect]: the bytes that were imported (None for DAGs made by the modifier or by hand);
    [c_kind]: 0 importer, 1 DagModifier.GetNode, 2 hand-built with wrong recorded sizes. *)
Record case := { c_tree : tree; c_size : Z; c_expect : option (list Z); c_kind : N;
                 c_ops : list op; c_obs : list ob }.

Definition check_case (c : case) : verdict :=
  let t := c_tree c in
  let content := flatten t in
  let model_ok := obs_match (c_ops c) (snd (run t (c_size c) (rd_init t) (c_ops c))) (c_obs c) in
  let sizes_ok := consistent t && (c_size c =? len content) in
  let expect_ok := match c_expect c with Some x => zlist_eqb x content | None => true end in
  let spec_ok := obs_match (c_ops c) (snd (spec_run content {| b_pos := 0 |} (c_ops c))) (c_obs c) in
  if (c_kind c =? 2)%N then verdict_of model_ok true          (* wrong sizes on purpose: mechanism only *)
  else if sizes_ok then verdict_of model_ok (spec_ok && expect_ok)
  else if (c_kind c =? 1)%N then (if model_ok then VKnown 1 else VModelMismatch)
  else VSpecFail.
