(** C44 — Reproviding announces every allowed key and terminates (provider/reprovider.go,
    provider/provider.go).

    Mechanism, transcribed from [reprovider.Reprovide]:
      batchSize := maxReprovideBatchSize            (forced to 1 in New when the router has no ProvideMany)
      if callback != nil && throughputMinimumProvides < batchSize { batchSize = throughputMinimumProvides }
      cids := set of CID
      for !allCidsProcessed {
        for range batchSize { c, ok := <-kch; if !ok { allCidsProcessed = true; break }; cids[c] = {} }
        keys := multihashes of the CIDs in cids that pass ValidateCid; those are deleted from cids,
                the rejected ones stay in cids (and are re-examined, never announced)
        if len(keys) == 0 { continue }
        ProvideMany(keys)                            (or one Provide per key)
      }
    and from [NewPrioritizedProvider]: streams are drained in order; a CID already in [visited] is
    skipped; emitted CIDs are added to [visited] for every stream but the last; a stream whose
    KeyChanFunc fails is skipped.

    Defect switch [batch_zero_loops]: [true] = the code before the repair (batchSize 0 is used
    as is: the inner loop reads nothing, nothing is ever marked processed), [false] = batch size 0
    is raised to 1.  No proofs in this file. *)
From Coq Require Import List ZArith Bool NArith Lia.
From V Require Import lib.Verdict.
Import ListNotations.
Open Scope Z_scope.

(** a CID = (version/codec tag, multihash id); the announced key is the multihash *)
Definition cid := (N * N)%type.
Definition mh_of (c : cid) : N := snd c.
Definition cid_eqb (a b : cid) : bool := (fst a =? fst b)%N && (snd a =? snd b)%N.
Definition memc (c : cid) (l : list cid) : bool := existsb (cid_eqb c) l.
Definition add_set (l : list cid) (c : cid) : list cid := if memc c l then l else l ++ [c].

(** validity is a function of the multihash (hash function + digest length): [bad] lists the
    multihash ids the allowlist rejects *)
Definition memN (x : N) (l : list N) : bool := existsb (N.eqb x) l.
Definition valid (bad : list N) (c : cid) : bool := negb (memN (mh_of c) bad).

(** configuration as the options set it *)
Record cfg := {
  max_batch : Z;        (* MaxBatchSize(n); math.MaxUint when unset *)
  provide_many : bool;  (* the router implements ProvideMany *)
  has_cb : bool;        (* ThroughputReport given *)
  min_provides : Z      (* its threshold *)
}.

Definition batch_size (batch_zero_loops : bool) (c : cfg) : Z :=
  let b0 := if provide_many c then max_batch c else 1 in
  let b1 := if has_cb c && (min_provides c <? b0) then min_provides c else b0 in
  if batch_zero_loops then b1 else Z.max b1 1.

(** read up to [n] keys from the channel: (taken, rest, saw the channel closed) *)
Fixpoint take_n (n : nat) (s : list cid) : list cid * list cid * bool :=
  match n with
  | O => ([], s, false)
  | S n' =>
      match s with
      | [] => ([], [], true)
      | c :: r => let '(t, r', d) := take_n n' r in (c :: t, r', d)
      end
  end.

(** the outer loop; [acc] = the batches handed to the router so far (multihash ids) *)
Fixpoint loop (fuel : nat) (bad : list N) (batch : Z) (stream cids : list cid)
         (acc : list (list N)) : option (list (list N)) :=
  match fuel with
  | O => None
  | S f =>
      let n := Z.to_nat (Z.min batch (Z.of_nat (length stream) + 1)) in
      let '(taken, rest, done) := take_n n stream in
      let cids1 := fold_left add_set taken cids in
      let keys := map mh_of (filter (valid bad) cids1) in
      let cids2 := filter (fun c => negb (valid bad c)) cids1 in
      let acc' := match keys with [] => acc | _ => acc ++ [keys] end in
      if done then Some acc' else loop f bad batch rest cids2 acc'
  end.

(** fuel: one iteration per [batch] keys, one more to see the channel closed *)
Definition fuel_for (stream : list cid) : nat := S (S (length stream)).

Definition reprovide (batch_zero_loops : bool) (c : cfg) (bad : list N) (stream : list cid)
  : option (list (list N)) :=
  loop (fuel_for stream) bad (batch_size batch_zero_loops c) stream [] [].

(** ---------- prioritized key provider ---------- *)
Fixpoint prio_stream (mark : bool) (s visited out : list cid) : list cid * list cid :=
  match s with
  | [] => (visited, out)
  | c :: r =>
      if memc c visited then prio_stream mark r visited out
      else prio_stream mark r (if mark then c :: visited else visited) (out ++ [c])
  end.

(** a stream is [None] when its KeyChanFunc returned an error (skipped) *)
Fixpoint prio (streams : list (option (list cid))) (visited out : list cid) : list cid :=
  match streams with
  | [] => out
  | s :: rest =>
      let mark := match rest with [] => false | _ => true end in
      match s with
      | None => prio rest visited out
      | Some l => let (v, o) := prio_stream mark l visited out in prio rest v o
      end
  end.
Definition prioritized (streams : list (option (list cid))) : list cid := prio streams [] [].

(** ---------- specification (what the property says), as boolean checks on an observed run ---------- *)
Definition all_keys (batches : list (list N)) : list N := concat batches.

Definition spec_reprovide (c : cfg) (bad : list N) (stream : list cid)
           (terminated : bool) (batches : list (list N)) : bool :=
  terminated &&
  (* every allowed key of the stream is announced at least once *)
  forallb (fun k => negb (valid bad k) || memN (mh_of k) (all_keys batches)) stream &&
  (* nothing rejected and nothing foreign is announced *)
  forallb (fun m => existsb (fun k => valid bad k && (mh_of k =? m)%N) stream) (all_keys batches) &&
  (* batches are non-empty and no larger than the configured maximum (a maximum of 0 read as 1) *)
  forallb (fun b => match b with [] => false | _ => Z.of_nat (length b) <=? Z.max 1 (max_batch c) end) batches.

Fixpoint subseqb (a b : list cid) : bool :=   (* a is a subsequence of b *)
  match a, b with
  | [], _ => true
  | _ :: _, [] => false
  | x :: a', y :: b' => if cid_eqb x y then subseqb a' b' else subseqb a b'
  end.

Definition flat (streams : list (option (list cid))) : list cid :=
  concat (map (fun s => match s with Some l => l | None => [] end) streams).

Definition countc (c : cid) (l : list cid) : nat := length (filter (cid_eqb c) l).

(** every key of every stream is emitted; the output is a subsequence of the concatenated streams;
    and a key that occurs in any stream but the last is emitted exactly once (suppression) *)
Definition spec_prioritized (streams : list (option (list cid))) (out : list cid) : bool :=
  forallb (fun c => memc c out) (flat streams) && subseqb out (flat streams) &&
  forallb (fun c => Nat.eqb (countc c out) 1) (flat (removelast streams)).

(** ---------- cases written by the harness ---------- *)
Fixpoint insertN (x : N) (l : list N) : list N :=
  match l with [] => [x] | y :: r => if (x <=? y)%N then x :: l else y :: insertN x r end.
Definition sortN (l : list N) : list N := fold_right insertN [] l.
Fixpoint listN_eqb (a b : list N) : bool :=
  match a, b with
  | [], [] => true
  | x :: a', y :: b' => (x =? y)%N && listN_eqb a' b'
  | _, _ => false
  end.
Fixpoint batches_eqb (a b : list (list N)) : bool :=
  match a, b with
  | [], [] => true
  | x :: a', y :: b' => listN_eqb (sortN x) (sortN y) && batches_eqb a' b'
  | _, _ => false
  end.
Fixpoint cids_eqb (a b : list cid) : bool :=
  match a, b with
  | [], [] => true
  | x :: a', y :: b' => cid_eqb x y && cids_eqb a' b'
  | _, _ => false
  end.

Definition obs_eqb (m : option (list (list N))) (terminated : bool) (batches : list (list N)) : bool :=
  match m with
  | Some bs => terminated && batches_eqb bs batches
  | None => negb terminated          (* the model diverges: only "did not terminate" is comparable *)
  end.

Inductive case :=
| CReprovide (c : cfg) (bad : list N) (stream : list cid) (terminated : bool) (batches : list (list N))
| CPrio (streams : list (option (list cid))) (out : list cid).

(** finding 1 = batch size 0 never terminates *)
Definition check_case (k : case) : verdict :=
  match k with
  | CReprovide c bad stream terminated batches =>
      let ok_spec := spec_reprovide c bad stream terminated batches in
      let m_fixed := reprovide false c bad stream in
      let m_defect := reprovide true c bad stream in
      if ok_spec then
        (if obs_eqb m_fixed terminated batches || obs_eqb m_defect terminated batches
         then VOk else VModelMismatch)
      else if obs_eqb m_defect terminated batches &&
              match m_fixed with Some bs => spec_reprovide c bad stream true bs | None => false end
           then VKnown 1
           else VSpecFail
  | CPrio streams out =>
      verdict_of (cids_eqb (prioritized streams) out) (spec_prioritized streams out)
  end.
