(** C11 — dag-pb nodes encode canonically and never expose a stale CID.

    Executable model of the mechanism in ipld/merkledag/node.go and coding.go:

      ProtoNode { links, linksDirty, data, encoded, cached, builder }

    every mutator and reader below is transcribed from the Go method of the same
    name; [do_encode] is EncodeProtobuf(false).  The wire format ([encode],
    [decode], [sort_links]) is lib/C11_DagPb.v.  The hash enters as a function
    argument [H : builder id -> encoding -> cid id] the theorems quantify over;
    in the correspondence check it is the table of CIDs the real builders
    produced in that run.

    Defect switch [f_setbuilder_nil]: on = SetCidBuilder(nil) leaves the cached
    CID in place (node.go before the repair fixes/C11-1.patch), off = it clears
    it like every other builder change.

    No proofs in this file. *)
From Coq Require Import List ZArith Bool NArith.
From V Require Import lib.Verdict lib.C11_DagPb.
Import ListNotations.
Open Scope Z_scope.

Record flags := { f_setbuilder_nil : bool }.
Definition flags_off := {| f_setbuilder_nil := false |}.
Definition flags_on := {| f_setbuilder_nil := true |}.

(** builder ids: 0 = the default v0CidPrefix (also what a nil builder means),
    1.. = other builders of the run.  cid ids: interned CID strings, 0 = none. *)
Record node := mkNode {
  n_links : list link;
  n_dirty : bool;
  n_data : option bytes;
  n_enc : option bytes;        (* encoded.encoded *)
  n_cached : option Z;         (* cached CID, None = cid.Undef *)
  n_builder : Z
}.

Definition fresh (d : option bytes) : node := mkNode [] false d None None 0.   (* NodeWithData *)

Definition max_int64 : Z := 9223372036854775807.

(** checkLink *)
Definition link_ok (l : link) : bool :=
  negb (max_int64 <? l_size l) && negb (match l_cid l with [] => true | _ => false end).

Inductive op :=
| OAdd (name : bytes) (size : Z) (cid : bytes)        (* AddRawLink / AddNodeLink; cid [] = cid.Undef *)
| ORemove (name : bytes)                              (* RemoveNodeLink *)
| OSetData (d : option bytes)                         (* SetData *)
| OSetBuilder (b : option Z)                          (* SetCidBuilder; None = nil *)
| OSetBuilderBad                                      (* SetCidBuilder with an unusable hasher: error, no change *)
| OSetLinks (ls : list link)                          (* SetLinks *)
| OCopy                                               (* n = n.Copy() *)
| OUpdate (name : bytes) (size : Z) (cid : bytes)     (* n = n.UpdateNodeLink(name, child) *)
| ORedecode                                           (* n = DecodeProtobuf(n.RawData()) *)
| OReblock                                            (* n = DecodeProtobufBlock(NewBlockWithCid(n.RawData(), n.Cid())) *)
| RCid | RRaw | RLinks | RData | RTree | RDecode.     (* Cid(), RawData(), Links(), Data(), Tree(""), DecodeProtobuf(RawData()) *)

Inductive ob :=
| BOk | BErr
| BCid (c : Z)
| BRaw (b : bytes)
| BLinks (ls : list link)
| BData (d : option bytes)
| BTree (names : list bytes)
| BDecode (r : option (option bytes * list link)).

Section Model.
Variable fl : flags.
Variable H : Z -> bytes -> Z.

(** the in-place sort of Links()/Tree()/MarshalJSON when linksDirty *)
Definition settle (n : node) : node :=
  if n_dirty n
  then mkNode (sort_links (n_links n)) false (n_data n) None (n_cached n) (n_builder n)
  else n.

(** EncodeProtobuf(false) *)
Definition do_encode (n : node) : node :=
  let n1 :=
    if negb (is_some (n_enc n)) || n_dirty n then
      let ls := if n_dirty n then sort_links (n_links n) else n_links n in
      mkNode ls false (n_data n) (Some (encode ls (n_data n))) None (n_builder n)
    else n in
  match n_cached n1 with
  | Some _ => n1
  | None => mkNode (n_links n1) (n_dirty n1) (n_data n1) (n_enc n1)
                   (Some (H (n_builder n1) (odefault [] (n_enc n1)))) (n_builder n1)
  end.

Definition add_link (n : node) (name : bytes) (size : Z) (cid : bytes) : node * ob :=
  let l := mkLink name size cid in
  if link_ok l
  then (mkNode (n_links n ++ [l]) true (n_data n) None (n_cached n) (n_builder n), BOk)
  else (n, BErr).

Definition remove_link (n : node) (name : bytes) : node * ob :=
  if existsb (name_is name) (n_links n)
  then (mkNode (filter (fun l => negb (name_is name l)) (n_links n)) true (n_data n) None
               (n_cached n) (n_builder n), BOk)
  else (n, BErr).

(** Copy(): links sorted regardless of linksDirty, empty data becomes nil, caches empty *)
Definition copy (n : node) : node :=
  mkNode (sort_links (n_links n)) false
         (match n_data n with Some ((_ :: _) as d) => Some d | _ => None end)
         None None (n_builder n).

Definition of_decoded (r : option bytes * list link) (raw : bytes) : node :=
  mkNode (snd r) false (fst r) (Some raw) None 0.

Definition step (n : node) (o : op) : node * ob :=
  match o with
  | OAdd name size cid => add_link n name size cid
  | ORemove name => remove_link n name
  | OSetData d => (mkNode (n_links n) (n_dirty n) d None None (n_builder n), BOk)
  | OSetBuilder None =>
      (mkNode (n_links n) (n_dirty n) (n_data n) (n_enc n)
              (if f_setbuilder_nil fl then n_cached n else None) 0, BOk)
  | OSetBuilder (Some b) =>
      (mkNode (n_links n) (n_dirty n) (n_data n) (n_enc n) None b, BOk)
  | OSetBuilderBad => (n, BErr)
  | OSetLinks ls =>
      if forallb link_ok ls
      then (mkNode ls true (n_data n) None (n_cached n) (n_builder n), BOk)
      else (n, BErr)
  | OCopy => (copy n, BOk)
  | OUpdate name size cid =>
      let c := fst (remove_link (copy n) name) in
      match add_link c name size cid with
      | (c', BOk) => (c', BOk)
      | _ => (n, BErr)                     (* the harness keeps the old node on error *)
      end
  | ORedecode =>
      let n' := do_encode n in
      let raw := odefault [] (n_enc n') in
      match decode raw with
      | Some r => (of_decoded r raw, BOk)
      | None => (n', BErr)
      end
  | OReblock =>
      (* cached = the block's CID, builder = its prefix: the same hash function as the
         builder that made the CID (with the defect switch on and a stale CID this is
         the OLD builder; the model keeps the current one — only the classification of
         a regression of the repaired finding C11-1 depends on it) *)
      let n' := do_encode n in
      let raw := odefault [] (n_enc n') in
      match decode raw with
      | Some r => (mkNode (snd r) false (fst r) (Some raw) (n_cached n') (n_builder n'), BOk)
      | None => (n', BErr)
      end
  | RCid => let n' := do_encode n in (n', BCid (odefault 0 (n_cached n')))
  | RRaw => let n' := do_encode n in (n', BRaw (odefault [] (n_enc n')))
  | RLinks => let n' := settle n in (n', BLinks (n_links n'))
  | RData => (n, BData (n_data n))
  | RTree => let n' := settle n in (n', BTree (map l_name (n_links n')))
  | RDecode => let n' := do_encode n in (n', BDecode (decode (odefault [] (n_enc n'))))
  end.

Fixpoint run (n : node) (ops : list op) : node * list ob :=
  match ops with
  | [] => (n, [])
  | o :: r => let (n', b) := step n o in let (n'', bs) := run n' r in (n'', b :: bs)
  end.
End Model.

(** ---------- specification: what the property text says, without any cache ----------
    Abstract node = links in insertion order, data, builder.  Its encoding is
    [encode (sort_links links) data], its CID the hash of that under the current
    builder, decoding gives back the data and the sorted links. *)
Record anode := mkA { a_links : list link; a_data : option bytes; a_builder : Z }.

Definition a_raw (a : anode) : bytes := encode (sort_links (a_links a)) (a_data a).

Section Spec.
Variable H : Z -> bytes -> Z.

Definition astep (a : anode) (o : op) : anode * ob :=
  match o with
  | OAdd name size cid =>
      let l := mkLink name size cid in
      if link_ok l then (mkA (a_links a ++ [l]) (a_data a) (a_builder a), BOk) else (a, BErr)
  | ORemove name =>
      if existsb (name_is name) (a_links a)
      then (mkA (filter (fun l => negb (name_is name l)) (a_links a)) (a_data a) (a_builder a), BOk)
      else (a, BErr)
  | OSetData d => (mkA (a_links a) d (a_builder a), BOk)
  | OSetBuilder None => (mkA (a_links a) (a_data a) 0, BOk)
  | OSetBuilder (Some b) => (mkA (a_links a) (a_data a) b, BOk)
  | OSetBuilderBad => (a, BErr)
  | OSetLinks ls => if forallb link_ok ls then (mkA ls (a_data a) (a_builder a), BOk) else (a, BErr)
  | OCopy => (mkA (a_links a) (match a_data a with Some ((_ :: _) as d) => Some d | _ => None end)
                  (a_builder a), BOk)
  | OUpdate name size cid =>
      let l := mkLink name size cid in
      if link_ok l
      then (mkA (filter (fun l => negb (name_is name l)) (a_links a) ++ [l])
                (match a_data a with Some ((_ :: _) as d) => Some d | _ => None end) (a_builder a), BOk)
      else (a, BErr)
  | ORedecode => (mkA (a_links a) (a_data a) 0, BOk)       (* a decoded node has the default builder *)
  | OReblock => (a, BOk)                                   (* a node decoded from its own block is the same node *)
  | RCid => (a, BCid (H (a_builder a) (a_raw a)))
  | RRaw => (a, BRaw (a_raw a))
  | RLinks => (a, BLinks (sort_links (a_links a)))
  | RData => (a, BData (a_data a))
  | RTree => (a, BTree (map l_name (sort_links (a_links a))))
  | RDecode => (a, BDecode (Some (a_data a, sort_links (a_links a))))
  end.

Fixpoint arun (a : anode) (ops : list op) : anode * list ob :=
  match ops with
  | [] => (a, [])
  | o :: r => let (a', b) := astep a o in let (a'', bs) := arun a' r in (a'', b :: bs)
  end.
End Spec.

Definition afresh (d : option bytes) : anode := mkA [] d 0.


(** ---------- several nodes related by Copy / UpdateNodeLink ----------
    A history over a growing family of nodes: node 0 is NodeWithData(d0), [MFork i]
    appends n_i.Copy(), [MForkUpdate i ..] appends n_i.UpdateNodeLink(..) (both leave
    n_i alone), [MOp i o] applies [o] to node i.  The family semantics is generic in
    the single-node step, so the cache model and the specification share it: in both,
    what a node answers depends only on the operations applied to THAT node (and to
    the node it was forked from, before the fork). *)
Inductive mop :=
| MOp (i : nat) (o : op)
| MFork (i : nat)
| MForkUpdate (i : nat) (name : bytes) (size : Z) (cid : bytes).

Fixpoint upd_nth {A} (i : nat) (x : A) (l : list A) : list A :=
  match l, i with
  | [], _ => []
  | _ :: r, O => x :: r
  | y :: r, S j => y :: upd_nth j x r
  end.

Section Family.
Context {S : Type}.
Variable stp : S -> op -> S * ob.

Definition gmstep (st : list S) (m : mop) : list S * ob :=
  match m with
  | MOp i o =>
      match nth_error st i with
      | Some s => let (s', b) := stp s o in (upd_nth i s' st, b)
      | None => (st, BErr)
      end
  | MFork i =>
      match nth_error st i with
      | Some s => let (s', b) := stp s OCopy in (st ++ [s'], b)
      | None => (st, BErr)
      end
  | MForkUpdate i name size cid =>
      match nth_error st i with
      | Some s =>
          match stp s (OUpdate name size cid) with
          | (s', BOk) => (st ++ [s'], BOk)
          | (_, b) => (st, b)
          end
      | None => (st, BErr)
      end
  end.

Fixpoint gmrun (st : list S) (ms : list mop) : list S * list ob :=
  match ms with
  | [] => (st, [])
  | m :: r => let (st', b) := gmstep st m in let (st'', bs) := gmrun st' r in (st'', b :: bs)
  end.
End Family.

(** ---------- correspondence ---------- *)
Definition obytes_eqb := option_eqb bytes_eqb.
Definition ob_eqb (a b : ob) : bool :=
  match a, b with
  | BOk, BOk | BErr, BErr => true
  | BCid x, BCid y => x =? y
  | BRaw x, BRaw y => bytes_eqb x y
  | BLinks x, BLinks y => list_eqb link_eqb x y
  | BData x, BData y => obytes_eqb x y
  | BTree x, BTree y => list_eqb bytes_eqb x y
  | BDecode x, BDecode y =>
      option_eqb (fun p q => obytes_eqb (fst p) (fst q) && list_eqb link_eqb (snd p) (snd q)) x y
  | _, _ => false
  end.

(** the hash of a run: the CIDs the real builders gave, as a table
    bytes hashed -> [(builder id, interned CID)]; 0 = not in the table *)
Fixpoint blookup (l : list (Z * Z)) (b : Z) : Z :=
  match l with
  | [] => 0
  | (b', c) :: r => if b =? b' then c else blookup r b
  end.
Fixpoint hlookup (tab : list (bytes * list (Z * Z))) (b : Z) (bs : bytes) : Z :=
  match tab with
  | [] => 0
  | (bs', l) :: r => if bytes_eqb bs bs' then blookup l b else hlookup r b bs
  end.

(** [CRun d0 tab ops obs]: the ops were applied to NodeWithData(d0) on the real
    code, [obs] is what each call answered.
    [CDec bs r]: DecodeProtobuf(bs) on the real code gave [r] (data, links) or failed.
    [CMulti d0 tab ops obs]: the family history [ops] was run on real ProtoNodes. *)
Inductive case :=
| CRun (d0 : option bytes) (tab : list (bytes * list (Z * Z))) (ops : list op) (obs : list ob)
| CDec (bs : bytes) (r : option (option bytes * list link))
| CMulti (d0 : option bytes) (tab : list (bytes * list (Z * Z))) (ops : list mop) (obs : list ob).

Definition check_case (c : case) : verdict :=
  match c with
  | CRun d0 tab ops obs =>
      let H := hlookup tab in
      let sobs := snd (arun H (afresh d0) ops) in
      let off := snd (run flags_off H (fresh d0) ops) in
      let on := snd (run flags_on H (fresh d0) ops) in
      let eq := list_eqb ob_eqb obs in
      if eq sobs then (if eq off || eq on then VOk else VModelMismatch)
      else if eq on && list_eqb ob_eqb off sobs then VKnown 1
      else VSpecFail
  | CDec bs r =>
      verdict_of (ob_eqb (BDecode (decode bs)) (BDecode r)) true
  | CMulti d0 tab ops obs =>
      let H := hlookup tab in
      let sobs := snd (gmrun (astep H) [afresh d0] ops) in
      let off := snd (gmrun (step flags_off H) [fresh d0] ops) in
      let on := snd (gmrun (step flags_on H) [fresh d0] ops) in
      let eq := list_eqb ob_eqb obs in
      if eq sobs then (if eq off || eq on then VOk else VModelMismatch)
      else if eq on && list_eqb ob_eqb off sobs then VKnown 1
      else VSpecFail
  end.
