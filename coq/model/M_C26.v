(** C26 — creation of IPNS records (ipns/record.go NewRecord/newRecord, createNode,
    anyToNode, nodeToCBOR, needToEmbedPublicKey) on top of the shared record model
    [lib/Ipns.v] (envelope, DAG-CBOR node, UnmarshalRecord, accessors, Validate).

    External behaviour enters as parameters: private keys [sk] with [pub]/[sign],
    public keys with [marshal_pk]/[parse_pk]/[verify], [sha256] (peer IDs), and the
    RFC3339Nano codec [fmt_time]/[parse_time] (Go's time package behind
    util.FormatRFC3339/ParseRFC3339).  No proofs in this file. *)
From Coq Require Import ZArith List Bool String.
From V Require Import lib.Verdict lib.Lex lib.Varint lib.Pb lib.CborScalar lib.Ipns.
Import ListNotations.
Open Scope Z_scope.

(** a metadata value as handed to WithMetadata (a Go [any]) *)
Inductive mval :=
| MString (s : bytes)
| MBytes (b : bytes)
| MInt (i : Z)          (* int64 or int *)
| MBool (b : bool)
| MNil
| MOther.               (* any other Go type *)

(** creation errors *)
Inductive nerr := NEmptyKey | NConflict | NInvalid | NUnsupported.

Inductive nres (A : Type) := NOk (a : A) | NErr (e : nerr).
Arguments NOk {A} a.
Arguments NErr {A} e.

(** anyToNode *)
Definition any_to_node (v : mval) : nres cval :=
  match v with
  | MString s => NOk (CText s)
  | MBytes b => NOk (CBytes b)
  | MInt i => NOk (CInt i)
  | MBool b => NOk (CBool b)
  | MNil => NErr NInvalid
  | MOther => NErr NUnsupported
  end.

(** the metadata loop of createNode (Go iterates the map in random order; the
    model takes the entries in list order — which error is reported when several
    entries are bad is the only thing that depends on it) *)
Fixpoint meta_nodes (meta : list (bytes * mval)) : nres (list entry) :=
  match meta with
  | [] => NOk []
  | (k, v) :: r =>
      if blen k =? 0 then NErr NEmptyKey
      else if existsb (bytes_eqb k) reserved_keys then NErr NConflict
      else match any_to_node v with
           | NErr e => NErr e
           | NOk n =>
               match meta_nodes r with
               | NErr e => NErr e
               | NOk l => NOk ((k, n) :: l)
               end
           end
  end.

(** map key order of createNode's SortFunc and of dag-cbor's RFC7049 sort:
    shorter keys first, equal lengths bytewise *)
Definition key_cmp (a b : bytes) : comparison :=
  match blen a ?= blen b with
  | Eq => lex_list Z.compare a b
  | c => c
  end.
Definition key_leb (a b : bytes) : bool :=
  match key_cmp a b with Gt => false | _ => true end.

Fixpoint insert_entry (e : entry) (l : list entry) : list entry :=
  match l with
  | [] => [e]
  | x :: r => if key_leb (fst e) (fst x) then e :: l else x :: insert_entry e r
  end.
Definition sort_entries (l : list entry) : list entry := fold_right insert_entry [] l.

(** createNode *)
Definition create_node (value : bytes) (seq : Z) (validity : bytes) (ttl : Z)
           (meta : list (bytes * mval)) : nres (list entry) :=
  match meta_nodes meta with
  | NErr e => NErr e
  | NOk ms =>
      NOk (sort_entries (ms ++ [(kValue, CBytes value);
                                (kValidity, CBytes validity);
                                (kValidityType, CInt 0);
                                (kSequence, CInt (to_i64 seq));      (* int64(seq) *)
                                (kTTL, CInt ttl)]))
  end.

Definition eol_name : bytes := Eval vm_compute in str "EOL"%string.   (* fmt.Append(nil, IpnsRecord_EOL) *)

Record inputs := mkInputs {
  i_value : bytes;
  i_seq : Z;                      (* uint64 *)
  i_eol : Z;                      (* instant, ns *)
  i_ttl : Z;                      (* time.Duration, int64 ns *)
  i_v1 : bool;                    (* WithV1Compatibility *)
  i_embed : option bool;          (* WithPublicKey, None = default *)
  i_meta : list (bytes * mval)
}.

Section Create.
  Variables sk pk : Type.
  Variable pub : sk -> pk.
  Variable sign : sk -> bytes -> bytes.
  Variable marshal_pk : pk -> bytes.
  Variable fmt_time : Z -> bytes.                 (* util.FormatRFC3339 *)

  (** needToEmbedPublicKey: the peer ID inlines keys of at most 42 bytes *)
  Definition need_embed (k : pk) : bool := negb (blen (marshal_pk k) <=? 42).

  (** newRecord *)
  Definition new_record (s : sk) (i : inputs) : nres record :=
    let ttl := Z.max 0 (i_ttl i) in
    let validity := fmt_time (i_eol i) in
    match create_node (i_value i) (i_seq i) validity ttl (i_meta i) with
    | NErr e => NErr e
    | NOk node =>
        let data := enc_map node in
        let sig2 := sign s (sig_prefix ++ data) in
        let embed := match i_embed i with Some b => b | None => need_embed (pub s) end in
        let pkf := if embed then Some (marshal_pk (pub s)) else None in
        let pb :=
          if i_v1 i then
            mkPb (Some (i_value i))
                 (Some (sign s (i_value i ++ validity ++ eol_name)))
                 (Some 0) (Some validity) (Some (i_seq i)) (Some ttl)
                 pkf (Some sig2) (Some data) []
          else
            mkPb None None None None None None pkf (Some sig2) (Some data) [] in
        NOk (mkRecord pb node)
    end.
End Create.

(** ---------- specification helpers ---------- *)
Definition node_of (v : mval) : option cval :=
  match any_to_node v with NOk n => Some n | NErr _ => None end.

Definition meta_entry_ok (e : bytes * mval) : bool :=
  negb (blen (fst e) =? 0) && negb (existsb (bytes_eqb (fst e)) reserved_keys) &&
  match node_of (snd e) with Some _ => true | None => false end.

Definition meta_ok (meta : list (bytes * mval)) : Prop :=
  Forall (fun e => meta_entry_ok e = true) meta.

(** the inputs the property quantifies over: any uint64 sequence number, any
    int64 TTL, any expiry the time codec round-trips, any metadata map (distinct
    keys — it is a Go map) whose keys are non-empty and not reserved and whose
    values have a supported type (integers are int64) *)
Definition inputs_ok (fmt_time : Z -> bytes) (parse_time : bytes -> option Z) (i : inputs) : Prop :=
  0 <= i_seq i < two64 /\
  - two63 <= i_ttl i < two63 /\
  parse_time (fmt_time (i_eol i)) = Some (i_eol i) /\
  meta_ok (i_meta i) /\
  NoDup (map fst (i_meta i)) /\
  (forall k n, In (k, MInt n) (i_meta i) -> - two63 <= n < two63).

(** whether the public key can be recovered from record + name: it is embedded, or
    short enough to be inlined in the peer ID *)
Definition key_recoverable (sk pk : Type) (pub : sk -> pk) (marshal_pk : pk -> bytes)
           (s : sk) (i : inputs) : bool :=
  match i_embed i with Some b => b | None => need_embed pk marshal_pk (pub s) end
  || (blen (marshal_pk (pub s)) <=? 42).

(** strict DAG-CBOR map key order on entries *)
Definition key_lt (a b : entry) : Prop := key_cmp (fst a) (fst b) = Lt.

(** ---------- correspondence cases ---------- *)
(** what the harness learnt from libp2p / the Go time package directly (not via boxo) *)
Record oracle := mkOracle {
  o_pkbytes : bytes;          (* ic.MarshalPublicKey(sk.GetPublic()) *)
  o_name : name;              (* peer.IDFromPublicKey *)
  o_sha : bytes;              (* SHA-256 digest inside the peer ID when hashed, else [] *)
  o_validity : bytes;         (* the Validity string found in the created record *)
  o_parse : option Z;         (* time.Parse(RFC3339Nano) of it, as instant *)
  o_sig1 : bytes;             (* SignatureV1 found in the record *)
  o_sig2 : bytes;             (* SignatureV2 found in the record *)
  o_data : bytes;             (* Data found in the record *)
  o_verify2 : bool;           (* pk.Verify("ipns-signature:" ++ Data, SignatureV2) *)
  o_verify1 : bool            (* pk.Verify(Value ++ Validity ++ "EOL", SignatureV1), true when absent *)
}.

(** what boxo answered *)
Record observed := mkObs {
  b_raw : bytes;                      (* MarshalRecord(NewRecord(...)) *)
  b_value : option bytes;             (* accessors of UnmarshalRecord(raw) *)
  b_seq : option Z;
  b_eol : option Z;
  b_ttl : option Z;
  b_meta : list (option cval);        (* Metadata(k) for every input key, in input order *)
  b_meta_reserved : option cval;      (* Metadata("Sequence"): must be refused *)
  b_meta_count : Z;                   (* number of MetadataEntries *)
  b_embedded : bool;                  (* PubKey() present *)
  b_vwn : result unit;                (* ValidateWithName(rec, name) *)
  b_vv : result unit;                 (* Validator{}.Validate(routing key, raw) *)
  b_vkey : result unit                (* Validate(rec, pk) *)
}.

Inductive case :=
| CNew (i : inputs) (future : bool) (o : oracle) (b : observed)
| CNewErr (i : inputs) (e : nerr)                 (* NewRecord returned this error class *)
| CNewBig (i : inputs) (o : oracle) (raw : bytes) (* NewRecord succeeded, MarshalRecord gave [raw], *)
          (um vv vk : result unit)                (* but UnmarshalRecord(raw) failed with [um]; [vv] = Validator.Validate(raw),
                                                     [vk] = Validate(created record, pk) *)
| CCbor (l : list entry) (enc : bytes).           (* dagcbor.Encode of the map [l] gave [enc] *)

(** run-length shorthand used by the harness for padded records *)
Definition rep (x n : Z) : bytes := List.repeat x (Z.to_nat n).

Fixpoint prefix_eqb (p b : bytes) : bool :=
  match p, b with
  | [], _ => true
  | x :: p', y :: b' => (x =? y) && prefix_eqb p' b'
  | _, _ => false
  end.

Definition cval_eqb (a b : cval) : bool :=
  match a, b with
  | CBytes x, CBytes y => bytes_eqb x y
  | CInt x, CInt y => x =? y
  | CBig x, CBig y => x =? y
  | CText x, CText y => bytes_eqb x y
  | CBool x, CBool y => Bool.eqb x y
  | _, _ => false
  end.
Definition opt_eqb {A} (eqb : A -> A -> bool) (a b : option A) : bool :=
  match a, b with
  | Some x, Some y => eqb x y
  | None, None => true
  | _, _ => false
  end.
Definition err_eqb (a b : err) : bool :=
  match a, b with
  | ERecordSize, ERecordSize | EInvalidRecord, EInvalidRecord | ESignature, ESignature
  | EPkMismatch, EPkMismatch | EInvalidPk, EInvalidPk | ENoPk, ENoPk | EPkNotFound, EPkNotFound
  | EExpired, EExpired | EUnrecValidity, EUnrecValidity | EInvalidValidity, EInvalidValidity
  | EInvalidName, EInvalidName | EOther, EOther => true
  | _, _ => false
  end.
Definition res_eqb (a b : result unit) : bool :=
  match a, b with
  | Ok _, Ok _ => true
  | Err x, Err y => err_eqb x y
  | _, _ => false
  end.
Definition resZ_opt (r : result Z) : option Z := match r with Ok z => Some z | Err _ => None end.
Definition nerr_eqb (a b : nerr) : bool :=
  match a, b with
  | NEmptyKey, NEmptyKey | NConflict, NConflict | NInvalid, NInvalid | NUnsupported, NUnsupported => true
  | _, _ => false
  end.
Fixpoint list_eqb {A} (eqb : A -> A -> bool) (l l' : list A) : bool :=
  match l, l' with
  | [], [] => true
  | a :: r, b :: r' => eqb a b && list_eqb eqb r r'
  | _, _ => false
  end.

(** the crypto/time parameters instantiated with what the harness observed *)
Definition c_parse_pk (o : oracle) (b : bytes) : option bytes :=
  if bytes_eqb b (o_pkbytes o) then Some b else None.
Definition c_verify (o : oracle) (k msg sg : bytes) : bool :=
  bytes_eqb k (o_pkbytes o) &&
  ((o_verify2 o && bytes_eqb msg (sig_prefix ++ o_data o) && bytes_eqb sg (o_sig2 o))).
Definition c_sign (o : oracle) (_ : unit) (msg : bytes) : bytes :=
  if prefix_eqb sig_prefix msg then o_sig2 o else o_sig1 o.
Definition c_parse_time (o : oracle) (b : bytes) : option Z :=
  if bytes_eqb b (o_validity o) then o_parse o else None.

Definition count_meta (node : list entry) : Z :=
  blen (filter (fun e => negb (existsb (bytes_eqb (fst e)) reserved_keys)) node).

Definition check_case (c : case) : verdict :=
  match c with
  | CCbor l enc => verdict_of (bytes_eqb (enc_map (sort_entries l)) enc) true
  | CNewErr i e =>
      let m := new_record unit bytes (fun _ => []) (fun _ _ => []) (fun k => k) (fun _ => []) tt i in
      verdict_of (match m with NErr e' => nerr_eqb e e' | NOk _ => false end)
                 (negb (forallb meta_entry_ok (i_meta i)))
  | CNewBig i o raw um vv vk =>
      (* a created record that does not unmarshal: allowed only above the size limit,
         and then everything must refuse it with ErrRecordSize *)
      let parse_pk := c_parse_pk o in
      let marshal_pk := fun k : bytes => k in
      let verify := c_verify o in
      let sha := fun _ : bytes => o_sha o in
      let ptime := c_parse_time o in
      let now := i_eol i in
      match new_record unit bytes (fun _ => o_pkbytes o) (c_sign o) marshal_pk (fun _ => o_validity o) tt i with
      | NErr _ => verdict_of false (forallb meta_entry_ok (i_meta i))
      | NOk rec =>
          let m_raw := marshal (r_pb rec) in
          let m_um := match unmarshal_record m_raw with Ok _ => Ok tt | Err e => Err e end in
          let model_ok :=
            bytes_eqb m_raw raw && res_eqb m_um um &&
            res_eqb (validator_validate bytes parse_pk marshal_pk verify sha ptime now (o_name o) m_raw) vv &&
            res_eqb (validate bytes verify ptime now rec (o_pkbytes o)) vk in
          let spec_ok :=
            (max_record_size <? blen raw) &&
            res_eqb um (Err ERecordSize) && res_eqb vv (Err ERecordSize) && res_eqb vk (Err ERecordSize) in
          verdict_of model_ok spec_ok
      end
  | CNew i future o b =>
      let parse_pk := c_parse_pk o in
      let marshal_pk := fun k : bytes => k in
      let verify := c_verify o in
      let sha := fun _ : bytes => o_sha o in
      let ptime := c_parse_time o in
      let now := if future then i_eol i else i_eol i + 1 in
      let nm := o_name o in
      match new_record unit bytes (fun _ => o_pkbytes o) (c_sign o) marshal_pk (fun _ => o_validity o) tt i with
      | NErr _ => verdict_of false (forallb meta_entry_ok (i_meta i))   (* boxo created a record from bad metadata *)
      | NOk rec =>
          let raw := marshal (r_pb rec) in
          match unmarshal_record raw with
          | Err _ => VModelMismatch
          | Ok rec' =>
              let model_ok :=
                bytes_eqb raw (b_raw b) &&
                opt_eqb bytes_eqb (acc_value rec') (b_value b) &&
                opt_eqb Z.eqb (acc_sequence rec') (b_seq b) &&
                opt_eqb Z.eqb (resZ_opt (acc_validity ptime rec')) (b_eol b) &&
                opt_eqb Z.eqb (acc_ttl rec') (b_ttl b) &&
                list_eqb (opt_eqb cval_eqb) (map (fun e => acc_metadata (fst e) rec') (i_meta i)) (b_meta b) &&
                opt_eqb cval_eqb (acc_metadata kSequence rec') (b_meta_reserved b) &&
                (count_meta (r_node rec') =? b_meta_count b) &&
                Bool.eqb (negb (olen (p_pubkey (r_pb rec')) =? 0)) (b_embedded b) &&
                res_eqb (validate_with_name bytes parse_pk marshal_pk verify sha ptime now rec' nm) (b_vwn b) &&
                res_eqb (validator_validate bytes parse_pk marshal_pk verify sha ptime now nm raw) (b_vv b) &&
                res_eqb (validate bytes verify ptime now rec' (o_pkbytes o)) (b_vkey b) in
              (* the specification, on what boxo answered *)
              (* by name alone the key must be recoverable unless the caller asked for a
                 record without the key (WithPublicKey(false)) and the name does not inline it *)
              let inline := match nm with NInline _ => true | NHash _ => false end in
              let key_recoverable :=
                match i_embed i with Some false => inline | _ => true end in
              let expect (r : result unit) (recoverable : bool) :=
                if negb recoverable then (match r with Err ENoPk | Err EPkNotFound => true | _ => false end)
                else if future then res_eqb r (Ok tt) else res_eqb r (Err EExpired) in
              let spec_ok :=
                forallb meta_entry_ok (i_meta i) &&
                opt_eqb bytes_eqb (b_value b) (Some (i_value i)) &&
                opt_eqb Z.eqb (b_seq b) (Some (i_seq i)) &&
                opt_eqb Z.eqb (b_eol b) (Some (i_eol i)) &&
                opt_eqb Z.eqb (b_ttl b) (Some (Z.max 0 (i_ttl i))) &&
                list_eqb (opt_eqb cval_eqb) (b_meta b) (map (fun e => node_of (snd e)) (i_meta i)) &&
                opt_eqb cval_eqb (b_meta_reserved b) None &&
                (b_meta_count b =? blen (i_meta i)) &&
                (match i_embed i with Some e => Bool.eqb (b_embedded b) e | None => b_embedded b || inline end) &&
                o_verify2 o && o_verify1 o &&
                expect (b_vwn b) key_recoverable &&
                expect (match b_vv b with Err EPkNotFound => Err ENoPk | r => r end) key_recoverable &&
                expect (b_vkey b) true in
              verdict_of model_ok spec_ok
          end
      end
  end.
