(** C22 — pinner state follows the pin model and failed calls change nothing
    (pinning/pinner/dspinner/pin.go).

    Operations: the shared mechanism model [lib/PinModel.v] (records, three indexes, write
    order, early returns; FetchGraph / DiffEnumerate outcomes are oracle booleans).
    Here: the DAG, the queries (IsPinned, IsPinnedWithType, CheckIfPinned(WithType),
    RecursiveKeys, DirectKeys) computed the way the code computes them — from the cid
    indexes and the pin records they point to —, the abstract pin model (a plain list of
    pins, no indexes, no flags, no write order) with the same queries computed from the pins,
    and the case type.  No proofs in this file. *)
From Coq Require Import List Bool NArith.
From V Require Import lib.Verdict lib.PinModel.
Import ListNotations.
Open Scope N_scope.

(** ---------- DAG: node i has children [nth i dag []]; the harness builds acyclic graphs whose
    children have smaller numbers ---------- *)
Definition dag := list (list N).
Definition children (g : dag) (i : N) : list N := nth (N.to_nat i) g [].
(** [c] is a strict descendant of [from] (hasChild / merkledag.Walk below a root) *)
Fixpoint reach (g : dag) (fuel : nat) (from c : N) : bool :=
  match fuel with
  | O => false
  | S f => existsb (fun ch => (ch =? c) || reach g f ch c) (children g from)
  end.
Definition descends (g : dag) (from c : N) : bool := reach g (S (N.to_nat from)) from c.
Definition ordered (g : dag) : Prop := forall i ch, In ch (children g i) -> ch < i.

(** ---------- what the queries look at: recursive and direct pins as (cid, name) ---------- *)
Record view := mkview { vR : list (N * N); vD : list (N * N) }.

Definition name_of (i : N) (s : store) : N :=
  match find_rec i s with Some r => r_name r | None => 0 end.
(** the code's view: cid index entries, names loaded from the pin records *)
Definition view_store (s : store) : view :=
  mkview (map (fun e => (fst e, name_of (snd e) s)) (idxR s))
         (map (fun e => (fst e, name_of (snd e) s)) (idxD s)).
(** the pin model's view: the pins themselves *)
Definition is_mode (m : mode) (r : prec) : bool := mode_eqb (r_mode r) m.
Definition view_pins (rs : list prec) : view :=
  mkview (map (fun r => (r_cid r, r_name r)) (filter (is_mode MRec) rs))
         (map (fun r => (r_cid r, r_name r)) (filter (is_mode MDir) rs)).

Definition has (c : N) (l : list (N * N)) : bool := existsb (fun e => fst e =? c) l.
Definition first_name (c : N) (l : list (N * N)) : N :=
  match find (fun e => fst e =? c) l with Some e => snd e | None => 0 end.
(** recursive roots from which [c] descends *)
Definition vias (g : dag) (v : view) (c : N) : list N :=
  filter (fun r => descends g r c) (map fst (vR v)).

(** ---------- queries ---------- *)
Inductive query :=
| QIsPinned (c : N) (m : N)                       (* IsPinnedWithType(c, m); IsPinned = mode 5 *)
| QCheck (m : N) (names : bool) (cs : list N)     (* CheckIfPinnedWithType(m, names, cs...) *)
| QKeys (recursive detailed : bool).              (* RecursiveKeys / DirectKeys *)

(** answers.  [kind]: 0 not pinned, 1 "recursive", 2 "direct", 3 indirect through a root.
    Which root is named depends on the datastore's enumeration order: the model lists the
    admissible roots.  Per-CID rows of a batch check: (cid, mode number 0/1/2/4, name, roots). *)
Inductive ans :=
| AIs (pinned : bool) (kind : N) (roots : list N)
| ACheck (rows : list (N * N * N * list N))
| AKeys (rows : list (N * N * N))                 (* cid, mode (9 when not detailed), name *)
| AErr.

Definition indirect_ans (g : dag) (v : view) (c : N) : ans :=
  match vias g v c with
  | [] => AIs false 0 []
  | l => AIs true 3 l
  end.

Definition q_ispinned (fl : flags) (g : dag) (v : view) (c m : N) : ans :=
  if m =? 0 then (if has c (vR v) then AIs true 1 [] else AIs false 0 [])
  else if m =? 1 then (if has c (vD v) then AIs true 2 [] else AIs false 0 [])
  else if m =? 3 then AIs false 0 []
  else if m =? 2 then
    (if negb (f_indirect_includes_roots fl) && has c (vR v) then AIs false 0 [] else indirect_ans g v c)
  else if m =? 5 then
    (if has c (vR v) then AIs true 1 []
     else if has c (vD v) then AIs true 2 []
     else indirect_ans g v c)
  else AErr.

Definition row_indirect (g : dag) (v : view) (c : N) : N * N * N * list N :=
  match vias g v c with [] => (c, 4, 0, []) | l => (c, 2, 0, l) end.
Definition nm (names : bool) (n : N) : N := if names then n else 0.

Definition q_check (g : dag) (v : view) (m : N) (names : bool) (cs : list N) : ans :=
  if m =? 5 then
    ACheck (map (fun c =>
      if has c (vR v) then (c, 0, nm names (first_name c (vR v)), [])
      else if has c (vD v) then (c, 1, nm names (first_name c (vD v)), [])
      else row_indirect g v c) cs)
  else if m =? 0 then
    ACheck (map (fun c => if has c (vR v) then (c, 0, nm names (first_name c (vR v)), []) else (c, 4, 0, [])) cs)
  else if m =? 1 then
    ACheck (map (fun c => if has c (vD v) then (c, 1, nm names (first_name c (vD v)), []) else (c, 4, 0, [])) cs)
  else if m =? 2 then
    ACheck (map (fun c => if has c (vR v) then (c, 4, 0, []) else row_indirect g v c) cs)
  else if m =? 3 then ACheck (map (fun c => (c, 4, 0, [])) cs)
  else AErr.

Definition q_keys (v : view) (recursive detailed : bool) : ans :=
  let l := if recursive then vR v else vD v in
  AKeys (map (fun e => if detailed then (fst e, if recursive then 0 else 1, snd e) else (fst e, 9, 0)) l).

Definition answer (fl : flags) (g : dag) (v : view) (q : query) : ans :=
  match q with
  | QIsPinned c m => q_ispinned fl g v c m
  | QCheck m names cs => q_check g v m names cs
  | QKeys r d => q_keys v r d
  end.

(** ---------- the abstract pin model: a list of pins ---------- *)
Definition a_hasR (c : N) (rs : list prec) : bool := existsb (fun q => (r_cid q =? c) && is_mode MRec q) rs.
Definition a_hasD (c : N) (rs : list prec) : bool := existsb (fun q => (r_cid q =? c) && is_mode MDir q) rs.
Definition not_cid (c : N) (q : prec) : bool := negb (r_cid q =? c).
Definition not_cm (c : N) (m : mode) (q : prec) : bool := negb ((r_cid q =? c) && is_mode m q).

(** recursive pin: replaces every pin of the CID (recursive supersedes direct, re-pin replaces
    the name); a failed fetch changes nothing *)
Definition a_pin_recursive (newid c n : N) (ok : bool) (rs : list prec) : res * list prec :=
  if negb ok then (RFetch, rs) else (ROk, filter (not_cid c) rs ++ [mkrec newid c MRec n]).
(** direct pin: refused on a recursively pinned CID, otherwise replaces the direct pin *)
Definition a_pin_direct (newid c n : N) (rs : list prec) : res * list prec :=
  if a_hasR c rs then (RErr, rs) else (ROk, filter (not_cm c MDir) rs ++ [mkrec newid c MDir n]).
Definition a_unpin (c : N) (recursive : bool) (rs : list prec) : res * list prec :=
  if a_hasR c rs && negb recursive then (RErr, rs)
  else if negb (a_hasR c rs) && negb (a_hasD c rs) then (RNotPinned, rs)
  else (ROk, filter (not_cid c) rs).
Definition a_update (newid from to : N) (unp ok : bool) (rs : list prec) : res * list prec :=
  match filter (fun q => (r_cid q =? from) && is_mode MRec q) rs with
  | [r] =>
      if from =? to then (ROk, rs)
      else if a_hasR to rs then (RErr, rs)
      else if negb ok then (RFetch, rs)
      else let rs' := rs ++ [mkrec newid to MRec (r_name r)] in
           (ROk, if unp then filter (not_cm from MRec) rs' else rs')
  | _ => (RErr, rs)
  end.
Definition a_exec (newid : N) (rs : list prec) (o : op) : res * list prec :=
  match o with
  | OPin c true n ok => a_pin_recursive newid c n ok rs
  | OPin c false n _ => a_pin_direct newid c n rs
  | OPinMode c m n =>
      if m =? 0 then a_pin_recursive newid c n true rs
      else if m =? 1 then a_pin_direct newid c n rs
      else (RErr, rs)
  | OUnpin c r => a_unpin c r rs
  | OUpdate f t u ok => a_update newid f t u ok rs
  | OSetAuto _ | OFlush => (ROk, rs)
  end.

(** ---------- comparison ---------- *)
Definition inclb {A} (eqb : A -> A -> bool) (l1 l2 : list A) : bool :=
  forallb (fun a => existsb (eqb a) l2) l1.
Definition seteq {A} (eqb : A -> A -> bool) (l1 l2 : list A) : bool :=
  inclb eqb l1 l2 && inclb eqb l2 l1 && Nat.eqb (length l1) (length l2).
Definition t3_eqb (a b : N * N * N) : bool :=
  let '(a1, a2, a3) := a in let '(b1, b2, b3) := b in (a1 =? b1) && (a2 =? b2) && (a3 =? b3).
Definition memN (x : N) (l : list N) : bool := existsb (N.eqb x) l.
(** observed row (cid, mode, name, [root]) against a computed row (cid, mode, name, admissible roots) *)
Definition row_agree (computed observed : N * N * N * list N) : bool :=
  let '(c1, m1, n1, roots) := computed in let '(c2, m2, n2, via) := observed in
  (c1 =? c2) && (m1 =? m2) && (n1 =? n2) &&
  match roots, via with
  | [], [] => true
  | _ :: _, [r] => memN r roots
  | _, _ => false
  end.
Definition agree (computed observed : ans) : bool :=
  match computed, observed with
  | AErr, AErr => true
  | AIs p k roots, AIs p' k' via =>
      Bool.eqb p p' && (k =? k') &&
      match roots, via with
      | [], [] => true
      | _ :: _, [r] => memN r roots
      | _, _ => false
      end
  | ACheck rows, ACheck rows' =>
      Nat.eqb (length rows) (length rows') &&
      forallb (fun o => existsb (fun c => row_agree c o) rows) rows' &&
      forallb (fun c => existsb (fun o => row_agree c o) rows') rows
  | AKeys rows, AKeys rows' => seteq t3_eqb rows rows'
  | _, _ => false
  end.

Definition res_eqb (a b : res) : bool :=
  match a, b with ROk, ROk | RNotPinned, RNotPinned | RFetch, RFetch | RErr, RErr => true | _, _ => false end.

(** ---------- cases ---------- *)
(** one step of a history: an operation (with the pin id drawn, whether the context was already
    cancelled, and the observed result class) or a query with the observed answer.  A call with
    an already cancelled context must change nothing, whatever it returns (Update(c, c) of a
    recursively pinned c returns nil before it looks at the context). *)
Inductive event :=
| EOp (o : op) (newid : N) (cancelled : bool) (r : res)
| EQuery (q : query) (a : ans).
Inductive case := Case (g : dag) (evs : list event).

(** does the real pinner agree with the mechanism model under defect switches [fl]? *)
Fixpoint run_model (fl : flags) (g : dag) (p : pst) (evs : list event) : bool :=
  match evs with
  | [] => true
  | EOp o newid cancelled r :: rest =>
      if cancelled then run_model fl g p rest
      else let (r', p') := exec fl newid p o in res_eqb r' r && run_model fl g p' rest
  | EQuery q a :: rest => agree (answer fl g (view_store (st p)) q) a && run_model fl g p rest
  end.
(** does it agree with the pin model (the specification)? *)
Fixpoint run_spec (g : dag) (rs : list prec) (evs : list event) : bool :=
  match evs with
  | [] => true
  | EOp o newid cancelled r :: rest =>
      if cancelled then run_spec g rs rest
      else let (r', rs') := a_exec newid rs o in res_eqb r' r && run_spec g rs' rest
  | EQuery q a :: rest => agree (answer flags_fixed g (view_pins rs) q) a && run_spec g rs rest
  end.

Definition check_case (c : case) : verdict :=
  let 'Case g evs := c in
  let p0 := open_pinner empty_store in
  let m fl := run_model fl g p0 evs in
  if run_spec g [] evs then (if m flags_now || m flags_fixed || m (mkflags true false) || m (mkflags false true) then VOk else VModelMismatch)
  else if m (mkflags true false) then VKnown 1
  else if m (mkflags false true) then VKnown 2
  else if m flags_now then VKnown 1
  else VSpecFail.
