(** C01 — the default blockstore (blockstore/blockstore.go), the identity-hash
    wrapper (blockstore/idstore.go) and the datastore key mapping
    (datastore/dshelp/key.go).

    Executable model of the mechanism, transcribed from the Go sources:
      key.go         MultihashToDsKey mh = "/" ++ base32-upper-nopad(mh);  BinaryFromDsKey = the
                     (lenient, case-insensitive) decoder of multiformats/go-base32
      blockstore.go  NewBlockstore wraps the datastore in the "/blocks" namespace unless NoPrefix;
                     Get / Put (existence check unless WriteThrough) / PutMany (one block = Put,
                     otherwise a batch filtered against the store *before* the batch) /
                     Has / GetSize / DeleteBlock / AllKeysChan (keys decoded back to CIDv1-raw,
                     undecodable keys skipped)
      idstore.go     extractContents (Prefix().MhType = identity, then multihash.Decode) and the
                     short-circuits of every method; View falls back to Get when the wrapped
                     store is no Viewer
    The datastore is an association list from key text to bytes; every write the
    blockstore issues to it is logged ([wr]), as the harness' recording datastore does.
    The specification ([a_step]: a plain map from multihash to bytes, plus the
    identity rules) is at the end.  No proofs in this file. *)
From Coq Require Import List ZArith Bool NArith.
From V Require Import lib.Verdict lib.BaseN.
Import ListNotations.

Definition bytes := list N.

(** ---------- association lists keyed by byte strings ---------- *)
Fixpoint bytes_eqb (a b : bytes) : bool :=
  match a, b with
  | [], [] => true
  | x :: a', y :: b' => (x =? y)%N && bytes_eqb a' b'
  | _, _ => false
  end.

Definition store := list (bytes * bytes).

Fixpoint st_find (k : bytes) (s : store) : option bytes :=
  match s with
  | [] => None
  | (k', v) :: r => if bytes_eqb k k' then Some v else st_find k r
  end.

(** overwrite in place, or append *)
Fixpoint st_put (k v : bytes) (s : store) : store :=
  match s with
  | [] => [(k, v)]
  | (k', v') :: r => if bytes_eqb k k' then (k', v) :: r else (k', v') :: st_put k v r
  end.

Fixpoint st_remove (k : bytes) (s : store) : store :=
  match s with
  | [] => []
  | (k', v) :: r => if bytes_eqb k k' then st_remove k r else (k', v) :: st_remove k r
  end.

Definition st_has (k : bytes) (s : store) : bool :=
  match st_find k s with Some _ => true | None => false end.

(** ---------- CIDs ---------- *)
(** what the blockstore can see of a CID: version, codec, multihash bytes *)
Record cid := Cid { c_ver : N; c_codec : N; c_mh : bytes }.

(** unsigned LEB128 (go-varint), value and rest *)
Fixpoint uvarint_go (bs : bytes) (shift acc : N) : option (N * bytes) :=
  match bs with
  | [] => None
  | b :: r =>
      if (b <? 128)%N then Some (acc + b * 2 ^ shift, r)%N
      else uvarint_go r (shift + 7)%N (acc + (b - 128) * 2 ^ shift)%N
  end.
Definition uvarint (bs : bytes) : option (N * bytes) := uvarint_go bs 0 0.

(** idstore.go extractContents: Some digest iff the CID is an identity-hash CID.
    A CIDv0 has Prefix().MhType = sha2-256 by definition; for CIDv1 both
    Prefix() and multihash.Decode parse the multihash bytes: code, length,
    and the digest must be exactly [length] bytes long (buffer >= 2 bytes). *)
Definition extract (c : cid) : option bytes :=
  if (c_ver c =? 0)%N then None else
  match uvarint (c_mh c) with
  | Some (0%N, r1) =>
      if (length (c_mh c) <? 2)%nat then None else
      match uvarint r1 with
      | Some (len, dig) => if (N.of_nat (length dig) =? len)%N then Some dig else None
      | None => None
      end
  | _ => None
  end.

(** ---------- datastore keys (dshelp/key.go + namespace wrapper) ---------- *)
Record cfg := Cfg {
  f_wt : bool;          (* WriteThrough(true) *)
  f_noprefix : bool;    (* NoPrefix() *)
  f_id : bool;          (* wrapped in NewIdStore *)
  f_viewer : bool       (* the store wrapped by the idstore offers View (harness-made Viewer) *)
}.

Definition slash : N := 47.
(* "/blocks" *)
Definition blocks_prefix : bytes := [47; 98; 108; 111; 99; 107; 115]%N.
Definition prefix_of (c : cfg) : bytes := if f_noprefix c then [] else blocks_prefix.

Definition dskey (c : cfg) (mh : bytes) : bytes := prefix_of c ++ slash :: b32_encode mh.

(** Go's base32 RawStdEncoding.DecodeString (multiformats/go-base32): CR/LF are
    dropped, letters are case-insensitive, a trailing partial group of 1, 3 or 6
    characters is ignored entirely, other trailing bits are dropped unread. *)
Definition go_b32_decode (s : bytes) : option bytes :=
  let s' := filter (fun c => negb ((c =? 10) || (c =? 13))%N) s in
  match mapM (norm_digit ascii_upper b32_alpha) s' with
  | None => None
  | Some ds =>
      let j := (length ds mod 8)%nat in
      let ds' := if ((j =? 1) || (j =? 3) || (j =? 6))%nat then firstn (length ds - j) ds else ds in
      Some (bytes_of_digits 5 ds')
  end.

Fixpoint strip_prefix (p s : bytes) : option bytes :=
  match p with
  | [] => Some s
  | x :: p' => match s with
               | y :: s' => if (x =? y)%N then strip_prefix p' s' else None
               | [] => None
               end
  end.

(** a raw datastore key as AllKeysChan sees it: inside the namespace, then
    BinaryFromDsKey(k.String()[1:]); [None] = skipped *)
Definition key_to_mh (c : cfg) (k : bytes) : option bytes :=
  match strip_prefix (prefix_of c) k with
  | Some (s :: rest) => if (s =? slash)%N then go_b32_decode rest else None
  | _ => None
  end.

(** CIDv1-raw bytes of a multihash: <0x01><0x55><mh> *)
Definition v1raw (mh : bytes) : bytes := (1 :: 85 :: mh)%N.

Fixpoint filter_map {A B} (f : A -> option B) (l : list A) : list B :=
  match l with
  | [] => []
  | a :: r => match f a with Some b => b :: filter_map f r | None => filter_map f r end
  end.

(** ---------- operations and observations ---------- *)
Inductive op :=
| OPut (c : cid) (d : bytes)
| OPutMany (bl : list (cid * bytes))
| ODelete (c : cid)
| OGet (c : cid)
| OGetUndef                      (* Get(cid.Undef) *)
| OHas (c : cid)
| OGetSize (c : cid)
| OView (c : cid)                (* only offered by the idstore *)
| OAllKeys.

Inductive res := ROk | RNotFound | RErr.

Inductive ob :=
| BDone (e : res)                          (* Put / PutMany / DeleteBlock *)
| BData (e : res) (d : bytes)              (* Get / View: the bytes handed out *)
| BHas (e : res) (b : bool)
| BSize (e : res) (n : Z)
| BKeys (e : res) (ks : list bytes).       (* AllKeysChan: CID bytes, in enumeration order *)

(** writes issued to the datastore *)
Inductive wr :=
| WPut (k v : bytes)
| WDel (k : bytes)
| WBPut (k v : bytes)     (* Put on a batch *)
| WCommit.

(** ---------- blockstore.go / idstore.go ----------
    The mechanism is written over an arbitrary key mapping [kf] (multihash ->
    datastore key) with its reader [unkey] (datastore key -> multihash, [None] =
    the key is skipped by AllKeysChan); the blockstore is the instance
    [kf := dskey c], [unkey := key_to_mh c] below. *)
Definition is_id (k : cid) : bool := match extract k with Some _ => true | None => false end.

Section Mechanism.
  Variable kf : bytes -> bytes.
  Variable unkey : bytes -> option bytes.
  Variable wt : bool.           (* WriteThrough *)

  Definition bs_put (s : store) (k : cid) (d : bytes) : store * ob * list wr :=
    let key := kf (c_mh k) in
    (* "Has is cheaper than Put, so see if we already have it" *)
    if negb wt && st_has key s then (s, BDone ROk, [])
    else (st_put key d s, BDone ROk, [WPut key d]).

  Definition bs_putmany (s : store) (bl : list (cid * bytes)) : store * ob * list wr :=
    match bl with
    | [(k, d)] => bs_put s k d              (* performance fast-path *)
    | _ =>
        (* the existence check looks at the datastore, not at the open batch *)
        let batch := filter (fun b => wt || negb (st_has (kf (c_mh (fst b))) s)) bl in
        (fold_left (fun s' b => st_put (kf (c_mh (fst b))) (snd b) s') batch s,
         BDone ROk,
         map (fun b => WBPut (kf (c_mh (fst b))) (snd b)) batch ++ [WCommit])
    end.

  Definition bs_get (s : store) (k : cid) : ob :=
    match st_find (kf (c_mh k)) s with
    | Some d => BData ROk d
    | None => BData RNotFound []
    end.

  Definition bs_size (s : store) (k : cid) : ob :=
    match st_find (kf (c_mh k)) s with
    | Some d => BSize ROk (Z.of_nat (length d))
    | None => BSize RNotFound (-1)
    end.

  Definition bs_allkeys (s : store) : ob :=
    BKeys ROk (map v1raw (filter_map (fun kv => unkey (fst kv)) s)).

  Definition bs_step (s : store) (o : op) : store * ob * list wr :=
    match o with
    | OPut k d => bs_put s k d
    | OPutMany bl => bs_putmany s bl
    | ODelete k => let key := kf (c_mh k) in (st_remove key s, BDone ROk, [WDel key])
    | OGet k => (s, bs_get s k, [])
    | OGetUndef => (s, BData RNotFound [], [])
    | OHas k => (s, BHas ROk (st_has (kf (c_mh k)) s), [])
    | OGetSize k => (s, bs_size s k, [])
    | OView k => (s, bs_get s k, [])       (* the harness-made Viewer: Get + callback *)
    | OAllKeys => (s, bs_allkeys s, [])
    end.

  Definition id_step (s : store) (o : op) : store * ob * list wr :=
    match o with
    | OPut k d => if is_id k then (s, BDone ROk, []) else bs_step s o
    | OPutMany bl => bs_step s (OPutMany (filter (fun b => negb (is_id (fst b))) bl))
    | ODelete k => if is_id k then (s, BDone ROk, []) else bs_step s o
    | OGet k | OView k =>
        (* View without a Viewer below = Get + callback; with one: the same short-circuit *)
        match extract k with Some d => (s, BData ROk d, []) | None => bs_step s o end
    | OGetUndef => bs_step s o
    | OHas k => if is_id k then (s, BHas ROk true, []) else bs_step s o
    | OGetSize k =>
        match extract k with Some d => (s, BSize ROk (Z.of_nat (length d)), []) | None => bs_step s o end
    | OAllKeys => bs_step s o
    end.

  Definition g_step (idl : bool) (s : store) (o : op) : store * ob * list wr :=
    if idl then id_step s o else bs_step s o.

  Fixpoint g_run (idl : bool) (s : store) (ops : list op) : store * list (ob * list wr) :=
    match ops with
    | [] => (s, [])
    | o :: r =>
        let '(s', b, w) := g_step idl s o in
        let (s'', l) := g_run idl s' r in (s'', (b, w) :: l)
    end.
End Mechanism.

Definition step (c : cfg) : store -> op -> store * ob * list wr :=
  g_step (dskey c) (key_to_mh c) (f_wt c) (f_id c).
Definition run (c : cfg) : store -> list op -> store * list (ob * list wr) :=
  g_run (dskey c) (key_to_mh c) (f_wt c) (f_id c).

(** ---------- specification: a map from multihash to bytes ---------- *)
(** "a block is present with the bytes last stored under its multihash until
    deleted, and absent otherwise"; with the identity wrapper an identity CID is
    always present with its inlined bytes and never enters the map. *)
Definition amap := store.   (* keyed by multihash *)

Definition a_put (idl : bool) (a : amap) (b : cid * bytes) : amap :=
  if idl && is_id (fst b) then a else st_put (c_mh (fst b)) (snd b) a.

Definition a_lookup (idl : bool) (a : amap) (k : cid) : option bytes :=
  match (if idl then extract k else None) with
  | Some d => Some d
  | None => st_find (c_mh k) a
  end.

Definition a_step (idl : bool) (a : amap) (o : op) : amap * ob :=
  match o with
  | OPut k d => (a_put idl a (k, d), BDone ROk)
  | OPutMany bl => (fold_left (a_put idl) bl a, BDone ROk)
  | ODelete k => (if idl && is_id k then a else st_remove (c_mh k) a, BDone ROk)
  | OGet k | OView k =>
      (a, match a_lookup idl a k with Some d => BData ROk d | None => BData RNotFound [] end)
  | OGetUndef => (a, BData RNotFound [])
  | OHas k => (a, BHas ROk (match a_lookup idl a k with Some _ => true | None => false end))
  | OGetSize k =>
      (a, match a_lookup idl a k with
          | Some d => BSize ROk (Z.of_nat (length d)) | None => BSize RNotFound (-1) end)
  | OAllKeys => (a, BKeys ROk (map (fun kv => v1raw (fst kv)) a))
  end.

Fixpoint a_run (idl : bool) (a : amap) (ops : list op) : amap * list ob :=
  match ops with
  | [] => (a, [])
  | o :: r => let (a', b) := a_step idl a o in let (a'', l) := a_run idl a' r in (a'', b :: l)
  end.

(** every block put in the history; a history is honest when equal multihashes
    always come with equal bytes (which is what a collision-free hash gives) *)
Definition puts_of (o : op) : list (cid * bytes) :=
  match o with OPut k d => [(k, d)] | OPutMany bl => bl | _ => [] end.
Definition all_puts (ops : list op) : list (cid * bytes) := flat_map puts_of ops.

Fixpoint consistent_with (m d : bytes) (l : list (cid * bytes)) : bool :=
  match l with
  | [] => true
  | (k, d') :: r => (if bytes_eqb m (c_mh k) then bytes_eqb d d' else true) && consistent_with m d r
  end.
Fixpoint honestb (l : list (cid * bytes)) : bool :=
  match l with
  | [] => true
  | (k, d) :: r => consistent_with (c_mh k) d r && honestb r
  end.

(** ---------- comparison helpers for the correspondence check ---------- *)
Fixpoint list_eqb {A} (eqb : A -> A -> bool) (l1 l2 : list A) : bool :=
  match l1, l2 with
  | [], [] => true
  | a :: r1, b :: r2 => eqb a b && list_eqb eqb r1 r2
  | _, _ => false
  end.

Fixpoint bytes_leb (a b : bytes) : bool :=
  match a, b with
  | [], _ => true
  | _ :: _, [] => false
  | x :: a', y :: b' => if (x <? y)%N then true else if (y <? x)%N then false else bytes_leb a' b'
  end.

Fixpoint insert_sorted {A} (leb : A -> A -> bool) (x : A) (l : list A) : list A :=
  match l with
  | [] => [x]
  | y :: r => if leb x y then x :: l else y :: insert_sorted leb x r
  end.
Definition sort_by {A} (leb : A -> A -> bool) (l : list A) : list A :=
  fold_right (insert_sorted leb) [] l.

Definition kv_leb (a b : bytes * bytes) : bool :=
  if bytes_eqb (fst a) (fst b) then bytes_leb (snd a) (snd b) else bytes_leb (fst a) (fst b).
Definition kv_eqb (a b : bytes * bytes) : bool := bytes_eqb (fst a) (fst b) && bytes_eqb (snd a) (snd b).

Definition res_eqb (a b : res) : bool :=
  match a, b with ROk, ROk | RNotFound, RNotFound | RErr, RErr => true | _, _ => false end.

(** enumeration order is unspecified (Go map iteration): compare as multisets *)
Definition ob_eqb (a b : ob) : bool :=
  match a, b with
  | BDone e, BDone f => res_eqb e f
  | BData e d, BData f d' => res_eqb e f && bytes_eqb d d'
  | BHas e x, BHas f y => res_eqb e f && Bool.eqb x y
  | BSize e n, BSize f m => res_eqb e f && (n =? m)%Z
  | BKeys e ks, BKeys f ks' => res_eqb e f && list_eqb bytes_eqb (sort_by bytes_leb ks) (sort_by bytes_leb ks')
  | _, _ => false
  end.

Definition wr_eqb (a b : wr) : bool :=
  match a, b with
  | WPut k v, WPut k' v' | WBPut k v, WBPut k' v' => bytes_eqb k k' && bytes_eqb v v'
  | WDel k, WDel k' => bytes_eqb k k'
  | WCommit, WCommit => true
  | _, _ => false
  end.

Definition obw_eqb (a b : ob * list wr) : bool :=
  ob_eqb (fst a) (fst b) && list_eqb wr_eqb (snd a) (snd b).

Definition store_eqb (a b : store) : bool :=
  list_eqb kv_eqb (sort_by kv_leb a) (sort_by kv_leb b).

(** identity CIDs mentioned anywhere in a history *)
Definition cids_of (o : op) : list cid :=
  match o with
  | OPut k _ | ODelete k | OGet k | OHas k | OGetSize k | OView k => [k]
  | OPutMany bl => map fst bl
  | OGetUndef | OAllKeys => []
  end.

(** A case written by the harness: configuration, the raw content the datastore
    was seeded with (not through the blockstore; [] in all cases the
    specification speaks about), the operations, what the real blockstore
    answered together with the datastore writes it issued during each
    operation, and the raw datastore content afterwards. *)
Record case := Case {
  k_cfg : cfg;
  k_init : store;
  k_ops : list op;
  k_obs : list (ob * list wr);
  k_final : store
}.

(** specification on the observed behaviour:
    - over a fresh datastore and an honest (or WriteThrough) history the answers
      are those of the multihash map [a_run];
    - with the identity wrapper, no datastore write ever carries the key of an
      identity CID of the history and no such key is in the datastore afterwards. *)
Definition spec_ok (k : case) : bool :=
  let c := k_cfg k in
  let idcids := filter is_id (flat_map cids_of (k_ops k)) in
  let idkeys := map (fun x => dskey c (c_mh x)) idcids in
  let wkey (w : wr) := match w with WPut x _ | WBPut x _ | WDel x => Some x | WCommit => None end in
  (match k_init k with
   | [] =>
       if f_wt c || honestb (all_puts (k_ops k)) then
         list_eqb ob_eqb (snd (a_run (f_id c) [] (k_ops k))) (map fst (k_obs k))
       else true
   | _ => true
   end) &&
  (if f_id c then
     forallb (fun ik =>
                negb (st_has ik (k_final k)) || st_has ik (k_init k)) idkeys &&
     forallb (fun ow => forallb (fun w => match wkey w with
                                          | Some x => negb (existsb (bytes_eqb x) idkeys)
                                          | None => true end) (snd ow)) (k_obs k)
   else true).

Definition check_case (k : case) : verdict :=
  let (s', mobs) := run (k_cfg k) (k_init k) (k_ops k) in
  verdict_of (list_eqb obw_eqb mobs (k_obs k) && store_eqb s' (k_final k)) (spec_ok k).
