(** C34 — bitswap messages round-trip; decoded blocks are self-certifying.

    Executable model of bitswap/message/message.go at the level of the protobuf
    struct (pb.Message); the protobuf wire codec itself is exercised by the
    harness on the real code but not modelled.

      impl{full, wantlist, blocks, blockPresences, pendingBytes}   -> [msg]
      addEntry (merge rules)                                       -> [merge_ent], [add_entry]
      AddBlock / AddBlockPresence / Remove / Cancel / Reset        -> [add_block] ...
      ToProtoV0 / ToProtoV1                                        -> [to_pb_v0], [to_pb_v1]
      newMessageFromProto                                          -> [from_pb]
      go-cid: Cast / CidFromBytes, Cid.Prefix, Prefix.Bytes,
              PrefixFromBytes, go-varint FromUvarint/ReadUvarint   -> [cast], [prefix_of],
                                                                      [prefix_bytes], [prefix_from_bytes], [uvarint]
      go-cid Prefix.Sum (the hash functions) and blocks.NewBlock   -> oracles [H], [H0]
                                                                      (function arguments; a table in the cases)

    Go maps are association lists in insertion order (keys unique); two messages
    are the same message when all look-ups agree ([msg_equiv], [msg_eqb]).
    A Go [cid.Cid] is the string of its binary form, so [cid := bytes] and
    [cid.Cast] is a validity filter.  No proofs in this file. *)
From Coq Require Import List ZArith Bool NArith Permutation.
From V Require Import lib.Verdict.
Import ListNotations.
Open Scope Z_scope.

Definition bytes := list Z.
Definition cid := bytes.

Fixpoint bytes_eqb (a b : bytes) : bool :=
  match a, b with
  | [], [] => true
  | x :: a', y :: b' => (x =? y) && bytes_eqb a' b'
  | _, _ => false
  end.

Definition len (b : bytes) : Z := Z.of_nat (length b).

(** ---------- association lists keyed by byte strings (the Go maps) ---------- *)
Section AL.
  Context {V : Type}.
  Fixpoint aget (k : bytes) (l : list (bytes * V)) : option V :=
    match l with
    | [] => None
    | (k', v) :: r => if bytes_eqb k k' then Some v else aget k r
    end.
  (** m[k] = v : replace in place, or append *)
  Fixpoint aset (k : bytes) (v : V) (l : list (bytes * V)) : list (bytes * V) :=
    match l with
    | [] => [(k, v)]
    | (k', v') :: r => if bytes_eqb k k' then (k, v) :: r else (k', v') :: aset k v r
    end.
  (** delete(m, k) *)
  Fixpoint adel (k : bytes) (l : list (bytes * V)) : list (bytes * V) :=
    match l with
    | [] => []
    | (k', v') :: r => if bytes_eqb k k' then adel k r else (k', v') :: adel k r
    end.
  Definition amem (k : bytes) (l : list (bytes * V)) : bool :=
    match aget k l with Some _ => true | None => false end.
  Fixpoint nodupb (l : list (bytes * V)) : bool :=
    match l with
    | [] => true
    | (k, _) :: r => negb (amem k r) && nodupb r
    end.
End AL.

(** ---------- go-varint (at most 9 bytes, minimal encodings only) ---------- *)
(** FromUvarint / ReadUvarint: value and the unread rest.  [fuel] = bytes we are
    still willing to read (9); [first] = no continuation byte seen yet. *)
Fixpoint uvf (fuel : nat) (first : bool) (buf : bytes) : option (Z * bytes) :=
  match fuel with
  | O => None                                            (* ErrOverflow *)
  | S f =>
    match buf with
    | [] => None                                         (* ErrUnderflow / EOF *)
    | b :: r =>
        if (b <? 0) || (255 <? b) then None              (* not a byte *)
        else if b <? 128 then
          (if (b =? 0) && negb first then None           (* ErrNotMinimal *)
           else Some (b, r))
        else match uvf f false r with
             | Some (v, r') => Some ((b - 128) + 128 * v, r')
             | None => None
             end
    end
  end.
Definition uvarint (buf : bytes) : option (Z * bytes) := uvf 9 true buf.

(** binary.PutUvarint on a uint64 *)
Fixpoint putuvf (fuel : nat) (x : Z) : bytes :=
  match fuel with
  | O => []
  | S f => if x <? 128 then [x] else (x mod 128 + 128) :: putuvf f (x / 128)
  end.
Definition putuv (x : Z) : bytes := putuvf 10 x.

(** ---------- go-cid ---------- *)
Definition prefix := (Z * Z * Z * Z)%type.          (* Version, Codec, MhType, MhLength *)
Definition v0prefix : prefix := (0, 112, 18, 32).   (* CIDv0: dag-pb, sha2-256, 32 *)

Definition is_v0_head (b : bytes) : bool :=
  match b with
  | b0 :: b1 :: _ :: _ => (b0 =? 18) && (b1 =? 32)
  | _ => false
  end.

(** multihash.MHFromBytes: number of bytes the multihash occupies *)
Definition mh_from (buf : bytes) : option Z :=
  if len buf <? 2 then None else
  match uvarint buf with
  | None => None
  | Some (_, r1) =>
    match uvarint r1 with
    | None => None
    | Some (l, r2) =>
        if 2147483647 <? l then None
        else if len r2 <? l then None
        else Some (len buf - len r2 + l)
    end
  end.

(** cid.Cast: [Some b] iff [b] is exactly one well-formed binary CID *)
Definition cast (b : bytes) : option cid :=
  if is_v0_head b then
    (if len b =? 34 then Some b else None)
  else
    match uvarint b with
    | Some (vers, r1) =>
        if negb (vers =? 1) then None else
        match uvarint r1 with
        | Some (_, r2) =>
            match mh_from r2 with
            | Some mhnr => if (len b - len r2) + mhnr =? len b then Some b else None
            | None => None
            end
        | None => None
        end
    | None => None
    end.

Definition is_v0 (c : cid) : bool := (len c =? 34) && is_v0_head c.

(** Cid.Prefix (decode errors are ignored by the Go code; unreachable for valid CIDs) *)
Definition prefix_of (c : cid) : prefix :=
  if is_v0 c then v0prefix else
  match uvarint c with
  | Some (v, r1) =>
    match uvarint r1 with
    | Some (cd, r2) =>
      match uvarint r2 with
      | Some (t, r3) =>
        match uvarint r3 with
        | Some (l, _) => (v, cd, t, l)
        | None => (v, cd, t, 0)
        end
      | None => (v, cd, 0, 0)
      end
    | None => (v, 0, 0, 0)
    end
  | None => (0, 0, 0, 0)
  end.

Definition prefix_bytes (p : prefix) : bytes :=
  let '(v, cd, t, l) := p in putuv v ++ putuv cd ++ putuv t ++ putuv l.

(** PrefixFromBytes: four varints, trailing bytes ignored *)
Definition prefix_from_bytes (b : bytes) : option prefix :=
  match uvarint b with
  | Some (v, r1) =>
    match uvarint r1 with
    | Some (cd, r2) =>
      match uvarint r2 with
      | Some (t, r3) =>
        match uvarint r3 with
        | Some (l, _) => Some (v, cd, t, l)
        | None => None
        end
      | None => None
      end
    | None => None
    end
  | None => None
  end.

(** ---------- the message ---------- *)
Record ent := mkent { e_prio : Z; e_wt : Z; e_cancel : bool; e_sdh : bool }.
Definition WBlock : Z := 0.
Definition WHave : Z := 1.

Record msg := mkmsg {
  m_full : bool;
  m_wl : list (cid * ent);
  m_blocks : list (cid * bytes);
  m_pres : list (cid * Z);
  m_pending : Z }.

Definition empty (full : bool) : msg := mkmsg full [] [] [] 0.

(** addEntry on an existing entry, statement by statement *)
Definition merge_ent (e : ent) (prio : Z) (cancel : bool) (wt : Z) (sdh : bool) : ent :=
  {| e_prio := if e_wt e =? wt then prio else e_prio e;
     e_wt := if (wt =? WBlock) && (e_wt e =? WHave) then wt else e_wt e;
     e_cancel := if cancel then true else e_cancel e;
     e_sdh := if sdh then true else e_sdh e |}.

Definition add_entry (c : cid) (prio : Z) (cancel : bool) (wt : Z) (sdh : bool)
           (wl : list (cid * ent)) : list (cid * ent) :=
  match aget c wl with
  | Some e => aset c (merge_ent e prio cancel wt sdh) wl
  | None => aset c (mkent prio wt cancel sdh) wl
  end.

Definition set_wl (m : msg) wl := mkmsg (m_full m) wl (m_blocks m) (m_pres m) (m_pending m).

Definition add_block (c : cid) (d : bytes) (m : msg) : msg :=
  mkmsg (m_full m) (m_wl m) (aset c d (m_blocks m)) (adel c (m_pres m)) (m_pending m).

Definition add_presence (c : cid) (t : Z) (m : msg) : msg :=
  if amem c (m_blocks m) then m
  else mkmsg (m_full m) (m_wl m) (m_blocks m) (aset c t (m_pres m)) (m_pending m).

(** the public mutators the harness drives *)
Inductive op :=
| OAddEntry (c : cid) (prio : Z) (wt : Z) (sdh : bool)
| OCancel (c : cid)
| ORemove (c : cid)
| OAddBlock (c : cid) (d : bytes)
| OAddPresence (c : cid) (t : Z)
| OSetPending (n : Z)
| OReset (full : bool).

Definition step (m : msg) (o : op) : msg :=
  match o with
  | OAddEntry c p wt sdh => set_wl m (add_entry c p false wt sdh (m_wl m))
  | OCancel c => set_wl m (add_entry c 0 true WBlock false (m_wl m))
  | ORemove c => set_wl m (adel c (m_wl m))
  | OAddBlock c d => add_block c d m
  | OAddPresence c t => add_presence c t m
  | OSetPending n => mkmsg (m_full m) (m_wl m) (m_blocks m) (m_pres m) n
  | OReset f => empty f
  end.

Definition run (full : bool) (ops : list op) : msg := fold_left step ops (empty full).

(** ---------- pb.Message ---------- *)
Record pbentry := mkpe { pe_block : bytes; pe_prio : Z; pe_cancel : bool; pe_wt : Z; pe_sdh : bool }.
Record pbmsg := mkpb {
  pb_wl : option (list pbentry * bool);      (* Wantlist (nil or {Entries, Full}) *)
  pb_blocks : list bytes;                    (* deprecated bare blocks (v0) *)
  pb_payload : list (bytes * bytes);         (* (Prefix, Data) *)
  pb_pres : list (bytes * Z);                (* (Cid, Type) *)
  pb_pending : Z }.

Definition ent_to_pb (ce : cid * ent) : pbentry :=
  let (c, e) := ce in mkpe c (e_prio e) (e_cancel e) (e_wt e) (e_sdh e).

Definition to_pb_v1 (m : msg) : pbmsg :=
  mkpb (Some (map ent_to_pb (m_wl m), m_full m)) []
       (map (fun cd : cid * bytes => (prefix_bytes (prefix_of (fst cd)), snd cd)) (m_blocks m))
       (m_pres m) (m_pending m).

Definition to_pb_v0 (m : msg) : pbmsg :=
  mkpb (Some (map ent_to_pb (m_wl m), m_full m)) (map snd (m_blocks m)) [] [] 0.

Section FromPb.
  (** [H p d] = Prefix.Sum (None = error); [H0 d] = blocks.NewBlock(d).Cid() *)
  Variable H : prefix -> bytes -> option cid.
  Variable H0 : bytes -> cid.

  Fixpoint pb_entries (es : list pbentry) (wl : list (cid * ent)) : option (list (cid * ent)) :=
    match es with
    | [] => Some wl
    | e :: r =>
        match pe_block e with
        | [] => None                                       (* errCidMissing *)
        | _ =>
          match cast (pe_block e) with
          | None => None
          | Some c => pb_entries r (add_entry c (pe_prio e) (pe_cancel e) (pe_wt e) (pe_sdh e) wl)
          end
        end
    end.

  Definition pb_old_blocks (ds : list bytes) (m : msg) : msg :=
    fold_left (fun m d => add_block (H0 d) d m) ds m.

  Fixpoint pb_payloads (ps : list (bytes * bytes)) (m : msg) : option msg :=
    match ps with
    | [] => Some m
    | (pfx, d) :: r =>
        match prefix_from_bytes pfx with
        | None => None
        | Some p =>
          match H p d with
          | None => None
          | Some c => pb_payloads r (add_block c d m)
          end
        end
    end.

  Fixpoint pb_presences (ps : list (bytes * Z)) (m : msg) : option msg :=
    match ps with
    | [] => Some m
    | (cb, t) :: r =>
        match cb with
        | [] => None
        | _ =>
          match cast cb with
          | None => None
          | Some c => pb_presences r (add_presence c t m)
          end
        end
    end.

  Definition from_pb (pb : pbmsg) : option msg :=
    let full := match pb_wl pb with Some (_, f) => f | None => false end in
    let es := match pb_wl pb with Some (es, _) => es | None => [] end in
    match pb_entries es [] with
    | None => None
    | Some wl =>
      let m1 := pb_old_blocks (pb_blocks pb) (mkmsg full wl [] [] 0) in
      match pb_payloads (pb_payload pb) m1 with
      | None => None
      | Some m2 =>
        match pb_presences (pb_pres pb) m2 with
        | None => None
        | Some m3 => Some (mkmsg (m_full m3) (m_wl m3) (m_blocks m3) (m_pres m3) (pb_pending pb))
        end
      end
    end.

  (** ---------- specification (boolean forms used by [check_case]) ---------- *)

  (** every block's CID is what its own bytes hash to under the CID's own prefix *)
  Definition selfcertb (m : msg) : bool :=
    forallb (fun cd : cid * bytes =>
               match H (prefix_of (fst cd)) (snd cd) with
               | Some c => bytes_eqb c (fst cd)
               | None => false
               end) (m_blocks m).

  Definition validb (c : cid) : bool :=
    match c with
    | [] => false
    | _ => match cast c with Some _ => true | None => false end
    end.

  (** messages the round-trip law speaks about: defined, well-formed CIDs, honest
      blocks, and the invariant of AddBlock/AddBlockPresence (a CID never has both a
      block and a presence) *)
  Definition wfb (m : msg) : bool :=
    nodupb (m_wl m) && nodupb (m_blocks m) && nodupb (m_pres m) &&
    forallb (fun ce : cid * ent => validb (fst ce)) (m_wl m) &&
    forallb (fun cd : cid * bytes => validb (fst cd)) (m_blocks m) &&
    selfcertb m &&
    forallb (fun ct : cid * Z => validb (fst ct) && negb (amem (fst ct) (m_blocks m))) (m_pres m).

  Definition wf_v0b (m : msg) : bool :=
    nodupb (m_wl m) && forallb (fun ce : cid * ent => validb (fst ce)) (m_wl m).

  (** the wire items are all individually acceptable *)
  Definition pb_okb (pb : pbmsg) : bool :=
    forallb (fun e => validb (pe_block e))
            (match pb_wl pb with Some (es, _) => es | None => [] end) &&
    forallb (fun pd : bytes * bytes =>
               match prefix_from_bytes (fst pd) with
               | Some p => match H p (snd pd) with Some _ => true | None => false end
               | None => false
               end) (pb_payload pb) &&
    forallb (fun ct : bytes * Z => validb (fst ct)) (pb_pres pb).

  (** nothing on the wire was silently dropped *)
  Definition wholeb (pb : pbmsg) (m : msg) : bool :=
    Bool.eqb (m_full m) (match pb_wl pb with Some (_, f) => f | None => false end) &&
    (m_pending m =? pb_pending pb) &&
    forallb (fun e => amem (pe_block e) (m_wl m))
            (match pb_wl pb with Some (es, _) => es | None => [] end) &&
    forallb (fun d => amem (H0 d) (m_blocks m)) (pb_blocks pb) &&
    forallb (fun pd : bytes * bytes =>
               match prefix_from_bytes (fst pd) with
               | Some p => match H p (snd pd) with Some c => amem c (m_blocks m) | None => false end
               | None => false
               end) (pb_payload pb) &&
    forallb (fun ct : bytes * Z => amem (fst ct) (m_pres m) || amem (fst ct) (m_blocks m)) (pb_pres pb).
End FromPb.

(** API calls whose arguments are defined, well-formed CIDs and honest blocks *)
Definition op_okb (H : prefix -> bytes -> option cid) (o : op) : bool :=
  match o with
  | OAddEntry c _ _ _ | OCancel c | OAddPresence c _ => validb c
  | OAddBlock c d =>
      validb c && match H (prefix_of c) d with Some c' => bytes_eqb c' c | None => false end
  | ORemove _ | OSetPending _ | OReset _ => true
  end.

(** ---------- comparing messages as maps ---------- *)
Definition ent_eqb (a b : ent) : bool :=
  (e_prio a =? e_prio b) && (e_wt a =? e_wt b) && Bool.eqb (e_cancel a) (e_cancel b) &&
  Bool.eqb (e_sdh a) (e_sdh b).

Definition al_eqb {V} (veqb : V -> V -> bool) (l1 l2 : list (bytes * V)) : bool :=
  (length l1 =? length l2)%nat && nodupb l1 && nodupb l2 &&
  forallb (fun kv : bytes * V =>
             match aget (fst kv) l2 with Some v' => veqb (snd kv) v' | None => false end) l1.

Definition msg_eqb (a b : msg) : bool :=
  Bool.eqb (m_full a) (m_full b) && (m_pending a =? m_pending b) &&
  al_eqb ent_eqb (m_wl a) (m_wl b) && al_eqb bytes_eqb (m_blocks a) (m_blocks b) &&
  al_eqb Z.eqb (m_pres a) (m_pres b).

Definition optmsg_eqb (a b : option msg) : bool :=
  match a, b with
  | Some x, Some y => msg_eqb x y
  | None, None => true
  | _, _ => false
  end.

(** propositional form: the same Go message *)
Definition msg_equiv (a b : msg) : Prop :=
  m_full a = m_full b /\ m_pending a = m_pending b /\
  (forall k, aget k (m_wl a) = aget k (m_wl b)) /\
  (forall k, aget k (m_blocks a) = aget k (m_blocks b)) /\
  (forall k, aget k (m_pres a) = aget k (m_pres b)).

(** Go iterates its maps in an unspecified order: what ToProtoV1/ToProtoV0 really
    produce is any [pb_perm]-variant of [to_pb_v1 m] / [to_pb_v0 m]. *)
Definition pb_perm (a b : pbmsg) : Prop :=
  match pb_wl a, pb_wl b with
  | Some (ea, fa), Some (eb, fb) => Permutation ea eb /\ fa = fb
  | None, None => True
  | _, _ => False
  end /\
  Permutation (pb_blocks a) (pb_blocks b) /\ Permutation (pb_payload a) (pb_payload b) /\
  Permutation (pb_pres a) (pb_pres b) /\ pb_pending a = pb_pending b.

(** v0 keeps the want-list, the full flag and the block bytes (re-keyed by sha2-256) *)
Definition v0_specb (H0 : bytes -> cid) (m m0 : msg) : bool :=
  Bool.eqb (m_full m0) (m_full m) && al_eqb ent_eqb (m_wl m0) (m_wl m) &&
  forallb (fun cd : cid * bytes =>
             match aget (H0 (snd cd)) (m_blocks m0) with Some d' => bytes_eqb d' (snd cd) | None => false end)
          (m_blocks m) &&
  forallb (fun cd : cid * bytes =>
             bytes_eqb (fst cd) (H0 (snd cd)) &&
             existsb (fun cd' : cid * bytes => bytes_eqb (snd cd') (snd cd)) (m_blocks m))
          (m_blocks m0).

(** ---------- the hash oracle as a table written by the harness ---------- *)
Definition htab := list (prefix * bytes * option cid).
Definition prefix_eqb (p q : prefix) : bool :=
  let '(a, b, c, d) := p in let '(a', b', c', d') := q in
  (a =? a') && (b =? b') && (c =? c') && (d =? d').
Fixpoint H_of (t : htab) (p : prefix) (d : bytes) : option cid :=
  match t with
  | [] => None
  | (p', d', r) :: rest => if prefix_eqb p p' && bytes_eqb d d' then r else H_of rest p d
  end.
Definition H0_of (t : htab) (d : bytes) : cid :=
  match H_of t v0prefix d with Some c => c | None => [] end.

(** ---------- cases ---------- *)
(** [CBuild h full ops obs v1 v0]: New(full), then [ops] through the public API;
      [obs] = contents afterwards, [v1] = FromNet(ToNetV1(m)), [v0] = FromNet(ToNetV0(m))
      ([None] = error).
    [CWire h pb res]: [pb] = what proto.Unmarshal made of the (mutated or hostile)
      wire bytes, [res] = what FromNet answered for those bytes. *)
Inductive case :=
| CBuild (h : htab) (full : bool) (ops : list op) (obs : msg) (v1 v0 : option msg)
| CWire (h : htab) (pb : pbmsg) (res : option msg).

Definition opt_selfcertb H (r : option msg) : bool :=
  match r with Some m => selfcertb H m | None => true end.

Definition check_case (c : case) : verdict :=
  match c with
  | CBuild h full ops obs v1 v0 =>
      let H := H_of h in let H0 := H0_of h in
      let m := run full ops in
      verdict_of
        (msg_eqb m obs && optmsg_eqb (from_pb H H0 (to_pb_v1 m)) v1 &&
         optmsg_eqb (from_pb H H0 (to_pb_v0 m)) v0)
        ((if wfb H obs then match v1 with Some m1 => msg_eqb m1 obs | None => false end else true) &&
         (if wf_v0b obs then match v0 with Some m0 => v0_specb H0 obs m0 | None => false end else true) &&
         opt_selfcertb H v1 && opt_selfcertb H v0)
  | CWire h pb res =>
      let H := H_of h in let H0 := H0_of h in
      verdict_of
        (optmsg_eqb (from_pb H H0 pb) res)
        (opt_selfcertb H res &&
         match res with
         | None => negb (pb_okb H pb)
         | Some m => pb_okb H pb && wholeb H H0 pb m
         end)
  end.
