(** C41 — filestore references and the filestore root (filestore/fsrefstore.go).

    Executable model of the mechanism, transcribed from the Go sources:
      putTo            filepath.HasPrefix(FullPath, root)  (a plain STRING prefix test on Unix),
                       then p, err := filepath.Rel(root, FullPath); the stored reference is ToSlash(p)
      readFileDataObj  abspath := filepath.Join(root, FromSlash(stored)); open, ReadAt, re-hash
    together with the lexical path functions of Go's path/filepath on Unix that
    they use: Clean (stack of components), Rel (strip the common components, one
    ".." per remaining base component, error when the base would have to climb
    over a ".." or the two paths are not both rooted / both relative), Join.
    Paths are strings = lists of character codes.

    Defect switch [f_string_prefix]:
      on  = the string-prefix test is the only containment check (finding C41-1);
      off = the reference is additionally rejected when Rel's result starts with
            a ".." component (the repair).
    No proofs in this file. *)
From Coq Require Import List NArith Bool.
From V Require Import lib.Verdict.
Import ListNotations.
Open Scope N_scope.

Definition str := list N.

Fixpoint str_eqb (a b : str) : bool :=
  match a, b with
  | [], [] => true
  | x :: a', y :: b' => (x =? y) && str_eqb a' b'
  | _, _ => false
  end.

Definition sl : N := 47.              (* '/' *)
Definition s_dot : str := [46].       (* "." *)
Definition s_dotdot : str := [46; 46]. (* ".." *)

Definition is_dotdot (c : str) : bool := str_eqb c s_dotdot.

(** strings.HasPrefix *)
Fixpoint has_prefix (s p : str) : bool :=
  match p with
  | [] => true
  | x :: p' => match s with y :: s' => (x =? y) && has_prefix s' p' | [] => false end
  end.

(** split at every '/' ([cur] = current element, reversed) *)
Fixpoint split_go (s : str) (cur : str) : list str :=
  match s with
  | [] => [rev cur]
  | c :: r => if c =? sl then rev cur :: split_go r [] else split_go r (c :: cur)
  end.
Definition split (s : str) : list str := split_go s [].

Definition rooted (s : str) : bool := match s with c :: _ => c =? sl | [] => false end.

(** the elements Clean looks at: empty elements and "." are dropped *)
Definition keep (c : str) : bool := negb (str_eqb c []) && negb (str_eqb c s_dot).
Definition comps (s : str) : list str := filter keep (split s).

(** Clean's stack discipline; the stack is kept top-first *)
Definition push (r : bool) (stk : list str) (c : str) : list str :=
  if is_dotdot c then
    match stk with
    | top :: rest => if is_dotdot top then c :: stk else rest      (* ".." cancels a real element *)
    | [] => if r then [] else [c]                                  (* "/.." = "/"; "../" stays *)
    end
  else c :: stk.

Definition clean_comps (r : bool) (cs : list str) : list str := rev (fold_left (push r) cs []).

(** a cleaned path: rooted or not, and its components *)
Record cpath := CPath { cp_rooted : bool; cp_comps : list str }.

Definition clean (s : str) : cpath := CPath (rooted s) (clean_comps (rooted s) (comps s)).

Fixpoint intercalate (cs : list str) : str :=
  match cs with
  | [] => []
  | [c] => c
  | c :: r => c ++ sl :: intercalate r
  end.

(** the string of a relative result: "." when there are no components *)
Definition render_rel (cs : list str) : str := match cs with [] => s_dot | _ => intercalate cs end.
Definition render (c : cpath) : str :=
  if cp_rooted c then sl :: intercalate (cp_comps c) else render_rel (cp_comps c).

Fixpoint strip_common (b t : list str) : list str * list str :=
  match b, t with
  | x :: b', y :: t' => if str_eqb x y then strip_common b' t' else (b, t)
  | _, _ => (b, t)
  end.

Definition starts_dotdot (cs : list str) : bool :=
  match cs with c :: _ => is_dotdot c | [] => false end.

(** filepath.Rel on cleaned paths: components of the result ([] = "."), or an error.
    Go compares the cleaned STRINGS element-wise; a relative target that cleans to
    "." therefore contributes the element "." (Rel("root", "root/..") = "../."),
    whereas a base "." is replaced by "" first. *)
Definition is_nil {A} (l : list A) : bool := match l with [] => true | _ => false end.

Definition rel (base targ : cpath) : option (list str) :=
  if negb (Bool.eqb (cp_rooted base) (cp_rooted targ)) then None else
  let tc := if negb (cp_rooted targ) && is_nil (cp_comps targ) && negb (is_nil (cp_comps base))
            then [s_dot] else cp_comps targ in
  let (b', t') := strip_common (cp_comps base) tc in
  if starts_dotdot b' then None
  else Some (map (fun _ => s_dotdot) b' ++ t').

(** putTo for a non-URL path: the stored reference string, or rejection *)
Definition put (f_string_prefix : bool) (root p : str) : option str :=
  if has_prefix p root then
    match rel (clean root) (clean p) with
    | None => None
    | Some cs =>
        if negb f_string_prefix && starts_dotdot cs then None
        else Some (render_rel cs)
    end
  else None.

(** filepath.Join(root, stored): empty elements are ignored, then Clean *)
Definition join2 (a b : str) : str :=
  match a, b with
  | [], _ => b
  | _, [] => a
  | _, _ => a ++ sl :: b
  end.
Definition resolved (root stored : str) : cpath := clean (join2 root stored).

(** [drop_prefix p l] = the rest of [l] after its prefix [p] *)
Fixpoint drop_prefix (p l : list str) : option (list str) :=
  match p with
  | [] => Some l
  | x :: p' => match l with y :: l' => if str_eqb x y then drop_prefix p' l' else None | [] => None end
  end.

(** specification: a path lies inside the root BY COMPONENTS: it is the root's
    cleaned components followed by real elements only (no ".." climbing out) *)
Definition inside (root : str) (c : cpath) : bool :=
  Bool.eqb (cp_rooted (clean root)) (cp_rooted c) &&
  match drop_prefix (cp_comps (clean root)) (cp_comps c) with
  | Some rest => forallb (fun x => negb (is_dotdot x)) rest
  | None => false
  end.

Definition cpath_eqb (a b : cpath) : bool :=
  Bool.eqb (cp_rooted a) (cp_rooted b) &&
  (fix leq (x y : list str) : bool :=
     match x, y with
     | [], [] => true
     | u :: x', v :: y' => str_eqb u v && leq x' y'
     | _, _ => false
     end) (cp_comps a) (cp_comps b).

(** ---------- correspondence ---------- *)
(** what Get answered after an accepted Put *)
Inductive gres :=
| GSame         (* the bytes of the referenced file (the block that was put) *)
| GNotFound     (* CorruptReferenceError StatusFileNotFound *)
| GChanged      (* CorruptReferenceError StatusFileChanged *)
| GOther        (* any other error *)
| GNone.        (* Put was rejected; Get not attempted / block absent *)

Definition gres_eqb (a b : gres) : bool :=
  match a, b with
  | GSame, GSame | GNotFound, GNotFound | GChanged, GChanged | GOther, GOther | GNone, GNone => true
  | _, _ => false
  end.

(** what opening and reading the (lexically cleaned) FullPath gives on the test tree *)
Inductive fkind := FRegular | FMissing | FOther.

(** A case written by the harness: the root the FileManager was created with,
    PosInfo.FullPath, what is found at FullPath, whether Put succeeded, DataObj.FilePath as found in the
    datastore afterwards, and Get's answer. *)
Record case := Case {
  k_root : str;
  k_path : str;
  k_kind : fkind;
  k_accepted : bool;
  k_stored : str;
  k_get : gres
}.

Definition opt_str_eqb (a b : option str) : bool :=
  match a, b with
  | Some x, Some y => str_eqb x y
  | None, None => true
  | _, _ => false
  end.

(** the model's prediction under defect flag [f] *)
Definition model_eq (f : bool) (k : case) : bool :=
  let m := put f (k_root k) (k_path k) in
  opt_str_eqb m (if k_accepted k then Some (k_stored k) else None) &&
  gres_eqb (k_get k)
           (match m with
            | Some _ => match k_kind k with FRegular => GSame | FMissing => GNotFound | FOther => GOther end
            | None => GNone
            end).

(** the specification, on a put outcome *)
Definition spec_on (root : str) (accepted : bool) (stored : str) : bool :=
  if accepted then inside root (resolved root stored) else true.

Definition check_case (k : case) : verdict :=
  if spec_on (k_root k) (k_accepted k) (k_stored k) then
    (if model_eq false k || model_eq true k then VOk else VModelMismatch)
  else
    (* the implementation stored a reference that resolves outside the root *)
    if model_eq true k &&
       (match put false (k_root k) (k_path k) with
        | Some s => inside (k_root k) (resolved (k_root k) s)
        | None => true
        end)
    then VKnown 1 else VSpecFail.
