(** C41 — filestore references and the filestore root (filestore/fsrefstore.go).

    Executable model of the mechanism, transcribed from the Go sources:
      IsURL            "http://x" / "https://x" shaped strings (case-sensitive, by position)
      putTo            a URL-shaped FullPath is stored VERBATIM when AllowUrls (no containment check);
                       otherwise, when AllowFiles: filepath.HasPrefix(FullPath, root)  (a plain STRING
                       prefix test on Unix), then p, err := filepath.Rel(root, FullPath); the stored
                       reference is ToSlash(p) — the identity on POSIX, where '\\' is an ordinary
                       file-name character: the stored string IS Rel's result
      readDataObj      the dispatcher: a URL-shaped stored reference goes to readURLDataObj (which
                       refuses unless AllowUrls), anything else to readFileDataObj (refuses unless AllowFiles)
      readFileDataObj  abspath := filepath.Join(root, FromSlash(stored)); open, ReadAt, re-hash
    together with the lexical path functions of Go's path/filepath on Unix that
    they use: Clean (stack of components), Rel (strip the common components, one
    ".." per remaining base component, error when the base would have to climb
    over a ".." or the two paths are not both rooted / both relative), Join.
    Paths are strings = lists of character codes.

    Defect switch [f_string_prefix]:
      on  = the string-prefix test is the only containment check (finding C41-1);
      off = the reference is additionally rejected when Rel's result starts with
            a ".." component (the repair).
    No proofs in this file. *)
From Coq Require Import List NArith Bool.
From V Require Import lib.Verdict.
Import ListNotations.
Open Scope N_scope.

Definition str := list N.

Fixpoint str_eqb (a b : str) : bool :=
  match a, b with
  | [], [] => true
  | x :: a', y :: b' => (x =? y) && str_eqb a' b'
  | _, _ => false
  end.

Definition sl : N := 47.              (* '/' *)
Definition s_dot : str := [46].       (* "." *)
Definition s_dotdot : str := [46; 46]. (* ".." *)

Definition is_dotdot (c : str) : bool := str_eqb c s_dotdot.

(** strings.HasPrefix *)
Fixpoint has_prefix (s p : str) : bool :=
  match p with
  | [] => true
  | x :: p' => match s with y :: s' => (x =? y) && has_prefix s' p' | [] => false end
  end.

(** split at every '/' ([cur] = current element, reversed) *)
Fixpoint split_go (s : str) (cur : str) : list str :=
  match s with
  | [] => [rev cur]
  | c :: r => if c =? sl then rev cur :: split_go r [] else split_go r (c :: cur)
  end.
Definition split (s : str) : list str := split_go s [].

Definition rooted (s : str) : bool := match s with c :: _ => c =? sl | [] => false end.

(** the elements Clean looks at: empty elements and "." are dropped *)
Definition keep (c : str) : bool := negb (str_eqb c []) && negb (str_eqb c s_dot).
Definition comps (s : str) : list str := filter keep (split s).

(** Clean's stack discipline; the stack is kept top-first *)
Definition push (r : bool) (stk : list str) (c : str) : list str :=
  if is_dotdot c then
    match stk with
    | top :: rest => if is_dotdot top then c :: stk else rest      (* ".." cancels a real element *)
    | [] => if r then [] else [c]                                  (* "/.." = "/"; "../" stays *)
    end
  else c :: stk.

Definition clean_comps (r : bool) (cs : list str) : list str := rev (fold_left (push r) cs []).

(** a cleaned path: rooted or not, and its components *)
Record cpath := CPath { cp_rooted : bool; cp_comps : list str }.

Definition clean (s : str) : cpath := CPath (rooted s) (clean_comps (rooted s) (comps s)).

Fixpoint intercalate (cs : list str) : str :=
  match cs with
  | [] => []
  | [c] => c
  | c :: r => c ++ sl :: intercalate r
  end.

(** the string of a relative result: "." when there are no components *)
Definition render_rel (cs : list str) : str := match cs with [] => s_dot | _ => intercalate cs end.
Definition render (c : cpath) : str :=
  if cp_rooted c then sl :: intercalate (cp_comps c) else render_rel (cp_comps c).

Fixpoint strip_common (b t : list str) : list str * list str :=
  match b, t with
  | x :: b', y :: t' => if str_eqb x y then strip_common b' t' else (b, t)
  | _, _ => (b, t)
  end.

Definition starts_dotdot (cs : list str) : bool :=
  match cs with c :: _ => is_dotdot c | [] => false end.

(** filepath.Rel on cleaned paths: components of the result ([] = "."), or an error.
    Go compares the cleaned STRINGS element-wise; a relative target that cleans to
    "." therefore contributes the element "." (Rel("root", "root/..") = "../."),
    whereas a base "." is replaced by "" first. *)
Definition is_nil {A} (l : list A) : bool := match l with [] => true | _ => false end.

Definition rel (base targ : cpath) : option (list str) :=
  if negb (Bool.eqb (cp_rooted base) (cp_rooted targ)) then None else
  let tc := if negb (cp_rooted targ) && is_nil (cp_comps targ) && negb (is_nil (cp_comps base))
            then [s_dot] else cp_comps targ in
  let (b', t') := strip_common (cp_comps base) tc in
  if starts_dotdot b' then None
  else Some (map (fun _ => s_dotdot) b' ++ t').

(** putTo for a non-URL path: the stored reference string, or rejection *)
Definition put (f_string_prefix : bool) (root p : str) : option str :=
  if has_prefix p root then
    match rel (clean root) (clean p) with
    | None => None
    | Some cs =>
        if negb f_string_prefix && starts_dotdot cs then None
        else Some (render_rel cs)
    end
  else None.

(** filepath.Join(root, stored): empty elements are ignored, then Clean *)
Definition join2 (a b : str) : str :=
  match a, b with
  | [], _ => b
  | _, [] => a
  | _, _ => a ++ sl :: b
  end.
Definition resolved (root stored : str) : cpath := clean (join2 root stored).

(** [drop_prefix p l] = the rest of [l] after its prefix [p] *)
Fixpoint drop_prefix (p l : list str) : option (list str) :=
  match p with
  | [] => Some l
  | x :: p' => match l with y :: l' => if str_eqb x y then drop_prefix p' l' else None | [] => None end
  end.

(** specification: a path lies inside the root BY COMPONENTS: it is the root's
    cleaned components followed by real elements only (no ".." climbing out) *)
Definition inside (root : str) (c : cpath) : bool :=
  Bool.eqb (cp_rooted (clean root)) (cp_rooted c) &&
  match drop_prefix (cp_comps (clean root)) (cp_comps c) with
  | Some rest => forallb (fun x => negb (is_dotdot x)) rest
  | None => false
  end.

Definition cpath_eqb (a b : cpath) : bool :=
  Bool.eqb (cp_rooted a) (cp_rooted b) &&
  (fix leq (x y : list str) : bool :=
     match x, y with
     | [], [] => true
     | u :: x', v :: y' => str_eqb u v && leq x' y'
     | _, _ => false
     end) (cp_comps a) (cp_comps b).

(** ---------- reference kinds, flags, the read-side dispatcher ---------- *)
(** filestore.IsURL: len > 7, "http" and then "s://" (len > 8) or "://" *)
Definition is_url (s : str) : bool :=
  match s with
  | c0 :: c1 :: c2 :: c3 :: c4 :: c5 :: c6 :: c7 :: r =>
      (c0 =? 104) && (c1 =? 116) && (c2 =? 116) && (c3 =? 112) &&
      ((negb (is_nil r) && (c4 =? 115) && (c5 =? 58) && (c6 =? sl) && (c7 =? sl)) ||
       ((c4 =? 58) && (c5 =? sl) && (c6 =? sl)))
  | _ => false
  end.

(** result of Put *)
Inductive pres := PStored (s : str) | PRejected | PNotEnabled.

(** putTo under the flags set at Put time *)
Definition put_ref (f_string_prefix : bool) (allow_files allow_urls : bool) (root p : str) : pres :=
  if is_url p then (if allow_urls then PStored p else PNotEnabled)
  else if allow_files then
    match put f_string_prefix root p with Some s => PStored s | None => PRejected end
  else PNotEnabled.

(** what Get / Verify do with a stored reference under the flags set at read time *)
Inductive rdisp :=
| DUrl                 (* fetched over HTTP; no local path is opened *)
| DFile (c : cpath)    (* this local path is opened *)
| DNotEnabled.         (* ErrUrlstoreNotEnabled / ErrFilestoreNotEnabled *)

Definition read_disp (allow_files allow_urls : bool) (root stored : str) : rdisp :=
  if is_url stored then (if allow_urls then DUrl else DNotEnabled)
  else if allow_files then DFile (resolved root stored) else DNotEnabled.

(** specification: whatever the flags at read time, the local path opened for a
    stored reference (if any) lies inside the root *)
Definition confined (root stored : str) : bool :=
  forallb (fun fl : bool * bool =>
             match read_disp (fst fl) (snd fl) root stored with
             | DFile c => inside root c
             | _ => true
             end)
          [(false, false); (false, true); (true, false); (true, true)].

(** ---------- correspondence ---------- *)
(** what Get answered *)
Inductive gres :=
| GSame         (* the bytes of the block that was put *)
| GNotFound     (* CorruptReferenceError StatusFileNotFound *)
| GChanged      (* CorruptReferenceError StatusFileChanged *)
| GNotEnabled   (* ErrFilestoreNotEnabled / ErrUrlstoreNotEnabled *)
| GOther        (* any other error *)
| GNone.        (* no reference stored: ipld.ErrNotFound / StatusKeyNotFound *)

Definition gres_eqb (a b : gres) : bool :=
  match a, b with
  | GSame, GSame | GNotFound, GNotFound | GChanged, GChanged | GNotEnabled, GNotEnabled
  | GOther, GOther | GNone, GNone => true
  | _, _ => false
  end.

(** what opening and reading a local path gives on the test tree *)
Inductive fkind := FRegular | FMissing | FOther.

Definition pres_eqb (a b : pres) : bool :=
  match a, b with
  | PStored x, PStored y => str_eqb x y
  | PRejected, PRejected | PNotEnabled, PNotEnabled => true
  | _, _ => false
  end.

(** A case written by the harness: the root the FileManager was created with,
    PosInfo.FullPath, AllowFiles/AllowUrls at Put time, what Put answered (the
    stored DataObj.FilePath is read back from the datastore), AllowFiles/AllowUrls
    at read time (same datastore), what is found on the test tree at
    Join(root, stored) (the block's bytes are what is planted there, if
    anything), what fetching the stored string as a URL gives (the block's bytes
    from the harness' HTTP server, or an error), what Get answered and the
    status class Verify reported. *)
Record single := Case {
  k_root : str;
  k_path : str;
  k_put_files : bool;
  k_put_urls : bool;
  k_put : pres;
  k_get_files : bool;
  k_get_urls : bool;
  k_kind : fkind;
  k_fetch : gres;
  k_get : gres;
  k_verify : gres
}.

Definition of_kind (k : fkind) : gres :=
  match k with FRegular => GSame | FMissing => GNotFound | FOther => GOther end.

(** the model's prediction of Get for what Put stored *)
Definition model_get (k : single) (stored : pres) : gres :=
  match stored with
  | PStored s =>
      match read_disp (k_get_files k) (k_get_urls k) (k_root k) s with
      | DUrl => k_fetch k
      | DFile _ => of_kind (k_kind k)
      | DNotEnabled => GNotEnabled
      end
  | _ => GNone
  end.

(** Verify reports a status code: "not enabled" is an "other error" there *)
Definition verify_of (g : gres) : gres := match g with GNotEnabled => GOther | x => x end.

(** the model's prediction under defect flag [f] *)
Definition model_eq (f : bool) (k : single) : bool :=
  let m := put_ref f (k_put_files k) (k_put_urls k) (k_root k) (k_path k) in
  pres_eqb m (k_put k) &&
  gres_eqb (k_get k) (model_get k m) &&
  gres_eqb (k_verify k) (verify_of (model_get k m)).

(** the specification on what was observed:
    - the stored reference is confined: under every flag setting at read time the
      local path the dispatcher opens for it (if any) is inside the root;
    - bytes are served only through a door that is open and legitimate: a URL
      reference only by the URL reader and only when AllowUrls is on (never from a
      local file), a file reference only from a local path inside the root and
      only when AllowFiles is on. *)
Definition served_ok (k : single) (g : gres) : bool :=
  match g, k_put k with
  | GSame, PStored s =>
      if is_url s then k_get_urls k
      else k_get_files k && inside (k_root k) (resolved (k_root k) s)
  | GSame, _ => false
  | _, _ => true
  end.

Definition spec_case (k : single) : bool :=
  (match k_put k with PStored s => confined (k_root k) s | _ => true end) &&
  served_ok k (k_get k) && served_ok k (k_verify k).

Definition check_single (k : single) : verdict :=
  if spec_case k then
    (if model_eq false k || model_eq true k then VOk else VModelMismatch)
  else
    (* a reference that resolves outside the root was stored or served *)
    if model_eq true k &&
       (match put_ref false (k_put_files k) (k_put_urls k) (k_root k) (k_path k) with
        | PStored s => confined (k_root k) s
        | _ => true
        end)
    then VKnown 1 else VSpecFail.

(** ---------- PutMany ---------- *)
(** FileManager.PutMany: every element goes through putTo on one datastore batch;
    the first error aborts (nothing is committed), otherwise all references are
    stored.  Every element is checked against the root on its own: its outcome
    never depends on its neighbours. *)
Fixpoint batch_put (f : bool) (allow_files allow_urls : bool) (root : str) (paths : list str) : option (list str) :=
  match paths with
  | [] => Some []
  | p :: r =>
      match put_ref f allow_files allow_urls root p with
      | PStored s => option_map (cons s) (batch_put f allow_files allow_urls root r)
      | _ => None
      end
  end.

Fixpoint all2 {A B} (t : A -> B -> bool) (l1 : list A) (l2 : list B) : bool :=
  match l1, l2 with
  | [], [] => true
  | a :: r1, b :: r2 => t a b && all2 t r1 r2
  | _, _ => false
  end.

(** A batch case: the elements of one PutMany call (same root and flags in every
    element); [k_put] of an element is [PStored s] with the reference read back
    from the datastore when the batch was committed, [PRejected] when PutMany
    returned an error. *)
Definition batch_model_eq (f : bool) (els : list single) : bool :=
  match els with
  | [] => true
  | k0 :: _ =>
      let eff :=
        match batch_put f (k_put_files k0) (k_put_urls k0) (k_root k0) (map k_path els) with
        | Some ss => map PStored ss
        | None => map (fun _ => PRejected) els
        end in
      all2 (fun k p => pres_eqb p (k_put k) && gres_eqb (k_get k) (model_get k p) &&
                       gres_eqb (k_verify k) (verify_of (model_get k p))) els eff
  end.

Inductive case :=
| CSingle (k : single)
| CBatch (els : list single).

Definition check_case (c : case) : verdict :=
  match c with
  | CSingle k => check_single k
  | CBatch els =>
      verdict_of (batch_model_eq false els || batch_model_eq true els) (forallb spec_case els)
  end.
