(** C02 — caching blockstore layers are observationally transparent.

    Executable models of the mechanism of blockstore/{caching,twoqueue_cache,
    bloom_cache,blockstore}.go.  No proofs in this file.

    Part 1 (sequential): state = (store, cache partial map, Bloom bit set,
      active flag).  Eviction is an oracle (a list of keys whose entries vanish
      before each operation), Bloom bit positions are an oracle [pos], a key
      enumeration delivers a prefix of the key list plus a completeness bit.
    Part 2 (concurrent): a labelled transition system whose steps are the
      atomic sections of the code (cache query / per-key lock / store op /
      cache update / unlock; Bloom: read active / load filter / add; Rebuild:
      lock buildMu / deactivate / swap / snapshot query / add xN / activate).
    Part 3: linearizability of a finite history against the map specification
      (brute-force search), and the [case] type / [check_case] used by the
      correspondence harness.

    Blocks are content addressed: the payload (and so the size [sz k]) is a
    function of the key, so the backing store is a set of keys. *)
From Coq Require Import List ZArith Bool NArith Arith PeanoNat.
From V Require Import lib.Verdict.
Import ListNotations.

Definition key := nat.

(** what tqcache keeps per multihash: cacheHave(bool) or cacheSize(int) *)
Inductive entry := CHave (b : bool) | CSize (n : Z).

Definition ehas (e : entry) : bool :=
  match e with CHave b => b | CSize _ => true end.

(** results, projected like the harness projects them *)
Inductive res :=
| RBool (b : bool)            (* Has *)
| RBlock (k : key) (n : Z)    (* Get / View: payload id and length *)
| RSize (n : Z)               (* GetSize *)
| RNotFound                   (* ipld.ErrNotFound *)
| ROk                         (* nil error of a write / Rebuild *)
| RErr                        (* any other error *)
| RNone.                      (* not applicable (control operation on the uncached twin) *)

Inductive rkind := KHas | KGet | KGetSize | KView.

Inductive op :=
| ORead (rk : rkind) (k : key)
| OPut (k : key) (fault : bool)          (* fault: the datastore refuses state-changing writes *)
| ODelete (k : key) (fault : bool)
| OPutMany (ks : list key) (fault : bool)
| ORebuild (n : nat) (complete : bool)   (* enumeration delivers the first n keys; complete = errFn() is nil *)
| ORebuildCancelled                      (* ctx already cancelled when Rebuild is called *)
| OActive.                               (* BloomActive() *)

Record cfg := { c_tq : bool; c_bloom : bool }.

(** marker used in the "touched datastore keys" log for a Query call *)
Definition QMARK : nat := 30.

(** ---------- small list-as-set / assoc-list helpers ---------- *)
Definition mem (k : nat) (l : list nat) : bool := existsb (Nat.eqb k) l.

Fixpoint insert (k : nat) (l : list nat) : list nat :=
  match l with
  | [] => [k]
  | x :: r => if k <? x then k :: l else if k =? x then l else x :: insert k r
  end.

Definition remove (k : nat) (l : list nat) : list nat := filter (fun x => negb (k =? x)) l.

Fixpoint lookup {A} (k : nat) (c : list (nat * A)) : option A :=
  match c with
  | [] => None
  | (x, e) :: r => if k =? x then Some e else lookup k r
  end.

Definition cdel {A} (k : nat) (c : list (nat * A)) : list (nat * A) :=
  filter (fun p => negb (k =? fst p)) c.

Definition cset {A} (k : nat) (e : A) (c : list (nat * A)) : list (nat * A) := (k, e) :: cdel k c.

(** Bloom filters as bit masks: every bit of [p] is set in [f] *)
Definition bsub (p f : N) : bool := N.eqb (N.land p f) p.
Definition mask_of (bits : list N) : N := fold_left N.setbit bits 0%N.

(** keys in ascending order without duplicates (keyedBlocks.sortAndDedup) *)
Definition sort_dedup (ks : list nat) : list nat := fold_right insert [] ks.

(** first occurrences, in order *)
Fixpoint nodup_first (seen ks : list nat) : list nat :=
  match ks with
  | [] => []
  | k :: r => if mem k seen then nodup_first seen r else k :: nodup_first (k :: seen) r
  end.

Definition res_eqb (a b : res) : bool :=
  match a, b with
  | RBool x, RBool y => Bool.eqb x y
  | RBlock k n, RBlock k' n' => (k =? k') && (n =? n')%Z
  | RSize n, RSize n' => (n =? n')%Z
  | RNotFound, RNotFound | ROk, ROk | RErr, RErr | RNone, RNone => true
  | _, _ => false
  end.

Fixpoint list_eqb {A} (eqb : A -> A -> bool) (l1 l2 : list A) : bool :=
  match l1, l2 with
  | [], [] => true
  | a :: r1, b :: r2 => eqb a b && list_eqb eqb r1 r2
  | _, _ => false
  end.

(** ================================================================== *)
(** * Part 0: the specification — the uncached store is a map (a set of keys) *)

Section Spec.
Variable sz : key -> Z.

Definition found_res (rk : rkind) (k : key) : res :=
  match rk with
  | KHas => RBool true
  | KGet | KView => RBlock k (sz k)
  | KGetSize => RSize (sz k)
  end.
Definition missing_res (rk : rkind) : res :=
  match rk with KHas => RBool false | _ => RNotFound end.

Definition read_res (rk : rkind) (k : key) (found : bool) : res :=
  if found then found_res rk k else missing_res rk.

(** control operations (Rebuild, BloomActive) do not exist on the uncached
    store: [None] *)
Definition spec_step (store : list key) (o : op) : list key * option res :=
  match o with
  | ORead rk k => (store, Some (read_res rk k (mem k store)))
  | OPut k fault =>
      if mem k store then (store, Some ROk)
      else if fault then (store, Some RErr) else (insert k store, Some ROk)
  | ODelete k fault =>
      if negb (mem k store) then (store, Some ROk)
      else if fault then (store, Some RErr) else (remove k store, Some ROk)
  | OPutMany ks fault =>
      if forallb (fun k => mem k store) ks then (store, Some ROk)
      else if fault then (store, Some RErr)
      else (fold_left (fun s k => insert k s) ks store, Some ROk)
  | ORebuild _ _ | ORebuildCancelled | OActive => (store, None)
  end.

Fixpoint spec_run (store : list key) (ops : list op) : list (option res) * list key :=
  match ops with
  | [] => ([], store)
  | o :: r =>
      let (store', out) := spec_step store o in
      let (outs, fin) := spec_run store' r in (out :: outs, fin)
  end.

(** a cached answer agrees with the uncached one *)
Definition out_agrees (r : res) (s : option res) : bool :=
  match s with None => true | Some r' => res_eqb r r' end.

End Spec.

(** ================================================================== *)
(** * Part 1: sequential model of CachedBlockstore *)

Section Seq.
Variable cf : cfg.
Variable pos : key -> N.          (* Bloom bit positions of a key, as a bit mask: oracle *)
Variable sz : key -> Z.           (* payload length of a key *)

Record st := mkSt {
  s_store : list key;             (* backing store *)
  s_cache : list (key * entry);   (* tqcache entries (partial map) *)
  s_filt : N;                     (* bits set in the live Bloom filter (bit mask) *)
  s_active : bool                 (* bloomcache.active *)
}.

Definition with_cache (s : st) c := mkSt (s_store s) c (s_filt s) (s_active s).
Definition with_store_cache (s : st) x c := mkSt x c (s_filt s) (s_active s).
Definition with_filt (s : st) f := mkSt (s_store s) (s_cache s) f (s_active s).

(** eviction oracle: the entries of [ks] vanish *)
Definition evict (ks : list key) (s : st) : st :=
  with_cache s (fold_left (fun c k => cdel k c) ks (s_cache s)).

(** queryCache *)
Definition query (s : st) (k : key) : option entry :=
  if c_tq cf then lookup k (s_cache s) else None.

(** what the cache entry lets each read conclude without the store *)
Definition conclude (rk : rkind) (k : key) (e : entry) : option res :=
  match rk, e with
  | KHas, e => Some (RBool (ehas e))
  | KGetSize, CHave false => Some RNotFound
  | KGetSize, CHave true => None
  | KGetSize, CSize n => if (0 <=? n)%Z then Some (RSize n) else None
  | (KGet | KView), CHave false => Some RNotFound
  | (KGet | KView), _ => None
  end.

(** the entry a read stores after consulting the backing store *)
Definition read_upd (rk : rkind) (k : key) (found : bool) : entry :=
  match rk with
  | KHas => CHave found
  | _ => if found then CSize (sz k) else CHave false
  end.

Definition tq_set (s : st) (k : key) (e : entry) : list (key * entry) :=
  if c_tq cf then cset k e (s_cache s) else s_cache s.
Definition tq_del (s : st) (k : key) : list (key * entry) :=
  if c_tq cf then cdel k (s_cache s) else s_cache s.

(** hasCached: the only conclusive Bloom answer is "not in the filter", and only while active *)
Definition bloom_neg (s : st) (k : key) : bool :=
  c_bloom cf && s_active s && negb (bsub (pos k) (s_filt s)).

Definition bloom_add (s : st) (k : key) : st :=
  if c_bloom cf then with_filt s (N.lor (pos k) (s_filt s)) else s.

Definition out := (res * list nat)%type.   (* result, datastore keys touched *)

Definition tq_read (s : st) (rk : rkind) (k : key) : st * out :=
  match match query s k with Some e => conclude rk k e | None => None end with
  | Some r => (s, (r, []))
  | None =>
      let found := mem k (s_store s) in
      (with_cache s (tq_set s k (read_upd rk k found)), (read_res sz rk k found, [k]))
  end.

Definition tq_put (s : st) (k : key) (fault : bool) : st * out :=
  if match query s k with Some e => ehas e | None => false end then (s, (ROk, []))
  else if mem k (s_store s) then (with_cache s (tq_set s k (CSize (sz k))), (ROk, [k]))
  else if fault then (with_cache s (tq_del s k), (RErr, [k]))
  else (with_store_cache s (insert k (s_store s)) (tq_set s k (CSize (sz k))), (ROk, [k])).

Definition tq_delete (s : st) (k : key) (fault : bool) : st * out :=
  if match query s k with Some e => negb (ehas e) | None => false end then (s, (ROk, []))
  else if negb (mem k (s_store s)) then (with_cache s (tq_set s k (CHave false)), (ROk, [k]))
  else if fault then (with_cache s (tq_del s k), (RErr, [k]))
  else (with_store_cache s (remove k (s_store s)) (tq_set s k (CHave false)), (ROk, [k])).

(** blocks tqcache.PutMany forwards: cache inconclusive or "not there" *)
Definition good_keys (s : st) (ks : list key) : list key :=
  if c_tq cf
  then sort_dedup (filter (fun k => match query s k with Some e => negb (ehas e) | None => true end) ks)
  else ks.

Definition tq_putmany (s : st) (ks : list key) (fault : bool) : st * out :=
  let good := good_keys s ks in
  let touched := nodup_first [] good in
  if forallb (fun k => mem k (s_store s)) good then
    (with_cache s (fold_left (fun c k => if c_tq cf then cset k (CSize (sz k)) c else c) good (s_cache s)),
     (ROk, touched))
  else if fault then (s, (RErr, touched))
  else (with_store_cache s (fold_left (fun x k => insert k x) good (s_store s))
          (fold_left (fun c k => if c_tq cf then cset k (CSize (sz k)) c else c) good (s_cache s)),
        (ROk, touched)).

(** populate: the keys delivered by the enumeration, and whether it may be trusted *)
Definition enum_keys (store : list key) (n : nat) : list key := firstn n store.
Definition enum_ok (store : list key) (n : nat) (complete : bool) : bool :=
  complete && (length store <=? n).

Definition filt_of (ks : list key) : N := fold_right (fun k f => N.lor (pos k) f) 0%N ks.

Definition step (s : st) (o : op) : st * out :=
  match o with
  | ORead rk k =>
      if bloom_neg s k then (s, (missing_res rk, [])) else tq_read s rk k
  | OPut k fault =>
      let '(s', (r, t)) := tq_put s k fault in
      (match r with ROk => bloom_add s' k | _ => s' end, (r, t))
  | ODelete k fault =>
      if bloom_neg s k then (s, (ROk, [])) else tq_delete s k fault
  | OPutMany ks fault =>
      let '(s', (r, t)) := tq_putmany s ks fault in
      (match r with ROk => fold_left bloom_add ks s' | _ => s' end, (r, t))
  | ORebuild n complete =>
      if c_bloom cf then
        let ok := enum_ok (s_store s) n complete in
        (mkSt (s_store s) (s_cache s) (filt_of (enum_keys (s_store s) n)) ok,
         (if ok then ROk else RErr, [QMARK]))
      else (s, (RErr, []))
  | ORebuildCancelled => (s, (RErr, []))
  | OActive => (s, (RBool (c_bloom cf && s_active s), []))
  end.

(** the state after construction and the initial build (bloomCached's goroutine):
    the initial filter is populated from an enumeration with outcome (n, complete) *)
Definition init (keys : list key) (n : nat) (complete : bool) : st :=
  let store := sort_dedup keys in
  if c_bloom cf
  then mkSt store [] (filt_of (enum_keys store n)) (enum_ok store n complete)
  else mkSt store [] 0%N false.

(** a sequential history: before each operation the oracle evicts some entries *)
Fixpoint run (s : st) (h : list (list key * op)) : list out * st :=
  match h with
  | [] => ([], s)
  | (ev, o) :: r =>
      let (s', x) := step (evict ev s) o in
      let (xs, fin) := run s' r in (x :: xs, fin)
  end.

End Seq.


(** ================================================================== *)
(** * Correspondence case for sequential histories

    The harness ran the real [CachedBlockstore] and an uncached twin
    ([NewBlockstore] on a second datastore) op by op.  For every op it recorded
    the cached store's answer, the datastore keys the cached store touched
    (the witness of cache hits / evictions) and the twin's answer. *)

Record obs := mkObs { ob_op : op; ob_res : res; ob_touched : list nat; ob_twin : res }.

Record seqcase := mkSeq {
  q_cfg : cfg;
  q_pos : list (list N);       (* Bloom bit positions per key, measured on a fresh bbloom filter *)
  q_sz : list Z;               (* payload length per key *)
  q_init : list key;           (* keys in the store before construction *)
  q_bn : nat; q_bc : bool;     (* enumeration outcome of the initial build *)
  q_bres : res;                (* observed Wait() result: ROk / RErr; RNone without Bloom layer *)
  q_obs : list obs
}.

Definition keys_of (o : op) : list key :=
  match o with
  | ORead _ k | OPut k _ | ODelete k _ => [k]
  | OPutMany ks _ => ks
  | _ => []
  end.

Section CheckSeq.
Variable cf : cfg.
Variable pos : key -> N.
Variable sz : key -> Z.

(** eviction inferred from the observation: entries the model still holds but
    the implementation evidently no longer had (it went to the datastore) *)
Definition infer_evict (s : st) (o : op) (touched : list nat) : list key :=
  let '(_, (_, t)) := step cf pos sz s o in
  filter (fun k => mem k touched && negb (mem k t)) (keys_of o).

(** returns (model_ok, spec_ok) *)
Fixpoint check_obs (s : st) (spec : list key) (l : list obs) : bool * bool :=
  match l with
  | [] => (true, true)
  | x :: r =>
      let o := ob_op x in
      let s0 := evict (infer_evict s o (ob_touched x)) s in
      let '(s', (mr, mt)) := step cf pos sz s0 o in
      let (spec', so) := spec_step sz spec o in
      let (m, p) := check_obs s' spec' r in
      (m && res_eqb mr (ob_res x) && list_eqb Nat.eqb mt (ob_touched x)
         && match so with Some sr => res_eqb sr (ob_twin x) | None => res_eqb (ob_twin x) RNone end,
       p && out_agrees (ob_res x) so
         && match so with Some _ => res_eqb (ob_res x) (ob_twin x) | None => true end)
  end.
End CheckSeq.

Definition check_seq (c : seqcase) : verdict :=
  let cf := q_cfg c in
  let masks := map mask_of (q_pos c) in
  let pos := fun k => nth k masks 0%N in
  let sz := fun k => nth k (q_sz c) 0%Z in
  let s := init cf pos (q_init c) (q_bn c) (q_bc c) in
  let bres := if c_bloom cf then (if s_active s then ROk else RErr) else RNone in
  let (m, p) := check_obs cf pos sz s (sort_dedup (q_init c)) (q_obs c) in
  verdict_of (m && res_eqb bres (q_bres c)) p.

Inductive case := CSeq (c : seqcase).

Definition check_case (c : case) : verdict :=
  match c with
  | CSeq q => check_seq q
  end.
