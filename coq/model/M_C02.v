(** C02 — caching blockstore layers are observationally transparent.

    Executable models of the mechanism of blockstore/{caching,twoqueue_cache,
    bloom_cache,blockstore}.go.  No proofs in this file.

    Part 1 (sequential): state = (store, cache partial map, Bloom bit set,
      active flag).  Eviction is an oracle (a list of keys whose entries vanish
      before each operation), Bloom bit positions are an oracle [pos], a key
      enumeration delivers a prefix of the key list plus a completeness bit.
    Part 2 (concurrent): a labelled transition system whose steps are the
      atomic sections of the code (cache query / per-key lock / store op /
      cache update / unlock; Bloom: read active / load filter / add; Rebuild:
      lock buildMu / deactivate / swap / snapshot query / add xN / activate).
    Part 3: linearizability of a finite history against the map specification
      (brute-force search), and the [case] type / [check_case] used by the
      correspondence harness.

    Blocks are content addressed: the payload (and so the size [sz k]) is a
    function of the key, so the backing store is a set of keys. *)
From Coq Require Import List ZArith Bool NArith Arith PeanoNat.
From V Require Import lib.Verdict.
Import ListNotations.

Definition key := nat.

(** what tqcache keeps per multihash: cacheHave(bool) or cacheSize(int) *)
Inductive entry := CHave (b : bool) | CSize (n : Z).

Definition ehas (e : entry) : bool :=
  match e with CHave b => b | CSize _ => true end.

(** results, projected like the harness projects them *)
Inductive res :=
| RBool (b : bool)            (* Has *)
| RBlock (k : key) (n : Z)    (* Get / View: payload id and length *)
| RSize (n : Z)               (* GetSize *)
| RNotFound                   (* ipld.ErrNotFound *)
| ROk                         (* nil error of a write / Rebuild *)
| RErr                        (* any other error *)
| RNone.                      (* not applicable (control operation on the uncached twin) *)

Inductive rkind := KHas | KGet | KGetSize | KView.

Inductive op :=
| ORead (rk : rkind) (k : key)
| OPut (k : key) (fault : bool)          (* fault: the datastore refuses state-changing writes *)
| ODelete (k : key) (fault : bool)
| OPutMany (ks : list key) (fault : bool)
| ORebuild (n : nat) (complete : bool)   (* enumeration delivers the first n keys; complete = errFn() is nil *)
| ORebuildCancelled                      (* ctx already cancelled when Rebuild is called *)
| OActive.                               (* BloomActive() *)

Record cfg := { c_tq : bool; c_bloom : bool }.

(** marker used in the "touched datastore keys" log for a Query call *)
Definition QMARK : nat := 30.

(** ---------- small list-as-set / assoc-list helpers ---------- *)
Definition mem (k : nat) (l : list nat) : bool := existsb (Nat.eqb k) l.

Fixpoint insert (k : nat) (l : list nat) : list nat :=
  match l with
  | [] => [k]
  | x :: r => if k <? x then k :: l else if k =? x then l else x :: insert k r
  end.

Definition remove (k : nat) (l : list nat) : list nat := filter (fun x => negb (k =? x)) l.

Fixpoint lookup {A} (k : nat) (c : list (nat * A)) : option A :=
  match c with
  | [] => None
  | (x, e) :: r => if k =? x then Some e else lookup k r
  end.

Definition cdel {A} (k : nat) (c : list (nat * A)) : list (nat * A) :=
  filter (fun p => negb (k =? fst p)) c.

Definition cset {A} (k : nat) (e : A) (c : list (nat * A)) : list (nat * A) := (k, e) :: cdel k c.

(** Bloom filters as bit masks: every bit of [p] is set in [f] *)
Definition bsub (p f : N) : bool := N.eqb (N.land p f) p.
Definition mask_of (bits : list N) : N := fold_left N.setbit bits 0%N.

(** keys in ascending order without duplicates (keyedBlocks.sortAndDedup) *)
Definition sort_dedup (ks : list nat) : list nat := fold_right insert [] ks.

(** first occurrences, in order *)
Fixpoint nodup_first (seen ks : list nat) : list nat :=
  match ks with
  | [] => []
  | k :: r => if mem k seen then nodup_first seen r else k :: nodup_first (k :: seen) r
  end.

Definition res_eqb (a b : res) : bool :=
  match a, b with
  | RBool x, RBool y => Bool.eqb x y
  | RBlock k n, RBlock k' n' => (k =? k') && (n =? n')%Z
  | RSize n, RSize n' => (n =? n')%Z
  | RNotFound, RNotFound | ROk, ROk | RErr, RErr | RNone, RNone => true
  | _, _ => false
  end.

Fixpoint list_eqb {A} (eqb : A -> A -> bool) (l1 l2 : list A) : bool :=
  match l1, l2 with
  | [], [] => true
  | a :: r1, b :: r2 => eqb a b && list_eqb eqb r1 r2
  | _, _ => false
  end.

(** ================================================================== *)
(** * Part 0: the specification — the uncached store is a map (a set of keys) *)

Section Spec.
Variable sz : key -> Z.

Definition found_res (rk : rkind) (k : key) : res :=
  match rk with
  | KHas => RBool true
  | KGet | KView => RBlock k (sz k)
  | KGetSize => RSize (sz k)
  end.
Definition missing_res (rk : rkind) : res :=
  match rk with KHas => RBool false | _ => RNotFound end.

Definition read_res (rk : rkind) (k : key) (found : bool) : res :=
  if found then found_res rk k else missing_res rk.

(** control operations (Rebuild, BloomActive) do not exist on the uncached
    store: [None] *)
Definition spec_step (store : list key) (o : op) : list key * option res :=
  match o with
  | ORead rk k => (store, Some (read_res rk k (mem k store)))
  | OPut k fault =>
      if mem k store then (store, Some ROk)
      else if fault then (store, Some RErr) else (insert k store, Some ROk)
  | ODelete k fault =>
      if negb (mem k store) then (store, Some ROk)
      else if fault then (store, Some RErr) else (remove k store, Some ROk)
  | OPutMany ks fault =>
      if forallb (fun k => mem k store) ks then (store, Some ROk)
      else if fault then (store, Some RErr)
      else (fold_left (fun s k => insert k s) ks store, Some ROk)
  | ORebuild _ _ | ORebuildCancelled | OActive => (store, None)
  end.

Fixpoint spec_run (store : list key) (ops : list op) : list (option res) * list key :=
  match ops with
  | [] => ([], store)
  | o :: r =>
      let (store', out) := spec_step store o in
      let (outs, fin) := spec_run store' r in (out :: outs, fin)
  end.

(** a cached answer agrees with the uncached one *)
Definition out_agrees (r : res) (s : option res) : bool :=
  match s with None => true | Some r' => res_eqb r r' end.

End Spec.

(** ================================================================== *)
(** * Part 1: sequential model of CachedBlockstore *)

Section Seq.
Variable cf : cfg.
Variable pos : key -> N.          (* Bloom bit positions of a key, as a bit mask: oracle *)
Variable sz : key -> Z.           (* payload length of a key *)

Record st := mkSt {
  s_store : list key;             (* backing store *)
  s_cache : list (key * entry);   (* tqcache entries (partial map) *)
  s_filt : N;                     (* bits set in the live Bloom filter (bit mask) *)
  s_active : bool                 (* bloomcache.active *)
}.

Definition with_cache (s : st) c := mkSt (s_store s) c (s_filt s) (s_active s).
Definition with_store_cache (s : st) x c := mkSt x c (s_filt s) (s_active s).
Definition with_filt (s : st) f := mkSt (s_store s) (s_cache s) f (s_active s).

(** eviction oracle: the entries of [ks] vanish *)
Definition evict (ks : list key) (s : st) : st :=
  with_cache s (fold_left (fun c k => cdel k c) ks (s_cache s)).

(** queryCache *)
Definition query (s : st) (k : key) : option entry :=
  if c_tq cf then lookup k (s_cache s) else None.

(** what the cache entry lets each read conclude without the store *)
Definition conclude (rk : rkind) (k : key) (e : entry) : option res :=
  match rk, e with
  | KHas, e => Some (RBool (ehas e))
  | KGetSize, CHave false => Some RNotFound
  | KGetSize, CHave true => None
  | KGetSize, CSize n => if (0 <=? n)%Z then Some (RSize n) else None
  | (KGet | KView), CHave false => Some RNotFound
  | (KGet | KView), _ => None
  end.

(** the entry a read stores after consulting the backing store *)
Definition read_upd (rk : rkind) (k : key) (found : bool) : entry :=
  match rk with
  | KHas => CHave found
  | _ => if found then CSize (sz k) else CHave false
  end.

Definition tq_set (s : st) (k : key) (e : entry) : list (key * entry) :=
  if c_tq cf then cset k e (s_cache s) else s_cache s.
Definition tq_del (s : st) (k : key) : list (key * entry) :=
  if c_tq cf then cdel k (s_cache s) else s_cache s.

(** hasCached: the only conclusive Bloom answer is "not in the filter", and only while active *)
Definition bloom_neg (s : st) (k : key) : bool :=
  c_bloom cf && s_active s && negb (bsub (pos k) (s_filt s)).

Definition bloom_add (s : st) (k : key) : st :=
  if c_bloom cf then with_filt s (N.lor (pos k) (s_filt s)) else s.

Definition out := (res * list nat)%type.   (* result, datastore keys touched *)

Definition tq_read (s : st) (rk : rkind) (k : key) : st * out :=
  match match query s k with Some e => conclude rk k e | None => None end with
  | Some r => (s, (r, []))
  | None =>
      let found := mem k (s_store s) in
      (with_cache s (tq_set s k (read_upd rk k found)), (read_res sz rk k found, [k]))
  end.

Definition tq_put (s : st) (k : key) (fault : bool) : st * out :=
  if match query s k with Some e => ehas e | None => false end then (s, (ROk, []))
  else if mem k (s_store s) then (with_cache s (tq_set s k (CSize (sz k))), (ROk, [k]))
  else if fault then (with_cache s (tq_del s k), (RErr, [k]))
  else (with_store_cache s (insert k (s_store s)) (tq_set s k (CSize (sz k))), (ROk, [k])).

Definition tq_delete (s : st) (k : key) (fault : bool) : st * out :=
  if match query s k with Some e => negb (ehas e) | None => false end then (s, (ROk, []))
  else if negb (mem k (s_store s)) then (with_cache s (tq_set s k (CHave false)), (ROk, [k]))
  else if fault then (with_cache s (tq_del s k), (RErr, [k]))
  else (with_store_cache s (remove k (s_store s)) (tq_set s k (CHave false)), (ROk, [k])).

(** blocks tqcache.PutMany forwards: cache inconclusive or "not there" *)
Definition good_keys (s : st) (ks : list key) : list key :=
  if c_tq cf
  then sort_dedup (filter (fun k => match query s k with Some e => negb (ehas e) | None => true end) ks)
  else ks.

Definition tq_putmany (s : st) (ks : list key) (fault : bool) : st * out :=
  let good := good_keys s ks in
  let touched := nodup_first [] good in
  if forallb (fun k => mem k (s_store s)) good then
    (with_cache s (fold_left (fun c k => if c_tq cf then cset k (CSize (sz k)) c else c) good (s_cache s)),
     (ROk, touched))
  else if fault then (s, (RErr, touched))
  else (with_store_cache s (fold_left (fun x k => insert k x) good (s_store s))
          (fold_left (fun c k => if c_tq cf then cset k (CSize (sz k)) c else c) good (s_cache s)),
        (ROk, touched)).

(** populate: the keys delivered by the enumeration, and whether it may be trusted *)
Definition enum_keys (store : list key) (n : nat) : list key := firstn n store.
Definition enum_ok (store : list key) (n : nat) (complete : bool) : bool :=
  complete && (length store <=? n).

Definition filt_of (ks : list key) : N := fold_right (fun k f => N.lor (pos k) f) 0%N ks.

Definition step (s : st) (o : op) : st * out :=
  match o with
  | ORead rk k =>
      if bloom_neg s k then (s, (missing_res rk, [])) else tq_read s rk k
  | OPut k fault =>
      let '(s', (r, t)) := tq_put s k fault in
      (match r with ROk => bloom_add s' k | _ => s' end, (r, t))
  | ODelete k fault =>
      if bloom_neg s k then (s, (ROk, [])) else tq_delete s k fault
  | OPutMany ks fault =>
      let '(s', (r, t)) := tq_putmany s ks fault in
      (match r with ROk => fold_left bloom_add ks s' | _ => s' end, (r, t))
  | ORebuild n complete =>
      if c_bloom cf then
        let ok := enum_ok (s_store s) n complete in
        (mkSt (s_store s) (s_cache s) (filt_of (enum_keys (s_store s) n)) ok,
         (if ok then ROk else RErr, [QMARK]))
      else (s, (RErr, []))
  | ORebuildCancelled => (s, (RErr, []))
  | OActive => (s, (RBool (c_bloom cf && s_active s), []))
  end.

(** the state after construction and the initial build (bloomCached's goroutine):
    the initial filter is populated from an enumeration with outcome (n, complete) *)
Definition init (keys : list key) (n : nat) (complete : bool) : st :=
  let store := sort_dedup keys in
  if c_bloom cf
  then mkSt store [] (filt_of (enum_keys store n)) (enum_ok store n complete)
  else mkSt store [] 0%N false.

(** a sequential history: before each operation the oracle evicts some entries *)
Fixpoint run (s : st) (h : list (list key * op)) : list out * st :=
  match h with
  | [] => ([], s)
  | (ev, o) :: r =>
      let (s', x) := step (evict ev s) o in
      let (xs, fin) := run s' r in (x :: xs, fin)
  end.

End Seq.


(** ================================================================== *)
(** * Correspondence case for sequential histories

    The harness ran the real [CachedBlockstore] and an uncached twin
    ([NewBlockstore] on a second datastore) op by op.  For every op it recorded
    the cached store's answer, the datastore keys the cached store touched
    (the witness of cache hits / evictions) and the twin's answer. *)

Record obs := mkObs { ob_op : op; ob_res : res; ob_touched : list nat; ob_twin : res }.

Record seqcase := mkSeq {
  q_cfg : cfg;
  q_pos : list (list N);       (* Bloom bit positions per key, measured on a fresh bbloom filter *)
  q_sz : list Z;               (* payload length per key *)
  q_init : list key;           (* keys in the store before construction *)
  q_bn : nat; q_bc : bool;     (* enumeration outcome of the initial build *)
  q_bres : res;                (* observed Wait() result: ROk / RErr; RNone without Bloom layer *)
  q_obs : list obs
}.

Definition keys_of (o : op) : list key :=
  match o with
  | ORead _ k | OPut k _ | ODelete k _ => [k]
  | OPutMany ks _ => ks
  | _ => []
  end.

Section CheckSeq.
Variable cf : cfg.
Variable pos : key -> N.
Variable sz : key -> Z.

(** eviction inferred from the observation: entries the model still holds but
    the implementation evidently no longer had (it went to the datastore) *)
Definition infer_evict (s : st) (o : op) (touched : list nat) : list key :=
  let '(_, (_, t)) := step cf pos sz s o in
  filter (fun k => mem k touched && negb (mem k t)) (keys_of o).

(** returns (model_ok, spec_ok) *)
Fixpoint check_obs (s : st) (spec : list key) (l : list obs) : bool * bool :=
  match l with
  | [] => (true, true)
  | x :: r =>
      let o := ob_op x in
      let s0 := evict (infer_evict s o (ob_touched x)) s in
      let '(s', (mr, mt)) := step cf pos sz s0 o in
      let (spec', so) := spec_step sz spec o in
      let (m, p) := check_obs s' spec' r in
      (m && res_eqb mr (ob_res x) && list_eqb Nat.eqb mt (ob_touched x)
         && match so with Some sr => res_eqb sr (ob_twin x) | None => res_eqb (ob_twin x) RNone end,
       p && out_agrees (ob_res x) so
         && match so with Some _ => res_eqb (ob_res x) (ob_twin x) | None => true end)
  end.
End CheckSeq.

Definition check_seq (c : seqcase) : verdict :=
  let cf := q_cfg c in
  let masks := map mask_of (q_pos c) in
  let pos := fun k => nth k masks 0%N in
  let sz := fun k => nth k (q_sz c) 0%Z in
  let s := init cf pos (q_init c) (q_bn c) (q_bc c) in
  let bres := if c_bloom cf then (if s_active s then ROk else RErr) else RNone in
  let (m, p) := check_obs cf pos sz s (sort_dedup (q_init c)) (q_obs c) in
  verdict_of (m && res_eqb bres (q_bres c)) p.

(** ================================================================== *)
(** * Part 2: the concurrent transition system

    One step = one atomic section of the code.  A thread executes its list of
    operations; the program counter says where it is inside the current call.

    Single-key calls (Has/Get/GetSize/View/Put/DeleteBlock) through
    bloomcache -> tqcache -> blockstore:
      [BActive]  bloomcache.hasCached reads [active]            (reads, deletes)
      [BFilter]  ... then loads the filter pointer and tests membership
      repaired hasCached ([d_toctou] off):
      [BLoadR]   bl := b.bloom.Load()                 (generation g)
      [BActiveR] b.BloomActive()
      [BTest]    bl.HasTS(hash)
      [BRecheck] b.bloom.Load() == bl: only then is "not in the filter" conclusive
      [TQuery]   tqcache.queryCache
      [TLock]    tqcache.lock(key, write)   (blocks)
      [SPre]     the backing store call (atomic map operation)
      [SPost]    the call has taken effect and returns
      [TUpd]     cacheHave / cacheSize / cacheInvalidate
      [TUnlock]  tqcache.unlock
      [BLoad]    bloomcache.Put: b.bloom.Load()
      [BAdd g]   ... .AddTS(hash) on the filter loaded (generation g)
    PutMany: [MQuery] per block, [MLock] per key (sorted), [MSPre]/[MSPost],
      [MUpd] per key, [MUnlock] per key, then [MLoad]/[MAdd] per block.
    Rebuild / initial build: [RMu] buildMu.Lock, [RDeact] active.Store(false),
      [RSwap] bloom.Store(fresh), [RQPre]/[RQPost] the snapshot query,
      [RNext] one enumeration result (the delivered key is added to the filter),
      [RActivate] active.Store(true), [RMuUnlock].

    Defect switches ([true] = what the code does today):
      [d_toctou]: hasCached reads [active] and only then loads the filter;
                  off = the repaired order: load the filter, read [active], test,
                  and trust a negative answer only if the same filter is still live.
      [d_early]:  [RActivate] is taken regardless of Puts that have written the
                  store but not yet added to the filter; off = it waits for them. *)

Record flags := { d_toctou : bool; d_early : bool }.

Definition tid := nat.

(** single-key operation kinds *)
Inductive sk := SKRead (rk : rkind) | SKPut (fault : bool) | SKDel (fault : bool).

Inductive pc :=
| PIdle
| BActive (a : sk) (k : key)
| BFilter (a : sk) (k : key)
| BLoadR (a : sk) (k : key)
| BActiveR (a : sk) (k : key) (g : nat)
| BTest (a : sk) (k : key) (g : nat)
| BRecheck (a : sk) (k : key) (g : nat)
| TQuery (a : sk) (k : key)
| TLock (a : sk) (k : key)
| SPre (a : sk) (k : key)
| SPost (a : sk) (k : key) (o : bool)        (* o: found (reads) / success (writes) *)
| TUpd (a : sk) (k : key) (o : bool)
| TUnlock (a : sk) (k : key) (r : res)
| BLoad (k : key)
| BAdd (k : key) (g : nat)
| MQuery (ks : list key) (fault : bool) (todo good : list key)
| MLock (ks : list key) (fault : bool) (locked todo : list key)
| MSPre (ks : list key) (fault : bool) (good : list key)
| MSPost (ks : list key) (good : list key) (o : bool)
| MUpd (ks : list key) (good todo : list key)
| MUnlock (ks : list key) (todo : list key) (r : res)
| MLoad (todo : list key)
| MAdd (todo : list key) (k : key) (g : nat)
| RMu (rebuild : bool) (n : nat) (complete : bool)
| RDeact (n : nat) (complete : bool)
| RSwap (n : nat) (complete : bool)
| RQPre (n : nat) (complete : bool)
| RQPost (n : nat) (complete : bool) (snap : list key)
| RNext (n : nat) (complete : bool) (i : nat) (rem : list key)
| RActivate
| RMuUnlock (r : res).

Record thread := mkT { t_ops : list op; t_pc : pc; t_res : list res (* newest first *) }.

(** shared state *)
Record shared := mkSh {
  g_store : list key;
  g_cache : list (key * entry);
  g_filt : N;                     (* the live filter *)
  g_gen : nat;                    (* which filter object is live (bumped by Rebuild's swap) *)
  g_active : bool
}.

Record cst := mkC { g_sh : shared; g_thr : list (tid * thread) }.

Definition idle_thread : thread := mkT [] PIdle [].
Definition tget (s : cst) (t : tid) : thread :=
  match lookup t (g_thr s) with Some x => x | None => idle_thread end.
Definition tids (s : cst) : list tid := map fst (g_thr s).

(** locks a thread holds, read off its program counter *)
Definition is_write (a : sk) : bool := match a with SKRead _ => false | _ => true end.

Definition held (p : pc) : list (key * bool) :=   (* (key, write?) *)
  match p with
  | SPre a k | SPost a k _ | TUpd a k _ | TUnlock a k _ => [(k, is_write a)]
  | MLock _ _ locked _ => map (fun k => (k, true)) locked
  | MSPre _ _ good | MSPost _ good _ => map (fun k => (k, true)) good
  | MUpd _ good _ => map (fun k => (k, true)) good
  | MUnlock _ todo _ => map (fun k => (k, true)) todo
  | _ => []
  end.

Definition holds_mu (p : pc) : bool :=
  match p with
  | RDeact _ _ | RSwap _ _ | RQPre _ _ | RQPost _ _ _ | RNext _ _ _ _ | RActivate | RMuUnlock _ => true
  | _ => false
  end.

(** the Put has written the store but its filter add is still to come *)
Definition in_put_window (p : pc) : bool :=
  match p with
  | SPost (SKPut _) _ true | TUpd (SKPut _) _ true | TUnlock (SKPut _) _ ROk => true
  | BLoad _ | BAdd _ _ => true
  | MSPost _ _ true | MUpd _ _ _ | MUnlock _ _ ROk | MLoad _ | MAdd _ _ _ => true
  | _ => false
  end.

Definition conflicts (k : key) (w : bool) (h : key * bool) : bool :=
  (fst h =? k) && (w || snd h).

(** may thread [t] take the lock of [k] (write lock iff [w])? *)
Definition can_lock (s : cst) (t : tid) (k : key) (w : bool) : bool :=
  forallb (fun t' => (t' =? t) || negb (existsb (conflicts k w) (held (t_pc (tget s t'))))) (tids s).

Definition mu_free (s : cst) (t : tid) : bool :=
  forallb (fun t' => (t' =? t) || negb (holds_mu (t_pc (tget s t')))) (tids s).

Definition no_put_window (s : cst) (t : tid) : bool :=
  forallb (fun t' => (t' =? t) || negb (in_put_window (t_pc (tget s t')))) (tids s).

Definition setpc (th : thread) (p : pc) : thread := mkT (t_ops th) p (t_res th).
(** the current call returns [r] *)
Definition fin (th : thread) (r : res) : thread := mkT (t_ops th) PIdle (r :: t_res th).

Definition sh_store (h : shared) x := mkSh x (g_cache h) (g_filt h) (g_gen h) (g_active h).
Definition sh_cache (h : shared) c := mkSh (g_store h) c (g_filt h) (g_gen h) (g_active h).
Definition sh_filt (h : shared) f := mkSh (g_store h) (g_cache h) f (g_gen h) (g_active h).
Definition sh_active (h : shared) a := mkSh (g_store h) (g_cache h) (g_filt h) (g_gen h) a.
Definition sh_swap (h : shared) := mkSh (g_store h) (g_cache h) 0%N (S (g_gen h)) (g_active h).

Section Lts.
Variable cf : cfg.
Variable fl : flags.
Variable pos : key -> N.
Variable sz : key -> Z.

Definition sk_missing (a : sk) : res :=
  match a with SKRead rk => missing_res rk | _ => ROk end.

(** where a single-key call goes after the Bloom check / directly *)
Definition enter_inner (a : sk) (k : key) : pc := if c_tq cf then TQuery a k else SPre a k.
(** where it starts *)
Definition enter (a : sk) (k : key) : pc :=
  match a with
  | SKPut _ => enter_inner a k
  | _ => if c_bloom cf then (if d_toctou fl then BActive a k else BLoadR a k) else enter_inner a k
  end.

(** the inner (2Q + store) part of a single-key call returned [r] *)
Definition after_inner (th : thread) (a : sk) (k : key) (r : res) : thread :=
  match a, r with
  | SKPut _, ROk => if c_bloom cf then setpc th (BLoad k) else fin th r
  | _, _ => fin th r
  end.

(** after a successful PutMany of the inner layers *)
Definition after_many (th : thread) (ks : list key) : thread :=
  if c_bloom cf then setpc th (MLoad ks) else fin th ROk.

(** result of a single-key call from the store outcome *)
Definition sk_res (a : sk) (k : key) (o : bool) : res :=
  match a with
  | SKRead rk => read_res sz rk k o
  | _ => if o then ROk else RErr
  end.

(** cache update after the store call *)
Definition sk_upd (a : sk) (k : key) (o : bool) (c : list (key * entry)) : list (key * entry) :=
  match a with
  | SKRead rk => cset k (read_upd sz rk k o) c
  | SKPut _ => if o then cset k (CSize (sz k)) c else cdel k c
  | SKDel _ => if o then cset k (CHave false) c else cdel k c
  end.

(** can the 2Q layer answer from the cache entry? *)
Definition sk_conclude (a : sk) (k : key) (e : entry) : option res :=
  match a with
  | SKRead rk => conclude rk k e
  | SKPut _ => if ehas e then Some ROk else None
  | SKDel _ => if ehas e then None else Some ROk
  end.

(** the atomic store operation of a single-key call *)
Definition sk_store (a : sk) (k : key) (store : list key) : list key * bool :=
  match a with
  | SKRead _ => (store, mem k store)
  | SKPut fault => if mem k store then (store, true) else if fault then (store, false) else (insert k store, true)
  | SKDel fault => if negb (mem k store) then (store, true) else if fault then (store, false) else (remove k store, true)
  end.

Definition start_op (o : op) : pc :=
  match o with
  | ORead rk k => enter (SKRead rk) k
  | OPut k f => enter (SKPut f) k
  | ODelete k f => enter (SKDel f) k
  | OPutMany ks f => if c_tq cf then MQuery ks f ks [] else MSPre ks f ks
  | ORebuild n c => RMu true n c
  | ORebuildCancelled | OActive => PIdle
  end.

Definition add_if_live (h : shared) (k : key) (g : nat) : shared :=
  if g =? g_gen h then sh_filt h (N.lor (pos k) (g_filt h)) else h.

(** one step of thread [t], whose local state is [th]: the new shared state and
    the new local state; [None] = not enabled (blocked, or nothing to do).
    The other threads matter only through the three guards. *)
Definition tstep1 (s : cst) (t : tid) (th : thread) : option (shared * thread) :=
  let h := g_sh s in
  match t_pc th with
  | PIdle =>
      match t_ops th with
      | [] => None
      | ORebuildCancelled :: r => Some (h, mkT r PIdle (RErr :: t_res th))
      | OActive :: r => Some (h, mkT r PIdle (RBool (c_bloom cf && g_active h) :: t_res th))
      | o :: r => Some (h, mkT r (start_op o) (t_res th))
      end
  | BActive a k =>
      if g_active h then Some (h, setpc th (BFilter a k))
      else Some (h, setpc th (enter_inner a k))
  | BFilter a k =>
      if bsub (pos k) (g_filt h) then Some (h, setpc th (enter_inner a k))
      else Some (h, fin th (sk_missing a))
  | BLoadR a k => Some (h, setpc th (BActiveR a k (g_gen h)))
  | BActiveR a k g =>
      if g_active h then Some (h, setpc th (BTest a k g))
      else Some (h, setpc th (enter_inner a k))
  | BTest a k g =>
      (* a filter that is no longer live is never trusted (the re-check fails
         whatever it answers), so its content need not be modelled *)
      if (g =? g_gen h) && negb (bsub (pos k) (g_filt h)) then Some (h, setpc th (BRecheck a k g))
      else Some (h, setpc th (enter_inner a k))
  | BRecheck a k g =>
      if g =? g_gen h then Some (h, fin th (sk_missing a))
      else Some (h, setpc th (enter_inner a k))
  | TQuery a k =>
      match match lookup k (g_cache h) with Some e => sk_conclude a k e | None => None end with
      | Some r => Some (h, after_inner th a k r)
      | None => Some (h, setpc th (TLock a k))
      end
  | TLock a k =>
      if can_lock s t k (is_write a) then Some (h, setpc th (SPre a k)) else None
  | SPre a k =>
      let (x, o) := sk_store a k (g_store h) in
      Some (sh_store h x, setpc th (SPost a k o))
  | SPost a k o =>
      if c_tq cf then Some (h, setpc th (TUpd a k o))
      else Some (h, after_inner th a k (sk_res a k o))
  | TUpd a k o =>
      Some (sh_cache h (sk_upd a k o (g_cache h)), setpc th (TUnlock a k (sk_res a k o)))
  | TUnlock a k r => Some (h, after_inner th a k r)
  | BLoad k => Some (h, setpc th (BAdd k (g_gen h)))
  | BAdd k g => Some (add_if_live h k g, fin th ROk)
  (* ---- PutMany ---- *)
  | MQuery ks f todo good =>
      match todo with
      | k :: r =>
          let fwd := match lookup k (g_cache h) with Some e => negb (ehas e) | None => true end in
          Some (h, setpc th (MQuery ks f r (if fwd then good ++ [k] else good)))
      | [] =>
          match sort_dedup good with
          | [] => Some (h, after_many th ks)
          | g' => Some (h, setpc th (MLock ks f [] g'))
          end
      end
  | MLock ks f locked todo =>
      match todo with
      | k :: r => if can_lock s t k true then Some (h, setpc th (MLock ks f (locked ++ [k]) r)) else None
      | [] => Some (h, setpc th (MSPre ks f locked))
      end
  | MSPre ks f good =>
      if forallb (fun k => mem k (g_store h)) good then Some (h, setpc th (MSPost ks good true))
      else if f then Some (h, setpc th (MSPost ks good false))
      else Some (sh_store h (fold_left (fun x k => insert k x) good (g_store h)), setpc th (MSPost ks good true))
  | MSPost ks good o =>
      if c_tq cf then
        (if o then Some (h, setpc th (MUpd ks good good)) else Some (h, setpc th (MUnlock ks good RErr)))
      else if o then Some (h, after_many th ks) else Some (h, fin th RErr)
  | MUpd ks good todo =>
      match todo with
      | k :: r => Some (sh_cache h (cset k (CSize (sz k)) (g_cache h)), setpc th (MUpd ks good r))
      | [] => Some (h, setpc th (MUnlock ks good ROk))
      end
  | MUnlock ks todo r =>
      match todo with
      | _ :: rest => Some (h, setpc th (MUnlock ks rest r))
      | [] => match r with
              | ROk => Some (h, after_many th ks)
              | _ => Some (h, fin th r)
              end
      end
  | MLoad todo =>
      match todo with
      | k :: r => Some (h, setpc th (MAdd r k (g_gen h)))
      | [] => Some (h, fin th ROk)
      end
  | MAdd todo k g => Some (add_if_live h k g, setpc th (MLoad todo))
  (* ---- Rebuild / initial build ---- *)
  | RMu rebuild n c =>
      if mu_free s t then Some (h, setpc th (if rebuild then RDeact n c else RQPre n c)) else None
  | RDeact n c => Some (sh_active h false, setpc th (RSwap n c))
  | RSwap n c => Some (sh_swap h, setpc th (RQPre n c))
  | RQPre n c => Some (h, setpc th (RQPost n c (g_store h)))
  | RQPost n c snap => Some (h, setpc th (RNext n c 0 snap))
  | RNext n c i rem =>
      if i <? n then
        match rem with
        | k :: r => Some (sh_filt h (N.lor (pos k) (g_filt h)), setpc th (RNext n c (S i) r))
        | [] => if c then Some (h, setpc th RActivate) else Some (h, setpc th (RMuUnlock RErr))
        end
      else
        match rem with
        | [] => if c then Some (h, setpc th RActivate) else Some (h, setpc th (RMuUnlock RErr))
        | _ => Some (h, setpc th (RMuUnlock RErr))
        end
  | RActivate =>
      if d_early fl || no_put_window s t then Some (sh_active h true, setpc th (RMuUnlock ROk)) else None
  | RMuUnlock r => Some (h, fin th r)
  end.

Definition tstep (s : cst) (t : tid) : option cst :=
  match tstep1 s t (tget s t) with
  | Some (h, th) => Some (mkC h (cset t th (g_thr s)))
  | None => None
  end.

(** labels: a thread moves, or the 2Q cache evicts an entry *)
Inductive label := LThread (t : tid) | LEvict (k : key).

Definition lstep (s : cst) (l : label) : option cst :=
  match l with
  | LThread t => tstep s t
  | LEvict k => Some (mkC (sh_cache (g_sh s) (cdel k (g_cache (g_sh s)))) (g_thr s))
  end.

(** a run along a label sequence ([None] if some step is not enabled) *)
Fixpoint lrun (s : cst) (ls : list label) : option cst :=
  match ls with
  | [] => Some s
  | l :: r => match lstep s l with Some s' => lrun s' r | None => None end
  end.

(** initial state: thread 0 is the initial build when there is a Bloom layer *)
Definition cinit (keys : list key) (bn : nat) (bc : bool) (progs : list (list op)) : cst :=
  let thr := map (fun p => mkT p PIdle []) progs in
  let thr0 := if c_bloom cf then mkT [] (RMu false bn bc) [] :: thr else thr in
  mkC (mkSh (sort_dedup keys) [] 0%N 0 false) (combine (seq 0 (length thr0)) thr0).

End Lts.

(** ================================================================== *)
(** * Part 3: linearizability of a finite history against the map *)

Record hop := mkH { h_op : op; h_res : res; h_inv : nat; h_resp : nat }.

Section Lin.
Variable sz : key -> Z.

(** [a] may be linearized first among [l]: nothing in [l] returned before [a] was invoked *)
Definition minimal (a : hop) (l : list hop) : bool :=
  forallb (fun b => negb (h_resp b <? h_inv a)) l.

(** The map is a product of independent one-key registers (a multi-block PutMany
    is treated as one Put per key with the same call interval), and
    linearizability is local (Herlihy & Wing), so the history is decided key by
    key; the state of one key is one bit. *)
Definition proj_op (k : key) (o : op) : option op :=
  match o with
  | ORead _ k' | OPut k' _ | ODelete k' _ => if k' =? k then Some o else None
  | OPutMany ks f => if mem k ks then Some (OPut k f) else None
  | _ => None
  end.

Definition key_hist (k : key) (h : list hop) : list hop :=
  flat_map (fun a => match proj_op k (h_op a) with
                     | Some o => [mkH o (h_res a) (h_inv a) (h_resp a)]
                     | None => []
                     end) h.

(** the state of key [k] after operation [a] if the map gives [a]'s answer in state [b] *)
Definition step_key (k : key) (b : bool) (a : hop) : option bool :=
  let (store', so) := spec_step sz (if b then [k] else []) (h_op a) in
  if out_agrees (h_res a) so then Some (mem k store') else None.

(** pick the first pending operation that may go first and satisfies [ok] *)
Fixpoint pick (ok : hop -> bool) (before after : list hop) : option (list hop) :=
  match after with
  | [] => None
  | a :: r => if minimal a (before ++ r) && ok a then Some (before ++ r) else pick ok (before ++ [a]) r
  end.

Definition is_read (o : op) : bool := match o with ORead _ _ => true | _ => false end.

(** a read that may go first and is answered correctly in the current state *)
Definition read_now (k : key) (b : bool) (a : hop) : bool :=
  is_read (h_op a) && match step_key k b a with Some _ => true | None => false end.

(** A read that may go first and is answered correctly now can always be
    linearized first (it changes nothing and constrains nobody); otherwise branch
    over the writes that may go first and are answered correctly. *)
Fixpoint lin_key (fuel : nat) (k : key) (b : bool) (pending : list hop) : bool :=
  match pending with
  | [] => true
  | _ =>
    match fuel with
    | O => false
    | S f =>
      match pick (read_now k b) [] pending with
      | Some rest => lin_key f k b rest
      | None =>
        (fix try (before after : list hop) : bool :=
           match after with
           | [] => false
           | a :: r =>
               (minimal a (before ++ r) && negb (is_read (h_op a)) &&
                match step_key k b a with Some b' => lin_key f k b' (before ++ r) | None => false end)
               || try (before ++ [a]) r
           end) [] pending
      end
    end
  end.

Definition hist_keys (h : list hop) : list key := nodup_first [] (flat_map (fun a => keys_of (h_op a)) h).

Definition linearizable (init : list key) (h : list hop) : bool :=
  forallb (fun k => let hk := key_hist k h in lin_key (length hk) k (mem k init) hk) (hist_keys h).
End Lin.

(** ================================================================== *)
(** * Correspondence case for one executed schedule

    The harness ran 2-3 goroutines against the real CachedBlockstore over a fake
    datastore whose every call parks on a scheduler.  It logged every scheduler
    action and, after each, where every thread was. *)

Inductive call := CHas | CGet | CGetSize | CPut | CDelete | CCommit | CQuery | CNext.

Inductive status :=
| TIdle (ndone : nat)                          (* between calls; [ndone] calls have returned *)
| TPre (c : call) (k : nat)                    (* parked before a datastore call takes effect *)
| TPost (c : call) (k : nat) (v : bool)        (* parked after it took effect, before it returns *)
| TBlocked.                                    (* waiting for a mutex *)

Inductive action := AStart (t : tid) | ARel (t : tid).

Record cstep := mkStep { a_act : action; a_status : list status }.

Record conccase := mkConc {
  k_cfg : cfg;
  k_pos : list (list N);
  k_sz : list Z;
  k_init : list key;
  k_bn : nat; k_bc : bool;              (* enumeration outcome of the initial build (thread 0) *)
  k_progs : list (list op);             (* programs of the worker threads *)
  k_st0 : list status;                  (* where the threads are after construction *)
  k_trace : list cstep;
  k_results : list (list res)           (* answers per thread (thread 0 = initial build when Bloom) *)
}.

Definition call_eqb (a b : call) : bool :=
  match a, b with
  | CHas, CHas | CGet, CGet | CGetSize, CGetSize | CPut, CPut | CDelete, CDelete
  | CCommit, CCommit | CQuery, CQuery | CNext, CNext => true
  | _, _ => false
  end.

Definition status_eqb (a b : status) : bool :=
  match a, b with
  | TIdle n, TIdle m => n =? m
  | TPre c k, TPre c' k' => call_eqb c c' && (k =? k')
  | TPost c k v, TPost c' k' v' => call_eqb c c' && (k =? k') && Bool.eqb v v'
  | TBlocked, TBlocked => true
  | _, _ => false
  end.

Definition call_of (a : sk) : call :=
  match a with
  | SKRead KHas => CHas | SKRead KGetSize => CGetSize | SKRead _ => CGet
  | SKPut _ => CPut | SKDel _ => CDelete
  end.

(** datastore call of blockstore.PutMany on the forwarded blocks *)
Definition many_call (good : list key) : call * nat :=
  match good with
  | [k] => (CPut, k)
  | k :: _ => (CCommit, k)
  | [] => (CCommit, QMARK)
  end.

(** where the harness sees a thread whose model program counter is [p] *)
Definition status_of (th : thread) : option status :=
  match t_pc th with
  | PIdle => Some (TIdle (length (t_res th)))
  | SPre a k => Some (TPre (call_of a) k)
  | SPost a k o => Some (TPost (call_of a) k o)
  | MSPre _ _ good => let (c, k) := many_call good in Some (TPre c k)
  | MSPost _ good o => let (c, k) := many_call good in Some (TPost c k o)
  | RQPre _ _ => Some (TPre CQuery QMARK)
  | RQPost _ _ _ => Some (TPost CQuery QMARK false)
  | RNext _ _ i _ => Some (TPre CNext i)
  | _ => None
  end.

Section Replay.
Variable cf : cfg.
Variable fl : flags.
Variable pos : key -> N.
Variable sz : key -> Z.

(** run the internal steps of [t] until the harness would see it at [target];
    also report whether an activation was taken while a Put was inside its window *)
Fixpoint advance (fuel : nat) (s : cst) (t : tid) (target : status) (early : bool) : option (cst * bool) :=
  match fuel with
  | O => None
  | S f =>
    let th := tget s t in
    match status_of th with
    | Some st => if status_eqb st target then Some (s, early) else None
    | None =>
      let stop_blocked :=
        match target, t_pc th with
        | TBlocked, TLock a k => negb (is_write a) || negb (can_lock s t k true)
        | TBlocked, MLock _ _ _ (k :: _) => negb (can_lock s t k true)
        | TBlocked, RMu _ _ _ => negb (mu_free s t)
        | _, _ => false
        end in
      if stop_blocked then Some (s, early) else
      let early' := early || match t_pc th with RActivate => negb (no_put_window s t) | _ => false end in
      match tstep cf fl pos sz s t with
      | Some s' => advance f s' t target early'
      | None => None
      end
    end
  end.

Definition apply_action (s : cst) (a : action) : option cst :=
  match a with
  | AStart t =>
      match t_pc (tget s t), t_ops (tget s t) with
      | PIdle, _ :: _ => tstep cf fl pos sz s t
      | _, _ => None
      end
  | ARel t =>
      match status_of (tget s t) with
      | Some (TPre _ _) | Some (TPost _ _ _) => tstep cf fl pos sz s t
      | _ => None
      end
  end.

Definition actor (a : action) : tid := match a with AStart t | ARel t => t end.

Definition is_blocked (st : status) : bool := match st with TBlocked => true | _ => false end.

(** threads in the order they are advanced: the acting thread, then those seen
    moving, then those seen blocked *)
Definition advance_order (a : action) (sts : list status) : list (tid * status) :=
  let l := combine (seq 0 (length sts)) sts in
  filter (fun p => fst p =? actor a) l
  ++ filter (fun p => negb (fst p =? actor a) && negb (is_blocked (snd p))) l
  ++ filter (fun p => negb (fst p =? actor a) && is_blocked (snd p)) l.

Fixpoint advance_all (s : cst) (l : list (tid * status)) (early : bool) : option (cst * bool) :=
  match l with
  | [] => Some (s, early)
  | (t, st) :: r =>
      match advance 64 s t st early with
      | Some (s', e') => advance_all s' r e'
      | None => None
      end
  end.

Fixpoint replay (s : cst) (tr : list cstep) (early : bool) : option (cst * bool) :=
  match tr with
  | [] => Some (s, early)
  | x :: r =>
      match apply_action s (a_act x) with
      | None => None
      | Some s1 =>
          match advance_all s1 (advance_order (a_act x) (a_status x)) early with
          | Some (s2, e2) => replay s2 r e2
          | None => None
          end
      end
  end.
End Replay.

(** the history of data operations read off the trace: call [i] of thread [t] is
    invoked by the [i]-th [AStart t] and has returned at the first step after
    which the thread is seen idle with more than [i] calls done *)
Definition starts_of (t : tid) (tr : list cstep) : list nat :=
  map fst (filter (fun p => match a_act (snd p) with AStart t' => t' =? t | _ => false end)
             (combine (seq 0 (length tr)) tr)).

Definition resp_of (t : tid) (i : nat) (tr : list cstep) : nat :=
  match filter (fun p => match nth t (a_status (snd p)) TBlocked with TIdle n => i <? n | _ => false end)
          (combine (seq 0 (length tr)) tr) with
  | (j, _) :: _ => j
  | [] => length tr
  end.

Definition is_data (o : op) : bool :=
  match o with ORead _ _ | OPut _ _ | ODelete _ _ | OPutMany _ _ => true | _ => false end.

Fixpoint thread_hist (t : tid) (i : nat) (ops : list op) (rs : list res) (starts : list nat) (tr : list cstep) : list hop :=
  match ops, rs, starts with
  | o :: ops', r :: rs', st :: starts' =>
      (if is_data o then [mkH o r st (resp_of t i tr)] else [])
      ++ thread_hist t (S i) ops' rs' starts' tr
  | _, _, _ => []
  end.

Definition history (c : conccase) : list hop :=
  let off := if c_bloom (k_cfg c) then 1 else 0 in
  flat_map (fun p => let t := fst p + off in
                     thread_hist t 0 (snd p) (nth t (k_results c) []) (starts_of t (k_trace c)) (k_trace c))
           (combine (seq 0 (length (k_progs c))) (k_progs c)).

Definition flags_today : flags := Build_flags true true.

Definition check_conc (c : conccase) : verdict :=
  let cf := k_cfg c in
  let masks := map mask_of (k_pos c) in
  let pos := fun k => nth k masks 0%N in
  let sz := fun k => nth k (k_sz c) 0%Z in
  let s0 := cinit cf (k_init c) (k_bn c) (k_bc c) (k_progs c) in
  let lin := linearizable sz (k_init c) (history c) in
  match match advance_all cf flags_today pos sz s0 (combine (seq 0 (length (k_st0 c))) (k_st0 c)) false with
        | Some (s1, e1) => replay cf flags_today pos sz s1 (k_trace c) e1
        | None => None
        end with
  | Some (s, early) =>
      let model_ok :=
        list_eqb (list_eqb res_eqb)
          (map (fun t => rev (t_res (tget s t))) (seq 0 (length (k_results c)))) (k_results c) in
      if lin then (if model_ok then VOk else VModelMismatch)
      else if model_ok && early then VKnown 1 else VSpecFail
  | None => if lin then VModelMismatch else VSpecFail
  end.

Inductive case := CSeq (c : seqcase) | CConc (c : conccase).

Definition check_case (c : case) : verdict :=
  match c with
  | CSeq q => check_seq q
  | CConc q => check_conc q
  end.
