(** C39 — multipart file serialization round-trips (files/multifilereader.go,
    files/multipartfile.go).

    Executable model of the mechanism, transcribed from the Go sources:
      multifilereader.go  Read (directory-stack walk, one part per entry, part
                          name = path.Join of the stack and the entry name),
                          addContentDisposition (mode / mtime / mtime-nsecs as
                          query parameters of the form name, file name
                          url.QueryEscape'd)
      multipartfile.go    fileName (QueryUnescape + path.Clean("/"+name)),
                          isChild / makeRelative, multipartIterator.Next
                          (implicit directories, "already entered" skip),
                          nextFile (content-type dispatch), fileInfo
      strconv / net/url / time: FormatUint/ParseUint (base 8, 32 bit),
                          FormatInt/ParseInt (base 10, 64 bit, clamping on
                          range errors), QueryEscape/QueryUnescape, ParseQuery,
                          time.Unix normalisation — all concrete.
    Trusted transport (not modelled): mime.ParseMediaType gives back the [name]
    and [filename] parameters as written, multipart boundaries delimit bodies.

    Bytes are [Z] in 0..255.  Paths are lists of components.
    Defect switch [fl] of the parser: [true] = fileInfo sets
    mtime = time.Unix(secs, nsecs) whenever the form name carries any parameter
    (the code before the repair, finding C39-1); [false] = mtime only when the
    [mtime] parameter is present.
    No proofs in this file. *)
From Coq Require Import List ZArith Bool String Ascii.
From V Require Import lib.Verdict.
Import ListNotations.
Open Scope Z_scope.

Definition bytes := list Z.

Fixpoint bs (s : string) : bytes :=
  match s with
  | EmptyString => []
  | String a r => Z.of_N (N_of_ascii a) :: bs r
  end.

Fixpoint list_eqb {A} (eqb : A -> A -> bool) (l1 l2 : list A) : bool :=
  match l1, l2 with
  | [], [] => true
  | a :: r1, b :: r2 => eqb a b && list_eqb eqb r1 r2
  | _, _ => false
  end.
Definition bytes_eqb : bytes -> bytes -> bool := list_eqb Z.eqb.
Definition is_nil {A} (l : list A) : bool := match l with [] => true | _ => false end.
Definition memb (c : Z) (s : bytes) : bool := existsb (Z.eqb c) s.

(** ---------- strconv ---------- *)
Fixpoint to_digits (fuel : nat) (b n : Z) : list Z :=
  match fuel with
  | O => []
  | S f => if n <? b then [n] else to_digits f b (n / b) ++ [n mod b]
  end.
(** strconv.FormatUint(n, b) for b <= 10 and 0 <= n < 2^64 (64 digits of fuel: [P_C39.digits_roundtrip]) *)
Definition digit_chars (b n : Z) : bytes := map (fun d => 48 + d) (to_digits 64 b n).
(** "0" + strconv.FormatUint(mode, 8) *)
Definition fmt_oct0 (m : Z) : bytes := 48 :: digit_chars 8 m.
(** strconv.FormatInt(z, 10) *)
Definition fmt_int (z : Z) : bytes := if z <? 0 then 45 :: digit_chars 10 (- z) else digit_chars 10 z.

Fixpoint parse_digits (b acc : Z) (s : bytes) : option Z :=
  match s with
  | [] => Some acc
  | c :: r => if (48 <=? c) && (c <? 48 + b) then parse_digits b (acc * b + (c - 48)) r else None
  end.
(** strconv.ParseUint(s, b, bits), b <= 10; [None] = syntax or range error *)
Definition parse_uint (b bits : Z) (s : bytes) : option Z :=
  match s with
  | [] => None
  | _ => match parse_digits b 0 s with
         | Some v => if v <? 2 ^ bits then Some v else None
         | None => None
         end
  end.
(** strconv.ParseInt(s, 10, 64): value, or the clamped value of a range error, or a syntax error *)
Inductive pint := POk (v : Z) | PRange (clamp : Z) | PSyntax.
Definition parse_int64 (s : bytes) : pint :=
  match s with
  | [] => PSyntax
  | c :: r =>
      let neg := c =? 45 in
      let body := if (c =? 45) || (c =? 43) then r else s in
      match body with
      | [] => PSyntax
      | _ => match parse_digits 10 0 body with
             | None => PSyntax
             | Some un =>
                 if neg then (if un <=? 2 ^ 63 then POk (- un) else PRange (- 2 ^ 63))
                 else (if un <? 2 ^ 63 then POk un else PRange (2 ^ 63 - 1))
             end
      end
  end.

(** ---------- time ---------- *)
Definition ZERO_SEC : Z := -62135596800.   (* time.Time{}.Unix() *)
Definition wrap64 (z : Z) : Z := (z + 2 ^ 63) mod 2 ^ 64 - 2 ^ 63.
(** time.Unix(sec, nsec) observed as (Unix(), Nanosecond()) *)
Definition unix_time (sec nsec : Z) : Z * Z :=
  if (nsec <? 0) || (1000000000 <=? nsec) then
    let n := Z.quot nsec 1000000000 in
    let sec' := sec + n in
    let nsec' := nsec - n * 1000000000 in
    if nsec' <? 0 then (wrap64 (sec' - 1), nsec' + 1000000000) else (wrap64 sec', nsec')
  else (sec, nsec).

(** ---------- net/url ---------- *)
Definition unreserved (c : Z) : bool :=
  ((97 <=? c) && (c <=? 122)) || ((65 <=? c) && (c <=? 90)) || ((48 <=? c) && (c <=? 57)) ||
  (c =? 45) || (c =? 95) || (c =? 46) || (c =? 126).
Definition hexd (d : Z) : Z := if d <? 10 then 48 + d else 55 + d.       (* "0123456789ABCDEF"[d] *)
Definition unhex (c : Z) : option Z :=
  if (48 <=? c) && (c <=? 57) then Some (c - 48)
  else if (65 <=? c) && (c <=? 70) then Some (c - 55)
  else if (97 <=? c) && (c <=? 102) then Some (c - 87)
  else None.
Definition esc_byte (b : Z) : bytes :=
  if unreserved b then [b] else if b =? 32 then [43] else [37; hexd (b / 16); hexd (b mod 16)].
(** url.QueryEscape *)
Definition escape (s : bytes) : bytes := flat_map esc_byte s.
(** url.QueryUnescape; [None] = EscapeError *)
Fixpoint unescape (s : bytes) : option bytes :=
  match s with
  | [] => Some []
  | c :: r =>
      if c =? 37 then
        match r with
        | h :: l :: r' =>
            match unhex h, unhex l, unescape r' with
            | Some a, Some b, Some u => Some ((16 * a + b) :: u)
            | _, _, _ => None
            end
        | _ => None
        end
      else match unescape r with
           | Some u => Some ((if c =? 43 then 32 else c) :: u)
           | None => None
           end
  end.

(** strings.Split(s, sep) for a one-byte separator: never empty *)
Fixpoint split_on (sep : Z) (s : bytes) : list bytes :=
  match s with
  | [] => [[]]
  | c :: r =>
      if c =? sep then [] :: split_on sep r
      else match split_on sep r with
           | h :: t => (c :: h) :: t
           | [] => [[c]]
           end
  end.
(** strings.Cut(s, sep) *)
Fixpoint cut (sep : Z) (s : bytes) : option (bytes * bytes) :=
  match s with
  | [] => None
  | c :: r => if c =? sep then Some ([], r)
              else match cut sep r with Some (a, b) => Some (c :: a, b) | None => None end
  end.
Fixpoint join_with (sep : Z) (l : list bytes) : bytes :=
  match l with
  | [] => []
  | [a] => a
  | a :: r => a ++ sep :: join_with sep r
  end.

(** url.ParseQuery; [None] = it returned an error *)
Fixpoint parse_segments (segs : list bytes) : option (list (bytes * bytes)) :=
  match segs with
  | [] => Some []
  | seg :: r =>
      let rest := parse_segments r in
      if memb 59 seg then None
      else if is_nil seg then rest
      else let (k, v) := match cut 61 seg with Some kv => kv | None => (seg, []) end in
           match unescape k, unescape v, rest with
           | Some k', Some v', Some m => Some ((k', v') :: m)
           | _, _, _ => None
           end
  end.
Definition parse_query (q : bytes) : option (list (bytes * bytes)) :=
  match q with [] => Some [] | _ => parse_segments (split_on 38 q) end.
Fixpoint lookup (k : bytes) (m : list (bytes * bytes)) : option bytes :=
  match m with
  | [] => None
  | (k', v) :: r => if bytes_eqb k k' then Some v else lookup k r
  end.
(** url.Values.Encode for keys given in sorted order *)
Definition encode_query (kvs : list (bytes * bytes)) : bytes :=
  join_with 38 (map (fun kv => escape (fst kv) ++ 61 :: escape (snd kv)) kvs).

(** ---------- path ---------- *)
Definition clean_step (stk : list bytes) (comp : bytes) : list bytes :=
  if is_nil comp || bytes_eqb comp [46] then stk
  else if bytes_eqb comp [46; 46] then tl stk
  else comp :: stk.
(** path.Clean("/" + s) as its list of components ("/" = []) *)
Definition clean_abs (s : bytes) : list bytes := rev (fold_left clean_step (split_on 47 s) []).

Fixpoint prefix_eqb (p c : list bytes) : bool :=
  match p, c with
  | [], _ => true
  | a :: p', b :: c' => bytes_eqb a b && prefix_eqb p' c'
  | _ :: _, [] => false
  end.
(** isChild(child, parent) on cleaned absolute paths: strings.HasPrefix(child, dirName(parent)) *)
Definition is_child (c p : list bytes) : bool :=
  match p with
  | [] => true                                   (* dirName("/") = "/" is a prefix of every cleaned path, "/" included *)
  | _ => (Z.of_nat (List.length p) <? Z.of_nat (List.length c)) && prefix_eqb p c
  end.

(** ---------- trees and parts ---------- *)
Record meta := { m_mode : Z; m_sec : Z; m_nsec : Z }.   (* mode 0 = unset; (ZERO_SEC, 0) = unset time *)
Definition meta0 : meta := {| m_mode := 0; m_sec := ZERO_SEC; m_nsec := 0 |}.
Definition LINK_MODE : Z := 134218239.                   (* os.ModeSymlink | os.ModePerm = 0o1000000777 *)
Definition time_is_zero (m : meta) : bool := (m_sec m =? ZERO_SEC) && (m_nsec m =? 0).

Inductive node :=
| NFile (m : meta) (content : bytes)
| NLink (m : meta) (target : bytes)       (* *Symlink: Mode() is always LINK_MODE *)
| NDir (m : meta) (es : list (bytes * node)).
Definition entries := list (bytes * node).

Inductive disp := DForm | DAttach | DBad.   (* form-data / any other disposition / unparseable or missing header *)
Inductive ctype := CtDir | CtFormData | CtLink | CtFile | CtNone | CtOther | CtBad.
Record part := { p_disp : disp; p_formname : bytes; p_filename : bytes; p_ctype : ctype; p_body : bytes }.

Definition K_MODE := Eval vm_compute in bs "mode".
Definition K_MTIME := Eval vm_compute in bs "mtime".
Definition K_NSECS := Eval vm_compute in bs "mtime-nsecs".
Definition S_FILE := Eval vm_compute in bs "file".

(** ---------- serializer (MultiFileReader) ---------- *)
Definition meta_params (m : meta) : list (bytes * bytes) :=
  (if m_mode m =? 0 then [] else [(K_MODE, fmt_oct0 (m_mode m))]) ++
  (if time_is_zero m then []
   else (K_MTIME, fmt_int (m_sec m)) ::
        (if 0 <? m_nsec m then [(K_NSECS, fmt_int (m_nsec m))] else [])).
Definition formname_of (m : meta) : bytes :=
  match meta_params m with
  | [] => S_FILE
  | ps => S_FILE ++ 63 :: encode_query ps
  end.
Definition mk_part (form : bool) (m : meta) (path : list bytes) (ct : ctype) (body : bytes) : part :=
  {| p_disp := if form then DForm else DAttach;
     p_formname := if form then formname_of m else [];
     p_filename := escape (join_with 47 path);
     p_ctype := ct; p_body := body |}.

Fixpoint ser_node (form : bool) (path : list bytes) (nd : node) {struct nd} : list part :=
  match nd with
  | NFile m c => [mk_part form m path CtFile c]
  | NLink m t => [mk_part form m path CtLink t]
  | NDir m es =>
      mk_part form m path CtDir [] ::
      (fix go (l : entries) : list part :=
         match l with
         | [] => []
         | e :: r => ser_node form (path ++ [fst e]) (snd e) ++ go r
         end) es
  end.
Fixpoint ser_entries (form : bool) (path : list bytes) (es : entries) : list part :=
  match es with
  | [] => []
  | e :: r => ser_node form (path ++ [fst e]) (snd e) ++ ser_entries form path r
  end.
(** what NewMultiFileReader(dir, form, _) emits for a root directory with entries [es] *)
Definition serialize (form : bool) (es : entries) : list part := ser_entries form [] es.

(** text of the Content-Disposition header (compared byte for byte with the real stream) *)
Definition disp_text (p : part) : bytes :=
  match p_disp p with
  | DForm => bs "form-data; name=""" ++ p_formname p ++ bs """; filename=""" ++ p_filename p ++ [34]
  | DAttach => bs "attachment; filename=""" ++ p_filename p ++ [34]
  | DBad => []
  end.

(** ---------- parser (multipartDirectory / multipartIterator / multipartWalker) ---------- *)
(** fileName(part): [None] = "" (header did not parse), otherwise the cleaned absolute path *)
Definition fname (p : part) : option (list bytes) :=
  match p_disp p with
  | DBad => None
  | _ => let raw := p_filename p in
         Some (clean_abs (match unescape raw with Some u => u | None => raw end))
  end.

Definition nsecs_of (kv : list (bytes * bytes)) : Z :=
  match lookup K_NSECS kv with
  | Some v => match parse_int64 v with POk n => n | PRange c => c | PSyntax => 0 end
  | None => 0
  end.
Definition with_time (mode : Z) (t : Z * Z) : meta := {| m_mode := mode; m_sec := fst t; m_nsec := snd t |}.

(** fileInfo(name, part) observed through Mode()/ModTime() (a nil stat reads as [meta0]) *)
Definition file_info (fl : bool) (p : part) : meta :=
  match p_disp p with
  | DForm =>
      match cut 63 (p_formname p) with
      | None => meta0
      | Some (_, q) =>
          match parse_query q with
          | None => meta0
          | Some kv =>
              let mode := match lookup K_MODE kv with
                          | Some v => match parse_uint 8 32 v with Some m => m | None => 0 end
                          | None => 0
                          end in
              match lookup K_MTIME kv with
              | Some v =>
                  match parse_int64 v with
                  | POk s => with_time mode (unix_time s (nsecs_of kv))
                  | _ => with_time mode (ZERO_SEC, 0)
                  end
              | None =>
                  if fl then with_time mode (unix_time 0 (nsecs_of kv))     (* defect C39-1 *)
                  else with_time mode (ZERO_SEC, 0)
              end
          end
      end
  | _ => meta0
  end.
Definition link_meta (m : meta) : meta := {| m_mode := LINK_MODE; m_sec := m_sec m; m_nsec := m_nsec m |}.

(** A full pre-order walk of the parsed directory by a consumer that reads every
    file to the end and aborts on the first iterator error.
    Result: entries of the directory at path [P], the parts not consumed, and
    whether the walk was aborted by an error.  [cur] = the iterator's curName
    ([] = none).  [None] = out of fuel ([P_C39.pdir_total]: never with [fuel_of]). *)
Definition pres := (entries * list part * bool)%type.

Fixpoint pdir (fl : bool) (fuel : nat) (P : list bytes) (cur : bytes) (ps : list part) {struct fuel} : option pres :=
  match fuel with
  | O => None
  | S f =>
    match ps with
    | [] => Some ([], [], false)
    | p :: rest =>
      match fname p with
      | None => Some ([], ps, false)
      | Some nm =>
        if negb (is_child nm P) then Some ([], ps, false)
        else if negb (is_nil cur) && is_child nm (P ++ [cur]) then pdir fl f P cur rest
        else
          let continue_with (c : bytes) (nd : node) (rest' : list part) : option pres :=
            match pdir fl f P c rest' with
            | None => None
            | Some (es2, rest2, err2) => Some ((c, nd) :: es2, rest2, err2)
            end in
          match skipn (List.length P) nm with
          | c :: _ :: _ =>
              (* implicit directory: the part is not consumed *)
              match pdir fl f (P ++ [c]) [] ps with
              | None => None
              | Some (es, rest', err) =>
                  if err then Some ([(c, NDir meta0 es)], rest', true)
                  else continue_with c (NDir meta0 es) rest'
              end
          | rel =>
              let c := match rel with [c] => c | _ => [] end in
              match p_ctype p with
              | CtBad => Some ([], rest, true)
              | CtDir | CtFormData =>
                  match pdir fl f nm [] rest with
                  | None => None
                  | Some (es, rest', err) =>
                      if err then Some ([(c, NDir (file_info fl p) es)], rest', true)
                      else continue_with c (NDir (file_info fl p) es) rest'
                  end
              | CtLink => continue_with c (NLink (link_meta (file_info fl p)) (p_body p)) rest
              | _ => continue_with c (NFile (file_info fl p) (p_body p)) rest
              end
          end
      end
    end
  end.

Definition ncomp (p : part) : nat := match fname p with Some nm => List.length nm | None => 0 end.
Fixpoint weight (ps : list part) : nat :=
  match ps with [] => 0 | p :: r => S (ncomp p) + weight r end.
Definition fuel_of (ps : list part) : nat := S (weight ps).

(** NewFileFromPartReader(...) walked to the end: (root entries, aborted) *)
Definition parse (fl : bool) (ps : list part) : option (entries * bool) :=
  match pdir fl (fuel_of ps) [] [] ps with
  | Some (es, _, err) => Some (es, err)
  | None => None
  end.

(** ---------- specification ---------- *)
(** what must come back: the tree itself in form mode; names, types, contents and
    link targets with every mode/time unset in non-form ("attachment") mode *)
Fixpoint expect_node (form : bool) (nd : node) : node :=
  match nd with
  | NFile m c => NFile (if form then m else meta0) c
  | NLink m t => NLink (if form then m else link_meta meta0) t
  | NDir m es =>
      NDir (if form then m else meta0)
           ((fix go (l : entries) : entries :=
               match l with [] => [] | e :: r => (fst e, expect_node form (snd e)) :: go r end) es)
  end.
Fixpoint expect (form : bool) (es : entries) : entries :=
  match es with [] => [] | e :: r => (fst e, expect_node form (snd e)) :: expect form r end.

Definition byte_ok (b : Z) : bool := (0 <=? b) && (b <? 256).
(** a valid entry name: non-empty bytes, no '/', not "." or ".." *)
Definition valid_name (n : bytes) : bool :=
  negb (is_nil n) && forallb byte_ok n && negb (memb 47 n) &&
  negb (bytes_eqb n [46]) && negb (bytes_eqb n [46; 46]).
(** what os.FileMode / time.Time can hold *)
Definition wf_meta (m : meta) : bool :=
  (0 <=? m_mode m) && (m_mode m <? 2 ^ 32) &&
  (- 2 ^ 63 <=? m_sec m) && (m_sec m <? 2 ^ 63) && (0 <=? m_nsec m) && (m_nsec m <? 1000000000).
Fixpoint valid_node (nd : node) : bool :=
  match nd with
  | NFile m _ => wf_meta m
  | NLink m _ => wf_meta m && (m_mode m =? LINK_MODE)
  | NDir m es =>
      wf_meta m &&
      (fix go (l : entries) : bool :=
         match l with [] => true | e :: r => valid_name (fst e) && valid_node (snd e) && go r end) es
  end.
Fixpoint valid_entries (es : entries) : bool :=
  match es with [] => true | e :: r => valid_name (fst e) && valid_node (snd e) && valid_entries r end.

(** ---------- correspondence ---------- *)
Definition meta_eqb (a b : meta) : bool :=
  (m_mode a =? m_mode b) && (m_sec a =? m_sec b) && (m_nsec a =? m_nsec b).
Fixpoint node_eqb (a b : node) {struct a} : bool :=
  match a, b with
  | NFile m c, NFile m' c' => meta_eqb m m' && bytes_eqb c c'
  | NLink m t, NLink m' t' => meta_eqb m m' && bytes_eqb t t'
  | NDir m es, NDir m' es' =>
      meta_eqb m m' &&
      (fix go (l l' : entries) : bool :=
         match l, l' with
         | [], [] => true
         | e :: r, e' :: r' => bytes_eqb (fst e) (fst e') && node_eqb (snd e) (snd e') && go r r'
         | _, _ => false
         end) es es'
  | _, _ => false
  end.
Definition entries_eqb (a b : entries) : bool :=
  list_eqb (fun e e' => bytes_eqb (fst e) (fst e') && node_eqb (snd e) (snd e')) a b.
Definition res_eqb (a : option (entries * bool)) (es : entries) (err : bool) : bool :=
  match a with
  | Some (es', err') => entries_eqb es' es && Bool.eqb err' err
  | None => false
  end.

Definition ctype_eqb (a b : ctype) : bool :=
  match a, b with
  | CtDir, CtDir | CtFormData, CtFormData | CtLink, CtLink | CtFile, CtFile
  | CtNone, CtNone | CtOther, CtOther | CtBad, CtBad => true
  | _, _ => false
  end.
(** a raw part read back from the real stream: Content-Disposition text, content type class, body *)
Definition raw := (bytes * ctype * bytes)%type.
Definition raw_of (p : part) : raw := (disp_text p, p_ctype p, p_body p).
Definition raw_eqb (a b : raw) : bool :=
  let '(d, c, y) := a in let '(d', c', y') := b in
  bytes_eqb d d' && ctype_eqb c c' && bytes_eqb y y'.

(** A case written by the harness:
    - [CTree form es raws out err]: the real tree [es] was serialized by
      NewMultiFileReader(_, form, _); [raws] are the parts of the produced stream;
      [out]/[err] is what a full walk of NewFileFromPartReader over that stream saw.
    - [CParse ps out err]: a hand-made stream with the headers/bodies [ps] was
      parsed and walked. *)
Inductive case :=
| CTree (form : bool) (es : entries) (raws : list raw) (out : entries) (err : bool)
| CParse (ps : list part) (out : entries) (err : bool).

Definition check_case (c : case) : verdict :=
  match c with
  | CTree form es raws out err =>
      let ps := serialize form es in
      let ser_ok := list_eqb raw_eqb (map raw_of ps) raws in
      let off := parse false ps in
      let on := parse true ps in
      let eq_off := res_eqb off out err in
      let eq_on := res_eqb on out err in
      if valid_entries es then
        let spec_ok := entries_eqb out (expect form es) && negb err in
        if spec_ok then verdict_of (ser_ok && (eq_off || eq_on)) true
        else if ser_ok && eq_on && negb eq_off && res_eqb off (expect form es) false then VKnown 1
        else VSpecFail
      else verdict_of (ser_ok && (eq_off || eq_on)) true
  | CParse ps out err =>
      verdict_of (res_eqb (parse false ps) out err || res_eqb (parse true ps) out err) true
  end.
