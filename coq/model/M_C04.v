(** C04 — only allowlisted hashes and digest sizes enter or leave the block service.

    Model of the mechanism (no proofs in this file):
    - verifcid/allowlist.go: [defaultAllowlist] (IsAllowed / MinDigestSize / MaxDigestSize),
      [allowlist] (allowset map + optional override), and a constant user implementation of the
      [Allowlist] interface ([AConst]) so that other minima / maxima than 20 / 128 are reachable;
    - verifcid/cid.go [ValidateCid]: the decision on (code, length);
    - blockservice/blockservice.go: lib/BlockSvc.v instantiated with that validator.
    The three default-allowlist functions are NOT hand-written: the model uses gen/Gen_C04.v,
    re-translated from the Go source on every run by tools/go2coq.  The explicit table below
    ([default_is_allowed] / [default_min] / [default_max]) is the SPECIFICATION side: proofs/P_C04.v
    proves the translated functions equal to it, so an edit of the Go functions breaks a proof, and
    the correspondence check then exhibits the (code, length) on which the code leaves the table. *)
From Coq Require Import List ZArith Bool NArith.
From V Require Import lib.Verdict lib.BlockSvc gen.Gen_C04.
Import ListNotations.
Open Scope Z_scope.

(** go-multihash constants (multihash.go) *)
Definition IDENTITY := 0x00.  Definition SHA1 := 0x11.      Definition SHA2_256 := 0x12.
Definition SHA2_512 := 0x13.  Definition SHA3_512 := 0x14.  Definition SHA3_384 := 0x15.
Definition SHA3_256 := 0x16.  Definition SHA3_224 := 0x17.  Definition SHAKE_256 := 0x19.
Definition KECCAK_224 := 0x1a. Definition KECCAK_256 := 0x1b. Definition KECCAK_384 := 0x1c.
Definition KECCAK_512 := 0x1d. Definition BLAKE3 := 0x1e.    Definition DBL_SHA2_256 := 0x56.
Definition BLAKE2B_MIN := 0xb201. Definition BLAKE2B_MAX := 0xb240.
Definition BLAKE2S_MIN := 0xb241. Definition BLAKE2S_MAX := 0xb260.

(** defaultAllowlist *)
Definition default_allowed_codes : list Z :=
  [SHA2_256; SHA2_512; SHAKE_256; DBL_SHA2_256; BLAKE3; IDENTITY;
   SHA3_224; SHA3_256; SHA3_384; SHA3_512; KECCAK_224; KECCAK_256; KECCAK_384; KECCAK_512; SHA1].
Definition zin (x : Z) (l : list Z) : bool := existsb (Z.eqb x) l.
Definition default_is_allowed (code : Z) : bool :=
  if zin code default_allowed_codes then true
  else if (BLAKE2B_MIN + 19 <=? code) && (code <=? BLAKE2B_MAX) then true
  else if (BLAKE2S_MIN + 19 <=? code) && (code <=? BLAKE2S_MAX) then true
  else false.
Definition default_min (code : Z) : Z := if code =? IDENTITY then 0 else 20.
Definition default_max (code : Z) : Z := 128.

(** the configured allowlist *)
Inductive alist :=
| ADefault
| AConst (allowed : list Z) (mn mx : Z)
| ACustom (override : option alist) (allowset : list (Z * bool)).

Fixpoint assoc (k : Z) (m : list (Z * bool)) : option bool :=
  match m with
  | [] => None
  | (k', v) :: r => if k =? k' then Some v else assoc k r
  end.

(** model: the allowlist implementations of allowlist.go; the default one is the translated Go *)
Fixpoint is_allowed (al : alist) (code : Z) : bool :=
  match al with
  | ADefault => defaultAllowlist_IsAllowed code
  | AConst l _ _ => zin code l
  | ACustom ov m =>
      match assoc code m with
      | Some good => good
      | None => match ov with Some o => is_allowed o code | None => false end
      end
  end.
Fixpoint min_digest (al : alist) (code : Z) : Z :=
  match al with
  | ADefault => defaultAllowlist_MinDigestSize code
  | AConst _ mn _ => mn
  | ACustom (Some o) _ => min_digest o code
  | ACustom None _ => defaultAllowlist_MinDigestSize code
  end.
Fixpoint max_digest (al : alist) (code : Z) : Z :=
  match al with
  | ADefault => defaultAllowlist_MaxDigestSize code
  | AConst _ _ mx => mx
  | ACustom (Some o) _ => max_digest o code
  | ACustom None _ => defaultAllowlist_MaxDigestSize code
  end.

(** specification: what "allowed by the configured allowlist" and "allowed minimum / maximum for
    that function" mean — the default allowlist is the explicit table *)
Fixpoint sp_allowed (al : alist) (code : Z) : bool :=
  match al with
  | ADefault => default_is_allowed code
  | AConst l _ _ => zin code l
  | ACustom ov m =>
      match assoc code m with
      | Some good => good
      | None => match ov with Some o => sp_allowed o code | None => false end
      end
  end.
Fixpoint sp_min (al : alist) (code : Z) : Z :=
  match al with
  | ADefault => default_min code
  | AConst _ mn _ => mn
  | ACustom (Some o) _ => sp_min o code
  | ACustom None _ => default_min code
  end.
Fixpoint sp_max (al : alist) (code : Z) : Z :=
  match al with
  | ADefault => default_max code
  | AConst _ _ mx => mx
  | ACustom (Some o) _ => sp_max o code
  | ACustom None _ => default_max code
  end.

(** ValidateCid on the prefix (MhType, MhLength) *)
Definition validate (al : alist) (code len : Z) : verr :=
  if negb (is_allowed al code) then EInsecure
  else if len <? min_digest al code then ETooSmall
  else if max_digest al code <? len then ETooLarge
  else EOk.

(** ---------- specification ---------- *)
(** what the property says the validator decides *)
Definition valid_spec (al : alist) (code len : Z) : bool :=
  sp_allowed al code && (sp_min al code <=? len) && (len <=? sp_max al code).
Definition cid_ok (al : alist) (c : cid) : bool := valid_spec al (c_code c) (c_len c).
Definition mh_ok (al : alist) (m : mh) : bool := let '(code, len, _) := m in valid_spec al code len.
Definition store_clean (al : alist) (s : store) : bool := forallb (fun e => mh_ok al (fst e)) s.

(** no call that stores or fetches, and no result, carries a CID the validator rejects *)
Fixpoint ev_clean (al : alist) (e : ev) : bool :=
  match e with
  | EvForeign e' => ev_clean al e'
  | EvPut b => cid_ok al (b_cid b)
  | EvPutMany bs | EvNotify bs => forallb (fun b => cid_ok al (b_cid b)) bs
  | EvFetch1 _ c => cid_ok al c
  | EvFetchN _ cs => forallb (cid_ok al) cs
  | EvHas _ | EvGet _ | EvDel _ | EvNewSession => true
  end.
Definition out_clean (al : alist) (o : op) (r : out) : bool :=
  match r with
  | RAdd RNil =>
      match o with
      | OAdd b => cid_ok al (b_cid b)
      | OAddMany bs => forallb (fun b => cid_ok al (b_cid b)) bs
      | _ => true
      end
  | RAdd _ => true
  | RGet _ (Some b) => cid_ok al (b_cid b)
  | RGet _ None => true
  | RGetMany bs => forallb (fun p => cid_ok al (b_cid (fst p))) bs
  | RDel => true
  end.
Definition step_clean (al : alist) (o : op) (evs : list ev) (r : out) (s' : store) : bool :=
  forallb (ev_clean al) evs && out_clean al o r && store_clean al s'.

(** ---------- correspondence cases ---------- *)
Record config := { cf_al : alist; cf_checkfirst : bool; cf_ex : exkind }.
(** the code as it is now: exchange blocks are compared with the request (fix C05-1),
    their bytes are not re-hashed (C05-2, not a concern of C04) *)
Definition code_flags : flags := {| trust_cid := false; trust_hash := true |}.
Definition svc_step (cf : config) :=
  step (validate (cf_al cf)) (cf_checkfirst cf) (cf_ex cf) code_flags.

(** one observed operation: the op with its oracles, the faults injected, and what the
    real block service did: calls made, result, blockstore content afterwards *)
Record obs := { o_op : op; o_faults : faults; o_evs : list ev; o_out : out; o_store : store }.

Fixpoint rle_expand (l : list (verr * nat)) : list verr :=
  match l with
  | [] => []
  | (v, n) :: r => repeat v n ++ rle_expand r
  end.
Fixpoint validate_from (al : alist) (code : Z) (len : Z) (n : nat) : list verr :=
  match n with
  | O => []
  | S n' => validate al code len :: validate_from al code (len + 1) n'
  end.
Definition verr_spec_ok (al : alist) (code len : Z) (v : verr) : bool :=
  Bool.eqb (vok v) (valid_spec al code len).
Fixpoint spec_from (al : alist) (code len : Z) (vs : list verr) : bool :=
  match vs with
  | [] => true
  | v :: r => verr_spec_ok al code len v && spec_from al code (len + 1) r
  end.

Inductive case :=
(** ValidateCid(al, cid with multihash code [code] and digest length l) for l = from, from+1, ...:
    observed verdicts, run-length encoded *)
| CValidate (al : alist) (code : Z) (from : Z) (res : list (verr * nat))
(** a history of block-service operations on an initially empty blockstore *)
| CTrace (cf : config) (h : list obs).

Fixpoint check_trace (cf : config) (s : store) (h : list obs) : bool * bool :=
  match h with
  | [] => (true, true)
  | o :: r =>
      let '(s', evs, res) := svc_step cf (o_faults o) s (o_op o) in
      let m := list_eqb ev_eqb evs (o_evs o) && out_eqb res (o_out o) && store_eqb s' (o_store o) in
      let sp := step_clean (cf_al cf) (o_op o) (o_evs o) (o_out o) (o_store o) in
      (* continue from the OBSERVED store so that one divergence is reported once *)
      let '(m', sp') := check_trace cf (o_store o) r in
      (m && m', sp && sp')
  end.

Definition check_case (c : case) : verdict :=
  match c with
  | CValidate al code from res =>
      let vs := rle_expand res in
      verdict_of (list_eqb verr_eqb (validate_from al code from (length vs)) vs)
                 (spec_from al code from vs)
  | CTrace cf h =>
      let '(m, sp) := check_trace cf [] h in verdict_of m sp
  end.
