(** C15 — UnixFS directories behave as name-to-entry maps.

    Executable model of the mechanism, transcribed from the Go sources:
      ipld/unixfs/hamt/util.go   hashBits.next / Next, mkmask
      ipld/unixfs/hamt/hamt.go   Shard.swapValue (insert, fork on slot collision,
                                 overwrite, remove with collapse), getValue,
                                 walkTrie (ForEachLink order), Node() / NewHamtFromDag
                                 (link names = hex prefix ++ key, bitfield)
      ipld/unixfs/io/directory.go BasicDirectory (links of one dag-pb node),
                                 HAMTDirectory (shard + totalLinks counter),
                                 DynamicDirectory.AddChild / RemoveChild (conversion
                                 both ways; the maxLinks part of the decision is exact,
                                 the size part of the decision is an oracle bit here —
                                 its exact arithmetic is the subject of C16).
    The hash function enters as a function [hidx : name -> list Z] giving the
    successive child indices read from the digest ([indices] computes it from digest
    bytes with the transcribed [next]); theorems quantify over every such function,
    so slot collisions of any depth are covered.
    No proofs in this file. *)
From Coq Require Import List ZArith Bool NArith String Ascii.
From V Require Import lib.Verdict.
Import ListNotations.
Open Scope Z_scope.

(* ------------------------------------------------------------------ *)
(** * hashBits (util.go) *)

(** [mkmask n] as a byte: (1 << n) - 1 truncated to 8 bits *)
Definition mkmask (n : Z) : Z := (Z.shiftl 1 n - 1) mod 256.

(** [hb.next(i)] on digest bytes [b] with [consumed] bits already read.
    Returns (value, consumed').  Fuel: the recursion strips at least one bit per
    call, [nextf_fuel] proves [S (Z.to_nat i)] suffices. *)
Fixpoint nextf (fuel : nat) (b : list Z) (consumed i : Z) : option (Z * Z) :=
  match fuel with
  | O => None
  | S fuel' =>
      let curbi := consumed / 8 in
      let leftb := 8 - consumed mod 8 in
      let curb := nth (Z.to_nat curbi) b 0 in
      if i =? leftb then Some (Z.land (mkmask i) curb, consumed + i)
      else if i <? leftb then
        let a := Z.land curb (mkmask leftb) in
        let b' := Z.land a (255 - mkmask (leftb - i)) in
        Some (Z.shiftr b' (leftb - i), consumed + i)
      else
        match nextf fuel' b (consumed + leftb) (i - leftb) with
        | None => None
        | Some (r, c') => Some (Z.shiftl (Z.land (mkmask leftb) curb) (i - leftb) + r, c')
        end
  end.

(** [hb.Next(i)]: error when fewer than [i] bits are left *)
Definition Next (b : list Z) (consumed i : Z) : option (Z * Z) :=
  if 8 * Z.of_nat (List.length b) <? consumed + i then None
  else nextf (S (Z.to_nat i)) b consumed i.

(** the successive child indices of a digest for [lg2] bits per level: what the
    chain of [Next(tableSizeLg2)] calls returns until it reports "too deep" *)
Fixpoint indices_from (fuel : nat) (lg2 : Z) (b : list Z) (consumed : Z) : list Z :=
  match fuel with
  | O => []
  | S fuel' =>
      match Next b consumed lg2 with
      | None => []
      | Some (r, c') => r :: indices_from fuel' lg2 b c'
      end
  end.
Definition indices (lg2 : Z) (b : list Z) : list Z :=
  if lg2 <=? 0 then [] else indices_from (8 * List.length b) lg2 b 0.

(** Logtwo(v) *)
Fixpoint logtwo_from (fuel : nat) (v acc : Z) : option Z :=
  match fuel with
  | O => None
  | S f => if v =? 1 then Some acc
           else if Z.odd v then None else logtwo_from f (v / 2) (acc + 1)
  end.
Definition logtwo (v : Z) : option Z := if v <=? 0 then None else logtwo_from 64 v 0.

(* ------------------------------------------------------------------ *)
(** * names and values *)
Definition name := string.
Definition name_eqb (a b : name) : bool := String.eqb a b.
(** names that are not printable ASCII are written by the harness as byte lists *)
Definition bs (l : list Z) : name := string_of_list_ascii (map (fun z => ascii_of_N (Z.to_N z)) l).

(** a directory entry's target: id of the child node (the harness numbers the
    child nodes it creates), byte length of its CID, cumulative size (Tsize) *)
Record val := mkval { v_id : Z; v_cidlen : Z; v_tsize : Z }.
Definition val_eqb (a b : val) : bool :=
  (v_id a =? v_id b) && (v_cidlen a =? v_cidlen b) && (v_tsize a =? v_tsize b).

Inductive err := ENotExist | EMaxLinks | ETooDeep | EOther.
Definition err_eqb (a b : err) : bool :=
  match a, b with
  | ENotExist, ENotExist | EMaxLinks, EMaxLinks | ETooDeep, ETooDeep | EOther, EOther => true
  | _, _ => false
  end.

(* ------------------------------------------------------------------ *)
(** * the HAMT (hamt.go), generic in the payload type *)
Section Trie.
  Context {V : Type}.

  (** a child of a shard is a value ("shard value": key + link) or a sub-shard;
      a shard's children are kept in child-index order (bitfield + slices) *)
  Inductive trie := Leaf (k : name) (v : V) | Node (cs : list (Z * trie)).
  Definition children := list (Z * trie).

  (** childer: has/get, insert (at the slice index), set, rm *)
  Fixpoint cget (i : Z) (cs : children) : option trie :=
    match cs with
    | [] => None
    | (j, t) :: r => if i =? j then Some t else cget i r
    end.
  Fixpoint cins (i : Z) (t : trie) (cs : children) : children :=
    match cs with
    | [] => [(i, t)]
    | (j, u) :: r => if i <? j then (i, t) :: cs else (j, u) :: cins i t r
    end.
  Fixpoint cset (i : Z) (t : trie) (cs : children) : children :=
    match cs with
    | [] => []
    | (j, u) :: r => if i =? j then (j, t) :: r else (j, u) :: cset i t r
    end.
  Fixpoint crm (i : Z) (cs : children) : children :=
    match cs with
    | [] => []
    | (j, u) :: r => if i =? j then r else (j, u) :: crm i r
    end.

  Variable hidx : name -> list Z.

  (** the fork of swapValue: a fresh shard that receives the new entry and the
      value that occupied the slot, recursively while they share the next index;
      [None] = "sharded directory too deep" (one digest is used up) *)
  Fixpoint fork (ik ig : list Z) (k : name) (v : V) (g : name) (w : V) : option trie :=
    match ik, ig with
    | i :: ik', j :: ig' =>
        if i =? j then
          match fork ik' ig' k v g w with
          | Some t => Some (Node [(i, t)])
          | None => None
          end
        else Some (Node (cins j (Leaf g w) [(i, Leaf k v)]))
    | _, _ => None
    end.

  Inductive sres :=
  | SOk (old : option V) (cs : children)
  | SNotExist
  | STooDeep.

  (** swapValue on the shard with children [cs] at depth [d]; [ix] = indices of
      [k] not yet consumed; [nv = None] removes *)
  Fixpoint swap (ix : list Z) (d : nat) (k : name) (nv : option V) (cs : children) : sres :=
    match ix with
    | [] => STooDeep
    | i :: ix' =>
        match cget i cs with
        | None =>
            match nv with
            | None => SNotExist
            | Some v => SOk None (cins i (Leaf k v) cs)
            end
        | Some (Leaf g w) =>
            if name_eqb g k then
              match nv with
              | None => SOk (Some w) (crm i cs)
              | Some v => SOk (Some w) (cset i (Leaf k v) cs)
              end
            else
              match nv with
              | None => SNotExist
              | Some v =>
                  match fork ix' (skipn (S d) (hidx g)) k v g w with
                  | Some t => SOk None (cset i t cs)
                  | None => STooDeep
                  end
              end
        | Some (Node cs') =>
            match swap ix' (S d) k nv cs' with
            | SOk old cs'' =>
                match nv with
                | Some _ => SOk old (cset i (Node cs'') cs)
                | None =>
                    match cs'' with
                    | [] => SOk old (crm i cs)                          (* empty sub-shard: prune *)
                    | [(_, Leaf g w)] => SOk old (cset i (Leaf g w) cs)  (* single value: collapse *)
                    | _ => SOk old (cset i (Node cs'') cs)
                    end
                end
            | e => e
            end
        end
    end.

  Inductive fres := FOk (v : V) | FNotExist | FTooDeep.

  (** getValue *)
  Fixpoint find (ix : list Z) (k : name) (cs : children) : fres :=
    match ix with
    | [] => FTooDeep
    | i :: ix' =>
        match cget i cs with
        | None => FNotExist
        | Some (Leaf g w) => if name_eqb g k then FOk w else FNotExist
        | Some (Node cs') => find ix' k cs'
        end
    end.

  (** walkTrie: every value in child-index order, depth first *)
  Fixpoint walk (t : trie) : list (name * V) :=
    match t with
    | Leaf k v => [(k, v)]
    | Node cs => flat_map (fun p => walk (snd p)) cs
    end.
End Trie.
Arguments trie : clear implicits.
Arguments children : clear implicits.
Arguments sres : clear implicits.
Arguments fres : clear implicits.

(* ------------------------------------------------------------------ *)
(** * serialized form (Shard.Node / NewHamtFromDag) *)

(** a dag-pb shard node: link name under which the parent links it, the set bits of
    the bitfield in increasing order, the links in node order; a value link carries
    the name [prefix ++ key] *)
Inductive pnode :=
| PLeaf (nm : string) (v : val)
| PNode (nm : string) (bits : list Z) (links : list pnode).

Definition hexdigit (d : Z) : ascii :=
  ascii_of_nat (Z.to_nat (if d <? 10 then 48 + d else 55 + d)).
(** fmt.Sprintf("%0<n>X", x) for 0 <= x < 16^n *)
Fixpoint hexpad (n : nat) (x : Z) : string :=
  match n with
  | O => EmptyString
  | S n' => (hexpad n' (x / 16) ++ String (hexdigit (x mod 16)) EmptyString)%string
  end.

Fixpoint to_node (pad : nat) (nm : string) (t : trie val) : pnode :=
  match t with
  | Leaf k v => PLeaf (nm ++ k)%string v
  | Node cs => PNode nm (map fst cs)
                 (map (fun p => to_node pad (hexpad pad (fst p)) (snd p)) cs)
  end.

Definition drop (n : nat) (s : string) : string := substring n (String.length s - n) s.

(** loading: a link whose name is exactly [pad] long is a sub-shard, a longer one a
    value with key = name minus prefix (childLinkType / makeShardValue); the child
    index of the n-th link is the n-th set bit (makeChilder).  A value link whose
    name is only [pad] long (empty key) would be loaded as a shard and fail. *)
Fixpoint zip_children (bs : list Z) (ts : list (option (trie val))) : option (children val) :=
  match bs, ts with
  | [], [] => Some []
  | b :: bs', Some t :: ts' =>
      match zip_children bs' ts' with Some r => Some ((b, t) :: r) | None => None end
  | _, _ => None
  end.

Fixpoint from_node (pad : nat) (n : pnode) : option (trie val) :=
  match n with
  | PLeaf nm v =>
      if (String.length nm <=? pad)%nat then None else Some (Leaf (drop pad nm) v)
  | PNode nm bits links =>
      match zip_children bits (map (from_node pad) links) with
      | Some cs => Some (Node cs)
      | None => None
      end
  end.

(* ------------------------------------------------------------------ *)
(** * BasicDirectory: the links of one dag-pb node *)
Definition blinks := list (name * val).

Fixpoint bget (k : name) (l : blinks) : option val :=
  match l with
  | [] => None
  | (g, w) :: r => if name_eqb g k then Some w else bget k r
  end.
(** RemoveNodeLink drops every link of that name *)
Definition bdel (k : name) (l : blinks) : blinks :=
  filter (fun p => negb (name_eqb (fst p) k)) l.

(** BasicDirectory.RemoveChild *)
Definition basic_remove (k : name) (l : blinks) : blinks + err :=
  match bget k l with
  | None => inr ENotExist
  | Some _ => inl (bdel k l)
  end.
(** BasicDirectory.AddChild -> addLinkChild; totalLinks of a basic directory is the
    number of links of its node *)
Definition basic_add (ml : Z) (k : name) (v : val) (l : blinks) : blinks + err :=
  match bget k l with
  | Some _ => inl (bdel k l ++ [(k, v)])
  | None =>
      if (0 <? ml) && (ml <? Z.of_nat (List.length l) + 1) then inr EMaxLinks
      else inl (l ++ [(k, v)])
  end.

(** ProtoNode.Links() sorts by name (stable, bytewise) *)
Fixpoint sort_ins (p : name * val) (l : blinks) : blinks :=
  match l with
  | [] => [p]
  | q :: r => if String.ltb (fst p) (fst q) then p :: l else q :: sort_ins p r
  end.
Definition sort_links (l : blinks) : blinks := fold_right sort_ins [] l.

(* ------------------------------------------------------------------ *)
(** * HAMTDirectory and DynamicDirectory *)
Record cfg := mkcfg {
  c_lg2 : Z;           (* tableSizeLg2 of the shards *)
  c_pad : nat;         (* maxpadlen: hex digits of width-1 *)
  c_maxlinks : Z;      (* maxLinks (0 = unset) *)
  c_enabled : bool;    (* effective HAMTShardingSize <> 0 *)
  c_nosize : bool;     (* SizeEstimationDisabled *)
  c_dynamic : bool     (* wrapped in a DynamicDirectory (else pure Basic / pure HAMT) *)
}.

(** defects of the current code: [f_reload_total] = NewHAMTDirectoryFromNode sets
    totalLinks to the number of links of the ROOT node instead of the number of
    entries (finding C15-1) *)
Record flags := mkflags { f_reload_total : bool }.

Inductive dir :=
| DBasic (l : blinks)
| DHamt (cs : children val) (tl : Z).    (* shard, totalLinks counter *)

Section Dir.
  Variable fl : flags.
  Variable c : cfg.
  Variable hidx : name -> list Z.

  Definition count (cs : children val) : Z := Z.of_nat (List.length (walk (Node cs))).

  (** HAMTDirectory.AddChild / RemoveChild *)
  Definition hamt_add (k : name) (v : val) (cs : children val) (tl : Z) : (children val * Z) + err :=
    match swap hidx (hidx k) 0 k (Some v) cs with
    | SOk old cs' => inl (cs', match old with None => tl + 1 | Some _ => tl end)
    | SNotExist => inr ENotExist
    | STooDeep => inr ETooDeep
    end.
  Definition hamt_remove (k : name) (cs : children val) (tl : Z) : (children val * Z) + err :=
    match swap hidx (hidx k) 0 k None cs with
    | SOk old cs' => inl (cs', match old with None => tl | Some _ => tl - 1 end)
    | SNotExist => inr ENotExist
    | STooDeep => inr ETooDeep
    end.

  (** switchToSharding: SetLink every link of the node (Links() order) into a fresh shard *)
  Fixpoint to_hamt (l : blinks) (cs : children val) (tl : Z) : (children val * Z) + err :=
    match l with
    | [] => inl (cs, tl)
    | (k, v) :: r =>
        match swap hidx (hidx k) 0 k (Some v) cs with
        | SOk _ cs' => to_hamt r cs' (tl + 1)
        | SNotExist => inr ENotExist
        | STooDeep => inr ETooDeep
        end
    end.
  (** switchToBasic: addLinkChild every value (ForEachLink order) into a fresh basic
      directory with maxLinks [ml] *)
  Fixpoint to_basic (ml : Z) (es : list (name * val)) (l : blinks) : blinks + err :=
    match es with
    | [] => inl l
    | (k, v) :: r =>
        match basic_add ml k v l with
        | inl l' => to_basic ml r l'
        | inr e => inr e
        end
    end.

  Definition present (k : name) (cs : children val) : bool :=
    match find (hidx k) k cs with FOk _ => true | _ => false end.

  (** needsToSwitchToBasicDir; [o] stands for the size part of the decision
      (sizeChange gate + sizeBelowThreshold) *)
  Definition to_basic_decision (o : bool) (adding : bool) (k : name) (cs : children val) (tl : Z) : bool :=
    if negb (c_enabled c) then false else
    let newTotal := tl + (if adding then 1 else 0) - (if present k cs then 1 else 0) in
    let ml := c_maxlinks c in
    let canMax := negb ((0 <? ml) && (ml <? newTotal)) in
    if c_nosize c then canMax && (0 <? ml) && (newTotal <=? ml)
    else o && canMax.

  (** needsToSwitchToHAMTDir *)
  Definition to_hamt_decision (o : bool) (k : name) (l : blinks) : bool :=
    if negb (c_enabled c) then false else
    let ml := c_maxlinks c in
    let exceeded := match bget k l with
                    | None => (0 <? ml) && (ml <? Z.of_nat (List.length l) + 1)
                    | Some _ => false end in
    if c_nosize c then exceeded else o || exceeded.

  Inductive op :=
  | OAdd (k : name) (v : val) (o : bool)
  | ORemove (k : name) (o : bool)
  | OFind (k : name)
  | OLinks | OForEach | OEnumAsync
  | OReload
  | ODump
  | OAddFail (k : name) (v : val).    (* AddChild while the DAG service refuses the write: error, nothing changes *)

  Inductive ob :=
  | BRes (e : option err)                 (* AddChild / RemoveChild: nil or error class *)
  | BFind (r : option Z)                  (* Find: id of the node returned / not exist *)
  | BList (l : list (name * val))         (* an enumeration *)
  | BReload (ok : bool)
  | BDumpBasic (l : list (name * val))    (* GetNode(): links of a Directory node *)
  | BDumpHamt (n : pnode).                (* GetNode(): the shard DAG *)

  Definition res_of {A} (r : A + err) (d : dir) (mk : A -> dir) : dir * ob :=
    match r with
    | inl a => (mk a, BRes None)
    | inr e => (d, BRes (Some e))
    end.

  Definition add_step (k : name) (v : val) (o : bool) (d : dir) : dir * ob :=
    match d with
    | DHamt cs tl =>
        if c_dynamic c && to_basic_decision o true k cs tl then
          match to_basic (c_maxlinks c) (walk (Node cs)) [] with
          | inr e => (d, BRes (Some e))
          | inl l => res_of (basic_add (c_maxlinks c) k v l) d DBasic
          end
        else res_of (hamt_add k v cs tl) d (fun p => DHamt (fst p) (snd p))
    | DBasic l =>
        if c_dynamic c && to_hamt_decision o k l then
          match to_hamt (sort_links l) [] 0 with
          | inr e => (d, BRes (Some e))
          | inl (cs, tl) => res_of (hamt_add k v cs tl) d (fun p => DHamt (fst p) (snd p))
          end
        else res_of (basic_add (c_maxlinks c) k v l) d DBasic
    end.

  Definition remove_step (k : name) (o : bool) (d : dir) : dir * ob :=
    match d with
    | DHamt cs tl =>
        if c_dynamic c && to_basic_decision o false k cs tl then
          let ml := c_maxlinks c in
          match to_basic (if 0 <? ml then ml + 1 else ml) (walk (Node cs)) [] with
          | inr e => (d, BRes (Some e))
          | inl l => res_of (basic_remove k l) d DBasic
          end
        else res_of (hamt_remove k cs tl) d (fun p => DHamt (fst p) (snd p))
    | DBasic l => res_of (basic_remove k l) d DBasic
    end.

  Definition entries (d : dir) : list (name * val) :=
    match d with
    | DBasic l => sort_links l
    | DHamt cs _ => walk (Node cs)
    end.

  Definition find_step (k : name) (d : dir) : ob :=
    match d with
    | DBasic l => BFind (option_map v_id (bget k l))
    | DHamt cs _ =>
        match find (hidx k) k cs with
        | FOk v => BFind (Some (v_id v))
        | FNotExist => BFind None
        | FTooDeep => BRes (Some ETooDeep)
        end
    end.

  (** NewDirectoryFromNode(GetNode()) with the configuration re-applied *)
  Definition reload_step (d : dir) : dir * ob :=
    match d with
    | DBasic l => (DBasic (sort_links l), BReload true)
    | DHamt cs tl =>
        match from_node (c_pad c) (to_node (c_pad c) EmptyString (Node cs)) with
        | Some (Node cs') =>
            (DHamt cs' (if f_reload_total fl then Z.of_nat (List.length cs') else count cs'), BReload true)
        | _ => (d, BReload false)
        end
    end.

  Definition step (d : dir) (o : op) : dir * ob :=
    match o with
    | OAdd k v sw => add_step k v sw d
    | ORemove k sw => remove_step k sw d
    | OFind k => (d, find_step k d)
    | OLinks | OForEach | OEnumAsync => (d, BList (entries d))
    | OReload => reload_step d
    | OAddFail _ _ => (d, BRes (Some EOther))
    | ODump =>
        (d, match d with
            | DBasic l => BDumpBasic (sort_links l)
            | DHamt cs _ => BDumpHamt (to_node (c_pad c) EmptyString (Node cs))
            end)
    end.

  Fixpoint run (d : dir) (ops : list op) : dir * list ob :=
    match ops with
    | [] => (d, [])
    | o :: r => let (d', b) := step d o in let (d'', bs) := run d' r in (d'', b :: bs)
    end.
End Dir.

(* ------------------------------------------------------------------ *)
(** * specification: a finite map from names to entries *)
Definition fmap := list (name * val).
Definition mget (k : name) (m : fmap) : option val := bget k m.
Definition mdel (k : name) (m : fmap) : fmap := bdel k m.
Definition mput (k : name) (v : val) (m : fmap) : fmap := (k, v) :: bdel k m.

Definition entry_eqb (a b : name * val) : bool := name_eqb (fst a) (fst b) && val_eqb (snd a) (snd b).
Fixpoint remove1 (x : name * val) (l : list (name * val)) : option (list (name * val)) :=
  match l with
  | [] => None
  | y :: r => if entry_eqb x y then Some r
              else match remove1 x r with Some r' => Some (y :: r') | None => None end
  end.
(** multiset equality of two listings *)
Fixpoint same_entries (l1 l2 : list (name * val)) : bool :=
  match l1 with
  | [] => match l2 with [] => true | _ => false end
  | x :: r => match remove1 x l2 with Some l2' => same_entries r l2' | None => false end
  end.

Fixpoint list_eqb {A} (eqb : A -> A -> bool) (l1 l2 : list A) : bool :=
  match l1, l2 with
  | [], [] => true
  | a :: r1, b :: r2 => eqb a b && list_eqb eqb r1 r2
  | _, _ => false
  end.
Definition zlist_eqb := list_eqb Z.eqb.

(** two names whose digests give the same complete index list cannot both be stored *)
Definition collide (hidx : name -> list Z) (a b : name) : bool :=
  negb (name_eqb a b) && zlist_eqb (hidx a) (hidx b).
Fixpoint has_collision (hidx : name -> list Z) (ks : list name) : bool :=
  match ks with
  | [] => false
  | k :: r => existsb (collide hidx k) r || has_collision hidx r
  end.

(** One step of the specification against an observed answer: the new map, or
    [None] when the answer is not what a map would give.  [capped] says the directory
    is one that may refuse new names beyond maxLinks (pure BasicDirectory, or
    sharding switched off); "too deep" is acceptable only when two names have
    identical digests. *)
Definition spec_step (c : cfg) (hidx : name -> list Z) (capped : bool)
           (m : fmap) (o : op) (b : ob) : option fmap :=
  match o, b with
  | OAdd k v _, BRes None => Some (mput k v m)
  | OAdd k v _, BRes (Some EMaxLinks) =>
      match mget k m with
      | None => if capped && (0 <? c_maxlinks c) && (c_maxlinks c <? Z.of_nat (List.length m) + 1)
                then Some m else None
      | Some _ => None
      end
  | OAdd k v _, BRes (Some ETooDeep) =>
      if has_collision hidx (k :: map fst m) then Some m else None
  | ORemove k _, BRes None => match mget k m with Some _ => Some (mdel k m) | None => None end
  | ORemove k _, BRes (Some ENotExist) => match mget k m with None => Some m | Some _ => None end
  | OFind k, BFind r =>
      match r, option_map v_id (mget k m) with
      | None, None => Some m
      | Some x, Some y => if x =? y then Some m else None
      | _, _ => None
      end
  | (OLinks | OForEach | OEnumAsync), BList l => if same_entries l m then Some m else None
  | OReload, BReload true => Some m
  | ODump, BDumpBasic l => if same_entries l m then Some m else None
  | ODump, BDumpHamt _ => Some m
  | OAddFail _ _, BRes (Some EOther) => Some m      (* a refused write leaves the map as it was *)
  | _, _ => None
  end.

Fixpoint spec_run (c : cfg) (hidx : name -> list Z) (capped : bool)
         (m : fmap) (ops : list op) (obs : list ob) : bool :=
  match ops, obs with
  | [], [] => true
  | o :: ro, b :: rb =>
      match spec_step c hidx capped m o b with
      | Some m' => spec_run c hidx capped m' ro rb
      | None => false
      end
  | _, _ => false
  end.

(* ------------------------------------------------------------------ *)
(** * comparison of the model's answers with the observed ones *)
Definition opt_eqb {A} (eqb : A -> A -> bool) (a b : option A) : bool :=
  match a, b with
  | None, None => true
  | Some x, Some y => eqb x y
  | _, _ => false
  end.

Fixpoint pnode_eqb (a b : pnode) : bool :=
  match a, b with
  | PLeaf n v, PLeaf n' v' => String.eqb n n' && val_eqb v v'
  | PNode n bs ls, PNode n' bs' ls' =>
      String.eqb n n' && zlist_eqb bs bs' &&
      (fix go (l1 l2 : list pnode) {struct l1} : bool :=
         match l1, l2 with
         | [], [] => true
         | x :: r1, y :: r2 => pnode_eqb x y && go r1 r2
         | _, _ => false
         end) ls ls'
  | _, _ => false
  end.

(** [ordered]: whether the order of an enumeration is determined (ForEachLink walks
    the trie in index order; a basic node's links are sorted by name); the parallel
    walk behind Links / EnumLinksAsync of a HAMT gives no order *)
Definition ob_match (hamt : bool) (o : op) (model impl : ob) : bool :=
  match model, impl with
  | BRes a, BRes b => opt_eqb err_eqb a b
  | BFind a, BFind b => opt_eqb Z.eqb a b
  | BList a, BList b =>
      match o with
      | OForEach => list_eqb entry_eqb a b
      | _ => if hamt then same_entries a b else list_eqb entry_eqb a b
      end
  | BReload a, BReload b => Bool.eqb a b
  | BDumpBasic a, BDumpBasic b => list_eqb entry_eqb a b
  | BDumpHamt a, BDumpHamt b => pnode_eqb a b
  | _, _ => false
  end.

Definition is_hamt (d : dir) : bool := match d with DHamt _ _ => true | DBasic _ => false end.

(** run the model along the ops and compare every answer *)
Fixpoint run_match (fl : flags) (c : cfg) (hidx : name -> list Z) (d : dir)
         (ops : list op) (obs : list ob) : bool :=
  match ops, obs with
  | [], [] => true
  | o :: ro, b :: rb =>
      let (d', mb) := step fl c hidx d o in
      ob_match (is_hamt d) o mb b && run_match fl c hidx d' ro rb
  | _, _ => false
  end.

(* ------------------------------------------------------------------ *)
(** * cases written by the harness *)

(** digest table: the murmur3 digests (8 bytes) of the names used, computed in Go *)
Definition table := list (name * list Z).
Fixpoint tget (k : name) (t : table) : list Z :=
  match t with
  | [] => []
  | (g, b) :: r => if name_eqb g k then b else tget k r
  end.
Definition hidx_of (lg2 : Z) (t : table) (k : name) : list Z := indices lg2 (tget k t).

(** [CHist c hamt0 tbl ops obs]: a fresh directory (pure HAMT / pure basic /
    dynamic, per [c]; [hamt0] = starts as a HAMT) was driven with [ops] and
    answered [obs].
    [CNext b consumed i r]: hashBits{b, consumed}.Next(i) answered [r]. *)
Inductive case :=
| CHist (c : cfg) (hamt0 : bool) (tbl : table) (ops : list op) (obs : list ob)
| CNext (b : list Z) (consumed i : Z) (r : option (Z * Z)).

Definition flags_code := mkflags true.     (* the code as it is today *)
Definition flags_spec := mkflags false.    (* what the property demands *)

Definition init_dir (hamt0 : bool) : dir := if hamt0 then DHamt [] 0 else DBasic [].

Definition next_eqb (a b : option (Z * Z)) : bool :=
  opt_eqb (fun x y => (fst x =? fst y) && (snd x =? snd y)) a b.

Definition check_case (cs : case) : verdict :=
  match cs with
  | CNext b consumed i r => verdict_of (next_eqb (Next b consumed i) r) true
  | CHist c hamt0 tbl ops obs =>
      let hidx := hidx_of (c_lg2 c) tbl in
      let d0 := init_dir hamt0 in
      let capped := (negb (c_dynamic c) && negb hamt0) || negb (c_enabled c) in
      let spec_ok := spec_run c hidx capped [] ops obs in
      let on_ok := run_match flags_code c hidx d0 ops obs in
      if spec_ok then
        (if on_ok || run_match flags_spec c hidx d0 ops obs then VOk else VModelMismatch)
      else if on_ok && spec_run c hidx capped [] ops (snd (run flags_spec c hidx d0 ops))
           then VKnown 1
           else VSpecFail
  end.
