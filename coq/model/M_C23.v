(** C23 — pin state survives crashes consistently (pinning/pinner/dspinner/pin.go).

    The mechanism (dirty flag before the first change; addPin writes record, cid index, name
    index; removePin deletes cid index, name index, record; flush clears the flag;
    rebuildIndexes on open when the flag is set) is modelled in [lib/PinModel.v]: every
    operation yields its ordered list of datastore writes.  Here: crash = keep a prefix of
    that list, reopen = [open_pinner]; the specification; the case type of the harness.
    No proofs in this file. *)
From Coq Require Import List Bool NArith.
From V Require Import lib.Verdict lib.PinModel.
Import ListNotations.
Open Scope N_scope.

(** the datastore after a crash that let only the first [n] writes of [ws] through *)
Definition crash (n : nat) (ws : list write) (s : store) : store := apply_writes (firstn n ws) s.
(** ... and what a pinner opened on it leaves in the datastore *)
Definition recover (s : store) : store := st (open_pinner s).

(** ---------- specification ---------- *)
(** CIDs the operation is allowed to unpin *)
Definition would_unpin (o : op) (c : N) : bool :=
  match o with
  | OUnpin c' _ => c =? c'
  | OUpdate from _ true _ => c =? from
  | _ => false
  end.
Definition store_cids (s : store) : list N := map fst (idxR s) ++ map fst (idxD s).
(** every CID pinned in [pre] that [o] would not unpin is pinned in [post] *)
Definition preserved (pre : store) (o : op) (post : store) : bool :=
  forallb (fun c => would_unpin o c || pinned post c) (store_cids pre).
Definition spec_ok (pre : store) (o : op) (post : store) : bool :=
  consistent post && preserved pre o post.

(** all crash points of an operation of the model, recovered: [0 .. length log] *)
Definition crash_points (ws : list write) (s : store) : list store :=
  map (fun n => recover (crash n ws s)) (seq 0 (S (length ws))).

(** ---------- comparison of stores (as sets) ---------- *)
Definition inclb {A} (eqb : A -> A -> bool) (l1 l2 : list A) : bool :=
  forallb (fun a => existsb (eqb a) l2) l1.
Definition seteq {A} (eqb : A -> A -> bool) (l1 l2 : list A) : bool :=
  inclb eqb l1 l2 && inclb eqb l2 l1 && Nat.eqb (length l1) (length l2).
Definition oflag_eqb (a b : option bool) : bool :=
  match a, b with
  | None, None => true
  | Some x, Some y => Bool.eqb x y
  | _, _ => false
  end.
Definition store_eqb (a b : store) : bool :=
  seteq prec_eqb (recs a) (recs b) && seteq pr_eqb (idxR a) (idxR b) &&
  seteq pr_eqb (idxD a) (idxD b) && seteq pr_eqb (idxN a) (idxN b) && oflag_eqb (dflag a) (dflag b).

Definition write_eqb (a b : write) : bool :=
  match a, b with
  | WDirty x, WDirty y => Bool.eqb x y
  | WPutRec r, WPutRec r' => prec_eqb r r'
  | WDelRec i, WDelRec j => i =? j
  | WAddIdx x k i, WAddIdx y k' j => idx_eqb x y && (k =? k') && (i =? j)
  | WDelIdx x k i, WDelIdx y k' j => idx_eqb x y && (k =? k') && (i =? j)
  | _, _ => false
  end.
Fixpoint list_eqb {A} (eqb : A -> A -> bool) (l1 l2 : list A) : bool :=
  match l1, l2 with
  | [], [] => true
  | a :: r1, b :: r2 => eqb a b && list_eqb eqb r1 r2
  | _, _ => false
  end.
Definition res_eqb (a b : res) : bool :=
  match a, b with ROk, ROk | RNotPinned, RNotPinned | RFetch, RFetch | RErr, RErr => true | _, _ => false end.

(** ---------- cases ---------- *)
(** one operation of a history as observed on the real pinner: the operation, the pin id the
    implementation drew (0 if none), its result class, the datastore writes it issued in order,
    the /pins content after it completed, and — for every prefix length 0..length of the write
    list — the /pins content after a fresh datastore holding exactly that prefix was opened
    with dspinner.New. *)
Record opobs := mkobs {
  o_op : op; o_newid : N; o_res : res; o_log : list write; o_after : store; o_crashes : list store
}.
Inductive case := Case (ops : list opobs).

Definition worse (a b : verdict) : verdict :=
  match a, b with
  | VSpecFail, _ | _, VSpecFail => VSpecFail
  | VModelMismatch, _ | _, VModelMismatch => VModelMismatch
  | VKnown k, _ => VKnown k
  | _, VKnown k => VKnown k
  | VOk, VOk => VOk
  end.

(** verdict of one observed operation.  [pre]: the observed /pins content before it;
    [pon]/[poff]: the model with the defect switch on / off before it. *)
Definition check_op (pre : store) (pon poff : pst) (b : opobs) : verdict * store * pst * pst :=
  let '(r, pon', lg) := exec_log flags_now (o_newid b) pon (o_op b) in
  let '(_, poff', lgoff) := exec_log flags_fixed (o_newid b) poff (o_op b) in
  let model_ok :=
    res_eqb r (o_res b) && list_eqb write_eqb lg (o_log b) && store_eqb (st pon') (o_after b) &&
    list_eqb store_eqb (crash_points lg (st pon)) (o_crashes b) in
  let cons_ok := forallb consistent (o_crashes b) && consistent (o_after b) in
  let pres_ok := forallb (preserved pre (o_op b)) (o_crashes b) && preserved pre (o_op b) (o_after b) in
  let off_ok := forallb (spec_ok (st poff) (o_op b)) (crash_points lgoff (st poff)) in
  let v :=
    if cons_ok && pres_ok then (if model_ok then VOk else VModelMismatch)
    else if cons_ok && model_ok && off_ok then VKnown 1
    else VSpecFail in
  (v, o_after b, pon', poff').

Fixpoint check_ops (pre : store) (pon poff : pst) (l : list opobs) : verdict :=
  match l with
  | [] => VOk
  | b :: r =>
      let '(v, pre', pon', poff') := check_op pre pon poff b in
      worse v (check_ops pre' pon' poff' r)
  end.

Definition check_case (c : case) : verdict :=
  let 'Case ops := c in
  check_ops empty_store (open_pinner empty_store) (open_pinner empty_store) ops.
