(** C10 — DAG modifier behaves as a mutable file (ipld/unixfs/mod/dagmodifier.go).

    Executable model of the mechanism, transcribed method by method from the Go
    source.  The DAG itself is abstracted to the byte content it denotes (the
    harness reads every DAG back through the real DagReader, and C07/C08/C09
    are about the DAG level); what is modelled exactly is the buffering
    machinery of [DagModifier]:

      curNode     -> [s_file]  (the bytes the current DAG denotes)
      writeStart  -> [s_ws]    curWrOff -> [s_co]
      wrBuf       -> [s_buf]   (None = nil; the pending write, positioned at writeStart)
      read        -> [s_rd]    (the lazily created DagReader: the bytes of the DAG it
                                was created over, and its own offset)

    Defect switches ([flags]): [true] = what the code did when the finding was
    recorded, [false] = what the property demands (and, for the findings with
    status "fixed", what /repo does now):
      1 f_overlap  WriteAt at writeStart with a payload shorter than the buffered data appends
      2 f_curoff   WriteAt never sets curWrOff
      3 f_seekend  Seek(SeekEnd) computes size - offset
      4 f_stale    the reader survives Truncate / sparse expansion (approximated by a byte
                   snapshot: exact when the old DAG is not mutated in place)
      5 f_readws   Read/CtxReadFull advance curWrOff but not writeStart
      6 f_seekneg  Seek to a negative target is accepted (returns the negative offset, nil)
    No proofs in this file. *)
From Coq Require Import List ZArith Bool NArith.
From V Require Import lib.Verdict.
Import ListNotations.
Open Scope Z_scope.

(** ---------- byte strings ---------- *)
Definition len {A} (l : list A) : Z := Z.of_nat (length l).
Definition takeZ {A} (n : Z) (l : list A) : list A := firstn (Z.to_nat n) l.
Definition dropZ {A} (n : Z) (l : list A) : list A := skipn (Z.to_nat n) l.
Definition zeros (n : Z) : list Z := repeat 0 (Z.to_nat n).   (* n <= 0: nothing *)

(** the byte-array write: zero-fill up to [off], then overwrite/extend with [b] *)
Definition wr_at (f : list Z) (off : Z) (b : list Z) : list Z :=
  let f' := f ++ zeros (off - len f) in
  takeZ off f' ++ b ++ dropZ (off + len b) f'.

(** byte [i] of a string, 0 outside it (so zero-fill never needs to be spelled out) *)
Definition getZ (l : list Z) (i : Z) : Z := if i <? 0 then 0 else nth (Z.to_nat i) l 0.

(** Go's uint64 / int64 views of an integer *)
Definition two64 : Z := 18446744073709551616.
Definition two63 : Z := 9223372036854775808.
Definition u64 (z : Z) : Z := z mod two64.
Definition i64 (z : Z) : Z := let u := z mod two64 in if u <? two63 then u else u - two64.

(** ---------- operations and observations ---------- *)
Inductive err := ENone | EEOF | EOther.

Inductive op :=
| OWrite (b : list Z)
| OWriteAt (b : list Z) (off : Z)
| OSeek (off : Z) (whence : Z)          (* 0 SeekStart, 1 SeekCurrent, 2 SeekEnd, else invalid *)
| ORead (n : Z)                         (* Read and CtxReadFull with a buffer of n bytes *)
| OTruncate (size : Z)
| OSize
| OSync
| OGetNode.

Inductive ob :=
| BNum (n : Z) (e : err)                (* Write/WriteAt: n written; Seek: offset; Size: size *)
| BRead (data : list Z) (e : err)
| BErr (e : err)                        (* Truncate, Sync *)
| BNode (content : list Z) (size : Z)   (* GetNode: the DAG read back through DagReader, and its Size() *)
| BPanic.                               (* the implementation panicked (never produced by model or spec) *)

(** offsets/sizes/lengths the property quantifies over are non-negative *)
Definition op_wf (o : op) : bool :=
  match o with
  | OWriteAt _ off => 0 <=? off
  | ORead n => 0 <=? n
  | OTruncate sz => 0 <=? sz
  | _ => true
  end.

(** ---------- the specification: a byte array with one position ---------- *)
Record fs := { f_content : list Z; f_pos : Z }.

Definition spec_step (a : fs) (o : op) : fs * ob :=
  let c := f_content a in
  let p := f_pos a in
  match o with
  | OWrite b => ({| f_content := wr_at c p b; f_pos := p + len b |}, BNum (len b) ENone)
  | OWriteAt b off => ({| f_content := wr_at c off b; f_pos := off + len b |}, BNum (len b) ENone)
  | OSeek off wh =>
      let tgt := if wh =? 0 then Some off else if wh =? 1 then Some (p + off)
                 else if wh =? 2 then Some (len c + off) else None in
      match tgt with
      | None => (a, BNum 0 EOther)
      | Some t =>
          if t <? 0 then (a, BNum 0 EOther)
          else ({| f_content := c ++ zeros (t - len c); f_pos := t |}, BNum t ENone)
      end
  | ORead n =>
      let d := takeZ n (dropZ p c) in
      ({| f_content := c; f_pos := p + len d |}, BRead d (if len d <? n then EEOF else ENone))
  | OTruncate sz =>
      ({| f_content := if sz <? len c then takeZ sz c else c ++ zeros (sz - len c); f_pos := p |}, BErr ENone)
  | OSize => (a, BNum (len c) ENone)
  | OSync => (a, BErr ENone)
  | OGetNode => (a, BNode c (len c))
  end.

Fixpoint spec_run (a : fs) (ops : list op) : fs * list ob :=
  match ops with
  | [] => (a, [])
  | o :: r => let (a', b) := spec_step a o in let (a'', bs) := spec_run a' r in (a'', b :: bs)
  end.

Definition spec_init (c : list Z) : fs := {| f_content := c; f_pos := 0 |}.

(** the arguments are int64 values and no position or size of the byte-array file leaves
    the int64 range during the history (what Go's types enforce) *)
Definition int64_arg (z : Z) : Prop := - two63 <= z < two63.
Definition op_args (o : op) : Prop :=
  match o with
  | OWriteAt _ off => int64_arg off
  | OSeek off _ => int64_arg off
  | ORead n => int64_arg n
  | OTruncate sz => int64_arg sz
  | _ => True
  end.
Definition fits (a : fs) : Prop := f_pos a < two63 /\ len (f_content a) < two63.
Fixpoint spec_fits (a : fs) (ops : list op) : Prop :=
  match ops with
  | [] => True
  | o :: r => op_args o /\ fits (fst (spec_step a o)) /\ spec_fits (fst (spec_step a o)) r
  end.

(** calls that do not modify the file *)
Definition quiet (o : op) : bool :=
  match o with OSize | OSync | OGetNode | ORead _ => true | _ => false end.

(** ---------- the mechanism ---------- *)
Record flags := { f_overlap : bool; f_curoff : bool; f_seekend : bool;
                  f_stale : bool; f_readws : bool; f_seekneg : bool }.
Definition fl_off : flags := Build_flags false false false false false false.
Definition fl_only (k : N) : flags :=
  Build_flags (k =? 1)%N (k =? 2)%N (k =? 3)%N (k =? 4)%N (k =? 5)%N (k =? 6)%N.

Record rdr := { r_snap : list Z; r_off : Z }.
Record st := { s_file : list Z; s_ws : Z; s_co : Z; s_buf : option (list Z); s_rd : option rdr }.

Definition init (c : list Z) : st :=
  {| s_file := c; s_ws := 0; s_co := 0; s_buf := None; s_rd := None |}.

Definition drop_reader (s : st) : st :=
  {| s_file := s_file s; s_ws := s_ws s; s_co := s_co s; s_buf := s_buf s; s_rd := None |}.

(** expandSparse(n): append n zero bytes to curNode (io.LimitReader yields nothing for n <= 0) *)
Definition expand_sparse (fl : flags) (s : st) (n : Z) : st :=
  let s' := {| s_file := s_file s ++ zeros n; s_ws := s_ws s; s_co := s_co s;
               s_buf := s_buf s; s_rd := s_rd s |} in
  if f_stale fl then s' else drop_reader s'.

(** Size() *)
Definition size_of (s : st) : Z :=
  match s_buf s with
  | None => len (s_file s)
  | Some b => Z.max (len (s_file s)) (len b + s_ws s)
  end.

(** Sync(): kill the reader; expandSparse up to writeStart; modifyDag overwrites what
    lies inside the existing data; appendData appends the rest; writeStart += buflen *)
Definition sync (fl : flags) (s : st) : st :=
  match s_buf s with
  | None => s
  | Some b =>
      let f := s_file s in
      let ws := s_ws s in
      let f1 := if len f <? ws then f ++ zeros (ws - len f) else f in
      let k := Z.min (len b) (len f1 - ws) in
      let f2 := takeZ ws f1 ++ takeZ k b ++ dropZ (ws + k) f1 in
      let f3 := f2 ++ dropZ k b in
      {| s_file := f3; s_ws := ws + len b; s_co := s_co s; s_buf := None; s_rd := None |}
  end.

(** Write(b): drop the reader, append to the buffer, curWrOff += n
    (the automatic Sync above 2 MiB of buffered data is outside the modelled range) *)
Definition write (s : st) (b : list Z) : st * ob :=
  let old := match s_buf s with None => [] | Some x => x end in
  ({| s_file := s_file s; s_ws := s_ws s; s_co := s_co s + len b;
      s_buf := Some (old ++ b); s_rd := None |}, BNum (len b) ENone).

Definition is_some {A} (o : option A) : bool := match o with Some _ => true | None => false end.

(** WriteAt(b, off) *)
Definition write_at (fl : flags) (s : st) (b : list Z) (off : Z) : st * ob :=
  let hit := (off =? s_ws s) && is_some (s_buf s) in
  let blen := match s_buf s with None => 0 | Some x => len x end in
  let reset :=
    {| s_file := s_file s; s_ws := s_ws s; s_co := if f_curoff fl then s_co s else s_ws s;
       s_buf := Some []; s_rd := s_rd s |} in
  let generic :=
    let sz := size_of s in
    let s1 := if sz <? off then expand_sparse fl s (off - sz) else s in
    let s2 := sync fl s1 in
    {| s_file := s_file s2; s_ws := off; s_co := if f_curoff fl then s_co s2 else off;
       s_buf := s_buf s2; s_rd := s_rd s2 |} in
  let s' :=
    if f_overlap fl then
      if hit then (if blen <=? len b then reset else s)
      else if negb (off =? s_co s) then generic else s
    else
      if hit && (blen <=? len b) then reset
      else if negb (off =? s_co s) then generic else s in
  write s' b.

(** the DagReader at byte level: CtxReadFull fills the buffer as far as the data goes
    and reports EOF exactly when it could not fill it *)
Definition reader_read (r : rdr) (n : Z) : rdr * list Z * err :=
  let d := takeZ n (dropZ (r_off r) (r_snap r)) in
  ({| r_snap := r_snap r; r_off := r_off r + len d |}, d, if len d <? n then EEOF else ENone).

(** DagReader.Seek: any non-negative target is accepted (also past the end) *)
Definition reader_seek (r : rdr) (off wh : Z) : rdr * bool :=
  let go t := if t <? 0 then (r, false) else ({| r_snap := r_snap r; r_off := t |}, true) in
  if wh =? 0 then go off
  else if wh =? 1 then (if off =? 0 then (r, true) else go (r_off r + off))
  else if wh =? 2 then go (len (r_snap r) + off)
  else (r, false).

(** Read / CtxReadFull: readPrep (Sync, create the reader at curWrOff if there is none), read *)
Definition read (fl : flags) (s : st) (n : Z) : st * ob :=
  let s1 := sync fl s in
  let prep :=
    match s_rd s1 with
    | Some r => Some r
    | None => if i64 (s_co s1) <? 0 then None
              else Some {| r_snap := s_file s1; r_off := i64 (s_co s1) |}
    end in
  match prep with
  | None => (s1, BRead [] EOther)
  | Some r =>
      let '(r', d, e) := reader_read r n in
      let co' := s_co s1 + len d in
      ({| s_file := s_file s1; s_ws := if f_readws fl then s_ws s1 else co'; s_co := co';
          s_buf := s_buf s1; s_rd := Some r' |}, BRead d e)
  end.

(** Seek(off, whence) *)
Definition seek (fl : flags) (s : st) (off wh : Z) : st * ob :=
  let s1 := sync fl s in
  let fisize := size_of s1 in
  let newoff :=
    if wh =? 0 then Some (u64 off)
    else if wh =? 1 then Some (u64 (s_co s1 + off))
    else if wh =? 2 then Some (u64 (if f_seekend fl then fisize - off else fisize + off))
    else None in
  match newoff with
  | None => (s1, BNum 0 EOther)
  | Some nu =>
      let ni := i64 nu in
      if negb (f_seekneg fl) && (ni <? 0) then (s1, BNum 0 EOther) else
      let s2 := if fisize <? ni then expand_sparse fl s1 (ni - fisize) else s1 in
      match s_rd s2 with
      | None =>
          ({| s_file := s_file s2; s_ws := nu; s_co := nu; s_buf := s_buf s2; s_rd := None |},
           BNum ni ENone)
      | Some r =>
          let (r', ok) := reader_seek r off wh in
          ({| s_file := s_file s2; s_ws := nu; s_co := nu; s_buf := s_buf s2; s_rd := Some r' |},
           if ok then BNum ni ENone else BNum 0 EOther)
      end
  end.

(** Truncate(size) *)
Definition truncate (fl : flags) (s : st) (sz : Z) : st * ob :=
  let s1 := sync fl s in
  let real := size_of s1 in
  if sz =? real then (s1, BErr ENone)
  else if real <? sz then (expand_sparse fl s1 (sz - real), BErr ENone)
  else
    let s2 := {| s_file := takeZ sz (s_file s1); s_ws := s_ws s1; s_co := s_co s1;
                 s_buf := s_buf s1; s_rd := s_rd s1 |} in
    (if f_stale fl then s2 else drop_reader s2, BErr ENone).

Definition step (fl : flags) (s : st) (o : op) : st * ob :=
  match o with
  | OWrite b => write s b
  | OWriteAt b off => write_at fl s b off
  | OSeek off wh => seek fl s off wh
  | ORead n => read fl s n
  | OTruncate sz => truncate fl s sz
  | OSize => (s, BNum (size_of s) ENone)
  | OSync => (sync fl s, BErr ENone)
  | OGetNode => let s1 := sync fl s in (s1, BNode (s_file s1) (len (s_file s1)))
  end.

Fixpoint run (fl : flags) (s : st) (ops : list op) : st * list ob :=
  match ops with
  | [] => (s, [])
  | o :: r => let (s', b) := step fl s o in let (s'', bs) := run fl s' r in (s'', b :: bs)
  end.

(** what the pending state denotes: the file with the buffered write applied, position curWrOff *)
Definition abs (s : st) : fs :=
  {| f_content := match s_buf s with None => s_file s | Some b => wr_at (s_file s) (s_ws s) b end;
     f_pos := s_co s |}.

(** ---------- comparison of observations ---------- *)
Fixpoint zlist_eqb (a b : list Z) : bool :=
  match a, b with
  | [], [] => true
  | x :: r, y :: q => (x =? y) && zlist_eqb r q
  | _, _ => false
  end.
Definition err_eqb (a b : err) : bool :=
  match a, b with ENone, ENone | EEOF, EEOF | EOther, EOther => true | _, _ => false end.

(** a Read into an empty buffer may report nil or EOF (io.Reader leaves it open; the real
    reader's answer depends on the DAG shape) *)
Definition ob_match (o : op) (a b : ob) : bool :=
  match a, b with
  | BNum x e, BNum y f => (x =? y) && err_eqb e f
  | BRead d e, BRead d' f =>
      zlist_eqb d d' &&
      (err_eqb e f ||
       match o with
       | ORead 0 => negb (err_eqb e EOther) && negb (err_eqb f EOther)
       | _ => false
       end)
  | BErr e, BErr f => err_eqb e f
  | BNode c n, BNode c' n' => zlist_eqb c c' && (n =? n')
  | _, _ => false
  end.

Fixpoint obs_match (ops : list op) (l1 l2 : list ob) : bool :=
  match ops, l1, l2 with
  | [], [], [] => true
  | o :: r, a :: r1, b :: r2 => ob_match o a b && obs_match r r1 r2
  | _, _, _ => false
  end.

(** ---------- compact byte strings of the cases files ----------
    The harness draws file contents and payloads from the deterministic streams
    [gen seed i] (never 0, so zero-fill is distinguishable) and writes every byte
    string -- inputs and observed outputs alike -- as a list of segments; [ex]
    expands it to the literal bytes.  (Pure encoding: [SLit] can express any string.) *)
Definition gen (seed i : Z) : Z := 1 + ((i * i * 7 + i * (2 * seed + 3) + seed * 101) mod 251).
Inductive seg := SGen (seed off cnt : Z) | SZero (cnt : Z) | SLit (l : list Z).
Fixpoint gen_run (seed off : Z) (cnt : nat) : list Z :=
  match cnt with O => [] | S k => gen seed off :: gen_run seed (off + 1) k end.
Definition ex1 (g : seg) : list Z :=
  match g with
  | SGen seed off cnt => gen_run seed off (Z.to_nat cnt)
  | SZero cnt => zeros cnt
  | SLit l => l
  end.
Definition ex (l : list seg) : list Z := concat (map ex1 l).

(** ---------- the correspondence case ---------- *)
(** [c_hint]: findings that live below the byte level cannot be replayed by this model; the
    harness recognises their signature on the Go side and passes the finding's index here:
      7 = the modifier's prefix is the identity hash and a call failed with ErrDigestTooLarge
          (or with merkledag's "failed to fetch all nodes" that it turns into while fetching)
      8 = the initial root is a dag-pb leaf holding file data itself and the history grows the file
    (0 = no signature).  It is only consulted when the specification check fails and no
    byte-level defect variant listed as known ([c_pref]) explains the observations.
    [c_pref]: indices of the findings currently listed as known; when the observations match
    more than one single-defect variant of the model, those are tried first. *)
Record case := { c_init : list Z; c_ops : list op; c_obs : list ob; c_hint : N; c_pref : list N }.

(** classification only: run a defect variant of the model, stopping once its offsets have
    wrapped around (from there on the implementation's behaviour is garbage; the harness
    stops such a history as well) *)
Definition wild (s : st) : bool := (two63 <=? s_ws s) || (two63 <=? s_co s).
Fixpoint run_g (fl : flags) (s : st) (ops : list op) : list ob :=
  match ops with
  | [] => []
  | o :: r => if wild s then [BPanic] else let (s', b) := step fl s o in b :: run_g fl s' r
  end.

Fixpoint first_known (c : case) (ks : list N) : verdict :=
  match ks with
  | [] => VSpecFail
  | k :: r =>
      if obs_match (c_ops c) (run_g (fl_only k) (init (c_init c)) (c_ops c)) (c_obs c)
      then VKnown k else first_known c r
  end.

Definition check_case (c : case) : verdict :=
  if negb (forallb op_wf (c_ops c)) then VModelMismatch else
  let spec_ok := obs_match (c_ops c) (snd (spec_run (spec_init (c_init c)) (c_ops c))) (c_obs c) in
  let model_ok := obs_match (c_ops c) (snd (run fl_off (init (c_init c)) (c_ops c))) (c_obs c) in
  if spec_ok then verdict_of model_ok true
  else
    let pref := filter (fun k => (1 <=? k) && (k <=? 6))%N (c_pref c) in
    match first_known c pref with
    | VKnown k => VKnown k       (* a byte-level defect listed as known explains the whole history *)
    | _ => if ((c_hint c =? 7) || (c_hint c =? 8))%N then VKnown (c_hint c)
           else first_known c [1; 2; 3; 4; 5; 6]%N
    end.
