(** C38 — tar extraction never touches anything outside the target
    (tar/extractor.go, tar/sanitize.go, files/meta.go, files/meta_posix.go).

    Executable model of the extractor over the file system of [lib/FsModel.v],
    transcribed from the Go sources:
      Extract           root entry rules, the entry loop, the deferred directory
                        updates run at every return after the first header was read
                        (their error is dropped: the deferred closure assigns to a
                        local, Extract has no named result)
      validateTarPath, getRelativePath, outputPath (lstat of every intermediate
                        component: must be a real directory), validatePathComponent
      extractDir        os.MkdirAll + lstat-is-directory
      extractSymlink    os.Remove, os.Symlink, UpdateModTime (no follow)
      extractFile       os.Remove, temp file + rename
      deferUpdate       early application of the previous deferral, append
      UpdateMetaUnix    utimensat(AT_SYMLINK_NOFOLLOW) then os.Chmod (follows links)
                        with UnixPermsToModePerms / syscallMode bit conversion
    Paths: the extraction root [t] is an absolute, lexically clean path given as
    components; entry names are byte strings.  Permission checks are not modelled
    (the harness runs as root), nor are concurrent processes.

    Defect switch [fl]: [true] = deferred updates are applied without looking at
    the path again (the code before the repair: a directory entry followed by a
    symlink entry of the same name makes os.Chmod follow the link, finding C38-1);
    [false] = applyDeferredUpdate lstat's the path and skips what is no longer a
    directory.
    No proofs in this file. *)
From Coq Require Import List ZArith Bool String Ascii.
From V Require Import lib.Verdict lib.FsModel.
Import ListNotations.
Open Scope Z_scope.

Fixpoint bs (s : string) : bytes :=
  match s with
  | EmptyString => []
  | String a r => Z.of_N (N_of_ascii a) :: bs r
  end.

Inductive etype := TDir | TReg | TSym | TOther.
(** what tar.Reader.Next yields for one entry; [e_mtime = None] when ModTime.IsZero() *)
Record entry := {
  e_name : bytes; e_type : etype; e_mode : Z; e_mtime : option Z; e_link : bytes; e_content : Z }.

Definition memb (c : Z) (s : bytes) : bool := existsb (Z.eqb c) s.
Fixpoint prefix_b (p s : bytes) : bool :=
  match p, s with
  | [], _ => true
  | a :: p', b :: s' => (a =? b) && prefix_b p' s'
  | _ :: _, [] => false
  end.
Definition bad_elem (e : bytes) : bool := is_nil e || bytes_eqb e DOT || bytes_eqb e DOTDOT.

(** validateTarPath *)
Definition valid_tar_path (n : bytes) : bool :=
  negb (is_nil n) && negb (is_abs n) && negb (existsb bad_elem (split_slash n)).
(** validatePathComponent (non-Windows) *)
Definition valid_component (c : bytes) : bool := negb (bytes_eqb c DOTDOT) && negb (memb 0 c).
(** getRelativePath *)
Definition relative_to (root n : bytes) : option bytes :=
  let pre := root ++ [47] in
  if prefix_b pre n then Some (skipn (List.length pre) n) else None.

(** the chmod argument as unix permission bits, 0 = no chmod at all:
    UnixPermsToModePerms(uint32(mode)) = (m & 0x1FF) | (m & 0xC00) << 12 | (m & 0x200) << 11
    (in Go [&] and [<<] have the same precedence and associate to the left), i.e. the
    permission bits plus ModeSetuid / ModeSetgid / ModeSticky, which os.Chmod's syscallMode
    turns back into 04000 / 02000 / 01000: all in all the low twelve bits of the header mode *)
Definition chmod_bits (mode : Z) : Z := Z.land (mode mod 2 ^ 32) 4095.

(** files.UpdateMetaUnix(path, mode, mtime): (file system reached, failed?) — the time may have been set
    before the mode change fails *)
Definition update_meta (f : fs) (p : path) (mode : Z) (mtime : option Z) : fs * bool :=
  match (match mtime with Some t => utimens f p t | None => Ok f end) with
  | Err _ => (f, true)
  | Ok f1 =>
      if chmod_bits mode =? 0 then (f1, false)
      else match chmod f1 p (chmod_bits mode) with Ok f2 => (f2, false) | Err _ => (f1, true) end
  end.

Record deferred := { d_path : path; d_mode : Z; d_mtime : option Z }.

(** one deferred directory update (applyDeferredUpdate; before the repair: UpdateMetaUnix alone) *)
Definition apply_deferred (fl : bool) (f : fs) (d : deferred) : fs * bool :=
  if fl then update_meta f (d_path d) (d_mode d) (d_mtime d)
  else match lstat f (d_path d) with
       | Err _ => (f, true)
       | Ok i => match i_kind i with
                 | KDir => update_meta f (d_path d) (d_mode d) (d_mtime d)
                 | _ => (f, false)
                 end
       end.

(** doUpdates: newest deferral first, stop at the first error (which Extract then drops) *)
Fixpoint do_updates_rev (fl : bool) (f : fs) (rds : list deferred) : fs :=
  match rds with
  | [] => f
  | d :: r => let (f', er) := apply_deferred fl f d in if er then f' else do_updates_rev fl f' r
  end.

Definition path_str (p : path) : bytes := flat_map (fun c => 47 :: c) p.

(** deferUpdate(path, header); the deferred list is kept newest first *)
Definition defer_update (fl : bool) (f : fs) (rds : list deferred) (p : path) (e : entry)
  : fs * list deferred * bool :=
  match e_mode e =? 0, e_mtime e with
  | true, None => (f, rds, false)
  | _, _ =>
      let nd := {| d_path := p; d_mode := e_mode e; d_mtime := e_mtime e |} in
      match rds with
      | m :: older =>
          if (Z.of_nat (List.length (path_str p)) <? Z.of_nat (List.length (path_str (d_path m)))) &&
             prefix_b (path_str (parent p)) (path_str (d_path m))
          then let (f', er) := apply_deferred fl f m in (f', if er then rds else nd :: older, er)
          else (f, nd :: rds, false)
      | [] => (f, [nd], false)
      end
  end.

(** extractDir *)
Definition extract_dir (f : fs) (p : path) : result fs :=
  match mkdir_all f p 493 with
  | Err x => Err x
  | Ok f1 => match lstat f1 p with
             | Err x => Err x
             | Ok i => match i_kind i with KDir => Ok f1 | _ => Err EOther end
             end
  end.

Definition remove_if_exists (f : fs) (p : path) : result fs :=
  match remove f p with
  | Ok f1 => Ok f1
  | Err ENoEnt => Ok f
  | Err x => Err x
  end.

(** extractSymlink.  A failure after the removal leaves the removal in place:
    the file system reached is returned together with the error flag. *)
Definition extract_symlink (f : fs) (p : path) (e : entry) : fs * bool :=
  match remove_if_exists f p with
  | Err _ => (f, true)
  | Ok f1 =>
      match symlink f1 (e_link e) p with
      | Err _ => (f1, true)
      | Ok f2 =>
          match e_mtime e with
          | None => (f2, false)
          | Some t => match utimens f2 p t with Ok f3 => (f3, false) | Err _ => (f2, true) end
          end
      end
  end.

(** extractFile followed by UpdateMetaUnix *)
Definition extract_file (f : fs) (p : path) (e : entry) : fs * bool :=
  match remove_if_exists f p with
  | Err _ => (f, true)
  | Ok f1 =>
      match put_file f1 p (e_content e) with
      | Err _ => (f1, true)
      | Ok f2 =>
          update_meta f2 p (e_mode e) (e_mtime e)
      end
  end.

(** outputPath: every element validated, every intermediate one lstat'ed *)
Fixpoint output_path (f : fs) (cur : path) (elems : list bytes) : option path :=
  match elems with
  | [] => Some cur
  | e :: rest =>
      if negb (valid_component e) then None else
      let p := cur ++ [e] in
      match rest with
      | [] => Some p
      | _ =>
          match lstat f p with
          | Ok i => match i_kind i with KDir => output_path f p rest | _ => None end
          | Err _ => None
          end
      end
  end.

(** one non-first entry (the root was a directory); (state, error?) *)
Definition step (fl : bool) (t : path) (root : bytes) (f : fs) (rds : list deferred) (e : entry)
  : fs * list deferred * bool :=
  if negb (valid_tar_path (e_name e)) then (f, rds, true) else
  match relative_to root (e_name e) with
  | None => (f, rds, true)
  | Some rel =>
      match output_path f t (split_slash rel) with
      | None => (f, rds, true)
      | Some p =>
          (* filepath.Rel(root, p) is never "." and never contains ".." here: p = t ++ validated elements *)
          match e_type e with
          | TDir =>
              match extract_dir f p with
              | Err _ => (f, rds, true)
              | Ok f1 => defer_update fl f1 rds p e
              end
          | TReg => let (f1, er) := extract_file f p e in (f1, rds, er)
          | TSym => let (f1, er) := extract_symlink f p e in (f1, rds, er)
          | TOther => (f, rds, true)
          end
      end
  end.

Fixpoint steps (fl : bool) (t : path) (root : bytes) (f : fs) (rds : list deferred) (es : list entry)
  : fs * list deferred * bool :=
  match es with
  | [] => (f, rds, false)
  | e :: r =>
      let '(f1, rds1, er) := step fl t root f rds e in
      if er then (f1, rds1, true) else steps fl t root f1 rds1 r
  end.

(** mkdir_all may have created the directory before extract_dir failed: the state reached by a failing
    extract_dir is the state after mkdir_all *)
Definition extract_dir_state (f : fs) (p : path) : fs :=
  match mkdir_all f p 493 with Ok f1 => f1 | Err _ => f end.

(** Extractor{Path: t}.Extract(archive): (file system afterwards, returned an error?) *)
Definition extract (fl : bool) (f : fs) (t : path) (es : list entry) : fs * bool :=
  match es with
  | [] => (f, true)                                            (* "empty tar file" *)
  | h :: rest =>
      let root := e_name h in
      if memb 47 root || bad_elem root then (f, true) else
      let finish (r : fs * list deferred * bool) : fs * bool :=
        let '(f1, rds, er) := r in (do_updates_rev fl f1 rds, er) in
      match e_type h with
      | TDir =>
          match extract_dir f t with
          | Err _ => (extract_dir_state f t, true)
          | Ok f1 =>
              let '(f2, rds, er) := defer_update fl f1 [] t h in
              if er then finish (f2, rds, true) else finish (steps fl t root f2 rds rest)
          end
      | TReg | TSym =>
          match (match lstat f t with
                 | Ok i => Some (match i_kind i with KDir => true | _ => false end)
                 | Err ENoEnt => Some false
                 | Err _ => None
                 end) with
          | None => (f, true)
          | Some root_is_dir =>
              if root_is_dir && negb (valid_component root) then (f, true) else
              let p := if root_is_dir then t ++ [root] else t in
              let (f1, er) := match e_type h with
                              | TReg => extract_file f p h
                              | _ => extract_symlink f p h
                              end in
              if er then (f1, true) else
              match rest with
              | [] => (f1, false)
              | _ => (f1, true)             (* "the root was not a directory and the tar has multiple entries" *)
              end
          end
      | TOther => (f, true)
      end
  end.

(** ---------- specification ---------- *)
(** extraction leaves every object that is not at or below the target untouched
    (kind, link target, content, mode, explicit modification time); the directory
    holding the target keeps its kind and mode *)
Definition confined (t : path) (before after : fs) : bool := same_outside t before after.

(** ---------- correspondence ---------- *)
(** the model's state against an observed snapshot: same paths below [b]; same kind,
    link target, content and mode; the same time where the model knows it *)
Definition obs_match_inode (m o : inode) : bool :=
  kind_eqb (i_kind m) (i_kind o) && (i_mode m =? i_mode o) &&
  match i_mtime m, i_mtime o with
  | Some x, Some y => x =? y
  | None, _ => true
  | Some _, None => false
  end.
Definition fs_match (b : path) (model obs : fs) : bool :=
  forallb (fun e => negb (under b (fst e)) ||
                    match get obs (fst e) with Some o => obs_match_inode (snd e) o | None => false end) model &&
  forallb (fun e => negb (under b (fst e)) || match get model (fst e) with Some _ => true | None => false end) obs.

(** A case written by the harness: [f0] is the file system before (everything below
    the base directory [b], all times explicit), [t] the extraction root, [es] the
    entries as tar.Reader yields them, [err] whether Extract returned an error, [obs]
    the snapshot of everything below [b] afterwards. *)
Inductive case :=
| CExt (f0 : fs) (b t : path) (es : list entry) (err : bool) (obs : fs).

Definition check_case (c : case) : verdict :=
  match c with
  | CExt f0 b t es err obs =>
      let (f_off, e_off) := extract false f0 t es in
      let (f_on, e_on) := extract true f0 t es in
      let eq_off := Bool.eqb e_off err && fs_match b f_off obs in
      let eq_on := Bool.eqb e_on err && fs_match b f_on obs in
      let spec_ok := confined t f0 obs in
      if spec_ok then verdict_of (eq_off || eq_on) true
      else if eq_on && negb eq_off && confined t f0 f_off then VKnown 1
      else VSpecFail
  end.
