(** C08 — trickle.Append.

    Executable model transcribed from ipld/unixfs/importer/trickle/trickledag.go:
      Append, appendFillLastChild, appendRec, trickleDepthInfo
    on top of the C07 model of fillTrickleRec / FillNodeLayer ([tri_kids],
    [tri_sub], [fill_slots], [leafb]) and of the verifier ([tri_ok]).
    A node under modification (an FSNodeOverDag) is its recorded Filesize, its
    recorded Blocksizes and its links: AddChild/RemoveChild update all three the
    way the code does (sizes are carried over, not recomputed).
    No proofs in this file. *)
From Coq Require Import List ZArith Bool.
From V Require Import lib.Verdict lib.Tree model.M_C07.
Import ListNotations.
Open Scope Z_scope.

(** defect switch: [true] = the code before fixes/C08-1.patch, [false] = the code with it *)
Record aflags := AFlags {
  f_depth_incr : bool   (* C08-1: after appendFillLastChild the layer number is incremented
                           unconditionally (`if !db.Done() { depth++ }`) although the current layer
                           may still be short of depthRepeat sub-trees (always so when
                           repeatNumber = 0);
                           off: the layer is re-read from the child count
                           (`depth, _ = trickleDepthInfo(fsn, db.Maxlinks())`) *)
}.
Definition aflags_on := AFlags true.
Definition aflags_off := AFlags false.

Section Append.
  Context {D : Type}.
  Variable dlen : D -> Z.
  Variable dnil : D.
  Variable w : nat.
  Variable k : kind.                       (* representation of new leaves: [tri_kind raw] *)

  Definition is_nil {A} (l : list A) : bool := match l with [] => true | _ => false end.

  (** FSNodeOverDag: (Filesize, Blocksizes, links) *)
  Definition nst : Type := Z * list Z * list (tree D).

  (** NewFSNFromDag / GetChild: only dag-pb `File` nodes without inline data can be
      reopened (a raw block is ErrNotProtobuf; a node with inline data AND links is
      outside what these trees express) *)
  Definition open (t : tree D) : option nst :=
    match t with
    | Node rs bs ks => Some (rs, bs, ks)
    | Leaf KPbFile rs d => if dlen d =? 0 then Some (rs, [], []) else None
    | Leaf _ _ _ => None
    end.

  (** Commit (a File node without links is the empty-leaf form, see M_C07.file_node) *)
  Definition commit (s : nst) : tree D :=
    let '(rs, bs, ks) := s in
    match ks with [] => Leaf KPbFile rs dnil | _ => Node rs bs ks end.

  Definition st_size (s : nst) : Z := fst (fst s).
  Definition st_kids (s : nst) : list (tree D) := snd s.
  Definition num_children (s : nst) : Z := Z.of_nat (length (st_kids s)).

  (** AddChild(child, fileSize) *)
  Definition add_child (s : nst) (c : tree D) (sz : Z) : nst :=
    let '(rs, bs, ks) := s in (rs + sz, bs ++ [sz], ks ++ [c]).
  (** children built by fillTrickleRec / NewLeafDataNode report their own recorded size *)
  Definition add_kids (s : nst) (cs : list (tree D)) : nst :=
    fold_left (fun s c => add_child s c (rsize c)) cs s.
  (** RemoveChild(last) *)
  Definition remove_last (s : nst) : nst :=
    let '(rs, bs, ks) := s in (rs - last bs 0, removelast bs, removelast ks).

  (** trickleDepthInfo *)
  Definition depth_info (s : nst) : Z * Z :=
    let n := num_children s in
    if n <? Z.of_nat w then (0, 0)
    else ((n - Z.of_nat w) / Z.of_nat depth_repeat + 1, (n - Z.of_nat w) mod Z.of_nat depth_repeat).

  (** FillNodeLayer on an existing node *)
  Definition fill_layer (s : nst) (cs : list D) : nst * list D :=
    let (ls, r) := fill_slots (leafb dlen k) (w - length (st_kids s)) cs in (add_kids s ls, r).

  (** fillTrickleRec(db, newNode, maxDepth = i) for i >= 0 (i <= 1: direct leaves only);
      i = -1 (unlimited) is never passed by Append/appendRec/appendFillLastChild *)
  Definition tri_sub_z (i : Z) : D -> list D -> tree D * list D :=
    tri_sub dlen w k (Z.to_nat (i - 1)).

  (** the loops
        for i := d; [i < bound &&] !db.Done(); i++ {
          for j := j0 (first round) / 0; j < depthRepeat && !db.Done(); j++ { AddChild(fillTrickleRec(i)) } }
      fuel: every round with data left consumes a chunk *)
  Fixpoint layers_loop (fuel : nat) (s : nst) (i j0 : Z) (bound : option Z) (cs : list D)
    : nst * list D :=
    match fuel with
    | O => (s, cs)
    | S fuel' =>
        if is_nil cs || (match bound with Some m => m <=? i | None => false end) then (s, cs)
        else
          let (ls, r) := fill_slots (tri_sub_z i) (Z.to_nat (Z.of_nat depth_repeat - j0)) cs in
          layers_loop fuel' (add_kids s ls) (i + 1) 0 bound r
    end.

  Section WithRec.
    (** appendRec on the last child, as seen from appendFillLastChild *)
    Variable rec : nst -> Z -> list D -> option (nst * list D).

    (** appendFillLastChild(fsn, depth = p, repeatNumber = rep) *)
    Definition fill_last (s : nst) (p rep : Z) (cs : list D) : option (nst * list D) :=
      if num_children s <=? Z.of_nat w then Some (s, cs)
      else
        match open (last (st_kids s) (Leaf KRaw 0 dnil)) with
        | None => None                                   (* GetChild: ErrNotProtobuf *)
        | Some ls =>
            match rec ls (p - 1) cs with
            | None => None
            | Some (ls', cs1) =>
                let s1 := add_child (remove_last s) (commit ls') (st_size ls') in
                if rep =? 0 then Some (s1, cs1)
                else
                  let (new, cs2) := fill_slots (tri_sub_z p)
                                      (Z.to_nat (Z.of_nat depth_repeat - rep)) cs1 in
                  Some (add_kids s1 new, cs2)
            end
        end.
  End WithRec.

  Variable fl : aflags.

  (** where the "continue filling out tree like normal" loop starts *)
  Definition resume (s : nst) (d : Z) (cs : list D) : Z * Z :=
    if f_depth_incr fl then ((if is_nil cs then d else d + 1), 0) else (fst (depth_info s), 0).

  (** appendRec(fsn, db, maxDepth = m); fuel = levels of the existing tree still below *)
  Fixpoint append_rec (fuel : nat) (s : nst) (m : Z) (cs : list D) : option (nst * list D) :=
    match fuel with
    | O => None
    | S fuel' =>
        if (m =? 0) || is_nil cs then Some (s, cs)
        else
          let (d0, rep) := depth_info s in
          let '(s1, cs1, d) := if d0 =? 0 then let (s', r) := fill_layer s cs in (s', r, 1)
                               else (s, cs, d0) in
          if d =? m then Some (s1, cs1)
          else
            match fill_last (append_rec fuel') s1 d rep cs1 with
            | None => None
            | Some (s2, cs2) =>
                let (d', j0) := resume s2 d cs2 in
                Some (layers_loop (length cs2) s2 d' j0 (Some m) cs2)
            end
    end.

  (** Append(ctx, base, db) *)
  Definition append (t : tree D) (cs : list D) : option (tree D) :=
    match open t with
    | None => None
    | Some s =>
        let (d0, rep) := depth_info s in
        let '(s1, cs1, d) := if d0 =? 0 then let (s', r) := fill_layer s cs in (s', r, 1)
                             else (s, cs, d0) in
        if (d0 =? 0) && is_nil cs1 then Some (commit s1)
        else
          match fill_last (append_rec (height t)) s1 (d - 1) rep cs1 with
          | None => None
          | Some (s2, cs2) =>
              let (d', j0) := resume s2 d cs2 in
              Some (commit (fst (layers_loop (length cs2) s2 d' j0 None cs2)))
          end
    end.
End Append.

(** leaves of positive length (the empty file is the single empty leaf) *)
Definition data_leaves {D} (dlen : D -> Z) (t : tree D) : list D := nonempty dlen (leaves t).

(** ---------- correspondence cases ---------- *)
(** one Append on the real code: appended chunks, the DAG afterwards (read back node
    by node), the verdict of VerifyTrickleDagStructure, DagReader size / bytes read /
    bytes equal to old ++ new (compared in Go) *)
Record step := Step {
  s_chunks : list chunk;
  s_tree : tree chunk;
  s_verify : bool;
  s_size : Z;
  s_read_len : Z;
  s_read_eq : bool;
  s_anomalies : list Z
}.

(** width, raw leaves, chunks of the base file (built by trickle.Layout; that its DAG
    is [tri_tree base] is C07's correspondence), then a history of appends, each
    applied to the previous result *)
Inductive case := CAppend (w : nat) (raw : bool) (base : list chunk) (steps : list step).

Definition step_spec (w : nat) (raw : bool) (prev : tree chunk) (cs : list chunk) (t : tree chunk)
  (size read_len : Z) (read_eq : bool) : bool * bool :=
  let want := data_leaves clen prev ++ cs in
  (* (content and sizes, shape) *)
  (read_eq && (read_len =? dsum clen want) && (size =? dsum clen want) &&
   list_eqb chunk_eqb (data_leaves clen t) want && sizes_ok clen t,
   tri_shape clen w raw t).

Definition step_model (fl : aflags) (w : nat) (raw : bool) (prev : tree chunk) (s : step) : bool :=
  match append clen cnil w (tri_kind raw) fl prev (s_chunks s) with
  | Some t => tree_eqb chunk_eqb t (s_tree s) && (s_size s =? rsize t) &&
              Bool.eqb (s_verify s) (tri_shape clen w raw (s_tree s)) && is_nil (s_anomalies s)
  | None => false
  end.

Definition off_meets (w : nat) (raw : bool) (prev : tree chunk) (cs : list chunk) : bool :=
  match append clen cnil w (tri_kind raw) aflags_off prev cs with
  | Some t => let '(a, b) := step_spec w raw prev cs t (rsize t) (dsum clen (data_leaves clen prev ++ cs)) true in a && b
  | None => false
  end.

Definition check_step (w : nat) (raw : bool) (prev : tree chunk) (s : step) : verdict :=
  let '(content_ok, shape_ok) :=
    step_spec w raw prev (s_chunks s) (s_tree s) (s_size s) (s_read_len s) (s_read_eq s) in
  let on := step_model aflags_on w raw prev s in
  let off := step_model aflags_off w raw prev s in
  (* the shape clause presupposes a trickle-shaped file; after an append that broke the
     shape (reported at that step) only content and sizes are demanded of later appends *)
  let shape_ok := shape_ok || negb (tri_shape clen w raw prev) in
  if content_ok && shape_ok then (if on || off then VOk else VModelMismatch)
  else if content_ok && on && off_meets w raw prev (s_chunks s) then VKnown 1
  else VSpecFail.

(** worst verdict of a history: SpecFail > ModelMismatch > Known > Ok *)
Definition worse (a b : verdict) : verdict :=
  match a, b with
  | VSpecFail, _ | _, VSpecFail => VSpecFail
  | VModelMismatch, _ | _, VModelMismatch => VModelMismatch
  | VKnown x, _ => VKnown x
  | _, v => v
  end.

Fixpoint check_steps (w : nat) (raw : bool) (prev : tree chunk) (ss : list step) : verdict :=
  match ss with
  | [] => VOk
  | s :: r => worse (check_step w raw prev s) (check_steps w raw (s_tree s) r)
  end.

Definition check_case (c : case) : verdict :=
  match c with
  | CAppend w raw base steps =>
      match tri_tree clen cnil w raw base with
      | Some t => check_steps w raw t steps
      | None => VModelMismatch
      end
  end.
