(** C40 — keystore is a confined name-to-key map (keystore/keystore.go,
    keystore/memkeystore.go).

    Executable model of the mechanism, transcribed from the Go sources:
      encode      "key_" + strings.ToLower(base32.StdEncoding.NoPadding.EncodeToString(name)),
                  error for the empty name
      decode      "key_" prefix check, strings.ToUpper, DecodeString
      FSKeystore  Has = os.Stat, Put = OpenFile(O_CREATE|O_EXCL), Get = ReadFile,
                  Delete = os.Remove, List = Readdirnames + decode (undecodable names skipped)
      MemKeystore a Go map
    The keystore directory is a list of (file name, content); a key is abstracted
    to an identifier (the harness maps marshalled key bytes to identifiers).
    The file system refuses names longer than NAME_MAX = 255 bytes.
    base32 comes from lib/BaseN.v.  Bytes and characters are [N].

    Defect switch [fl] of Delete on an ABSENT key: [true] = what the code did
    (FSKeystore returns os.Remove's not-exist error, MemKeystore returns nil: the
    two disagree, finding C40-1); [false] = the repaired code: both keystores
    return ErrNoSuchKey.
    No proofs in this file. *)
From Coq Require Import List NArith Bool String Ascii.
From V Require Import lib.Verdict lib.BaseN.
Import ListNotations.
Open Scope N_scope.

(** printable byte strings are written as string literals in the cases files *)
Fixpoint sb (s : string) : list N :=
  match s with
  | EmptyString => []
  | String a r => N_of_ascii a :: sb r
  end.

Definition name := list N.      (* key name: bytes *)
Definition fname := list N.     (* file name inside the keystore directory: bytes *)
Definition key := N.            (* key identifier *)

Fixpoint list_eqb {A} (eqb : A -> A -> bool) (l1 l2 : list A) : bool :=
  match l1, l2 with
  | [], [] => true
  | a :: r1, b :: r2 => eqb a b && list_eqb eqb r1 r2
  | _, _ => false
  end.
Definition bytes_eqb : list N -> list N -> bool := list_eqb N.eqb.
Definition is_nil {A} (l : list A) : bool := match l with [] => true | _ => false end.

Definition PREFIX : list N := [107; 101; 121; 95].      (* "key_" *)
Definition NAME_MAX : N := 255.

(** encode(name) for a non-empty name *)
Definition file_of (n : name) : fname := PREFIX ++ b32lower_encode n.

Fixpoint strip_prefix (p s : list N) : option (list N) :=
  match p, s with
  | [], _ => Some s
  | a :: p', b :: s' => if a =? b then strip_prefix p' s' else None
  | _ :: _, [] => None
  end.
(** decode(filename): [None] = error (the file is skipped by List) *)
Definition name_of (f : fname) : option name :=
  match strip_prefix PREFIX f with
  | Some rest => b32_decode_ci rest
  | None => None
  end.

Definition too_long (f : fname) : bool := NAME_MAX <? N.of_nat (List.length f).

(** results, errors as classes *)
Inductive res :=
| ROk | RExists | RNoKey | ROther
| RBool (b : bool) | RKey (k : key) | RList (l : list name).
Inductive op := Put (n : name) (k : key) | Get (n : name) | Has (n : name) | Del (n : name) | Lst.

(** ---------- the keystore directory ---------- *)
Definition dir := list (fname * key).

Fixpoint dlookup (f : fname) (d : dir) : option key :=
  match d with
  | [] => None
  | (f', k) :: r => if bytes_eqb f f' then Some k else dlookup f r
  end.
Fixpoint dremove (f : fname) (d : dir) : dir :=
  match d with
  | [] => []
  | (f', k) :: r => if bytes_eqb f f' then r else (f', k) :: dremove f r
  end.
Fixpoint dnames (d : dir) : list name :=
  match d with
  | [] => []
  | (f, _) :: r => match name_of f with Some n => n :: dnames r | None => dnames r end
  end.

Definition fs_step (fl : bool) (d : dir) (o : op) : dir * res :=
  match o with
  | Lst => (d, RList (dnames d))
  | Put n k =>
      if is_nil n then (d, ROther) else
      let f := file_of n in
      if too_long f then (d, ROther) else
      match dlookup f d with
      | Some _ => (d, RExists)
      | None => (d ++ [(f, k)], ROk)
      end
  | Get n =>
      if is_nil n then (d, ROther) else
      let f := file_of n in
      if too_long f then (d, ROther) else
      match dlookup f d with Some k => (d, RKey k) | None => (d, RNoKey) end
  | Has n =>
      if is_nil n then (d, ROther) else
      let f := file_of n in
      if too_long f then (d, ROther) else
      match dlookup f d with Some _ => (d, RBool true) | None => (d, RBool false) end
  | Del n =>
      if is_nil n then (d, ROther) else
      let f := file_of n in
      if too_long f then (d, ROther) else
      match dlookup f d with
      | Some _ => (dremove f d, ROk)
      | None => (d, if fl then ROther else RNoKey)       (* defect C40-1 / ErrNoSuchKey *)
      end
  end.

Fixpoint fs_run (fl : bool) (d : dir) (ops : list op) : dir * list res :=
  match ops with
  | [] => (d, [])
  | o :: r => let (d', x) := fs_step fl d o in let (d'', xs) := fs_run fl d' r in (d'', x :: xs)
  end.

(** every file name a step hands to the file system (what Stat / OpenFile / ReadFile / Remove are called on) *)
Definition touched (o : op) : list fname :=
  match o with
  | Lst => []
  | Put n _ | Get n | Has n | Del n => if is_nil n then [] else [file_of n]
  end.

(** ---------- the in-memory keystore = the map specification ---------- *)
Definition mem := list (name * key).
Fixpoint mlookup (n : name) (m : mem) : option key :=
  match m with
  | [] => None
  | (n', k) :: r => if bytes_eqb n n' then Some k else mlookup n r
  end.
Fixpoint mremove (n : name) (m : mem) : mem :=
  match m with
  | [] => []
  | (n', k) :: r => if bytes_eqb n n' then r else (n', k) :: mremove n r
  end.
Definition mem_step (fl : bool) (m : mem) (o : op) : mem * res :=
  match o with
  | Lst => (m, RList (map fst m))
  | Put n k =>
      if is_nil n then (m, ROther) else
      match mlookup n m with Some _ => (m, RExists) | None => (m ++ [(n, k)], ROk) end
  | Get n => match mlookup n m with Some k => (m, RKey k) | None => (m, RNoKey) end
  | Has n => match mlookup n m with Some _ => (m, RBool true) | None => (m, RBool false) end
  | Del n =>
      match mlookup n m with
      | Some _ => (mremove n m, ROk)
      | None => (m, if fl then ROk else RNoKey)      (* defect C40-1 / ErrNoSuchKey *)
      end
  end.
Fixpoint mem_run (fl : bool) (m : mem) (ops : list op) : mem * list res :=
  match ops with
  | [] => (m, [])
  | o :: r => let (m', x) := mem_step fl m o in let (m'', xs) := mem_run fl m' r in (m'', x :: xs)
  end.

(** ---------- specification ---------- *)
Definition byte_ok (b : N) : bool := b <? 256.
(** a name the property quantifies over: non-empty bytes whose file name fits NAME_MAX *)
Definition valid_name (n : name) : bool :=
  negb (is_nil n) && forallb byte_ok n && negb (too_long (file_of n)).
Definition op_names (o : op) : list name :=
  match o with Lst => [] | Put n _ | Get n | Has n | Del n => [n] end.
Definition valid_ops (ops : list op) : bool := forallb (fun o => forallb valid_name (op_names o)) ops.

(** a single, harmless path component: lower-case letters, 2..7 and '_' only
    (so no '/', no NUL, no '.'), non-empty *)
Definition safe_char (c : N) : bool := ((97 <=? c) && (c <=? 122)) || ((50 <=? c) && (c <=? 55)) || (c =? 95).
Definition safe_component (f : fname) : bool := negb (is_nil f) && forallb safe_char f.

(** ---------- correspondence ---------- *)
Fixpoint count_in (eqb : list N -> list N -> bool) (x : list N) (l : list (list N)) : nat :=
  match l with [] => 0 | y :: r => (if eqb x y then 1 else 0) + count_in eqb x r end.
(** same multiset of byte strings (directory listings and List() have no defined order) *)
Definition same_names (a b : list (list N)) : bool :=
  Nat.eqb (List.length a) (List.length b) &&
  forallb (fun x => Nat.eqb (count_in bytes_eqb x a) (count_in bytes_eqb x b)) a.

Definition res_eqb (a b : res) : bool :=
  match a, b with
  | ROk, ROk | RExists, RExists | RNoKey, RNoKey | ROther, ROther => true
  | RBool x, RBool y => Bool.eqb x y
  | RKey x, RKey y => x =? y
  | RList x, RList y => same_names x y
  | _, _ => false
  end.
Definition entry_key (e : fname * key) : list N := snd e :: fst e.
Definition dir_eqb (a b : dir) : bool := same_names (map entry_key a) (map entry_key b).

(** A case written by the harness: the keystore directory initially holds the files
    [d0]; [ops] were applied to the FSKeystore and to a MemKeystore; [fs_res] /
    [mem_res] are their answers; [final] is the listing of the keystore directory
    afterwards (name, key id of the content); [outside_ok] says that the listing of
    the parent directory (names, types, sizes, contents) is unchanged. *)
Inductive case :=
| COps (d0 : dir) (ops : list op) (fs_res mem_res : list res) (final : dir) (outside_ok : bool).

Definition check_case (c : case) : verdict :=
  match c with
  | COps d0 ops fs_res mem_res final outside_ok =>
      let '(d_off, r_off) := fs_run false d0 ops in
      let '(d_on, r_on) := fs_run true d0 ops in
      let '(_, m_off) := mem_run false [] ops in
      let '(_, m_on) := mem_run true [] ops in
      let eq_off := list_eqb res_eqb r_off fs_res && dir_eqb d_off final && list_eqb res_eqb m_off mem_res in
      let eq_on := list_eqb res_eqb r_on fs_res && dir_eqb d_on final && list_eqb res_eqb m_on mem_res in
      let confined := outside_ok && (negb (is_nil d0) || forallb (fun e => safe_component (fst e)) final) in
      (* the property speaks about a keystore directory that holds nothing but the keystore's own files *)
      if is_nil d0 && valid_ops ops then
        let agree := list_eqb res_eqb fs_res mem_res in
        let spec_ok := agree && confined in
        if spec_ok then verdict_of (eq_off || eq_on) true
        else if eq_on && negb eq_off && confined && list_eqb res_eqb r_off m_off then VKnown 1
        else VSpecFail
      else if confined then verdict_of (eq_off || eq_on) true else VSpecFail
  end.
