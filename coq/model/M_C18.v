(** C18 — UnixFS metadata round-trips (ipld/unixfs/unixfs.go, files/util.go).

    Executable model of [unixfs.FSNode] over the protobuf message model
    [lib/UnixFsPb.data]: NewFSNode, SetData, AddBlockSize, RemoveBlockSize,
    RemoveAllBlockSizes, UpdateFilesize, Mode/SetMode/SetModeFromUnixPermissions,
    ExtendedMode/SetExtendedMode, ModTime/SetModTime, FileSize, GetBytes,
    FSNodeFromBytes, DataSize and the static constructors FilePBData(WithStat),
    FolderPBData(WithStat), WrapData, SymlinkData, HAMTShardData(WithStat).
    The two permission-bit shuffles are NOT transcribed: they are the functions
    [Gen_C18.ModePermsToUnixPerms]/[UnixPermsToModePerms] that go2coq translates
    from files/util.go on every run.

    A Go [time.Time] is modelled by the pair (Unix(), Nanosecond()); the zero
    Time is (-62135596800, 0) and [time.Unix sec nsec] with 0 <= nsec < 10^9 is
    (sec, nsec).  An [os.FileMode] is its uint32 value.
    No proofs in this file. *)
From Coq Require Import List ZArith Bool.
From V Require Import lib.Verdict lib.GoInt lib.Varint lib.Pb lib.UnixFsPb gen.Gen_C18.
Import ListNotations.
Open Scope Z_scope.

(** ---------- constants ---------- *)
Definition TRaw : Z := 0.
Definition TDirectory : Z := 1.
Definition TFile : Z := 2.
Definition TMetadata : Z := 3.
Definition TSymlink : Z := 4.
Definition THAMTShard : Z := 5.

Definition ModeDir : Z := 2147483648.      (* 1<<31 *)
Definition ModeSymlink : Z := 134217728.   (* 1<<27 *)
Definition perm_mask : Z := 13631999.      (* ModePerm|ModeSetuid|ModeSetgid|ModeSticky = 0xD001FF *)
Definition ext_mask : Z := 4294963200.     (* 0xFFFFF000 *)

Definition gtime := (Z * Z)%type.          (* (Unix(), Nanosecond()) *)
Definition zero_sec : Z := -62135596800.
Definition zero_time : gtime := (zero_sec, 0).
Definition is_zero (t : gtime) : bool := (fst t =? zero_sec) && (snd t =? 0).

Arguments ModeDir : simpl never.
Arguments ModeSymlink : simpl never.
Arguments perm_mask : simpl never.
Arguments ext_mask : simpl never.
Arguments zero_sec : simpl never.

(** ---------- getters with protobuf defaults ---------- *)
Definition opt0 (o : option Z) : Z := match o with Some v => v | None => 0 end.
Definition get_type (d : data) : Z := opt0 (d_type d).
Definition get_mode (d : data) : Z := opt0 (d_mode d).
Definition get_filesize (d : data) : Z := opt0 (d_filesize d).
Definition get_data (d : data) : list Z := match d_data d with Some b => b | None => [] end.

(** ---------- record updates ---------- *)
Definition with_type (d : data) (x : option Z) : data :=
  {| d_type := x; d_data := d_data d; d_filesize := d_filesize d; d_blocksizes := d_blocksizes d;
     d_hashtype := d_hashtype d; d_fanout := d_fanout d; d_mode := d_mode d; d_mtime := d_mtime d |}.
Definition with_data (d : data) (x : option (list Z)) : data :=
  {| d_type := d_type d; d_data := x; d_filesize := d_filesize d; d_blocksizes := d_blocksizes d;
     d_hashtype := d_hashtype d; d_fanout := d_fanout d; d_mode := d_mode d; d_mtime := d_mtime d |}.
Definition with_filesize (d : data) (x : option Z) : data :=
  {| d_type := d_type d; d_data := d_data d; d_filesize := x; d_blocksizes := d_blocksizes d;
     d_hashtype := d_hashtype d; d_fanout := d_fanout d; d_mode := d_mode d; d_mtime := d_mtime d |}.
Definition with_blocks (d : data) (x : list Z) : data :=
  {| d_type := d_type d; d_data := d_data d; d_filesize := d_filesize d; d_blocksizes := x;
     d_hashtype := d_hashtype d; d_fanout := d_fanout d; d_mode := d_mode d; d_mtime := d_mtime d |}.
Definition with_hash_fanout (d : data) (h f : option Z) : data :=
  {| d_type := d_type d; d_data := d_data d; d_filesize := d_filesize d; d_blocksizes := d_blocksizes d;
     d_hashtype := h; d_fanout := f; d_mode := d_mode d; d_mtime := d_mtime d |}.
Definition with_mode (d : data) (x : option Z) : data :=
  {| d_type := d_type d; d_data := d_data d; d_filesize := d_filesize d; d_blocksizes := d_blocksizes d;
     d_hashtype := d_hashtype d; d_fanout := d_fanout d; d_mode := x; d_mtime := d_mtime d |}.
Definition with_mtime (d : data) (x : option mtime) : data :=
  {| d_type := d_type d; d_data := d_data d; d_filesize := d_filesize d; d_blocksizes := d_blocksizes d;
     d_hashtype := d_hashtype d; d_fanout := d_fanout d; d_mode := d_mode d; d_mtime := x |}.

(** ---------- FSNode ---------- *)
(** UpdateFilesize: uint64(int64(GetFilesize()) + diff) *)
Definition update_filesize (diff : Z) (d : data) : data :=
  with_filesize d (Some (to_u64 (get_filesize d + diff))).

(** NewFSNode(t) *)
Definition new_fsnode (t : Z) : data := update_filesize 0 (with_type empty_data (Some t)).

(** SetData(b): [None] is a nil slice *)
Definition set_data (b : option (list Z)) (d : data) : data :=
  let newlen := match b with Some l => blen l | None => 0 end in
  with_data (update_filesize (newlen - blen (get_data d)) d) b.

Definition add_blocksize (s : Z) (d : data) : data :=
  let d' := update_filesize (to_i64 s) d in
  with_blocks d' (d_blocksizes d' ++ [s]).

Fixpoint remove_nth {A} (i : nat) (l : list A) : list A :=
  match i, l with
  | _, [] => []
  | O, _ :: r => r
  | S i', x :: r => x :: remove_nth i' r
  end.

(** RemoveBlockSize(i); the Go code panics when i is out of range — [None] *)
Definition remove_blocksize (i : nat) (d : data) : option data :=
  match nth_error (d_blocksizes d) i with
  | None => None
  | Some s =>
      let d' := update_filesize (- to_i64 s) d in
      Some (with_blocks d' (remove_nth i (d_blocksizes d')))
  end.

Definition remove_all_blocksizes (d : data) : data :=
  with_filesize (with_blocks d []) (Some (blen (get_data d))).

(** Mode() *)
Definition mode_of (d : data) : Z :=
  let perms := Z.land (get_mode d) 4095 in
  if perms =? 0 then 0 else
  let m := UnixPermsToModePerms perms in
  let t := get_type d in
  if (t =? TDirectory) || (t =? THAMTShard) then Z.lor m ModeDir
  else if t =? TSymlink then Z.lor m ModeSymlink
  else m.

(** SetModeFromUnixPermissions(u) *)
Definition set_mode_unix (u : Z) (d : data) : data :=
  let newMode := Z.lor (Z.land (get_mode d) ext_mask) (Z.land u 4095) in
  if (u =? 0) && (Z.land newMode ext_mask =? 0) then with_mode d None
  else with_mode d (Some newMode).

(** SetMode(m) *)
Definition set_mode (m : Z) (d : data) : data := set_mode_unix (ModePermsToUnixPerms m) d.

(** ExtendedMode() *)
Definition extended_mode (d : data) : Z := Z.shiftr (Z.land (get_mode d) ext_mask) 12.

(** SetExtendedMode(x): (x << 12) in uint32 | (0xFFF & GetMode()) *)
Definition set_extended_mode (x : Z) (d : data) : data :=
  let newMode := Z.lor ((x * 4096) mod two32) (Z.land 4095 (get_mode d)) in
  if newMode =? 0 then with_mode d None else with_mode d (Some newMode).

(** ModTime() *)
Definition mod_time (d : data) : gtime :=
  match d_mtime d with
  | None => zero_time
  | Some t =>
      match t_sec t with
      | None => zero_time
      | Some s =>
          match t_nanos t with
          | None => (s, 0)
          | Some n => if (n <? 1) || (999999999 <? n) then zero_time else (s, n)
          end
      end
  end.

(** SetModTime(t) *)
Definition set_mod_time (t : gtime) (d : data) : data :=
  if is_zero t then with_mtime d None
  else with_mtime d (Some {| t_sec := Some (fst t);
                             t_nanos := if 0 <? snd t then Some (snd t) else None |}).

(** size(pbdata): (value, ok) *)
Definition size_of (d : data) : Z * bool :=
  let t := get_type d in
  if (t =? TDirectory) || (t =? THAMTShard) then (0, false)
  else if (t =? TFile) || (t =? TRaw) then (get_filesize d, true)
  else if t =? TSymlink then (blen (get_data d), true)
  else (0, false).

(** FileSize() drops the error *)
Definition file_size (d : data) : Z := fst (size_of d).

(** ---------- static constructors ---------- *)
(** pbDataAddStat(data, mode, mtime) *)
Definition add_stat (mode : Z) (t : gtime) (d : data) : data :=
  let d1 := if mode =? 0 then d else with_mode d (Some (ModePermsToUnixPerms mode)) in
  if is_zero t then d1
  else with_mtime d1 (Some {| t_sec := Some (fst t);
                              t_nanos := if 0 <? snd t then Some (snd t) else None |}).

Inductive init :=
| INew (t : Z)                                              (* NewFSNode(t) *)
| IFile (b : option (list Z)) (total : Z)                   (* FSNodeFromBytes(FilePBData(b, total)) *)
| IFileStat (b : option (list Z)) (total : Z) (mode : Z) (t : gtime)
| IFolder
| IFolderStat (mode : Z) (t : gtime)
| IWrap (b : option (list Z))                               (* WrapData *)
| ISymlink (b : list Z)                                     (* SymlinkData: []byte(path) is never nil *)
| IHamt (b : option (list Z)) (fanout hashType mode : Z) (t : gtime).

Definition typed (t : Z) : data := with_type empty_data (Some t).

Definition init_data (i : init) : data :=
  match i with
  | INew t => new_fsnode t
  | IFile b total => with_filesize (with_data (typed TFile) b) (Some total)
  | IFileStat b total mode t =>
      add_stat mode t (with_filesize (with_data (typed TFile) b) (Some total))
  | IFolder => typed TDirectory
  | IFolderStat mode t => add_stat mode t (typed TDirectory)
  | IWrap b => with_filesize (with_data (typed TRaw) b)
                 (Some (match b with Some l => blen l | None => 0 end))
  | ISymlink b => with_data (typed TSymlink) (Some b)
  | IHamt b fanout hashType mode t =>
      add_stat mode t (with_hash_fanout (with_data (typed THAMTShard) b) (Some hashType) (Some fanout))
  end.

(** every static constructor marshals and the harness parses the bytes back;
    [INew] starts from the in-memory node *)
Definition init_node (i : init) : option data :=
  match i with
  | INew t => Some (new_fsnode t)
  | _ => match encode_data (init_data i) with
         | Some bs => decode_data bs
         | None => None
         end
  end.

(** ---------- operations ---------- *)
Inductive op :=
| OSetData (b : option (list Z))
| OAddBlock (s : Z)
| ORemoveBlock (i : nat)
| ORemoveAll
| OUpdateFilesize (diff : Z)
| OSetMode (m : Z)
| OSetModeUnix (u : Z)
| OSetExtMode (x : Z)
| OSetModTime (t : gtime)
| ORoundTrip.                    (* n = FSNodeFromBytes(n.GetBytes()) *)

Definition step (d : data) (o : op) : option data :=
  match o with
  | OSetData b => Some (set_data b d)
  | OAddBlock s => Some (add_blocksize s d)
  | ORemoveBlock i => remove_blocksize i d
  | ORemoveAll => Some (remove_all_blocksizes d)
  | OUpdateFilesize diff => Some (update_filesize diff d)
  | OSetMode m => Some (set_mode m d)
  | OSetModeUnix u => Some (set_mode_unix u d)
  | OSetExtMode x => Some (set_extended_mode x d)
  | OSetModTime t => Some (set_mod_time t d)
  | ORoundTrip => match encode_data d with Some bs => decode_data bs | None => None end
  end.

Fixpoint run (d : data) (ops : list op) : option data :=
  match ops with
  | [] => Some d
  | o :: r => match step d o with Some d' => run d' r | None => None end
  end.

(** ---------- what the harness observes on a node ---------- *)
Record view := {
  v_type : Z;
  v_mode : Z;                   (* uint32(Mode()) *)
  v_ext : Z;                    (* ExtendedMode() *)
  v_time : gtime;               (* (ModTime().Unix(), ModTime().Nanosecond()) *)
  v_tzero : bool;               (* ModTime().IsZero() *)
  v_size : Z;                   (* FileSize() *)
  v_datalen : option Z;         (* Data() == nil ? None : Some len *)
  v_blocks : list Z             (* BlockSizes() *)
}.

Definition view_of (d : data) : view :=
  {| v_type := get_type d; v_mode := mode_of d; v_ext := extended_mode d;
     v_time := mod_time d; v_tzero := is_zero (mod_time d); v_size := file_size d;
     v_datalen := match d_data d with Some b => Some (blen b) | None => None end;
     v_blocks := d_blocksizes d |}.

(** ---------- specification: the abstract metadata a history determines ---------- *)
(** unix permission word <-> FileMode permission bits, written directly from
    the bit layout (setuid 04000 = bit 23, setgid 02000 = bit 22, sticky 01000
    = bit 20, rwx bits in place); deliberately independent of the translated
    code. *)
Definition spread (u : Z) : Z :=
  Z.land u 511 + (if Z.testbit u 9 then 1048576 else 0)
               + (if Z.testbit u 10 then 4194304 else 0)
               + (if Z.testbit u 11 then 8388608 else 0).

Record sstate := {
  s_type : Z;
  s_perm : Z;             (* FileMode permission bits (subset of perm_mask) *)
  s_ext : Z;              (* 20 extended bits *)
  s_time : gtime;         (* zero_time = unset *)
  s_datalen : Z;
  s_blocks : list Z;
  s_sized : bool          (* the filesize field tracks the content (set by the API, no raw UpdateFilesize) *)
}.

Definition sum_list (l : list Z) : Z := fold_right Z.add 0 l.

Definition spec_init (i : init) : sstate :=
  let mk t p tm len sized :=
    {| s_type := t; s_perm := p; s_ext := 0; s_time := tm; s_datalen := len; s_blocks := [];
       s_sized := sized |} in
  let olen (b : option (list Z)) := match b with Some l => blen l | None => 0 end in
  let tm (t : gtime) := if is_zero t then zero_time else t in
  match i with
  | INew t => mk t 0 zero_time 0 true
  | IFile b total => mk TFile 0 zero_time (olen b) (total =? olen b)
  | IFileStat b total mode t => mk TFile (Z.land mode perm_mask) (tm t) (olen b) (total =? olen b)
  | IFolder => mk TDirectory 0 zero_time 0 true
  | IFolderStat mode t => mk TDirectory (Z.land mode perm_mask) (tm t) 0 true
  | IWrap b => mk TRaw 0 zero_time (olen b) true
  | ISymlink b => mk TSymlink 0 zero_time (blen b) false   (* no filesize field; read through len(Data) *)
  | IHamt b fanout hashType mode t => mk THAMTShard (Z.land mode perm_mask) (tm t) (olen b) false
  end.

Definition spec_step (s : sstate) (o : op) : option sstate :=
  let upd p e tm len bl sized :=
    {| s_type := s_type s; s_perm := p; s_ext := e; s_time := tm; s_datalen := len;
       s_blocks := bl; s_sized := sized |} in
  match o with
  | OSetData b =>
      Some (upd (s_perm s) (s_ext s) (s_time s) (match b with Some l => blen l | None => 0 end)
                (s_blocks s) (s_sized s))
  | OAddBlock x => Some (upd (s_perm s) (s_ext s) (s_time s) (s_datalen s) (s_blocks s ++ [x]) (s_sized s))
  | ORemoveBlock i =>
      match nth_error (s_blocks s) i with
      | None => None
      | Some _ => Some (upd (s_perm s) (s_ext s) (s_time s) (s_datalen s) (remove_nth i (s_blocks s)) (s_sized s))
      end
  | ORemoveAll => Some (upd (s_perm s) (s_ext s) (s_time s) (s_datalen s) [] true)
  | OUpdateFilesize diff =>
      Some (upd (s_perm s) (s_ext s) (s_time s) (s_datalen s) (s_blocks s) ((diff =? 0) && s_sized s))
  | OSetMode m => Some (upd (Z.land m perm_mask) (s_ext s) (s_time s) (s_datalen s) (s_blocks s) (s_sized s))
  | OSetModeUnix u => Some (upd (spread (Z.land u 4095)) (s_ext s) (s_time s) (s_datalen s) (s_blocks s) (s_sized s))
  | OSetExtMode x => Some (upd (s_perm s) (Z.land x 1048575) (s_time s) (s_datalen s) (s_blocks s) (s_sized s))
  | OSetModTime t =>
      Some (upd (s_perm s) (s_ext s) (if is_zero t then zero_time else t) (s_datalen s) (s_blocks s) (s_sized s))
  | ORoundTrip => Some s              (* serialisation must change nothing *)
  end.

Fixpoint spec_run (s : sstate) (ops : list op) : option sstate :=
  match ops with
  | [] => Some s
  | o :: r => match spec_step s o with Some s' => spec_run s' r | None => None end
  end.

Definition gtime_eqb (a b : gtime) : bool := (fst a =? fst b) && (snd a =? snd b).

(** the property's read-back clauses, on an observed view *)
Definition meets (s : sstate) (v : view) : bool :=
  (Z.land (v_mode v) perm_mask =? s_perm s) &&
  (v_ext v =? s_ext s) &&
  gtime_eqb (v_time v) (s_time s) &&
  Bool.eqb (v_tzero v) (is_zero (s_time s)) &&
  (if (s_type s =? TFile) || (s_type s =? TRaw)
   then (if s_sized s then v_size v =? to_u64 (s_datalen s + sum_list (s_blocks s)) else true)
   else if s_type s =? TSymlink then v_size v =? s_datalen s
   else true).

(** whether the property fixes the file size of a node in state [s] *)
Definition size_specified (s : sstate) : bool :=
  (s_sized s && ((s_type s =? TFile) || (s_type s =? TRaw))) || (s_type s =? TSymlink).

(** ---------- equality tests ---------- *)
Fixpoint zlist_eqb (a b : list Z) : bool :=
  match a, b with
  | [], [] => true
  | x :: a', y :: b' => (x =? y) && zlist_eqb a' b'
  | _, _ => false
  end.
Definition optz_eqb (a b : option Z) : bool :=
  match a, b with Some x, Some y => x =? y | None, None => true | _, _ => false end.
Definition optl_eqb (a b : option (list Z)) : bool :=
  match a, b with Some x, Some y => zlist_eqb x y | None, None => true | _, _ => false end.
Definition view_eqb (a b : view) : bool :=
  (v_type a =? v_type b) && (v_mode a =? v_mode b) && (v_ext a =? v_ext b) &&
  gtime_eqb (v_time a) (v_time b) && Bool.eqb (v_tzero a) (v_tzero b) &&
  (v_size a =? v_size b) && optz_eqb (v_datalen a) (v_datalen b) &&
  zlist_eqb (v_blocks a) (v_blocks b).
Definition optview_eqb (a b : option view) : bool :=
  match a, b with Some x, Some y => view_eqb x y | None, None => true | _, _ => false end.

(** ---------- cases written by the harness ---------- *)
(** [CHist i ops pre bytes post dsize]: the node was built by [i], [ops] were
    applied (every ORoundTrip really serialised and re-parsed), then
      pre   = what the accessors say on the in-memory node,
      bytes = GetBytes()              (None = error),
      post  = the accessors on FSNodeFromBytes(bytes) (None = error),
      dsize = DataSize(bytes) as (value, err == nil).
    [CDecode bs post dsize]: foreign bytes [bs] given to FSNodeFromBytes / DataSize. *)
Inductive case :=
| CHist (i : init) (ops : list op) (pre : view) (bytes : option (list Z)) (post : option view)
        (dsize : Z * bool)
| CDecode (bs : list Z) (post : option view) (dsize : Z * bool).

Definition dsize_eqb (a b : Z * bool) : bool := (fst a =? fst b) && Bool.eqb (snd a) (snd b).

Definition check_case (c : case) : verdict :=
  match c with
  | CHist i ops pre bytes post dsize =>
      match init_node i with
      | None => VModelMismatch
      | Some d0 =>
          match run d0 ops, spec_run (spec_init i) ops with
          | Some d, Some s =>
              let mbytes := encode_data d in
              let mpost := match mbytes with
                           | Some bs => match decode_data bs with
                                        | Some d' => Some (view_of d')
                                        | None => None
                                        end
                           | None => None
                           end in
              let mdsize := match mpost, mbytes with
                            | Some _, Some bs =>
                                match decode_data bs with
                                | Some d' => size_of d'
                                | None => (0, false)
                                end
                            | _, _ => (0, false)
                            end in
              verdict_of
                (view_eqb (view_of d) pre && optl_eqb mbytes bytes && optview_eqb mpost post &&
                 dsize_eqb mdsize dsize)
                (meets s pre &&
                 match post with Some v => meets s v | None => false end &&
                 (if size_specified s then dsize_eqb dsize (v_size pre, true) else true))
          | _, _ => VModelMismatch
          end
      end
  | CDecode bs post dsize =>
      let m := decode_data bs in
      verdict_of
        (optview_eqb (match m with Some d => Some (view_of d) | None => None end) post &&
         dsize_eqb (match m with Some d => size_of d | None => (0, false) end) dsize)
        true
  end.
