(** C42 — Delegated routing HTTP applies filters and limits exactly.

    Executable model of the mechanism, transcribed from the Go sources:
      routing/http/filters/filters.go   ParseFilter, AddFiltersToURL (join), applyFilters,
                                        applyAddrFilter, containsAny, containsProtocol,
                                        protocolsAllowed, ApplyFiltersToIter,
                                        ApplyFiltersToPeerRecordIter
      routing/http/server/server.go     detectResponseType, findProviders(JSON|NDJSON),
                                        findPeers(JSON|NDJSON), GetIPNS, PutIPNS
      routing/http/client/client.go     With{Protocol,Addr}Filter (slices.Sort), FindProviders,
                                        FindPeers (decode + local filtering), GetIPNS, PutIPNS
    The iterator combinators the pipelines are built from (Map, Filter, Limit,
    FromSlice) are the subject of C43; here they enter through the list laws C43
    proves for them ([map], [filter], [M_C43.take]).

    A multiaddr is abstracted to (id, list of protocol codes) — the only thing
    the filter reads is [addr.Protocols()[i].Code]; the protocol registry
    [multiaddr.ProtocolWithName] is a function [code_of] (0 for unknown names, as
    the Go map lookup yields the zero Protocol).  Protocol / filter names are
    ASCII strings; [strings.ToLower] / [strings.EqualFold] are modelled on ASCII.

    Defect switch [client_raw]: true = the client options keep the filter strings
    exactly as the caller gave them and the client filters the decoded response
    with those (the code before fix C42-1), false = the options normalise the
    strings the way the server parses them from the URL (lower-case, split at commas).
    No proofs in this file. *)
From Coq Require Import List ZArith Bool String Ascii.
From V Require Import lib.Verdict.
From V Require model.M_C43.
Import ListNotations.
Open Scope Z_scope.

(** ---------- strings ---------- *)
(** strings.ToLower on one ASCII byte: 'A'..'Z' (0x41..0x5A) get bit 5 set.
    Written on the bits so that it is cheap under vm_compute. *)
Definition lower_ascii (c : ascii) : ascii :=
  match c with
  | Ascii b0 b1 b2 b3 b4 false true false =>
      (* 0x40 + v with v = b4 b3 b2 b1 b0; upper-case letter iff 1 <= v <= 26 *)
      if (b0 || b1 || b2 || b3 || b4) && negb (b4 && b3 && (b2 || (b1 && b0)))
      then Ascii b0 b1 b2 b3 b4 true true false
      else c
  | _ => c
  end.
Fixpoint lower (s : string) : string :=
  match s with
  | EmptyString => EmptyString
  | String c r => String (lower_ascii c) (lower r)
  end.
(** strings.EqualFold on ASCII *)
Definition equal_fold (a b : string) : bool := String.eqb (lower a) (lower b).

Definition comma : ascii := ","%char.
(** strings.Split(s, ","): always at least one piece *)
Fixpoint split_comma (s : string) : list string :=
  match s with
  | EmptyString => [EmptyString]
  | String c r =>
      if Ascii.eqb c comma then EmptyString :: split_comma r
      else match split_comma r with
           | h :: t => String c h :: t
           | [] => [String c EmptyString]           (* unreachable *)
           end
  end.
(** filters.ParseFilter *)
Definition parse_filter (param : string) : list string :=
  if String.eqb param ""%string then [] else split_comma (lower param).
(** what the server parses out of the URL that AddFiltersToURL builds from a
    filter list: query.Set(k, strings.Join(f, ",")) only if len(f) > 0, the
    server reads query.Get(k) ("" when absent) *)
Definition wire (f : list string) : list string := parse_filter (String.concat ","%string f).

(** slices.Sort on strings (bytewise lexicographic), as an insertion sort *)
Fixpoint insert_sorted (x : string) (l : list string) : list string :=
  match l with
  | [] => [x]
  | y :: r => if String.leb x y then x :: l else y :: insert_sorted x r
  end.
Fixpoint sort_strings (l : list string) : list string :=
  match l with
  | [] => []
  | x :: r => insert_sorted x (sort_strings r)
  end.

Definition is_nil {A} (l : list A) : bool := match l with [] => true | _ => false end.
Fixpoint contains_str (l : list string) (s : string) : bool :=     (* slices.Contains *)
  match l with
  | [] => false
  | x :: r => if String.eqb x s then true else contains_str r s
  end.

(** ---------- records ---------- *)
Record addr := { a_id : Z; a_codes : list Z }.
Record rec := { r_id : Z; r_protos : list string; r_addrs : list addr }.
Definition set_addrs (r : rec) (l : list addr) : rec :=
  {| r_id := r_id r; r_protos := r_protos r; r_addrs := l |}.

(** strings.HasPrefix(filter, "!") and filter[1:] *)
Definition bang (s : string) : option string :=
  match s with
  | String c r => if Ascii.eqb c "!"%char then Some r else None
  | EmptyString => None
  end.

Section Filters.
  Variable code_of : string -> Z.            (* multiaddr.ProtocolWithName(name).Code *)

  (** ----- transcription of filters.go ----- *)
  Fixpoint contains_protocol (protos : list Z) (p : Z) : bool :=
    match protos with
    | [] => false
    | q :: r => if q =? p then true else contains_protocol r p
    end.
  Fixpoint contains_any (protos filters : list Z) : bool :=
    match filters with
    | [] => false
    | f :: r => if contains_protocol protos f then true else contains_any protos r
    end.
  (** first loop of applyAddrFilter: positive / negative protocol lists *)
  Fixpoint split_filters (q : list string) (pos neg : list Z) : list Z * list Z :=
    match q with
    | [] => (pos, neg)
    | f :: r =>
        match bang f with
        | Some n => split_filters r pos (neg ++ [code_of n])
        | None => split_filters r (pos ++ [code_of f]) neg
        end
    end.
  (** second loop *)
  Fixpoint addr_loop (addrs : list addr) (pos neg : list Z) (acc : list addr) : list addr :=
    match addrs with
    | [] => acc
    | a :: r =>
        if contains_any (a_codes a) neg then addr_loop r pos neg acc
        else if is_nil pos || contains_any (a_codes a) pos then addr_loop r pos neg (acc ++ [a])
        else addr_loop r pos neg acc
    end.
  Definition apply_addr_filter (addrs : list addr) (q : list string) : list addr :=
    if is_nil q then addrs
    else let (pos, neg) := split_filters q [] [] in addr_loop addrs pos neg [].

  Fixpoint any_fold (peer : list string) (f : string) : bool :=
    match peer with
    | [] => false
    | p :: r => if equal_fold p f then true else any_fold r f
    end.
  Fixpoint protocols_allowed_loop (peer fp : list string) : bool :=
    match fp with
    | [] => false
    | f :: r =>
        if String.eqb f "unknown"%string && is_nil peer then true
        else if any_fold peer f then true
        else protocols_allowed_loop peer r
    end.
  Definition protocols_allowed (peer fp : list string) : bool :=
    if is_nil fp then true else protocols_allowed_loop peer fp.

  (** applyFilters: [None] = nil (record omitted) *)
  Definition apply_filters (r : rec) (fa fp : list string) : option rec :=
    if is_nil fa && is_nil fp then Some r
    else if negb (protocols_allowed (r_protos r) fp) then None
    else if is_nil fa || (is_nil (r_addrs r) && contains_str fa "unknown"%string) then Some r
    else let f := apply_addr_filter (r_addrs r) fa in
         if is_nil f then None else Some (set_addrs r f).

  (** ----- IPIP-484, stated declaratively ----- *)
  Definition addr_has (a : addr) (name : string) : Prop := In (code_of name) (a_codes a).
  (** an address passes: it matches no negated term, and — when there is any
      positive term — at least one positive term *)
  Definition addr_ok (fa : list string) (a : addr) : Prop :=
    (forall n, In (String "!"%char n) fa -> ~ addr_has a n) /\
    ((forall f, In f fa -> exists n, f = String "!"%char n) \/
     (exists f, In f fa /\ bang f = None /\ addr_has a f)).
  (** protocol filter: no filter, or "unknown" and the record lists no protocol,
      or some listed protocol equals some term case-insensitively *)
  Definition proto_ok (fp : list string) (r : rec) : Prop :=
    fp = [] \/ (In "unknown"%string fp /\ r_protos r = []) \/
    (exists f p, In f fp /\ In p (r_protos r) /\ lower p = lower f).
  (** a record is kept: protocol filter passes, and no address filter, or no
      addresses and "unknown" among the address terms, or some address passes *)
  Definition kept (fa fp : list string) (r : rec) : Prop :=
    proto_ok fp r /\
    (fa = [] \/ (r_addrs r = [] /\ In "unknown"%string fa) \/ (exists a, In a (r_addrs r) /\ addr_ok fa a)).

  (** the same as decidable functions (what [check_case] evaluates) *)
  Definition addr_hasb (a : addr) (name : string) : bool :=
    existsb (fun c => c =? code_of name) (a_codes a).
  Definition addr_okb (fa : list string) (a : addr) : bool :=
    forallb (fun f => match bang f with Some n => negb (addr_hasb a n) | None => true end) fa &&
    (forallb (fun f => match bang f with Some _ => true | None => false end) fa ||
     existsb (fun f => match bang f with Some _ => false | None => addr_hasb a f end) fa).
  Definition proto_okb (fp : list string) (r : rec) : bool :=
    is_nil fp || (contains_str fp "unknown"%string && is_nil (r_protos r)) ||
    existsb (fun f => existsb (fun p => String.eqb (lower p) (lower f)) (r_protos r)) fp.
  Definition keptb (fa fp : list string) (r : rec) : bool :=
    proto_okb fp r &&
    (is_nil fa || (is_nil (r_addrs r) && contains_str fa "unknown"%string) || existsb (addr_okb fa) (r_addrs r)).
  (** the record a client must see: dropped, or the same record with exactly the
      passing addresses, in order *)
  Definition ipip484 (fa fp : list string) (r : rec) : option rec :=
    if keptb fa fp r
    then Some (if is_nil fa then r else set_addrs r (filter (addr_okb fa) (r_addrs r)))
    else None.

  (** ----- records on the iterators ----- *)
  Inductive orec :=
  | OPeer (r : rec)                                     (* *types.PeerRecord, Schema "peer" *)
  | OBits (id : Z) (proto : string) (addrs : list addr) (* *types.BitswapRecord *)
  | OOther (id : Z).                                    (* *types.UnknownRecord, other schema *)
  Inductive res := RVal (o : orec) | RErr | RNil.       (* iter.Result: Val / Err / both nil *)

  Definition from_bitswap (id : Z) (proto : string) (addrs : list addr) : rec :=
    {| r_id := id; r_protos := [proto]; r_addrs := addrs |}.

  (** the Map function of ApplyFiltersToIter *)
  Definition map_fn (fa fp : list string) (v : res) : res :=
    match v with
    | RErr | RNil => v
    | RVal (OPeer r) =>
        match apply_filters r fa fp with Some r' => RVal (OPeer r') | None => RNil end
    | RVal (OBits id p ads) =>
        match apply_filters (from_bitswap id p ads) fa fp with
        | Some r' => RVal (OPeer r') | None => RNil end
    | RVal (OOther _) => v
    end.
  (** the Filter predicate of ApplyFiltersToIter: v.Err == nil && v.Val != nil *)
  Definition keep_fn (v : res) : bool := match v with RVal _ => true | _ => false end.
  (** ApplyFiltersToIter = Filter(Map(it, map_fn), keep_fn), by C43_map / C43_filter *)
  Definition apply_to_iter (fa fp : list string) (src : list res) : list res :=
    filter keep_fn (map (map_fn fa fp) src).

  (** specification counterpart: what IPIP-484 keeps of one result *)
  Definition spec_one (fa fp : list string) (v : res) : option res :=
    match v with
    | RErr | RNil => None
    | RVal (OPeer r) => option_map (fun r' => RVal (OPeer r')) (ipip484 fa fp r)
    | RVal (OBits id p ads) => option_map (fun r' => RVal (OPeer r')) (ipip484 fa fp (from_bitswap id p ads))
    | RVal (OOther _) => Some v
    end.
  Fixpoint filter_map {A B} (f : A -> option B) (l : list A) : list B :=
    match l with
    | [] => []
    | a :: r => match f a with Some b => b :: filter_map f r | None => filter_map f r end
    end.
  (** limit <= 0 means unlimited (iter.Limit) *)
  Definition firstn_limit {A} (limit : Z) (l : list A) : list A :=
    if 0 <? limit then firstn (Z.to_nat limit) l else l.
  Definition spec_records (limit : Z) (fa fp : list string) (src : list res) : list res :=
    firstn_limit limit (filter_map (spec_one fa fp) src).

  (** ----- server ----- *)
  Record cfg := { disable_nd : bool; lim_json : Z; lim_nd : Z }.
  Inductive fmt := FJson | FNdjson.
  Inductive rerr := RouterOk | RouterNotFound | RouterFail.
  (** detectResponseType for the two Accept values the client sends:
      "application/x-ndjson,application/json" (default) or "application/x-ndjson"
      (WithStreamResultsRequired) *)
  Definition detect (c : cfg) (stream_required : bool) : option fmt :=
    if negb (disable_nd c) then Some FNdjson
    else if negb stream_required then Some FJson
    else None.
  (** iter.ReadAllResults: an error result aborts with an error *)
  Fixpoint read_all_results (l : list res) : option (list res) :=
    match l with
    | [] => Some []
    | RErr :: _ => None
    | v :: r => option_map (cons v) (read_all_results r)
    end.
  (** writeResultsIterNDJSON: stops silently at the first error result *)
  Fixpoint ndjson_written (l : list res) : list res :=
    match l with
    | [] => []
    | RErr :: _ => []
    | v :: r => v :: ndjson_written r
    end.
  (** response body as the list of records written; [None] = non-200 status *)
  Definition serve (c : cfg) (stream_required : bool) (fa fp : list string)
             (e : rerr) (src : list res) : option (fmt * list res) :=
    match detect c stream_required with
    | None => None                                          (* 400 *)
    | Some f =>
        match e with
        | RouterFail => None                                (* 500 *)
        | _ =>
            let src' := match e with RouterNotFound => [] | _ => src end in
            let limit := match f with FJson => lim_json c | FNdjson => lim_nd c end in
            let limited := M_C43.take limit (apply_to_iter fa fp src') in
            match f with
            | FJson => option_map (fun l => (FJson, l)) (read_all_results limited)
            | FNdjson => Some (FNdjson, ndjson_written limited)
            end
        end
    end.

  (** ----- client ----- *)
  Record creq := {
    stream_required : bool;      (* WithStreamResultsRequired *)
    local_filter : bool;         (* !WithDisabledLocalFiltering *)
    q_addrs : list string;       (* WithAddrFilter argument *)
    q_protos : list string       (* WithProtocolFilter argument *)
  }.
  (** WithProtocolFilter / WithAddrFilter.  [client_raw = true]: slices.Sort of the
      caller's strings as they are (the code before fix C42-1).  [false]: the
      strings are first normalised the way the server parses them,
      filters.ParseFilter(strings.Join(f, ",")), then sorted. *)
  Definition norm_filter (client_raw : bool) (f : list string) : list string :=
    sort_strings (if client_raw then f else wire f).
  (** what the caller of FindProviders / FindPeers drains from the returned
      iterator: [None] = the call returned an error *)
  Definition client_view (client_raw : bool) (c : cfg) (q : creq) (e : rerr) (src : list res)
    : option (fmt * list res) :=
    let ca := norm_filter client_raw (q_addrs q) in
    let cp := norm_filter client_raw (q_protos q) in
    (* AddFiltersToURL(url, c.protocolFilter, c.addrFilter); the server parses it back *)
    match serve c (stream_required q) (wire ca) (wire cp) e src with
    | None => None
    | Some (f, body) =>
        (* JSON / NDJSON decoding gives back the records written (trusted);
           then filters.ApplyFiltersToIter(it, c.addrFilter, c.protocolFilter) *)
        if local_filter q then Some (f, apply_to_iter ca cp body) else Some (f, body)
    end.

  (** the property: records IPIP-484 keeps (filters as the caller listed them,
      compared case-insensitively), in order, capped at the format's limit *)
  Definition spec_view (c : cfg) (q : creq) (e : rerr) (src : list res) : option (fmt * list res) :=
    match detect c (stream_required q), e with
    | None, _ | _, RouterFail => None
    | Some f, _ =>
        let limit := match f with FJson => lim_json c | FNdjson => lim_nd c end in
        let src' := match e with RouterNotFound => [] | _ => src end in
        Some (f, spec_records limit (wire (q_addrs q)) (wire (q_protos q)) src')
    end.
End Filters.

(** ---------- IPNS over HTTP ---------- *)
(** how the harness built the record with respect to the name in the URL *)
Inductive ikind :=
| KValid          (* signed by the name's key, not expired *)
| KWrongName      (* valid record of another key *)
| KBadSig         (* signatureV2 bytes tampered *)
| KExpired        (* EOL in the past *)
| KBadData.       (* signed data tampered *)
Definition ik_valid (k : ikind) : bool := match k with KValid => true | _ => false end.

(** PUT through client.PutIPNS: (client got an error, router.PutIPNS was called) ;
    when called, the router must have been handed the same record bytes *)
Definition model_put (k : ikind) (router_fails : bool) : bool * bool :=
  if ik_valid k then (router_fails, true) else (true, false).
(** raw PUT of bytes that do not parse as a record: rejected, router untouched *)
Definition model_put_garbage : bool * bool := (true, false).
(** GET through client.GetIPNS *)
Inductive gsrc := GRecord (k : ikind) | GNotFound | GFail.
Inductive gres := GotRecord | GotNotFound | GotError.
Definition model_get (s : gsrc) : gres :=
  match s with
  | GRecord k => if ik_valid k then GotRecord else GotError   (* the client validates *)
  | GNotFound => GotNotFound
  | GFail => GotError
  end.

(** ---------- the multiaddr registry entries the harness uses ---------- *)
(** The harness asserts in Go, on every run, that multiaddr.ProtocolWithName
    agrees with this table and yields code 0 for every other name it uses. *)
Definition std_table : list (string * Z) :=
  [("ip4", 4); ("tcp", 6); ("udp", 273); ("ip6", 41); ("dns4", 54); ("quic-v1", 461);
   ("webtransport", 465); ("ws", 477); ("wss", 478); ("tls", 448); ("http", 480);
   ("https", 443); ("p2p", 421); ("p2p-circuit", 290); ("webrtc-direct", 280)]%string.
Fixpoint lookup (t : list (string * Z)) (s : string) : Z :=
  match t with
  | [] => 0
  | (k, v) :: r => if String.eqb k s then v else lookup r s
  end.
Definition std_code_of (s : string) : Z := lookup std_table s.

(** ---------- equality tests for the correspondence ---------- *)
Fixpoint list_eqb {A} (eqb : A -> A -> bool) (l1 l2 : list A) : bool :=
  match l1, l2 with
  | [], [] => true
  | a :: r1, b :: r2 => eqb a b && list_eqb eqb r1 r2
  | _, _ => false
  end.
Definition addr_eqb (a b : addr) : bool := (a_id a =? a_id b) && list_eqb Z.eqb (a_codes a) (a_codes b).
Definition rec_eqb (a b : rec) : bool :=
  (r_id a =? r_id b) && list_eqb String.eqb (r_protos a) (r_protos b) &&
  list_eqb addr_eqb (r_addrs a) (r_addrs b).
Definition orec_eqb (a b : orec) : bool :=
  match a, b with
  | OPeer x, OPeer y => rec_eqb x y
  | OBits i p l, OBits j q m => (i =? j) && String.eqb p q && list_eqb addr_eqb l m
  | OOther i, OOther j => i =? j
  | _, _ => false
  end.
Definition res_eqb (a b : res) : bool :=
  match a, b with
  | RVal x, RVal y => orec_eqb x y
  | RErr, RErr => true
  | RNil, RNil => true
  | _, _ => false
  end.
Definition fmt_eqb (a b : fmt) : bool :=
  match a, b with FJson, FJson => true | FNdjson, FNdjson => true | _, _ => false end.
Definition view_eqb (a b : option (fmt * list res)) : bool :=
  match a, b with
  | None, None => true
  | Some (f, l), Some (g, m) => fmt_eqb f g && list_eqb res_eqb l m
  | _, _ => false
  end.
Definition gres_eqb (a b : gres) : bool :=
  match a, b with
  | GotRecord, GotRecord | GotNotFound, GotNotFound | GotError, GotError => true
  | _, _ => false
  end.

(** ---------- cases written by the harness ---------- *)
Inductive case :=
(** filters.ApplyFiltersToIter run directly on a slice iterator with the filter
    lists as given (no normalisation): [obs] is what it yielded *)
| CIter (fa fp : list string) (src : list res) (obs : list res)
(** real client against an httptest server with a fake router:
    [peers] = FindPeers endpoint (else FindProviders), [obs] what the client saw *)
| CFind (peers : bool) (c : cfg) (q : creq) (e : rerr) (src : list res) (obs : option (fmt * list res))
(** client.PutIPNS: observed (client error, router called, router got the same bytes) *)
| CPut (k : ikind) (router_fails : bool) (obs_err obs_called obs_same : bool)
(** raw PUT of unparsable bytes *)
| CPutGarbage (obs_err obs_called : bool)
(** client.GetIPNS: observed result class and, for a record, byte equality *)
| CGet (s : gsrc) (obs : gres) (obs_same : bool).

(** the peers endpoint carries *types.PeerRecord only *)
Definition peer_only (src : list res) : bool :=
  forallb (fun v => match v with RVal (OPeer _) | RErr | RNil => true | _ => false end) src.

Definition check_case (c : case) : verdict :=
  match c with
  | CIter fa fp src obs =>
      verdict_of (list_eqb res_eqb (apply_to_iter std_code_of fa fp src) obs)
                 (list_eqb res_eqb (filter_map (spec_one std_code_of fa fp) src) obs)
  | CFind peers c q e src obs =>
      if peers && negb (peer_only src) then VModelMismatch else
      let spec := spec_view std_code_of c q e src in
      let m_off := client_view std_code_of false c q e src in
      let m_on := client_view std_code_of true c q e src in
      if view_eqb obs spec
      then (if view_eqb obs m_off || view_eqb obs m_on then VOk else VModelMismatch)
      else if view_eqb obs m_on && view_eqb m_off spec then VKnown 1
      else VSpecFail
  | CPut k rf oe oc os =>
      let (me, mc) := model_put k rf in
      verdict_of (Bool.eqb oe me && Bool.eqb oc mc)
                 (Bool.eqb oc (ik_valid k) && (if oc then os else true) &&
                  (if ik_valid k then Bool.eqb oe rf else oe))
  | CPutGarbage oe oc =>
      let (me, mc) := model_put_garbage in
      verdict_of (Bool.eqb oe me && Bool.eqb oc mc) (oe && negb oc)
  | CGet s og os =>
      verdict_of (gres_eqb og (model_get s))
                 (match s, og with
                  | GRecord KValid, GotRecord => os
                  | GRecord KValid, _ => false
                  | GRecord _, GotRecord => false          (* an invalid record must not be returned *)
                  | GRecord _, _ => true
                  | GNotFound, GotNotFound => true
                  | GNotFound, _ => false
                  | GFail, GotError => true
                  | GFail, _ => false
                  end)
  end.
