(** C43 — routing iterator combinators (routing/http/types/iter).

    Executable model of the mechanism, transcribed from the Go sources:
      slice.go  SliceIter  {Slice, i, val}
      map.go    MapIter    {iter, f, done, val}
      filter.go FilterIter {iter, f, done, val}   (Next loops over rejected values)
      limit.go  LimitIter  {iter, limit, count}   (limit <= 0 = unlimited; Val delegates)
      json.go   JSONIter   {Decoder, done, res}   (decoder abstracted to a list of
                                                    decode outcomes; EOF = end of list)
    plus a transparent counting wrapper [Cnt] that the Go harness also
    implements, used to observe how often an inner iterator is advanced/closed.
    No proofs in this file. *)
From Coq Require Import List ZArith Bool NArith.
From V Require Import lib.Verdict.
Import ListNotations.
Open Scope Z_scope.

(** function / predicate families shared with the Go harness *)
Inductive fn := FAdd (k : Z) | FMul (k : Z) | FNeg.
Inductive pr := PConst (b : bool) | PEven | POdd | PLt (k : Z) | PGe (k : Z).

Definition apf (f : fn) (x : Z) : Z :=
  match f with FAdd k => x + k | FMul k => x * k | FNeg => - x end.
Definition app (p : pr) (x : Z) : bool :=
  match p with
  | PConst b => b | PEven => Z.even x | POdd => Z.odd x
  | PLt k => x <? k | PGe k => k <=? x
  end.

(** a decode outcome of the JSON decoder: a value or a (non-EOF) error *)
Inductive jres := JOk (v : Z) | JErr.

(** iterator terms = how the harness composes the real constructors *)
Inductive it :=
| Src (xs : list Z)
| Json (rs : list jres)
| MapI (f : fn) (i : it)
| FilterI (p : pr) (i : it)
| LimitI (n : Z) (i : it)
| Cnt (i : it).

(** run-time states.  Values are [Z]; the JSON iterator's [Result] is flattened
    to (value, is_error) with value 0 on error — the harness projects likewise. *)
Inductive st :=
| SSrc (rem : list Z) (v : Z)
| SJson (rem : list jres) (done : bool) (v : Z) (err : bool)
| SMap (f : fn) (done : bool) (v : Z) (inner : st)
| SFilter (p : pr) (done : bool) (v : Z) (inner : st)
| SLimit (lim cnt : Z) (inner : st)
| SCnt (nexts trues closes : N) (inner : st).

Fixpoint init (t : it) : st :=
  match t with
  | Src xs => SSrc xs 0
  | Json rs => SJson rs false 0 false
  | MapI f i => SMap f false 0 (init i)
  | FilterI p i => SFilter p false 0 (init i)
  | LimitI n i => SLimit n 0 (init i)
  | Cnt i => SCnt 0 0 0 (init i)
  end.

(** Val(): (value, is_error) *)
Fixpoint val (s : st) : Z * bool :=
  match s with
  | SSrc _ v => (v, false)
  | SJson _ _ v e => (v, e)
  | SMap _ _ v _ => (v, false)
  | SFilter _ _ v _ => (v, false)
  | SLimit _ _ inner => val inner
  | SCnt _ _ _ inner => val inner
  end.

(** Next(), with explicit fuel for FilterIter's loop.  [None] = out of fuel;
    [P_C43.nextf_enough] proves [fuel_of s] always suffices, so the fuel is not a
    loophole. *)
Fixpoint nextf (fuel : nat) (s : st) {struct fuel} : option (bool * st) :=
  match fuel with
  | O => None
  | S fuel' =>
    match s with
    | SSrc rem v =>
        match rem with
        | [] => Some (false, SSrc [] v)
        | x :: r => Some (true, SSrc r x)
        end
    | SJson rem done v e =>
        if done then Some (false, s) else
        match rem with
        | [] => Some (false, SJson [] true 0 false)          (* EOF: done, res = {zero, nil} *)
        | JOk x :: r => Some (true, SJson r false x false)
        | JErr :: r => Some (true, SJson r true 0 true)       (* error result is yielded, then done *)
        end
    | SMap f done v inner =>
        if done then Some (false, s) else
        match nextf fuel' inner with
        | None => None
        | Some (true, inner') => Some (true, SMap f false (apf f (fst (val inner'))) inner')
        | Some (false, inner') => Some (false, SMap f true v inner')
        end
    | SFilter p done v inner =>
        if done then Some (false, s) else
        match nextf fuel' inner with
        | None => None
        | Some (false, inner') => Some (false, SFilter p true v inner')
        | Some (true, inner') =>
            let x := fst (val inner') in
            if app p x then Some (true, SFilter p false x inner')
            else nextf fuel' (SFilter p false x inner')
        end
    | SLimit lim cnt inner =>
        if (0 <? lim) && (lim <=? cnt) then Some (false, s) else
        match nextf fuel' inner with
        | None => None
        | Some (false, inner') => Some (false, SLimit lim cnt inner')
        | Some (true, inner') => Some (true, SLimit lim (cnt + 1) inner')
        end
    | SCnt n t c inner =>
        match nextf fuel' inner with
        | None => None
        | Some (b, inner') => Some (b, SCnt (N.succ n) (if b then N.succ t else t) c inner')
        end
    end
  end.

(** number of elements the bottom source can still produce, and nesting depth *)
Fixpoint remaining (s : st) : nat :=
  match s with
  | SSrc rem _ => length rem
  | SJson rem _ _ _ => length rem
  | SMap _ _ _ i | SFilter _ _ _ i | SLimit _ _ i | SCnt _ _ _ i => remaining i
  end.
Fixpoint depth (s : st) : nat :=
  match s with
  | SSrc _ _ | SJson _ _ _ _ => 0
  | SMap _ _ _ i | SFilter _ _ _ i | SLimit _ _ i | SCnt _ _ _ i => S (depth i)
  end.
Definition fuel_of (s : st) : nat := S (depth s + remaining s).

Definition next (s : st) : bool * st :=
  match nextf (fuel_of s) s with
  | Some r => r
  | None => (false, s)      (* unreachable: P_C43.nextf_enough *)
  end.

(** Close() *)
Fixpoint close (s : st) : st :=
  match s with
  | SSrc rem v => SSrc rem v                       (* SliceIter.Close is a no-op *)
  | SJson rem _ v e => SJson rem true v e          (* JSONIter.Close sets done *)
  | SMap f d v i => SMap f d v (close i)
  | SFilter p d v i => SFilter p d v (close i)
  | SLimit l c i => SLimit l c (close i)
  | SCnt n t c i => SCnt n t (N.succ c) (close i)
  end.

(** counters of every [Cnt] wrapper, outermost first: (nexts, trues, closes) *)
Fixpoint counters (s : st) : list (N * N * N) :=
  match s with
  | SSrc _ _ | SJson _ _ _ _ => []
  | SMap _ _ _ i | SFilter _ _ _ i | SLimit _ _ i => counters i
  | SCnt n t c i => (n, t, c) :: counters i
  end.

(** ReadAll without the Close: Next/Val until Next reports false *)
Fixpoint read_allf (fuel : nat) (s : st) : list (Z * bool) * st :=
  match fuel with
  | O => ([], s)
  | S fuel' =>
      let (b, s') := next s in
      if b then let (l, s'') := read_allf fuel' s' in (val s' :: l, s'') else ([], s')
  end.
Definition read_all (s : st) : list (Z * bool) * st := read_allf (S (remaining s)) s.

(** ---------- specification: the list-level denotation of a term ---------- *)
Fixpoint jvals (rs : list jres) : list (Z * bool) :=
  match rs with
  | [] => []
  | JOk v :: r => (v, false) :: jvals r
  | JErr :: _ => [(0, true)]
  end.

Definition take (n : Z) {A} (l : list A) : list A :=
  if 0 <? n then firstn (Z.to_nat n) l else l.

Fixpoint sem (t : it) : list (Z * bool) :=
  match t with
  | Src xs => map (fun x => (x, false)) xs
  | Json rs => jvals rs
  | MapI f i => map (fun x => (apf f (fst x), false)) (sem i)
  | FilterI p i => map (fun x => (fst x, false)) (filter (fun x => app p (fst x)) (sem i))
  | LimitI n i => take n (sem i)
  | Cnt i => sem i
  end.

(** ---------- operation-level interface used by the correspondence ---------- *)
Inductive op := ONext | OVal | OClose.
Inductive ob := BNext (b : bool) | BVal (v : Z) (e : bool) | BClose.

Definition step (s : st) (o : op) : st * ob :=
  match o with
  | ONext => let (b, s') := next s in (s', BNext b)
  | OVal => (s, BVal (fst (val s)) (snd (val s)))
  | OClose => (close s, BClose)
  end.

Fixpoint run (s : st) (ops : list op) : st * list ob :=
  match ops with
  | [] => (s, [])
  | o :: r => let (s', b) := step s o in let (s'', bs) := run s' r in (s'', b :: bs)
  end.

Definition ob_eqb (a b : ob) : bool :=
  match a, b with
  | BNext x, BNext y => Bool.eqb x y
  | BVal v e, BVal w f => (v =? w) && Bool.eqb e f
  | BClose, BClose => true
  | _, _ => false
  end.
Fixpoint list_eqb {A} (eqb : A -> A -> bool) (l1 l2 : list A) : bool :=
  match l1, l2 with
  | [], [] => true
  | a :: r1, b :: r2 => eqb a b && list_eqb eqb r1 r2
  | _, _ => false
  end.
Definition pair_eqb (a b : Z * bool) := (fst a =? fst b) && Bool.eqb (snd a) (snd b).
Definition ctr_eqb (a b : N * N * N) :=
  let '(a1, a2, a3) := a in let '(b1, b2, b3) := b in
  (a1 =? b1)%N && (a2 =? b2)%N && (a3 =? b3)%N.

(** A case written by the harness:
    - [COps t ops obs ctrs]: the ops were run on the real composed iterator, [obs]
      is what it answered, [ctrs] the counters of the Go counting wrappers afterwards.
    - [CRead t ys ctrs]: the real iterator was drained with Next/Val, then closed;
      [ys] are the yielded values, [ctrs] the counters afterwards. *)
Inductive case :=
| COps (t : it) (ops : list op) (obs : list ob) (ctrs : list (N * N * N))
| CRead (t : it) (ys : list (Z * bool)) (ctrs : list (N * N * N)).

(** specification on a drained-and-closed iterator: yielded = denotation, every
    wrapper closed exactly once, and a wrapper directly below a positive limit
    [n] was advanced successfully at most [n] times and at most [n] times at all
    when it had at least [n] elements (never reads ahead). *)
Fixpoint limit_ok (t : it) (ctrs : list (N * N * N)) : bool :=
  match t with
  | Src _ | Json _ => true
  | MapI _ i | FilterI _ i => limit_ok i ctrs
  | Cnt i => limit_ok i (tl ctrs)
  | LimitI n (Cnt i) =>
      match ctrs with
      | (nx, tr, _) :: rest =>
          (if 0 <? n
           then (Z.of_N tr <=? n) &&
                (if n <=? Z.of_nat (length (sem i)) then Z.of_N nx <=? n else true)
           else true) && limit_ok i rest
      | [] => false
      end
  | LimitI _ i => limit_ok i ctrs
  end.

Definition closes_ok (ctrs : list (N * N * N)) : bool :=
  forallb (fun c => let '(_, _, cl) := c in (cl =? 1)%N) ctrs.

Definition check_case (c : case) : verdict :=
  match c with
  | COps t ops obs ctrs =>
      let (s', mobs) := run (init t) ops in
      verdict_of (list_eqb ob_eqb mobs obs && list_eqb ctr_eqb (counters s') ctrs) true
  | CRead t ys ctrs =>
      let (mys, s') := read_all (init t) in
      let s'' := close s' in
      verdict_of (list_eqb pair_eqb mys ys && list_eqb ctr_eqb (counters s'') ctrs)
                 (list_eqb pair_eqb (sem t) ys && closes_ok ctrs && limit_ok t ctrs)
  end.
