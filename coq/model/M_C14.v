(** C14 — DAG diff applied to the source reproduces the target.

    Executable model of ipld/merkledag/dagutils/diff.go (Diff, ApplyChange) and the
    Editor of utils.go (InsertNodeAtPath, RmLink) on dag-pb trees.

    A tree is a dag-pb node (data, links to subtrees by name) or a raw leaf.  Merkle
    identity: two nodes have the same CID iff they are structurally equal
    ([tree_eqb]); links of a node are kept in the canonical order of the encoding
    (strictly sorted by bytewise name — directories have unique names), and Tsize
    is a function of the subtree (AddNodeLink recomputes it), so it is not stored.
    All nodes of a case use the same CID builder.  Names are valid path segments
    (non-empty, no '/'), so path.Join / strings.Split are cons / identity on
    lists of names.  Data is abstracted to an interned id.

    Defect switch [fl] of [diff]: true = the current code, which recurses into two
    ProtoNodes as soon as one of them has links and never looks at their Data;
    false = additionally emits Mod when the Data differs.

    No proofs in this file. *)
From Coq Require Import List ZArith Bool NArith.
From V Require Import lib.Verdict lib.C11_DagPb.
Import ListNotations.
Open Scope Z_scope.

Definition name := bytes.

Inductive tree :=
| PB (d : Z) (kids : list (name * tree))
| Raw (d : Z).

Fixpoint tree_eqb (a b : tree) {struct a} : bool :=
  match a, b with
  | Raw x, Raw y => x =? y
  | PB x ka, PB y kb =>
      (x =? y) &&
      (fix kids_eqb (ka kb : list (name * tree)) {struct ka} : bool :=
         match ka, kb with
         | [], [] => true
         | (n, c) :: ra, (m, e) :: rb => bytes_eqb n m && tree_eqb c e && kids_eqb ra rb
         | _, _ => false
         end) ka kb
  | _, _ => false
  end.

(** ---------- links of a node as a finite map kept in canonical order ---------- *)
Fixpoint get (n : name) (k : list (name * tree)) : option tree :=
  match k with
  | [] => None
  | (m, c) :: r => if bytes_eqb m n then Some c else get n r
  end.
(** RemoveNodeLink: all links of that name *)
Fixpoint del (n : name) (k : list (name * tree)) : list (name * tree) :=
  match k with
  | [] => []
  | (m, c) :: r => if bytes_eqb m n then del n r else (m, c) :: del n r
  end.
(** AddNodeLink on a sorted list followed by the stable sort of the encoder *)
Fixpoint ins (n : name) (x : tree) (k : list (name * tree)) : list (name * tree) :=
  match k with
  | [] => [(n, x)]
  | (m, c) :: r => if bytes_ltb n m then (n, x) :: (m, c) :: r else (m, c) :: ins n x r
  end.
(** addLink of utils.go: remove the name, then add *)
Definition set (n : name) (x : tree) (k : list (name * tree)) := ins n x (del n k).

Definition is_pb (t : tree) : bool := match t with PB _ _ => true | Raw _ => false end.

(** ---------- changes ---------- *)
Inductive ctype := CAdd | CRemove | CMod.
Record change := mkChange { c_type : ctype; c_path : list name; c_before : option tree; c_after : option tree }.

Definition prefix (n : name) (c : change) : change :=
  mkChange (c_type c) (n :: c_path c) (c_before c) (c_after c).

(** ---------- Editor ---------- *)
(** insertNodeAtPath (create = nil).  Every node on the way must be a ProtoNode
    (GetLinkedProtoNode), the last segment must be non-empty (addLink). *)
Fixpoint insert_at (t : tree) (p : list name) (x : tree) {struct p} : option tree :=
  match p with
  | [] => None
  | n :: rest =>
      match t with
      | Raw _ => None
      | PB d k =>
          match rest with
          | [] => match n with [] => None | _ => Some (PB d (set n x k)) end
          | _ :: _ =>
              match get n k with
              | None => None
              | Some c =>
                  match insert_at c rest x with
                  | Some c' => Some (PB d (set n c' k))
                  | None => None
                  end
              end
          end
      end
  end.

(** rmLink *)
Fixpoint rm_at (t : tree) (p : list name) {struct p} : option tree :=
  match p with
  | [] => None
  | n :: rest =>
      match t with
      | Raw _ => None
      | PB d k =>
          match rest with
          | [] => match get n k with None => None | Some _ => Some (PB d (del n k)) end
          | _ :: _ =>
              match get n k with
              | None => None
              | Some c =>
                  match rm_at c rest with
                  | Some c' => Some (PB d (set n c' k))
                  | None => None
                  end
              end
          end
      end
  end.

(** one case of ApplyChange's switch; a child that is not a ProtoNode is ErrNotProtobuf *)
Definition apply_change (t : tree) (c : change) : option tree :=
  match c_type c with
  | CAdd =>
      match c_after c with
      | Some (PB _ _ as x) => insert_at t (c_path c) x
      | _ => None
      end
  | CRemove => rm_at t (c_path c)
  | CMod =>
      match rm_at t (c_path c) with
      | None => None
      | Some t' =>
          match c_after c with
          | Some (PB _ _ as x) => insert_at t' (c_path c) x
          | _ => None
          end
      end
  end.

(** ApplyChange: None = an error was returned *)
Fixpoint apply_list (t : tree) (cs : list change) : option tree :=
  match cs with
  | [] => Some t
  | c :: r => match apply_change t c with Some t' => apply_list t' r | None => None end
  end.

(** ---------- Diff ---------- *)
Definition mod_change (a b : tree) : change := mkChange CMod [] (Some a) (Some b).
Definition is_nil {A} (l : list A) : bool := match l with [] => true | _ => false end.

Definition removes (ka kb : list (name * tree)) : list change :=
  map (fun nc => mkChange CRemove [fst nc] (Some (snd nc)) None)
      (filter (fun nc => negb (is_some (get (fst nc) kb))) ka).
Definition adds (ka kb : list (name * tree)) : list change :=
  map (fun nc => mkChange CAdd [fst nc] None (Some (snd nc)))
      (filter (fun nc => negb (is_some (get (fst nc) ka))) kb).

Fixpoint diff (fl : bool) (a b : tree) {struct a} : list change :=
  if tree_eqb a b then [] else
  match a, b with
  | PB da ka, PB db kb =>
      if (is_nil ka && is_nil kb) || (negb fl && negb (da =? db))
      then [mod_change a b]
      else
        (fix commons (l : list (name * tree)) {struct l} : list change :=
           match l with
           | [] => []
           | (n, ca) :: r =>
               match get n kb with
               | None => commons r
               | Some cb =>
                   (if tree_eqb ca cb then [] else map (prefix n) (diff fl ca cb)) ++ commons r
               end
           end) ka
        ++ removes ka kb ++ adds ka kb
  | _, _ => [mod_change a b]
  end.

(** ---------- what the property quantifies over ---------- *)
Definition tdata (t : tree) : Z := match t with PB d _ | Raw d => d end.

Fixpoint names_sorted (k : list (name * tree)) : bool :=
  match k with
  | [] => true
  | (n, _) :: r =>
      match r with
      | [] => true
      | (m, _) :: _ => bytes_ltb n m && names_sorted r
      end
  end.

(** a dag-pb tree: no raw leaves, non-empty names, links strictly sorted by name *)
Fixpoint wfb (t : tree) : bool :=
  match t with
  | Raw _ => false
  | PB _ k =>
      names_sorted k &&
      (fix all (k : list (name * tree)) : bool :=
         match k with
         | [] => true
         | (n, c) :: r => negb (is_nil n) && wfb c && all r
         end) k
  end.

(** the current code is right exactly when it never recurses into two nodes with different Data *)
Fixpoint compat (a b : tree) {struct a} : bool :=
  if tree_eqb a b then true else
  match a, b with
  | PB da ka, PB db kb =>
      if is_nil ka && is_nil kb then true
      else (da =? db) &&
           (fix all (l : list (name * tree)) : bool :=
              match l with
              | [] => true
              | (n, ca) :: r =>
                  match get n kb with
                  | None => all r
                  | Some cb => compat ca cb && all r
                  end
              end) ka
  | _, _ => true
  end.

(** ---------- correspondence ---------- *)
(** trees as the harness sends them: every node carries the interned CID of the real node *)
Inductive atree :=
| APB (id d : Z) (kids : list (name * atree))
| ARaw (id d : Z).

Fixpoint erase (t : atree) : tree :=
  match t with
  | ARaw _ d => Raw d
  | APB _ d k => PB d ((fix go (k : list (name * atree)) := match k with [] => [] | (n, c) :: r => (n, erase c) :: go r end) k)
  end.
Definition aid (t : atree) : Z := match t with APB i _ _ | ARaw i _ => i end.

Fixpoint aget (n : name) (k : list (name * atree)) : option atree :=
  match k with
  | [] => None
  | (m, c) :: r => if bytes_eqb m n then Some c else aget n r
  end.
Fixpoint asub (t : atree) (p : list name) : option atree :=
  match p with
  | [] => Some t
  | n :: r => match t with
              | APB _ _ k => match aget n k with Some c => asub c r | None => None end
              | ARaw _ _ => None
              end
  end.
Definition id_at (t : atree) (p : list name) : Z := match asub t p with Some x => aid x | None => 0 end.

(** all subtrees, for the Merkle-identity sanity check of a case *)
Fixpoint subtrees (t : atree) : list atree :=
  t :: match t with
       | ARaw _ _ => []
       | APB _ _ k => (fix go (k : list (name * atree)) := match k with [] => [] | (_, c) :: r => subtrees c ++ go r end) k
       end.
Definition ids_consistent (l : list atree) : bool :=
  forallb (fun x => forallb (fun y => Bool.eqb (aid x =? aid y) (tree_eqb (erase x) (erase y))) l) l.

Fixpoint has_raw (t : tree) : bool :=
  match t with
  | Raw _ => true
  | PB _ k => (fix go (k : list (name * tree)) := match k with [] => false | (_, c) :: r => has_raw c || go r end) k
  end.

(** an observed Change: type, path, interned Before and After CIDs (0 = undefined) *)
Definition ochange := (ctype * list name * Z * Z)%type.

Definition ctype_eqb (a b : ctype) : bool :=
  match a, b with CAdd, CAdd | CRemove, CRemove | CMod, CMod => true | _, _ => false end.

Definition change_matches (a b : atree) (c : change) (o : ochange) : bool :=
  let '(ty, p, bid, cid) := o in
  ctype_eqb (c_type c) ty && list_eqb bytes_eqb (c_path c) p &&
  (bid =? match c_before c with Some _ => id_at a (c_path c) | None => 0 end) &&
  (cid =? match c_after c with Some _ => id_at b (c_path c) | None => 0 end).

Fixpoint changes_match (a b : atree) (cs : list change) (os : list ochange) : bool :=
  match cs, os with
  | [], [] => true
  | c :: cr, o :: or => change_matches a b c o && changes_match a b cr or
  | _, _ => false
  end.

Definition otree_eqb (x y : option tree) : bool := option_eqb tree_eqb x y.

(** [CDiff a b os res]: Diff(a, b) on the real code returned [os]; ApplyChange of these
    changes to a fresh copy of a returned an error ([None]) or a node with interned CID
    [fst] whose DAG, read back from the DAGService, is [snd] ([None] when a block of it
    is missing there: the Editor drops a new intermediate node from its scratch store
    when another node with the same CID is modified later; the root CID is unaffected). *)
Inductive case :=
| CDiff (a b : atree) (os : list ochange) (res : option (Z * option atree)).

Definition res_matches (b : atree) (m : option tree) (res : option (Z * option atree)) : bool :=
  match m, res with
  | None, None => true
  | Some t, Some (rid, rt) =>
      Bool.eqb (rid =? aid b) (tree_eqb t (erase b)) &&
      match rt with
      | Some r => (aid r =? rid) && tree_eqb t (erase r)
      | None => true
      end
  | _, _ => false
  end.

Definition model_ok (fl : bool) (a b : atree) (os : list ochange) (res : option (Z * option atree)) : bool :=
  let cs := diff fl (erase a) (erase b) in
  changes_match a b cs os && res_matches b (apply_list (erase a) cs) res.

Definition check_case (c : case) : verdict :=
  match c with
  | CDiff a b os res =>
      let ta := erase a in
      let tb := erase b in
      let sane := ids_consistent (subtrees a ++ subtrees b ++
                                  match res with Some (_, Some r) => subtrees r | _ => [] end) in
      (* the property: the result has the CID of b; Diff(a, a) is empty.  Trees with raw
         leaves are outside the property (ApplyChange refuses them with ErrNotProtobuf). *)
      let spec_ok :=
        (has_raw ta || has_raw tb || match res with Some (rid, _) => rid =? aid b | None => false end) &&
        (negb (aid a =? aid b) || is_nil os) in
      let on := model_ok true a b os res in
      let off := model_ok false a b os res in
      if negb sane then VModelMismatch
      else if spec_ok then (if on || off then VOk else VModelMismatch)
      else if on && otree_eqb (apply_list ta (diff false ta tb)) (Some tb) then VKnown 1
      else VSpecFail
  end.
