(** C28 — names and content paths parse and print canonically (path, ipns/name.go).

    Executable model, transcribed from the Go sources:
      path/path.go   StringToSegments (gopath.Clean + trim + split), SegmentsToString,
                     NewPath (prefix / component checks, trailing slash, namespace switch,
                     cid.Decode of the root for ipfs/ipld), Path.Segments/Namespace/String
      path/uri.go    NewPathFromURI, normalizeURIScheme, hasURIScheme, toLowerASCII
      ipns/name.go   Name = multihash bytes; RoutingKey/NameFromRoutingKey, Peer/NameFromPeer,
                     Cid/NameFromCid, String/NameFromString (peer.Decode dispatch)
    Strings are byte lists ([str] = list N).  Go's [path.Clean] is modelled for ROOTED
    strings (the only ones NewPath accepts) over the '/'-separated pieces.
    External codecs (cid.Decode; multibase/multihash text codecs) are function
    arguments; in the correspondence run they are instantiated with tables of what the
    real codecs answered.  No proofs in this file. *)
From Coq Require Import List ZArith Bool NArith Ascii.
From Coq Require String.
From V Require Import lib.Verdict.
Import ListNotations.
Open Scope N_scope.

Definition str := list N.
Definition SL : N := 47.     (* '/' *)
Definition DOT : N := 46.    (* '.' *)
Definition COLON : N := 58.  (* ':' *)

(** bytes of a Coq string literal (used by the harness to write printable inputs) *)
Fixpoint b (s : String.string) : str :=
  match s with
  | String.EmptyString => []
  | String.String a r => N_of_ascii a :: b r
  end.

Definition str_eq_dec : forall x y : str, {x = y} + {x <> y} := list_eq_dec N.eq_dec.
Definition str_eqb (x y : str) : bool := if str_eq_dec x y then true else false.

(** strings.Split(s, "/") — always at least one piece *)
Fixpoint split (s : str) : list str :=
  match s with
  | [] => [[]]
  | c :: r =>
      if c =? SL then [] :: split r
      else match split r with
           | h :: t => (c :: h) :: t
           | [] => [[c]]
           end
  end.

(** strings.Join(l, "/") *)
Fixpoint join (l : list str) : str :=
  match l with
  | [] => []
  | [x] => x
  | x :: r => x ++ SL :: join r
  end.

Definition is_dot (x : str) : bool := str_eqb x [DOT].
Definition is_dotdot (x : str) : bool := str_eqb x [DOT; DOT].
Definition is_empty (x : str) : bool := match x with [] => true | _ => false end.

(** lexical processing of a rooted path's pieces, as path.Clean does it: empty pieces
    and "." are dropped, ".." removes the piece before it (nothing at the root).
    [acc] is the stack of kept pieces, last one first. *)
Fixpoint clean_rev (acc : list str) (l : list str) : list str :=
  match l with
  | [] => acc
  | x :: r =>
      if is_empty x || is_dot x then clean_rev acc r
      else if is_dotdot x then clean_rev (tl acc) r
      else clean_rev (x :: acc) r
  end.
Definition clean_segs (l : list str) : list str := rev (clean_rev [] l).

Definition rooted (s : str) : bool := match s with c :: _ => c =? SL | [] => false end.
Fixpoint ends_slash (s : str) : bool :=
  match s with
  | [] => false
  | [c] => c =? SL
  | _ :: r => ends_slash r
  end.

(** gopath.Clean on a rooted string *)
Definition go_clean (s : str) : str := SL :: join (clean_segs (split s)).

(** path.StringToSegments on a rooted string *)
Definition string_to_segments (s : str) : list str := clean_segs (split s).

(** path.SegmentsToString *)
Definition segments_to_string (l : list str) : str :=
  match join l with [] => [] | j => SL :: j end.

Definition IPFS : str := [105; 112; 102; 115].
Definition IPNS : str := [105; 112; 110; 115].
Definition IPLD : str := [105; 112; 108; 100].

(** a parsed path: its string, its namespace and (immutable paths) its root CID, given as
    whatever canonical text the CID decoder returns *)
Record ppath := mkPP { pp_str : str; pp_ns : str; pp_cid : option str }.
Definition segments (p : ppath) : list str := string_to_segments (pp_str p).

Inductive perr := EInsufficient | ECid | ENamespace.
Inductive presult := POk (p : ppath) | PErr (e : perr).

(** path.NewPath; [dec] = cid.Decode (canonical text of the CID, or None) *)
Definition new_path (dec : str -> option str) (s : str) : presult :=
  if negb (rooted s) then PErr EInsufficient else
  let segs := string_to_segments s in
  match segs with
  | ns :: root :: _ =>
      let cleaned := segments_to_string segs ++ (if ends_slash s then [SL] else []) in
      if str_eqb ns IPFS || str_eqb ns IPLD then
        match dec root with
        | Some c => POk (mkPP cleaned ns (Some c))
        | None => PErr ECid
        end
      else if str_eqb ns IPNS then POk (mkPP cleaned ns None)
      else PErr ENamespace
  | _ => PErr EInsufficient
  end.

(** path/uri.go *)
Definition lower (c : N) : N := if (65 <=? c) && (c <=? 90) then c + 32 else c.
Fixpoint prefix_lower (s ns : str) : bool :=   (* the first |ns| bytes of s, lower-cased, are ns *)
  match ns, s with
  | [], _ => true
  | n :: ns', c :: s' => (lower c =? n) && prefix_lower s' ns'
  | _ :: _, [] => false
  end.
Definition has_uri_scheme (s ns : str) : bool :=
  (N.of_nat (length ns) <? N.of_nat (length s)) && (nth (length ns) s 0 =? COLON) && prefix_lower s ns.
Definition trim2 (s : str) : str :=    (* strings.TrimPrefix(s, "//") *)
  match s with
  | a :: c :: r => if (a =? SL) && (c =? SL) then r else s
  | _ => s
  end.
Definition rewrite_uri (s ns : str) : str := SL :: ns ++ SL :: trim2 (skipn (S (length ns)) s).
Definition normalize_uri (s : str) : str :=
  if has_uri_scheme s IPFS then rewrite_uri s IPFS
  else if has_uri_scheme s IPNS then rewrite_uri s IPNS
  else if has_uri_scheme s IPLD then rewrite_uri s IPLD
  else s.
Definition new_path_uri (dec : str -> option str) (s : str) : presult := new_path dec (normalize_uri s).

(** ---------- IPNS names ---------- *)
(** A name is the binary multihash of the public key.  [cidv] = (version, codec, multihash). *)
Definition LIBP2P_KEY : N := 114.   (* 0x72 *)
Record cidv := mkCid { c_ver : N; c_codec : N; c_mh : str }.

Definition NSPREFIX : str := [47; 105; 112; 110; 115; 47].   (* "/ipns/" *)
Fixpoint strip_prefix (p s : str) : option str :=
  match p, s with
  | [], _ => Some s
  | a :: p', c :: s' => if a =? c then strip_prefix p' s' else None
  | _ :: _, [] => None
  end.

Definition routing_key (n : str) : str := NSPREFIX ++ n.
Definition name_from_routing_key (mh_valid : str -> bool) (data : str) : option str :=
  match strip_prefix NSPREFIX data with
  | Some r => if mh_valid r then Some r else None
  | None => None
  end.
Definition name_peer (n : str) : str := n.
Definition name_from_peer (p : str) : str := p.
Definition name_cid (n : str) : cidv := mkCid 1 LIBP2P_KEY n.
Definition name_from_cid (c : cidv) : option str :=
  if c_codec c =? LIBP2P_KEY then Some (c_mh c) else None.
(** binary form of a CIDv1 with a one-byte codec *)
Definition cid_bytes (c : cidv) : str := c_ver c :: c_codec c :: c_mh c.

(** peer.Decode dispatches on the first characters: "Qm" or "1" = base58 multihash *)
Definition starts_b58 (s : str) : bool :=
  match s with
  | 81 :: 109 :: _ => true      (* "Qm" *)
  | 49 :: _ => true             (* "1" *)
  | _ => false
  end.
Definition trim_ns (s : str) : str := match strip_prefix NSPREFIX s with Some r => r | None => s end.

Section NameText.
  Variable enc36 : cidv -> str.              (* cid.StringOfBase(Base36) *)
  Variable dec_cid : str -> option cidv.     (* cid.Decode *)
  Variable dec58 : str -> option str.        (* base58 multihash decoding *)

  Definition name_string (n : str) : str := enc36 (name_cid n).
  Definition name_from_string (s : str) : option str :=
    let s := trim_ns s in
    if starts_b58 s then dec58 s
    else match dec_cid s with
         | Some c => if c_codec c =? LIBP2P_KEY then Some (c_mh c) else None
         | None => None
         end.
End NameText.

(** ---------- correspondence ---------- *)
Definition dec_of (tbl : list (str * str)) (x : str) : option str :=
  match find (fun kv => str_eqb (fst kv) x) tbl with
  | Some kv => Some (snd kv)
  | None => None
  end.

(** what the harness saw: string, namespace, Segments(), RootCid text — or an error class *)
Inductive pres :=
| ROk (s : str) (ns : str) (segs : list str) (cid : option str)
| RErr (e : perr).

Definition view (r : presult) : pres :=
  match r with
  | POk p => ROk (pp_str p) (pp_ns p) (segments p) (pp_cid p)
  | PErr e => RErr e
  end.

Definition lstr_eqb (x y : list str) : bool := if list_eq_dec str_eq_dec x y then true else false.
Definition ostr_eqb (x y : option str) : bool :=
  match x, y with Some u, Some v => str_eqb u v | None, None => true | _, _ => false end.
Definition perr_eqb (x y : perr) : bool :=
  match x, y with
  | EInsufficient, EInsufficient | ECid, ECid | ENamespace, ENamespace => true
  | _, _ => false
  end.
Definition pres_eqb (x y : pres) : bool :=
  match x, y with
  | ROk s n g c, ROk s' n' g' c' => str_eqb s s' && str_eqb n n' && lstr_eqb g g' && ostr_eqb c c'
  | RErr e, RErr e' => perr_eqb e e'
  | _, _ => false
  end.
Definition opres_eqb (x y : option pres) : bool :=
  match x, y with Some u, Some v => pres_eqb u v | None, None => true | _, _ => false end.

Inductive case :=
| CParse (s : str) (cids : list (str * str))
         (goclean : option str)        (* gopath.Clean(s), given when s starts with '/' *)
         (r1 : pres)                   (* NewPath(s) *)
         (r2 : option pres)            (* NewPath(r1.String()) when r1 is a path *)
         (ru : pres)                   (* NewPathFromURI(s) *)
| CUri (scheme : str) (slashes : bool) (rest : str) (cids : list (str * str))
       (ru : pres)                     (* NewPathFromURI(scheme ++ ":" ++ ["//"] ++ rest) *)
       (rc : pres)                     (* NewPath("/" ++ lower(scheme) ++ "/" ++ rest) *)
| CName (mh : str) (rk peer cidb : str)            (* RoutingKey, Peer, Cid().Bytes() of the name *)
        (t36 t58 t32 : str)                        (* String(), Peer().String(), base32 CID text *)
        (back : list (option str))                 (* NameFromString of t36, "/ipns/"+t36, t58, t32; NameFromRoutingKey(rk);
                                                      NameFromCid(Cid()); NameFromPeer(Peer()) — as multihash bytes *)
| CRkey (data : str) (mh_valid : bool) (res : option str)    (* NameFromRoutingKey(data); mh_valid = multihash.Cast(rest) ok *)
| CFromCid (codec : N) (mh : str) (res : option str)          (* NameFromCid(CIDv1(codec, mh)) *)
| CFromStr (s : str) (cidtbl : list (str * (N * N * str))) (b58tbl : list (str * str)) (res : option str).
     (* NameFromString(s); the tables say what cid.Decode / multihash.FromB58String answer for s and for s
        without "/ipns/": (version, codec, multihash) / multihash *)

Definition no_dots (s : str) : bool :=
  forallb (fun x => negb (is_dot x) && negb (is_dotdot x)) (split s).

Definition check_case (c : case) : verdict :=
  match c with
  | CParse s cids goclean r1 r2 ru =>
      let dec := dec_of cids in
      let m1 := new_path dec s in
      let m2 := match m1 with POk p => Some (view (new_path dec (pp_str p))) | PErr _ => None end in
      let model_ok :=
        pres_eqb (view m1) r1 && opres_eqb m2 r2 && pres_eqb (view (new_path_uri dec s)) ru &&
        (match goclean with Some g => rooted s && str_eqb (go_clean s) g | None => negb (rooted s) end) in
      let spec_ok :=
        (match r1 with
         | ROk ps _ _ _ => opres_eqb r2 (Some r1) && no_dots ps
         | RErr _ => match r2 with None => true | Some _ => false end
         end) &&
        (if rooted s then pres_eqb ru r1 else true) in
      verdict_of model_ok spec_ok
  | CUri scheme slashes rest cids ru rc =>
      let dec := dec_of cids in
      let u := scheme ++ COLON :: (if slashes then [SL; SL] else []) ++ rest in
      let ns := map lower scheme in
      let canon := SL :: ns ++ SL :: (if slashes then rest else trim2 rest) in
      let known := str_eqb ns IPFS || str_eqb ns IPNS || str_eqb ns IPLD in
      verdict_of (pres_eqb (view (new_path_uri dec u)) ru && pres_eqb (view (new_path dec canon)) rc)
                 (if known then pres_eqb ru rc else true)
  | CName mh rk peer cidb t36 t58 t32 back =>
      let ok := Some mh in
      verdict_of (str_eqb rk (routing_key mh) && str_eqb peer (name_peer mh) &&
                  str_eqb cidb (cid_bytes (name_cid mh)) &&
                  negb (starts_b58 t36) && negb (starts_b58 t32) && starts_b58 t58)
                 (forallb (fun x => ostr_eqb x ok) back && (7 =? N.of_nat (length back)))
  | CRkey data mh_valid res =>
      verdict_of (ostr_eqb (name_from_routing_key (fun _ => mh_valid) data) res) true
  | CFromCid codec mh res =>
      verdict_of (ostr_eqb (name_from_cid (mkCid 1 codec mh)) res) true
  | CFromStr s cidtbl b58tbl res =>
      let dec_cid x := match find (fun kv => str_eqb (fst kv) x) cidtbl with
                       | Some (_, (v, co, m)) => Some (mkCid v co m)
                       | None => None
                       end in
      verdict_of (ostr_eqb (name_from_string dec_cid (dec_of b58tbl) s) res) true
  end.
