(** C35 — the bitswap client's per-peer message queue
    (bitswap/client/internal/messagequeue/messagequeue.go, client/wantlist/wantlist.go).

    Transition system whose steps are the code's atomic sections (everything done
    under [wllock]):
      PWant c t     one iteration of AddWants' loops: peerWants.pending.Add, priority--, cancels.Remove
      PBcast c      one iteration of AddBroadcastWantHaves' loop
      PCancel c     one iteration of AddCancels' loop
                    (an atomic call on a list of CIDs is a run of these without interleaving,
                     i.e. one of the interleavings the theorems quantify over)
      SPurge c      snapshot with !supportsHave: peerWants.removeType(c, Have)
      SSend cs pes bes   the second critical section of extractOutgoingMessage (markSent every
                    candidate, drop what changed) followed by SendMsg; the candidates are ARBITRARY
                    lists: whatever snapshot was taken, however stale, whatever the size limit cut off
      SRefresh pl bl     rebroadcastWantlist: recallWantlist.refresh on the given CIDs
    The receiver replays every sent message onto its want-list [r_wl] (wantlist.Add / Remove).
    Ghost state: what the client currently wants from this peer ([g_wp] per-peer type, [g_wb] broadcast).

    Defect switches ([true] = what the code does today):
      f_forget   AddCancels queues a cancel only if the CID is in a [sent] list; the record is lost
                 when a queued cancel is dropped by AddWants (cancel; want; cancel) or when
                 rebroadcast moved the want back to [pending].  off: cancel iff the peer has it.
      f_merge    a want that failed markSent in one list removes the message entry of that CID
                 even if the same CID was marked sent from the other list.  off: it stays.
    No proofs in this file. *)
From Coq Require Import List ZArith Bool NArith.
From V Require Import lib.Verdict model.M_C34.
Import ListNotations.
Open Scope Z_scope.

(** ---------- maps and sets keyed by CID ids ---------- *)
Section ZAL.
  Context {V : Type}.
  Fixpoint zget (k : Z) (l : list (Z * V)) : option V :=
    match l with [] => None | (k', v) :: r => if k =? k' then Some v else zget k r end.
  Fixpoint zdel (k : Z) (l : list (Z * V)) : list (Z * V) :=
    match l with [] => [] | (k', v) :: r => if k =? k' then zdel k r else (k', v) :: zdel k r end.
  Definition zset (k : Z) (v : V) (l : list (Z * V)) : list (Z * V) := (k, v) :: zdel k l.
  Definition zhas (k : Z) (l : list (Z * V)) : bool := match zget k l with Some _ => true | None => false end.
End ZAL.
Definition smem (k : Z) (s : list Z) : bool := existsb (Z.eqb k) s.
Definition srem (k : Z) (s : list Z) : list Z := filter (fun x => negb (k =? x)) s.
Definition sadd (k : Z) (s : list Z) : list Z := if smem k s then s else k :: s.

(** ---------- wantlist.Wantlist ---------- *)
Definition TBlock : Z := 0.
Definition THave : Z := 1.
Definition went := (Z * Z)%type.                (* priority, want type *)
Definition wl := list (Z * went).

(** Add: want-have does not override want-block; an existing want-block is never replaced *)
Definition wl_add (c p t : Z) (l : wl) : wl :=
  match zget c l with
  | Some (_, t0) => if (t0 =? TBlock) || (t =? THave) then l else zset c (p, t) l
  | None => zset c (p, t) l
  end.
(** RemoveType: removing want-have does not remove want-block *)
Definition wl_remtype (c t : Z) (l : wl) : wl * bool :=
  match zget c l with
  | None => (l, false)
  | Some (_, t0) => if (t0 =? TBlock) && (t =? THave) then (l, false) else (zdel c l, true)
  end.

(** Entries(): sorted by priority, highest first *)
Fixpoint ins_prio (e : Z * went) (l : wl) : wl :=
  match l with
  | [] => [e]
  | x :: r => if fst (snd x) <? fst (snd e) then e :: l else x :: ins_prio e r
  end.
Definition wl_entries (l : wl) : wl := fold_right ins_prio [] l.

(** ---------- state ---------- *)
Record flags := mkflags { f_forget : bool; f_merge : bool }.
Definition code_flags := mkflags true true.
Definition fixed_flags := mkflags false false.

Record st := mkst {
  pp : wl; ps : wl;            (* peerWants.pending / .sent *)
  bp : wl; bs : wl;            (* bcstWants.pending / .sent *)
  cn : list Z;                 (* cancels *)
  prio : Z;                    (* mq.priority *)
  r_wl : wl;                   (* the peer's want-list for us: replay of all sent messages *)
  g_wp : list (Z * Z);         (* ghost: type currently wanted from this peer *)
  g_wb : list Z }.             (* ghost: currently wanted by broadcast *)

Definition init : st := mkst [] [] [] [] [] 2147483647 [] [] [].

(** a message entry: cid, priority, type, cancel, sendDontHave *)
Definition mentry := (Z * (Z * Z * bool * bool))%type.

Inductive step :=
| PWant (c t : Z)
| PBcast (c : Z)
| PCancel (c : Z)
| SPurge (c : Z)
| SSend (cs : list Z) (pes bes : wl)
| SRefresh (pl bl : list Z).

Section Sys.
  Variable fl : flags.
  Variable sh : bool.                       (* sender.SupportsHave() *)

  Definition stronger (o : option Z) (t : Z) : Z :=
    match o with Some t0 => if t0 =? TBlock then TBlock else t | None => t end.

  Definition do_want (c t : Z) (s : st) : st :=
    mkst (wl_add c (prio s) t (pp s)) (ps s) (bp s) (bs s) (srem c (cn s)) (prio s - 1) (r_wl s)
         (zset c (stronger (zget c (g_wp s)) t) (g_wp s)) (g_wb s).

  Definition do_bcast (c : Z) (s : st) : st :=
    mkst (pp s) (ps s) (wl_add c (prio s) THave (bp s)) (bs s) (srem c (cn s)) (prio s - 1) (r_wl s)
         (g_wp s) (sadd c (g_wb s)).

  Definition do_cancel (c : Z) (s : st) : st :=
    let was := if f_forget fl then zhas c (bs s) || zhas c (ps s) else zhas c (r_wl s) in
    mkst (zdel c (pp s)) (zdel c (ps s)) (zdel c (bp s)) (zdel c (bs s))
         (if was then sadd c (cn s) else cn s) (prio s) (r_wl s)
         (zdel c (g_wp s)) (srem c (g_wb s)).

  Definition do_purge (c : Z) (s : st) : st :=
    if sh then s else
    mkst (fst (wl_remtype c THave (pp s))) (fst (wl_remtype c THave (ps s))) (bp s) (bs s)
         (cn s) (prio s) (r_wl s) (g_wp s) (g_wb s).

  (** recallWantlist.markSent over a candidate list: new pending, new sent, the entries that
      were marked, the CIDs that were not *)
  Fixpoint mark (es : wl) (pend sent : wl) : wl * wl * wl * list Z :=
    match es with
    | [] => (pend, sent, [], [])
    | (c, (p, t)) :: r =>
        let (pend1, ok) := wl_remtype c t pend in
        if ok then
          let '(pend2, sent2, oks, bad) := mark r pend1 (wl_add c p t sent) in
          (pend2, sent2, (c, (p, t)) :: oks, bad)
        else
          let '(pend2, sent2, oks, bad) := mark r pend1 sent in
          (pend2, sent2, oks, c :: bad)
    end.

  (** the cancels loop: kept cancels, dropped ones *)
  Fixpoint mark_cancels (cs : list Z) (cset : list Z) : list Z * list Z * list Z :=
    match cs with
    | [] => (cset, [], [])
    | c :: r =>
        if smem c cset then
          let '(cset2, oks, bad) := mark_cancels r (srem c cset) in (cset2, c :: oks, bad)
        else
          let '(cset2, oks, bad) := mark_cancels r cset in (cset2, oks, c :: bad)
    end.

  Definition bcst_type : Z := if sh then THave else TBlock.

  (** the message that is handed to SendMsg (before the merge of equal CIDs done by
      bsmsg.AddEntry, see [merge_msg]) *)
  Definition build_msg (okc : list Z) (okp okb : wl) (bad : list Z) : list mentry :=
    let all :=
      map (fun c => (c, (0, TBlock, true, false))) okc ++
      map (fun e : Z * went => (fst e, (fst (snd e), snd (snd e), false, true))) okp ++
      map (fun e : Z * went => (fst e, (fst (snd e), bcst_type, false, false))) okb in
    if f_merge fl then filter (fun m : mentry => negb (smem (fst m) bad)) all else all.

  (** the peer applies one entry *)
  Definition deliver1 (r : wl) (m : mentry) : wl :=
    let '(c, (p, t, cancel, _)) := m in
    if cancel then zdel c r else wl_add c p t r.
  Definition deliver (r : wl) (msg : list mentry) : wl := fold_left deliver1 msg r.

  Definition send_result (cs : list Z) (pes bes : wl) (s : st) : st * list mentry :=
    let '(pp1, ps1, okp, badp) := mark pes (pp s) (ps s) in
    let '(bp1, bs1, okb, badb) := mark bes (bp s) (bs s) in
    let '(cn1, okc, badc) := mark_cancels cs (cn s) in
    let msg := build_msg okc okp okb (badp ++ badb ++ badc) in
    (mkst pp1 ps1 bp1 bs1 cn1 (prio s) (deliver (r_wl s) msg) (g_wp s) (g_wb s), msg).

  (** recallWantlist.refresh on the CIDs whose sent-time is old enough *)
  Fixpoint refresh (cs : list Z) (pend sent : wl) : wl * wl :=
    match cs with
    | [] => (pend, sent)
    | c :: r =>
        match zget c sent with
        | Some (p, t) => refresh r (wl_add c p t pend) (zdel c sent)
        | None => refresh r pend sent
        end
    end.

  Definition do_step (s : st) (x : step) : st :=
    match x with
    | PWant c t => do_want c t s
    | PBcast c => do_bcast c s
    | PCancel c => do_cancel c s
    | SPurge c => do_purge c s
    | SSend cs pes bes => fst (send_result cs pes bes s)
    | SRefresh pl bl =>
        let (pp1, ps1) := refresh pl (pp s) (ps s) in
        let (bp1, bs1) := refresh bl (bp s) (bs s) in
        mkst pp1 ps1 bp1 bs1 (cn s) (prio s) (r_wl s) (g_wp s) (g_wb s)
    end.

  Definition run (s : st) (xs : list step) : st := fold_left do_step xs s.

  (** ---------- specification ---------- *)
  Definition idle (s : st) : Prop := pp s = [] /\ bp s = [] /\ cn s = [].
  Definition idleb (s : st) : bool :=
    match pp s, bp s, cn s with [], [], [] => true | _, _, _ => false end.

  Definition wanted (s : st) (c : Z) : bool := zhas c (g_wp s) || smem c (g_wb s).
  (** what can be expressed to this peer: without HAVE support a per-peer want-have is never sent *)
  Definition expected (s : st) (c : Z) : bool :=
    (if sh then zhas c (g_wp s) else match zget c (g_wp s) with Some t => t =? TBlock | None => false end)
    || smem c (g_wb s).
  Definition peer_type (s : st) (c : Z) : option Z :=
    match zget c (r_wl s) with Some (_, t) => Some t | None => None end.

  (** at idle, over a universe of CID ids: the peer's list is exactly the wanted CIDs, and a
      want-block is a want-block at the peer *)
  Definition convergedb (univ : list Z) (s : st) : bool :=
    forallb (fun c =>
      (if zhas c (r_wl s) then wanted s c else true) &&
      (if expected s c then zhas c (r_wl s) else true) &&
      (match zget c (g_wp s) with
       | Some t => if t =? TBlock then match peer_type s c with Some t' => t' =? TBlock | None => false end else true
       | None => true
       end)) univ.
End Sys.

(** ---------- replay of one executed schedule (the tie) ---------- *)
(** what the harness logged for one step of the real queue *)
Inductive ev :=
| EWants (blocks haves : list Z)        (* AddWants *)
| EBcast (haves : list Z)               (* AddBroadcastWantHaves *)
| ECancel (ks : list Z)                 (* AddCancels *)
| ESnap                                 (* first critical section of extractOutgoingMessage *)
| ESend (msg : list mentry)             (* second critical section + SendMsg; [msg] = what the fake sender got ([] = nothing sent) *)
| ERefresh (pl bl : list Z).            (* rebroadcast: the CIDs the real lists moved *)

(** the dump of the real queue's lists after a step, all sorted by CID *)
Record dump := mkdump { d_pp : wl; d_ps : wl; d_bp : wl; d_bs : wl; d_cn : list Z }.

Definition snapshot := (wl * wl * list Z)%type.   (* peerEntries, bcstEntries, cancels *)

Section Replay.
  Variable fl : flags.
  Variable sh : bool.

  Definition take_snapshot (s : st) : st * snapshot :=
    let haves := map fst (filter (fun e : Z * went => snd (snd e) =? THave) (pp s)) in
    let s1 := if sh then s else fold_left (fun s c => do_purge sh c s) haves s in
    (s1, (wl_entries (pp s1), wl_entries (bp s), cn s)).

  (** maps compared as maps *)
  Definition went_eqb (a b : went) : bool := (fst a =? fst b) && (snd a =? snd b).
  Definition wl_eqb (a b : wl) : bool :=
    (length a =? length b)%nat &&
    forallb (fun e : Z * went => match zget (fst e) b with Some v => went_eqb (snd e) v | None => false end) a.
  Definition set_eqb (a b : list Z) : bool :=
    (length a =? length b)%nat && forallb (fun c => smem c b) a.
  Definition dump_eqb (s : st) (d : dump) : bool :=
    wl_eqb (pp s) (d_pp d) && wl_eqb (ps s) (d_ps d) && wl_eqb (bp s) (d_bp d) &&
    wl_eqb (bs s) (d_bs d) && set_eqb (cn s) (d_cn d).

  (** bsmsg.AddEntry merges entries of the same CID (merge rules of C34) *)
  Definition merge_msg (msg : list mentry) : list (Z * ent) :=
    fold_left (fun (acc : list (Z * ent)) (m : mentry) =>
      let '(c, (p, t, cancel, sdh)) := m in
      match zget c acc with
      | Some e => zset c (merge_ent e p cancel t sdh) acc
      | None => zset c (mkent p t cancel sdh) acc
      end) msg [].
  Definition msg_eqb (model observed : list mentry) : bool :=
    let a := merge_msg model in let b := merge_msg observed in
    (length a =? length b)%nat &&
    forallb (fun ce : Z * ent => match zget (fst ce) b with Some e => ent_eqb (snd ce) e | None => false end) a.

  (** the size limit is not modelled: the cut (how many candidates went into the message) is
      found by search — first cancels only, then all cancels and a prefix of the peer entries,
      then everything and a prefix of the broadcast entries *)
  Fixpoint prefixes {A} (l : list A) : list (list A) :=
    match l with [] => [[]] | x :: r => [] :: map (cons x) (prefixes r) end.
  Definition cuts (sn : snapshot) (observed : list mentry) : list (list Z * wl * wl) :=
    let '(pes, bes, cs) := sn in
    let obs_c := map fst (filter (fun m : mentry => snd (fst (snd m))) observed) in
    (filter (fun c => smem c obs_c) cs, [], []) ::
    map (fun p => (cs, p, [])) (prefixes pes) ++ map (fun b => (cs, pes, b)) (prefixes bes).

  Fixpoint find_cut (cands : list (list Z * wl * wl)) (s : st) (observed : list mentry) (d : dump)
    : option (st * step) :=
    match cands with
    | [] => None
    | (cs, pes, bes) :: r =>
        let (s', msg) := send_result fl sh cs pes bes s in
        if msg_eqb msg observed && dump_eqb s' d then Some (s', SSend cs pes bes) else find_cut r s observed d
    end.

  (** the atomic steps an event consists of *)
  Definition steps_of (e : ev) (s : st) : list step :=
    match e with
    | EWants blocks haves => map (fun c => PWant c THave) haves ++ map (fun c => PWant c TBlock) blocks
    | EBcast haves => map PBcast haves
    | ECancel ks => map PCancel ks
    | ESnap => if sh then [] else
               map SPurge (map fst (filter (fun e : Z * went => snd (snd e) =? THave) (pp s)))
    | ESend _ => []
    | ERefresh pl bl => [SRefresh pl bl]
    end.

  (** replay: [None] = this model cannot follow the implementation; otherwise the final
      state and the executed atomic steps (latest first) *)
  Fixpoint replay (evs : list (ev * dump)) (s : st) (sn : option snapshot) (tr : list step)
    : option (st * list step) :=
    match evs with
    | [] => Some (s, tr)
    | (e, d) :: r =>
        match e with
        | ESend msg =>
            match sn with
            | None => None
            | Some x =>
                match find_cut (cuts x msg) s msg d with
                | Some (s', x') => replay r s' None (x' :: tr)
                | None => None
                end
            end
        | _ =>
            let xs := steps_of e s in
            let s' := run fl sh s xs in
            let sn' := match e with
                       | ESnap => Some (wl_entries (pp s'), wl_entries (bp s'), cn s')
                       | _ => sn
                       end in
            if dump_eqb s' d then replay r s' sn' (rev xs ++ tr) else None
        end
    end.

  (** one unlimited send of everything that is queued (what the next sendMessage does) *)
  Definition flush (s : st) : st :=
    let haves := map fst (filter (fun e : Z * went => snd (snd e) =? THave) (pp s)) in
    let s1 := run fl sh s (if sh then [] else map SPurge haves) in
    do_step fl sh s1 (SSend (cn s1) (pp s1) (bp s1)).
End Replay.

(** [CSched sh univ evs rfinal]: one executed schedule of the real queue with a fake sender
    ([sh] = SupportsHave); [rfinal] = the sent messages replayed by the harness onto a real
    wantlist.Wantlist.  The real queue is idle at the end of every schedule. *)
(** ---------- wantlist.Wantlist on its own ---------- *)
(** The contract of Wantlist is that of a map: the memoised [cached] slice behind Entries()
    must be invisible.  Every observable result of an op sequence on the real type is compared
    with the association list; a difference is a failure of that contract. *)
Inductive wop := WAdd (c p t : Z) | WRemove (c : Z) | WRemType (c t : Z) | WEntries | WGet (c : Z) | WHas (c : Z) | WLen.
Inductive wob := OBool (b : bool) | OUnit | OEntries (l : wl) | OGet (o : option went) | OLen (n : Z).

Definition wl_add_ok (c t : Z) (l : wl) : bool :=
  match zget c l with Some (_, t0) => negb ((t0 =? TBlock) || (t =? THave)) | None => true end.
Fixpoint sorted_desc (l : wl) : bool :=
  match l with
  | x :: ((y :: _) as r) => (fst (snd y) <=? fst (snd x)) && sorted_desc r
  | _ => true
  end.
Fixpoint nodup_keys (l : wl) : bool :=
  match l with [] => true | (k, _) :: r => negb (zhas k r) && nodup_keys r end.
Definition wl_same (a b : wl) : bool :=
  (length a =? length b)%nat && nodup_keys a && nodup_keys b &&
  forallb (fun e : Z * went => match zget (fst e) b with
                               | Some v => (fst (snd e) =? fst v) && (snd (snd e) =? snd v) | None => false end) a.

Definition wstep (l : wl) (o : wop) (b : wob) : wl * bool :=
  match o, b with
  | WAdd c p t, OBool r => (wl_add c p t l, Bool.eqb r (wl_add_ok c t l))
  | WRemove c, OUnit => (zdel c l, true)
  | WRemType c t, OBool r => (fst (wl_remtype c t l), Bool.eqb r (snd (wl_remtype c t l)))
  | WEntries, OEntries es => (l, wl_same l es && sorted_desc es)
  | WGet c, OGet o =>
      (l, match zget c l, o with
          | Some v, Some v' => (fst v =? fst v') && (snd v =? snd v')
          | None, None => true
          | _, _ => false
          end)
  | WHas c, OBool r => (l, Bool.eqb r (zhas c l))
  | WLen, OLen n => (l, n =? Z.of_nat (length l))
  | _, _ => (l, false)
  end.
Fixpoint wrun (l : wl) (ops : list (wop * wob)) : bool :=
  match ops with
  | [] => true
  | (o, b) :: r => let (l', ok) := wstep l o b in ok && wrun l' r
  end.

Inductive case :=
| CSched (sh : bool) (univ : list Z) (evs : list (ev * dump)) (rfinal : wl)
| CWl (ops : list (wop * wob)).

Definition types_eqb (a b : wl) : bool :=
  (length a =? length b)%nat &&
  forallb (fun e : Z * went => match zget (fst e) b with Some v => snd (snd e) =? snd v | None => false end) a.

Definition spec_ok (sh : bool) (univ : list Z) (s : st) : bool := idleb s && convergedb sh univ s.

(** which flag combination does the implementation follow on this schedule *)
Fixpoint first_model (fls : list flags) (sh : bool) (evs : list (ev * dump)) : option (flags * st * list step) :=
  match fls with
  | [] => None
  | fl :: r =>
      match replay fl sh evs init None [] with
      | Some (s, tr) => Some (fl, s, rev tr)
      | None => first_model r sh evs
      end
  end.

(** finding 1 = [f_forget], finding 2 = [f_merge].  A failing schedule is exactly finding k
    when the implementation follows a model with defect k on and the same atomic steps, run on
    the model with defect k switched off (plus the send that is then still queued), meet the
    specification. *)
(** The specification evaluated on what was OBSERVED alone, without the queue model: the
    ghost wants follow from the producer calls, the peer's list is the harness's replay of the
    real messages, the queue lists are the last dump.  Used when no model variant can follow
    the implementation, so that a broken queue yields a concrete specification failure. *)
Definition ghost_of (sh : bool) (evs : list (ev * dump)) : st :=
  fold_left (fun s ed =>
    match fst ed with
    | EWants _ _ | EBcast _ | ECancel _ => run fixed_flags sh s (steps_of sh (fst ed) s)
    | _ => s
    end) evs init.
Definition observed_ok (sh : bool) (univ : list Z) (evs : list (ev * dump)) (rfinal : wl) : bool :=
  let g := ghost_of sh evs in
  let d := match rev evs with (_, d) :: _ => d | [] => mkdump [] [] [] [] [] end in
  spec_ok sh univ (mkst (d_pp d) (d_ps d) (d_bp d) (d_bs d) (d_cn d) 0 rfinal (g_wp g) (g_wb g)).

Definition check_case (c : case) : verdict :=
  match c with
  | CSched sh univ evs rfinal =>
      match first_model [code_flags; mkflags false true; mkflags true false; fixed_flags] sh evs with
      | None => verdict_of false (observed_ok sh univ evs rfinal)
      | Some (fl, s, tr) =>
          if negb (types_eqb (r_wl s) rfinal) then verdict_of false (observed_ok sh univ evs rfinal)
          else if spec_ok sh univ s then VOk
          else
            let cured := fun fl' => spec_ok sh univ (flush fl' sh (run fl' sh init tr)) in
            if f_forget fl && cured (mkflags false (f_merge fl)) then VKnown 1
            else if f_merge fl && cured (mkflags (f_forget fl) false) then VKnown 2
            else if f_forget fl && f_merge fl && cured fixed_flags then VKnown 1
            else VSpecFail
      end
  | CWl ops => if wrun [] ops then VOk else VSpecFail
  end.
