(** C36 — the bitswap server's decision engine
    (bitswap/server/internal/decision/{engine,peer_ledger,taskmerger}.go and the
    parts of go-peertaskqueue the engine relies on: PushTasksTruncated, Remove,
    pop-everything).

    Executable model of the mechanism.  One step = one call made by the server:
      OMsg p full ents   Engine.MessageReceived (splitWantsCancelsDenials, ClearPeerWantlist,
                         filterOverflow, handleOverflow, cancels, task construction,
                         PushTasksTruncated with the task merger)
      OAdd c             blockstore.Put followed by Engine.NotifyNewBlocks
      ORemove c          blockstore.DeleteBlock
      ODrain             nextEnvelope until the request queue is empty, each envelope followed by
                         Engine.MessageSent and Envelope.Sent (what server.taskWorker does)
    CIDs are small ids: [< 100] ordinary, [100..199] identity-multihash CIDs,
    [>= 200] CIDs longer than MaxCidSize.  Peers are 0,1,2,...

    Defect switches ([true] = what the code did when the check was written):
      f_sort_desc      handleOverflow sorts the existing wants in DESCENDING priority   (C36-1)
      f_clear_keeps    ClearPeerWantlist leaves peers[p] as it was                      (C36-2)
      f_full_keeps     a full want-list leaves the peer's queued tasks in the queue      (C36-3)
      f_truncate       PushTasksTruncated counts merged/re-sent tasks and drops new ones (C36-4)
      f_zero_absent    getBlockSizes reports a zero-length block as not found            (C36-5)
      f_cancel_ledger  a cancel removes the queued task only if the want is in the ledger (C36-6)
    No proofs in this file. *)
From Coq Require Import List ZArith Bool NArith Arith.
From V Require Import lib.Verdict.
Import ListNotations.
Open Scope Z_scope.

Notation cid := nat (only parsing).
Notation peer := nat (only parsing).

Record flags := {
  f_sort_desc : bool; f_clear_keeps : bool; f_full_keeps : bool;
  f_truncate : bool; f_zero_absent : bool; f_cancel_ledger : bool }.
Definition flags_off := {| f_sort_desc := false; f_clear_keeps := false; f_full_keeps := false;
                           f_truncate := false; f_zero_absent := false; f_cancel_ledger := false |}.

(** engine configuration *)
Record cfg := {
  c_limit : nat;                 (* MaxQueuedWantlistEntriesPerPeer, >= 1 *)
  c_replace : Z;                 (* WantHaveReplaceSize *)
  c_senddh : bool;               (* sendDontHaves *)
  c_maxcid : bool;               (* MaxCidSize set (oversize ids are then ignored) *)
  c_deny : list (peer * cid);    (* the request filter denies exactly these *)
  c_sizes : list (cid * Z) }.    (* block sizes (default 1) *)

(** ---------- association lists keyed by nat ---------- *)
Section AL.
  Context {A : Type}.
  Fixpoint aget (l : list (nat * A)) (k : nat) : option A :=
    match l with [] => None | (k', v) :: r => if (k' =? k)%nat then Some v else aget r k end.
  Fixpoint aset (l : list (nat * A)) (k : nat) (v : A) : list (nat * A) :=
    match l with
    | [] => [(k, v)]
    | (k', v') :: r => if (k' =? k)%nat then (k, v) :: r else (k', v') :: aset r k v
    end.
  Fixpoint adel (l : list (nat * A)) (k : nat) : list (nat * A) :=
    match l with
    | [] => []
    | (k', v') :: r => if (k' =? k)%nat then adel r k else (k', v') :: adel r k
    end.
  Definition amem (l : list (nat * A)) (k : nat) : bool :=
    match aget l k with Some _ => true | None => false end.
End AL.
Definition nmem (k : nat) (s : list nat) : bool := existsb (Nat.eqb k) s.
Definition nrem (k : nat) (s : list nat) : list nat := filter (fun x => negb (x =? k)%nat) s.
Definition nadd (k : nat) (s : list nat) : list nat := if nmem k s then s else s ++ [k].

Definition is_identity (c : cid) : bool := (100 <=? c)%nat && (c <? 200)%nat.
Definition is_oversize (c : cid) : bool := (200 <=? c)%nat.
Definition servable (g : cfg) (c : cid) : bool :=
  negb (is_identity c) && negb (c_maxcid g && is_oversize c).
Definition size_of (g : cfg) (c : cid) : Z :=
  match aget (c_sizes g) c with Some s => s | None => 1 end.
Definition denied (g : cfg) (p : peer) (c : cid) : bool :=
  existsb (fun pc => (fst pc =? p)%nat && (snd pc =? c)%nat) (c_deny g).

(** ---------- messages ---------- *)
Record want := { w_cid : cid; w_prio : Z; w_block : bool; w_cancel : bool; w_sdh : bool }.

Inductive op :=
| OMsg (p : peer) (full : bool) (ents : list want)
| OAdd (c : cid)
| ORemove (c : cid)
| ODrain.

(** ---------- state ---------- *)
Definition lent := (Z * bool)%type.          (* priority, want-block? *)
Record task := { t_prio : Z; t_have : bool; t_isblock : bool; t_sdh : bool; t_bsize : Z }.

Record pst := {
  pl : list (cid * lent);        (* peerLedger.peers[p] *)
  inv : list (cid * lent);       (* the p-entries of peerLedger.cids[*] *)
  tasks : list (cid * task) }.   (* pending tasks of p in the request queue *)
Definition pst0 := {| pl := []; inv := []; tasks := [] |}.

Record state := { peers : list pst; bs : list cid }.

Definition getp (s : state) (p : peer) : pst := nth p (peers s) pst0.
Fixpoint upd {A} (l : list A) (i : nat) (x : A) : list A :=
  match l, i with
  | [], _ => []
  | _ :: r, O => x :: r
  | a :: r, S j => a :: upd r j x
  end.
Definition setp (s : state) (p : peer) (x : pst) : state :=
  {| peers := upd (peers s) p x; bs := bs s |}.

(** ---------- peer_ledger.go ---------- *)
Definition ledger_wants (lim : nat) (s : pst) (c : cid) (e : lent) : pst * bool :=
  if (length (pl s) =? lim)%nat && negb (amem (pl s) c) then (s, false)
  else ({| pl := aset (pl s) c e; inv := aset (inv s) c e; tasks := tasks s |}, true).

Definition cancel_want (s : pst) (c : cid) : pst * bool :=
  ({| pl := adel (pl s) c; inv := adel (inv s) c; tasks := tasks s |}, amem (pl s) c).

(** CancelWantWithType: a HAVE does not remove a want-block *)
Definition cancel_with_type (s : pst) (c : cid) (block_msg : bool) : pst :=
  match aget (pl s) c with
  | None => s
  | Some (_, ty) =>
      if negb block_msg && ty then s
      else {| pl := adel (pl s) c; inv := adel (inv s) c; tasks := tasks s |}
  end.

Definition clear_wantlist (fl : flags) (s : pst) : pst :=
  {| pl := if f_clear_keeps fl then pl s else []; inv := []; tasks := tasks s |}.

(** ---------- taskmerger.go + PushTasksTruncated ---------- *)
Definition merge (n ex : task) : task :=
  let ex1 := if negb (t_have ex) && t_have n
             then {| t_prio := t_prio ex; t_have := true; t_isblock := t_isblock ex;
                     t_sdh := t_sdh ex; t_bsize := t_bsize n |}
             else ex in
  let ex2 := if negb (t_isblock ex1) && t_isblock n
             then {| t_prio := t_prio ex1;
                     t_have := if negb (t_have ex1) || t_have n then t_have n else t_have ex1;
                     t_isblock := true; t_sdh := t_sdh ex1; t_bsize := t_bsize ex1 |}
             else ex1 in
  {| t_prio := if t_prio ex <? t_prio n then t_prio n else t_prio ex;
     t_have := t_have ex2; t_isblock := t_isblock ex2; t_sdh := t_sdh ex2; t_bsize := t_bsize ex2 |}.

Definition push1 (ts : list (cid * task)) (ct : cid * task) : list (cid * task) :=
  match aget ts (fst ct) with
  | Some ex => aset ts (fst ct) (merge (snd ct) ex)
  | None => aset ts (fst ct) (snd ct)
  end.

Definition push (fl : flags) (lim : nat) (ts : list (cid * task)) (new : list (cid * task)) :=
  let new' := if f_truncate fl && (lim <? length ts + length new)%nat
              then firstn (lim - length ts) new else new in
  fold_left push1 new' ts.

(** ---------- engine.go: MessageReceived ---------- *)
Definition split (g : cfg) (p : peer) (ents : list want) : list want * list want * list want :=
  fold_left (fun acc e =>
    let '(ws, cs, ds) := acc in
    if negb (servable g (w_cid e)) then acc
    else if w_cancel e then (ws, cs ++ [e], ds)
    else if denied g p (w_cid e) then (ws, cs, ds ++ [e])
    else if (length ws <? c_limit g)%nat then (ws ++ [e], cs, ds) else acc)
  ents ([], [], []).

(** blockSizes as computed at the top of MessageReceived *)
Definition have_path (g : cfg) (w : want) : bool := (c_replace g =? 0) && negb (w_block w).
Definition sized (fl : flags) (g : cfg) (b : list cid) (c : cid) : bool :=   (* getBlockSizes finds c *)
  nmem c b && (negb (f_zero_absent fl) || negb (size_of g c =? 0)).
Definition found (fl : flags) (g : cfg) (b : list cid) (w : want) : bool :=
  if have_path g w then nmem (w_cid w) b else sized fl g b (w_cid w).
Definition send_as_block (g : cfg) (isblock : bool) (size : Z) : bool := isblock || (size <=? c_replace g).

Definition dh_task (g : cfg) (w : want) : list (cid * task) :=
  if c_senddh g && w_sdh w
  then [(w_cid w, {| t_prio := w_prio w; t_have := false; t_isblock := w_block w;
                     t_sdh := w_sdh w; t_bsize := 0 |})]
  else [].

Definition want_task (fl : flags) (g : cfg) (b : list cid) (w : want) : list (cid * task) :=
  if found fl g b w then
    let sz := if have_path g w then 0 else size_of g (w_cid w) in
    let isb := if f_zero_absent fl then negb (sz =? 0) && send_as_block g (w_block w) sz
               else negb (have_path g w) && send_as_block g (w_block w) sz in
    [(w_cid w, {| t_prio := w_prio w; t_have := true; t_isblock := isb;
                  t_sdh := w_sdh w; t_bsize := sz |})]
  else dh_task g w.

Definition filter_overflow (lim : nat) (s : pst) (ws : list want) : pst * list want * list want :=
  fold_left (fun acc w =>
    let '(s, keep, ov) := acc in
    let (s', ok) := ledger_wants lim s (w_cid w) (w_prio w, w_block w) in
    if ok then (s', keep ++ [w], ov) else (s, keep, ov ++ [w]))
  ws (s, [], []).

(** insertion sort by a Z key, ascending *)
Section Sort.
  Context {A : Type} (key : A -> Z).
  Fixpoint insert (x : A) (l : list A) : list A :=
    match l with
    | [] => [x]
    | y :: r => if key x <=? key y then x :: l else y :: insert x r
    end.
  Definition isort (l : list A) : list A := fold_right insert [] l.
End Sort.
Definition eprio (e : cid * lent) : Z := fst (snd e).

(** handleOverflow.  Phase 1 walks the sorted existing wants and gives the slot of every
    want without a local block to the best remaining newcomer; phase 2 replaces the
    remaining existing wants, in sorted order, while the next newcomer is not of lower
    priority.  (The Go code's [removed]/[replace] indices walk exactly the existing wants
    that phase 1 did not remove.) *)
Fixpoint phase1 (blockless : cid -> bool) (ex : list (cid * lent)) (ov : list want)
  : list ((cid * lent) * want) * list (cid * lent) * list want :=
  match ex, ov with
  | _, [] => ([], ex, [])
  | [], _ => ([], [], ov)
  | w :: ex', o :: ov' =>
      if blockless (fst w)
      then let '(pr, kept, rest) := phase1 blockless ex' ov' in ((w, o) :: pr, kept, rest)
      else let '(pr, kept, rest) := phase1 blockless ex' ov in (pr, w :: kept, rest)
  end.

Fixpoint phase2 (kept : list (cid * lent)) (ov : list want) : list ((cid * lent) * want) :=
  match ov, kept with
  | o :: ov', k :: kept' =>
      if w_prio o <? eprio k then [] else (k, o) :: phase2 kept' ov'
  | _, _ => []
  end.

(** the plan: which existing want is evicted for which newcomer, in the order the code does it *)
Definition overflow_plan (fl : flags) (g : cfg) (b : list cid) (ledger : list (cid * lent)) (ov : list want)
  : list ((cid * lent) * want) :=
  let ovs := isort (fun w => - w_prio w) ov in
  let ex := if f_sort_desc fl then isort (fun e => - eprio e) ledger else isort eprio ledger in
  let '(pr1, kept, rest) := phase1 (fun c => negb (sized fl g b c)) ex ovs in
  pr1 ++ phase2 kept rest.

Definition apply_plan (lim : nat) (s : pst) (plan : list ((cid * lent) * want)) : pst :=
  fold_left (fun s eo =>
    let c := fst (fst eo) in
    let (s1, had) := cancel_want s c in
    let s2 := if had then {| pl := pl s1; inv := inv s1; tasks := adel (tasks s1) c |} else s1 in
    fst (ledger_wants lim s2 (w_cid (snd eo)) (w_prio (snd eo), w_block (snd eo))))
  plan s.

Definition handle_overflow (fl : flags) (g : cfg) (b : list cid) (s : pst) (ov keep : list want)
  : pst * list want :=
  let plan := overflow_plan fl g b (pl s) ov in
  (apply_plan (c_limit g) s plan, keep ++ map snd plan).

Definition do_cancels (fl : flags) (s : pst) (cs : list want) : pst :=
  fold_left (fun s e =>
    let (s1, had) := cancel_want s (w_cid e) in
    if had || negb (f_cancel_ledger fl)
    then {| pl := pl s1; inv := inv s1; tasks := adel (tasks s1) (w_cid e) |} else s1)
  cs s.

Definition msg_peer (fl : flags) (g : cfg) (b : list cid) (p : peer) (full : bool) (ents : list want) (s0 : pst) : pst :=
  match ents with
  | [] => s0                                               (* m.Empty() *)
  | _ =>
    let '(ws, cs, ds) := split g p ents in
    let s1 := if full
              then let c := clear_wantlist fl s0 in
                   if f_full_keeps fl then c else {| pl := pl c; inv := inv c; tasks := [] |}
              else s0 in
    let '(s2, keep, ov) := filter_overflow (c_limit g) s1 ws in
    let (s3, ws') := match ov with [] => (s2, keep) | _ => handle_overflow fl g b s2 ov keep end in
    let s4 := do_cancels fl s3 cs in
    let new := flat_map (dh_task g) ds ++ flat_map (want_task fl g b) ws' in
    match new with
    | [] => s4
    | _ => {| pl := pl s4; inv := inv s4; tasks := push fl (c_limit g) (tasks s4) new |}
    end
  end.

(** NotifyNewBlocks for one block *)
Definition notify_peer (fl : flags) (g : cfg) (c : cid) (s : pst) : pst :=
  match aget (inv s) c with
  | None => s
  | Some (pr, ty) =>
      let sz := size_of g c in
      {| pl := pl s; inv := inv s;
         tasks := push fl (c_limit g) (tasks s)
                   [(c, {| t_prio := pr; t_have := true; t_isblock := send_as_block g ty sz;
                           t_sdh := false; t_bsize := sz |})] |}
  end.

(** nextEnvelope on all tasks of one peer: blocks, HAVEs, DONT_HAVEs *)
Notation resp := (list nat * list nat * list nat)%type (only parsing).
Definition response (b : list cid) (ts : list (cid * task)) : resp :=
  fold_left (fun acc ct =>
    let '(bl, hv, dh) := acc in
    let (c, t) := (ct : cid * task) in
    if t_have t then
      if t_isblock t then
        if nmem c b then (bl ++ [c], hv, dh)
        else if t_sdh t then (bl, hv, dh ++ [c]) else acc
      else (bl, hv ++ [c], dh)
    else (bl, hv, dh ++ [c]))
  ts ([], [], []).

(** MessageSent *)
Definition message_sent (s : pst) (r : resp) : pst :=
  let '(bl, hv, _) := r in
  let s1 := fold_left (fun s c => cancel_with_type s c true) bl s in
  fold_left (fun s c => cancel_with_type s c false) hv s1.

Definition drain_peer (b : list cid) (s : pst) : pst * resp :=
  let r := response b (tasks s) in
  let s' := message_sent s r in
  ({| pl := pl s'; inv := inv s'; tasks := [] |}, r).

(** ---------- one step ---------- *)
Definition step (fl : flags) (g : cfg) (s : state) (o : op) : state * list resp :=
  match o with
  | OMsg p full ents =>
      if (p <? length (peers s))%nat
      then (setp s p (msg_peer fl g (bs s) p full ents (getp s p)), [])
      else (s, [])
  | OAdd c =>
      ({| peers := map (notify_peer fl g c) (peers s); bs := nadd c (bs s) |}, [])
  | ORemove c => ({| peers := peers s; bs := nrem c (bs s) |}, [])
  | ODrain =>
      let rs := map (drain_peer (bs s)) (peers s) in
      ({| peers := map fst rs; bs := bs s |}, map snd rs)
  end.

Definition init (np : nat) (b0 : list cid) : state := {| peers := repeat pst0 np; bs := b0 |}.

(** ---------- observations ---------- *)
Section NSort.
  Fixpoint ninsert (x : nat) (l : list nat) : list nat :=
    match l with [] => [x] | y :: r => if (x <=? y)%nat then x :: l else y :: ninsert x r end.
  Definition nsort (l : list nat) : list nat := fold_right ninsert [] l.
  Context {A : Type}.
  Fixpoint kinsert (x : nat * A) (l : list (nat * A)) : list (nat * A) :=
    match l with [] => [x] | y :: r => if (fst x <=? fst y)%nat then x :: l else y :: kinsert x r end.
  Definition ksort (l : list (nat * A)) : list (nat * A) := fold_right kinsert [] l.
End NSort.

Record pobs := { o_pl : list (cid * lent); o_inv : list (cid * lent); o_topics : list cid }.
Record sobs := { so_peers : list pobs; so_drain : list resp }.

Definition obs_peer (s : pst) : pobs :=
  {| o_pl := ksort (pl s); o_inv := ksort (inv s); o_topics := nsort (map fst (tasks s)) |}.
Definition sort_resp (r : resp) : resp := let '(a, b, c) := r in (nsort a, nsort b, nsort c).
Definition obs_step (s : state) (rs : list resp) : sobs :=
  {| so_peers := map obs_peer (peers s); so_drain := map sort_resp rs |}.

Fixpoint run (fl : flags) (g : cfg) (s : state) (ops : list op) : list sobs :=
  match ops with
  | [] => []
  | o :: r => let (s', rs) := step fl g s o in obs_step s' rs :: run fl g s' r
  end.

(** ---------- the specification, evaluated on observations ----------
    Ghost state kept by the specification: each peer's own current want-list
    ([gview]: CID -> "a DONT_HAVE was requested"), the blockstore, and the CIDs
    added / removed since the last drain (a HAVE / DONT_HAVE decision is made when
    the want or the block arrives, the envelope is built later). *)
Record ghost := { gview : list (list (cid * bool)); gbs : list cid; gadded : list cid; gremoved : list cid }.

Definition view_msg (v : list (cid * bool)) (full : bool) (ents : list want) : list (cid * bool) :=
  match ents with
  | [] => v                                  (* an empty message carries no want-list *)
  | _ =>
    fold_left (fun v e =>
      if w_cancel e then adel v (w_cid e)
      else aset v (w_cid e) (match aget v (w_cid e) with Some b => b || w_sdh e | None => w_sdh e end))
    ents (if full then [] else v)
  end.

Definition gview_of (gs : ghost) (p : peer) : list (cid * bool) := nth p (gview gs) [].

(** a block that was sent is no longer wanted *)
Fixpoint drop_sent (vs : list (list (cid * bool))) (rs : list resp) : list (list (cid * bool)) :=
  match vs, rs with
  | v :: vs', r :: rs' => fold_left (fun v c => adel v c) (fst (fst r)) v :: drop_sent vs' rs'
  | _, _ => vs
  end.

Definition ghost_step (gs : ghost) (o : op) (ob : sobs) : ghost :=
  match o with
  | OMsg p full ents =>
      {| gview := upd (gview gs) p (view_msg (gview_of gs p) full ents);
         gbs := gbs gs; gadded := gadded gs; gremoved := gremoved gs |}
  | OAdd c => {| gview := gview gs; gbs := nadd c (gbs gs); gadded := c :: gadded gs; gremoved := gremoved gs |}
  | ORemove c => {| gview := gview gs; gbs := nrem c (gbs gs); gadded := gadded gs; gremoved := c :: gremoved gs |}
  | ODrain =>
      {| gview := drop_sent (gview gs) (so_drain ob); gbs := gbs gs; gadded := []; gremoved := [] |}
  end.

(** C36 clause 1: what an envelope for peer [p] may contain *)
Definition send_ok (g : cfg) (gs : ghost) (p : peer) (r : resp) : bool :=
  let '(bl, hv, dh) := r in
  let v := gview_of gs p in
  forallb (fun c => nmem c (gbs gs) && amem v c && negb (denied g p c)) bl &&
  forallb (fun c => (nmem c (gbs gs) || nmem c (gremoved gs)) && amem v c && negb (denied g p c)) hv &&
  forallb (fun c => (negb (nmem c (gbs gs)) || nmem c (gadded gs) || denied g p c) &&
                    match aget v c with Some true => true | _ => false end) dh.

Fixpoint send_all (g : cfg) (gs : ghost) (p : peer) (rs : list resp) : bool :=
  match rs with
  | [] => true
  | r :: rest => send_ok g gs p r && send_all g gs (S p) rest
  end.

(** clause 2: the ledger is bounded; clause 3: it is coherent and within the peer's own list *)
Definition bounded_ok (g : cfg) (ob : sobs) : bool :=
  forallb (fun po => (length (o_pl po) <=? c_limit g)%nat) (so_peers ob).

Definition lent_eqb (a b : lent) : bool := (fst a =? fst b) && Bool.eqb (snd a) (snd b).
Fixpoint list_eqb {A} (eqb : A -> A -> bool) (l1 l2 : list A) : bool :=
  match l1, l2 with
  | [], [] => true
  | a :: r1, b :: r2 => eqb a b && list_eqb eqb r1 r2
  | _, _ => false
  end.
Definition kl_eqb (a b : list (cid * lent)) : bool :=
  list_eqb (fun x y => (fst x =? fst y)%nat && lent_eqb (snd x) (snd y)) a b.

Fixpoint ledger_view_all (vs : list (list (cid * bool))) (pos : list pobs) : bool :=
  match pos with
  | [] => true
  | po :: rest =>
      let v := match vs with v :: _ => v | [] => [] end in
      forallb (fun ce => amem v (fst ce)) (o_pl po) && kl_eqb (o_inv po) (o_pl po) &&
      ledger_view_all (tl vs) rest
  end.

(** clause 4: every want in the ledger whose block is present has a queued task *)
Definition answered_ok (gs : ghost) (ob : sobs) : bool :=
  forallb (fun po => forallb (fun ce => negb (nmem (fst ce) (gbs gs)) || nmem (fst ce) (o_topics po)) (o_inv po))
          (so_peers ob).

(** clause 5: overflow order.  [l0] = the full ledger when overflow handling starts,
    [ov] = the newcomers that did not fit, [l1] = the ledger afterwards. *)
Definition overflow_ok (present : cid -> bool) (l0 : list (cid * lent)) (ov : list want) (l1 : list (cid * lent)) : bool :=
  let evicted := filter (fun e => negb (amem l1 (fst e))) l0 in
  let kept := filter (fun e => amem l1 (fst e)) l0 in
  let admitted := filter (fun o => amem l1 (w_cid o)) ov in
  let rejected := filter (fun o => negb (amem l1 (w_cid o))) ov in
  let hasblk (e : cid * lent) := present (fst e) in
  (length l1 =? length l0)%nat &&
  forallb (fun e => match aget l0 (fst e) with
                    | Some x => lent_eqb x (snd e)
                    | None => existsb (fun o => (w_cid o =? fst e)%nat && lent_eqb (w_prio o, w_block o) (snd e)) ov
                    end) l1 &&
  (* wants without a local block go first *)
  forallb (fun e => negb (hasblk e) || forallb hasblk kept) evicted &&
  (* within each class the lowest priorities go first *)
  forallb (fun e => forallb (fun k => negb (Bool.eqb (hasblk e) (hasblk k)) || (eprio e <=? eprio k)) kept) evicted &&
  (* the best newcomers are admitted, and none of them is outranked by a want evicted for priority *)
  forallb (fun a => forallb (fun r => w_prio r <=? w_prio a) rejected) admitted &&
  forallb (fun e => negb (hasblk e) || forallb (fun a => eprio e <=? w_prio a) admitted) evicted &&
  (* a newcomer is rejected only if every remaining want has a block and outranks it *)
  forallb (fun r => forallb (fun k => hasblk k && (w_prio r <? eprio k)) kept) rejected.

(** the ledger just before overflow handling, recomputed from the previous observation *)
Definition pre_overflow (g : cfg) (p : peer) (prev : list (cid * lent)) (full : bool) (ents : list want)
  : list (cid * lent) * list want * list want :=
  let '(ws, cs, _) := split g p ents in
  let start := {| pl := if full then [] else prev; inv := []; tasks := [] |} in
  let '(s2, _, ov) := filter_overflow (c_limit g) start ws in
  (pl s2, ov, cs).

Definition overflow_step_ok (g : cfg) (gs : ghost) (prev : sobs) (o : op) (ob : sobs) : bool :=
  match o with
  | OMsg p full ents =>
      let ppl := o_pl (nth p (so_peers prev) {| o_pl := []; o_inv := []; o_topics := [] |}) in
      let npl := o_pl (nth p (so_peers ob) {| o_pl := []; o_inv := []; o_topics := [] |}) in
      let '(l0, ov, cs) := pre_overflow g p ppl full ents in
      match ents, ov with
      | [], _ | _, [] => true
      | _, _ => if existsb (fun e => amem l0 (w_cid e)) cs then true
                else overflow_ok (fun c => nmem c (gbs gs)) l0 ov npl
      end
  | _ => true
  end.

Definition step_ok (g : cfg) (gs : ghost) (prev : sobs) (o : op) (ob : sobs) : bool :=
  let gs' := ghost_step gs o ob in
  send_all g gs 0%nat (so_drain ob) &&
  bounded_ok g ob && ledger_view_all (gview gs') (so_peers ob) && answered_ok gs' ob &&
  overflow_step_ok g gs prev o ob.

Fixpoint spec_run (g : cfg) (gs : ghost) (prev : sobs) (ops : list op) (obs : list sobs) : bool :=
  match ops, obs with
  | [], [] => true
  | o :: ops', ob :: obs' => step_ok g gs prev o ob && spec_run g (ghost_step gs o ob) ob ops' obs'
  | _, _ => false
  end.

(** a clause checked along a whole run *)
Fixpoint trace_ok (chk : ghost -> op -> sobs -> bool) (gs : ghost) (ops : list op) (obs : list sobs) : bool :=
  match ops, obs with
  | [], [] => true
  | o :: ops', ob :: obs' => chk gs o ob && trace_ok chk (ghost_step gs o ob) ops' obs'
  | _, _ => false
  end.
Definition send_clause (g : cfg) (gs : ghost) (o : op) (ob : sobs) : bool := send_all g gs 0%nat (so_drain ob).
Definition view_clause (gs : ghost) (o : op) (ob : sobs) : bool :=
  ledger_view_all (gview (ghost_step gs o ob)) (so_peers ob).
Definition answered_clause (gs : ghost) (o : op) (ob : sobs) : bool := answered_ok (ghost_step gs o ob) ob.

Definition obs0 (np : nat) : sobs :=
  {| so_peers := repeat {| o_pl := []; o_inv := []; o_topics := [] |} np; so_drain := [] |}.
Definition ghost0 (np : nat) (b0 : list cid) : ghost :=
  {| gview := repeat [] np; gbs := b0; gadded := []; gremoved := [] |}.
Definition spec_check (g : cfg) (np : nat) (b0 : list cid) (ops : list op) (obs : list sobs) : bool :=
  spec_run g (ghost0 np b0) (obs0 np) ops obs.

(** ---------- correspondence ---------- *)
Definition nl_eqb := list_eqb Nat.eqb.
Definition resp_eqb (a b : resp) : bool :=
  let '(a1, a2, a3) := a in let '(b1, b2, b3) := b in nl_eqb a1 b1 && nl_eqb a2 b2 && nl_eqb a3 b3.
Definition pobs_eqb (a b : pobs) : bool :=
  kl_eqb (o_pl a) (o_pl b) && kl_eqb (o_inv a) (o_inv b) && nl_eqb (o_topics a) (o_topics b).
Definition sobs_eqb (a b : sobs) : bool :=
  list_eqb pobs_eqb (so_peers a) (so_peers b) && list_eqb resp_eqb (so_drain a) (so_drain b).

(** defect sets, smallest first; the number of a set is its lowest defect *)
Definition mkf (l : list nat) : flags :=
  {| f_sort_desc := nmem 1 l; f_clear_keeps := nmem 2 l; f_full_keeps := nmem 3 l;
     f_truncate := nmem 4 l; f_zero_absent := nmem 5 l; f_cancel_ledger := nmem 6 l |}%nat.
Fixpoint subsets (l : list nat) : list (list nat) :=
  match l with
  | [] => [[]]
  | x :: r => let s := subsets r in s ++ map (cons x) s
  end.
Definition defect_sets : list (list nat) :=
  let all := subsets [1; 2; 3; 4; 5; 6]%nat in
  flat_map (fun n => filter (fun s => (length s =? n)%nat) all) [1; 2; 3; 4; 5; 6]%nat.

(** [k_known]: the numbers of the defects currently listed as known (not repaired) *)
Record case := { k_known : list nat; k_cfg : cfg; k_np : nat; k_bs0 : list cid; k_ops : list op; k_obs : list sobs }.

(** compact notation of the harness for observations: a peer whose observation did not
    change since the previous step is written [PSame]; [PEq] = both ledger maps agree *)
Inductive pdelta :=
| PSame
| PEq (l : list (cid * lent)) (topics : list cid)
| PFull (l i : list (cid * lent)) (topics : list cid).
Fixpoint expand_peers (prev : list pobs) (ds : list pdelta) : list pobs :=
  match ds with
  | [] => []
  | d :: ds' =>
      let pv := match prev with x :: _ => x | [] => {| o_pl := []; o_inv := []; o_topics := [] |} end in
      (match d with
       | PSame => pv
       | PEq l t => {| o_pl := l; o_inv := l; o_topics := t |}
       | PFull l i t => {| o_pl := l; o_inv := i; o_topics := t |}
       end) :: expand_peers (tl prev) ds'
  end.
Fixpoint expand_obs (prev : list pobs) (steps : list (list pdelta * list resp)) : list sobs :=
  match steps with
  | [] => []
  | (ds, dr) :: r =>
      let ps := expand_peers prev ds in
      {| so_peers := ps; so_drain := dr |} :: expand_obs ps r
  end.
Definition LE (c p : nat) (b : bool) : cid * lent := (c, (Z.of_nat p, b)).
Definition W (c p : nat) (b cn s : bool) : want :=
  {| w_cid := c; w_prio := Z.of_nat p; w_block := b; w_cancel := cn; w_sdh := s |}.
Definition CFG (l r : nat) (s m : bool) (d : list (peer * cid)) (z : list (cid * nat)) : cfg :=
  {| c_limit := l; c_replace := Z.of_nat r; c_senddh := s; c_maxcid := m; c_deny := d;
     c_sizes := map (fun x => (fst x, Z.of_nat (snd x))) z |}.
Definition K (kn : list nat) (g : cfg) (n : nat) (b : list cid) (o : list op) (s : list (list pdelta * list resp)) : case :=
  {| k_known := kn; k_cfg := g; k_np := n; k_bs0 := b; k_ops := o; k_obs := expand_obs [] s |}.

Definition model_obs (fl : flags) (k : case) : list sobs :=
  run fl (k_cfg k) (init (k_np k) (k_bs0 k)) (k_ops k).

Definition check_case (k : case) : verdict :=
  let sp := spec_check (k_cfg k) (k_np k) (k_bs0 k) (k_ops k) (k_obs k) in
  if list_eqb sobs_eqb (model_obs flags_off k) (k_obs k) then verdict_of true sp
  else
    (* several defect sets may reproduce the same observations: an explanation by defects that are
       listed as known is preferred; a repaired defect is reported only if no such explanation exists *)
    let matches := fun s => list_eqb sobs_eqb (model_obs (mkf s) k) (k_obs k) in
    let only_known := filter (fun s => forallb (fun d => nmem d (k_known k)) s) defect_sets in
    match (match find matches only_known with Some s => Some s | None => find matches defect_sets end) with
    | Some s =>
        if sp then VOk
        else if spec_check (k_cfg k) (k_np k) (k_bs0 k) (k_ops k) (model_obs flags_off k)
             then VKnown (N.of_nat (hd 0%nat s))
             else VSpecFail
    | None => if sp then VModelMismatch else VSpecFail
    end.
