(** C19 — MFS behaves as a hierarchical filesystem and persists what it shows.

    Two layers, both executable, no proofs in this file.

    SPECIFICATION LAYER: the filesystem is an immutable tree [node] (the same
    type as a UnixFS DAG value: what the DAG readers see).  Operations are
    functions on trees ([t_step]).

    MECHANISM LAYER, transcribed from mfs/{dir,file,fd,ops,root}.go:
      an MFS [Directory] object = the UnixFS directory it wraps ([pers]: name -> DAG
      node, plus the directory's mode/mtime) + [entriesCache] ([cache]: name -> live
      child object, each with its own state).  A [File] object holds its current
      node.  Changes reach the parent's UnixFS directory only through
      [cacheSync] (GetNode/Flush) and [updateChildEntry] (propagation to the root).
        childUnsync      = [child]      (cache hit, else load from the DAG into the cache)
        DirLookup        = [nav]        (walks through [child], loading caches)
        updateChildEntry = the [pr] (propagate) result of a local action: every
                           ancestor re-links the child's *UnixFS* node ([persnode])
        cacheSync/getNode= [sync] (recursive), Flush = [clean (sync _)] + propagate
        mkdirWithOpts    = [ensure],  AddChild = [g_addchild],  Unlink = [g_unlink]
        Mv               = [m_mv] (flags: the two defects of the current code)
    [abs] maps a mechanism state to the tree it shows (cache overlaid on [pers]).

    File content is a byte list; a descriptor is opened, used for one whole-file
    write or one truncate and closed inside one operation (the DAG modifier is
    C10's subject).  The harness never keeps an MFS object across operations, so
    object identity = path.

    mtime: 0 = unset, [ANYSET] = "set, value not determined by this model" (the
    DAG modifier bumps a set mtime to time.Now() on some writes), other = exact. *)
From Coq Require Import List ZArith Bool NArith.
From V Require Import lib.Verdict.
Import ListNotations.
Open Scope Z_scope.

Definition name := Z.
Definition ANYSET : Z := -1.

Inductive node :=
| NFile (data : list Z) (mode mtime : Z)
| NDir (ents : list (name * node)) (mode mtime : Z).

(** ---------- association lists (insertion order) ---------- *)
Section Assoc.
  Context {A : Type}.
  Fixpoint lookup (l : list (name * A)) (k : name) : option A :=
    match l with
    | [] => None
    | (k', v) :: r => if k =? k' then Some v else lookup r k
    end.
  Definition has (l : list (name * A)) (k : name) : bool :=
    match lookup l k with Some _ => true | None => false end.
  (* replace the value under [k] in place, or append a new entry *)
  Definition upd (k : name) (v : A) (l : list (name * A)) : list (name * A) :=
    if has l k then map (fun e => if k =? fst e then (fst e, v) else e) l else l ++ [(k, v)].
  Fixpoint del (k : name) (l : list (name * A)) : list (name * A) :=
    match l with
    | [] => []
    | (k', v') :: r => if k =? k' then del k r else (k', v') :: del k r
    end.
  Definition keys (l : list (name * A)) : list name := map fst l.
End Assoc.

(** ---------- results ---------- *)
Inductive err := ENotExist | EExist | EDirExists | EOther
               | EAny.   (* model side only: some error, class not determined *)
Inductive out :=
| ROk
| RErr (e : err)
| RStat (isdir : bool) (size mode mtime : Z)
| RList (names : list name)
| RData (d : list Z)
| RNode (n : node)
| RSess (l : list (list Z)).   (* a descriptor session: File.node's content after every Flush and after Close *)

Definition is_ok (x : out) : bool := match x with RErr _ => false | _ => true end.

(** ---------- operations ---------- *)
(** what is done through one write descriptor between Open and Close *)
Inductive fdact :=
| AWrite (data : list Z)              (* fd.Write at the current position *)
| AWriteAt (data : list Z) (at_ : Z)  (* fd.WriteAt *)
| ATrunc (n : Z)                      (* fd.Truncate *)
| ASeek (rel : bool) (off : Z)        (* fd.Seek(off, SeekStart) / (off, SeekCurrent) *)
| AFlush.                             (* fd.Flush *)

Inductive op :=
| OMkdir (p : list name) (parents flush : bool)   (* mfs.Mkdir *)
| OCreate (p : list name)                         (* mfs.PutNode of an empty file node *)
| OWrite (p : list name) (data : list Z) (sync : bool) (* Lookup, Open(Write,Sync), Truncate(0), Write, Close *)
| OTrunc (p : list name) (n : Z) (sync : bool)    (* Lookup, Open(Write,Sync), Truncate(n), Close *)
| OMv (src dst : list name) (slash : bool)        (* mfs.Mv; [slash]: dst written with a trailing "/" *)
| ORm (p : list name)                             (* lookup the parent directory, Unlink *)
| OChmod (p : list name) (mode : Z)               (* mfs.Chmod *)
| OTouch (p : list name) (t : Z)                  (* mfs.Touch *)
| OFlush (p : list name)                          (* mfs.FlushPath; result = the DAG of the returned node *)
| OStat (p : list name)                           (* Lookup; type, Size, Mode, ModTime *)
| OList (p : list name)                           (* Lookup; ListNames *)
| ORead (p : list name)                           (* Lookup; Open(Read); read all; Close *)
| OFd (p : list name) (sync : bool) (acts : list fdact) (* Lookup; Open(Write,Sync); the acts; Close *)
(* the same calls as OCreate / OMv, made while every DAGService.Add fails (store down / full) *)
| OCreateX (p : list name)
| OMvX (src dst : list name) (slash : bool).

Fixpoint split_last {A} (l : list A) : option (list A * A) :=
  match l with
  | [] => None
  | x :: r => match split_last r with
              | None => Some ([], x)
              | Some (i, z) => Some (x :: i, z)
              end
  end.

Fixpoint path_eqb (p q : list name) : bool :=
  match p, q with
  | [], [] => true
  | a :: p', b :: q' => (a =? b) && path_eqb p' q'
  | _, _ => false
  end.
Fixpoint prefixb (p q : list name) : bool :=   (* p is a prefix of q *)
  match p, q with
  | [], _ => true
  | a :: p', b :: q' => (a =? b) && prefixb p' q'
  | _ :: _, [] => false
  end.
(** the [name] field of the directory object at path [p]; the root's is not a child name *)
Definition dir_name (p : list name) : name :=
  match split_last p with Some (_, k) => k | None => -1 end.

Definition bump (t : Z) : Z := if t =? 0 then 0 else ANYSET.
Definition resize (n : Z) (d : list Z) : list Z :=
  firstn (Z.to_nat n) d ++ repeat 0 (Z.to_nat n - length d).
(** the byte-array write: zero-fill up to [off], then overwrite/extend with [b] *)
Definition zlen (l : list Z) : Z := Z.of_nat (length l).
Definition wr_at (f : list Z) (off : Z) (b : list Z) : list Z :=
  let f' := f ++ repeat 0 (Z.to_nat (off - zlen f)) in
  firstn (Z.to_nat off) f' ++ b ++ skipn (Z.to_nat (off + zlen b)) f'.
(** the descriptor's view (content, position) under one act; the position is a function of
    the acts alone (SeekEnd is not used), a Seek target beyond the end would zero-fill *)
Definition pos_step (p : Z) (a : fdact) : Z :=
  match a with
  | AWrite d => p + zlen d
  | AWriteAt d at_ => at_ + zlen d
  | ATrunc _ => p
  | ASeek rel off => if rel then p + off else off
  | AFlush => p
  end.
Definition c_step (c : list Z) (p : Z) (a : fdact) : list Z :=
  match a with
  | AWrite d => wr_at c p d
  | AWriteAt d at_ => wr_at c at_ d
  | ATrunc n => resize n c
  | ASeek rel off => let t := if rel then p + off else off in c ++ repeat 0 (Z.to_nat (t - zlen c))
  | AFlush => c
  end.
Fixpoint c_run (c : list Z) (p : Z) (seg : list fdact) : list Z :=
  match seg with [] => c | a :: r => c_run (c_step c p a) (pos_step p a) r end.
Definition pos_run (p : Z) (seg : list fdact) : Z := fold_left pos_step seg p.
(** fd.Write/WriteAt/Truncate set stateDirty; Seek does not *)
Definition seg_dirty (seg : list fdact) : bool :=
  existsb (fun a => match a with AWrite _ | AWriteAt _ _ | ATrunc _ => true | _ => false end) seg.
Definition newfile : node := NFile [] 0 0.
Definition newdir : node := NDir [] 0 0.
Definition is_dirnode (n : node) : bool := match n with NDir _ _ _ => true | _ => false end.

(** =====================  SPECIFICATION LAYER: trees  ===================== *)

(** navigate to the node at path [p] and apply [g] there *)
Fixpoint tnav (p : list name) (g : node -> node * out) (t : node) : node * out :=
  match p with
  | [] => g t
  | k :: r =>
      match t with
      | NFile _ _ _ => (t, RErr EOther)
      | NDir ents m mt =>
          match lookup ents k with
          | None => (t, RErr ENotExist)
          | Some c => let (c', x) := tnav r g c in (NDir (upd k c' ents) m mt, x)
          end
      end
  end.

(** the node at path [p], if any *)
Fixpoint tget (p : list name) (t : node) : option node :=
  match p with
  | [] => Some t
  | k :: r => match t with
              | NFile _ _ _ => None
              | NDir ents _ _ => match lookup ents k with None => None | Some c => tget r c end
              end
  end.

Definition tg_isdir (n : node) : node * out :=
  match n with NDir _ _ _ => (n, ROk) | NFile _ _ _ => (n, RErr EOther) end.
Definition tg_fmod (h : list Z -> Z -> Z -> list Z * Z * Z) (n : node) : node * out :=
  match n with
  | NFile d m t => let '(d', m', t') := h d m t in (NFile d' m' t', ROk)
  | NDir _ _ _ => (n, RErr EOther)
  end.
Definition tg_chmod (mode : Z) (n : node) : node * out :=
  match n with NFile d _ t => (NFile d mode t, ROk) | NDir e _ t => (NDir e mode t, ROk) end.
Definition tg_touch (ts : Z) (n : node) : node * out :=
  match n with NFile d m _ => (NFile d m ts, ROk) | NDir e m _ => (NDir e m ts, ROk) end.
Definition tg_getnode (n : node) : node * out := (n, RNode n).
Definition tg_stat (n : node) : node * out :=
  match n with
  | NFile d m t => (n, RStat false (Z.of_nat (length d)) m t)
  | NDir _ m t => (n, RStat true 0 m t)
  end.
Definition tg_kind (n : node) : node * out := (n, RStat (is_dirnode n) 0 0 0).
Definition tg_list (n : node) : node * out :=
  match n with NDir e _ _ => (n, RList (keys e)) | NFile _ _ _ => (n, RErr EOther) end.
Definition tg_read (n : node) : node * out :=
  match n with NFile d _ _ => (n, RData d) | NDir _ _ _ => (n, RErr EOther) end.
Definition tg_addchild (k : name) (v : node) (n : node) : node * out :=
  match n with
  | NDir e m t => if has e k then (n, RErr EDirExists) else (NDir (upd k v e) m t, ROk)
  | NFile _ _ _ => (n, RErr EOther)
  end.
Definition tg_unlink (k : name) (n : node) : node * out :=
  match n with
  | NDir e m t => if has e k then (NDir (del k e) m t, ROk) else (n, RErr ENotExist)
  | NFile _ _ _ => (n, RErr EOther)
  end.

(** flushUp at the end of a segment of acts: in state created ([first]) or dirty the
    descriptor's content becomes the file's; in state flushed nothing happens *)
Definition tg_fseg (first : bool) (pos : Z) (seg : list fdact) (n : node) : node * out :=
  match n with
  | NFile d m t =>
      if first || seg_dirty seg
      then let d' := c_run d pos seg in (NFile d' m (if seg_dirty seg then bump t else t), RData d')
      else (n, RData d)
  | NDir _ _ _ => (n, RErr EOther)
  end.
(** one descriptor session: every AFlush ends a segment (full sync), Close ends the last one *)
Fixpoint t_fd (p : list name) (first : bool) (pos : Z) (cur acts : list fdact)
         (t : node) (outs : list (list Z)) : node * out :=
  match acts with
  | [] =>
      let (t', x) := tnav p (tg_fseg first pos cur) t in
      match x with
      | RData d => (t', RSess (rev (d :: outs)))
      | _ => if first then (t', x) else (t', RSess (rev outs))
      end
  | AFlush :: r =>
      let (t', x) := tnav p (tg_fseg first pos cur) t in
      match x with
      | RData d => t_fd p false (pos_run pos cur) [] r t' (d :: outs)
      | _ => if first then (t', x) else t_fd p false (pos_run pos cur) [] r t' outs
      end
  | a :: r => t_fd p first pos (cur ++ [a]) r t outs
  end.

Fixpoint t_mkdir (p : list name) (parents : bool) (t : node) : node * out :=
  match p with
  | [] => (t, RErr EOther)
  | k :: r =>
      match t with
      | NFile _ _ _ => (t, RErr EOther)
      | NDir ents m mt =>
          match r with
          | [] =>
              match lookup ents k with
              | None => (NDir (upd k newdir ents) m mt, ROk)
              | Some (NFile _ _ _) => (t, RErr EExist)
              | Some (NDir _ _ _) => (t, if parents then ROk else RErr EExist)
              end
          | _ :: _ =>
              match lookup ents k with
              | None =>
                  if parents
                  then let (c', x) := t_mkdir r parents newdir in (NDir (upd k c' ents) m mt, x)
                  else (t, RErr ENotExist)
              | Some c => let (c', x) := t_mkdir r parents c in (NDir (upd k c' ents) m mt, x)
              end
          end
      end
  end.

(** where a move lands: (directory path, entry name) *)
Definition mv_target (src dst : list name) (slash : bool)
  : option (list name * name * list name * name) :=
  match split_last src with
  | None => None
  | Some (sdir, sname) =>
      let dd := if slash then Some (dst, sname) else split_last dst in
      match dd with
      | None => None
      | Some (ddir, dname) => Some (sdir, sname, ddir, dname)
      end
  end.

Definition t_mv (src dst : list name) (slash : bool) (t : node) : node * out :=
  match mv_target src dst slash with
  | None => (t, RErr EOther)
  | Some (sdir, sname, ddir, dname) =>
      let (t1, x1) := tnav ddir tg_isdir t in
      if negb (is_ok x1) then (t1, x1) else
      let (t2, x2) := tnav sdir tg_isdir t1 in
      if negb (is_ok x2) then (t2, x2) else
      let (t3, x3) := tnav (sdir ++ [sname]) tg_getnode t2 in
      match x3 with
      | RNode nd =>
          (* a directory cannot be moved into itself or below itself: checked on the destination's
             parent first, on the directory the move lands in below *)
          if is_dirnode nd && prefixb (sdir ++ [sname]) ddir then (t3, RErr EOther) else
          let (t4, x4) := tnav (ddir ++ [dname]) tg_kind t3 in
          let kind := match x4 with RStat isd _ _ _ => Some isd | _ => None end in
          let '(fdir, fname) := match kind with
                                | Some true => (ddir ++ [dname], sname)
                                | _ => (ddir, dname)
                                end in
          (* a directory cannot be moved into itself or below itself *)
          if is_dirnode nd && prefixb (sdir ++ [sname]) fdir then (t4, RErr EOther) else
          let t5 := match kind with Some false => fst (tnav ddir (tg_unlink dname) t4) | _ => t4 end in
          let (t6, x6) := tnav fdir (tg_addchild fname nd) t5 in
          if negb (is_ok x6) then (t6, x6) else
          if path_eqb sdir fdir && (sname =? fname) then (t6, ROk) else
          tnav sdir (tg_unlink sname) t6
      | _ => (t3, x3)
      end
  end.

Definition t_at_parent (p : list name) (g : name -> node -> node * out) (t : node) : node * out :=
  match split_last p with
  | None => (t, RErr EOther)
  | Some (d, k) => tnav d (g k) t
  end.

Definition t_step (t : node) (o : op) : node * out :=
  match o with
  | OMkdir p parents f =>
      let (t1, x) := t_mkdir p parents t in
      if f && is_ok x then (fst (tnav p tg_getnode t1), x) else (t1, x)
  | OCreate p => t_at_parent p (fun k => tg_addchild k newfile) t
  | OWrite p data _ => tnav p (tg_fmod (fun _ m t => (data, m, bump t))) t
  | OTrunc p n _ => tnav p (tg_fmod (fun d m t => (resize n d, m, bump t))) t
  | OMv src dst slash => t_mv src dst slash t
  | ORm p => t_at_parent p tg_unlink t
  | OChmod p mode => tnav p (tg_chmod mode) t
  | OTouch p ts => tnav p (tg_touch ts) t
  | OFlush p => tnav p tg_getnode t
  | OStat p => tnav p tg_stat t
  | OList p => tnav p tg_list t
  | ORead p => tnav p tg_read t
  | OFd p _ acts => t_fd p true 0 [] acts t []
  (* the call must fail (AddChild always stores the node first) and must change nothing *)
  | OCreateX _ => (t, RErr EAny)
  | OMvX _ _ _ => (t, RErr EAny)
  end.

Fixpoint t_run (t : node) (ops : list op) : node * list out :=
  match ops with
  | [] => (t, [])
  | o :: r => let (t', x) := t_step t o in let (t'', xs) := t_run t' r in (t'', x :: xs)
  end.

(** =====================  MECHANISM LAYER: MFS objects  ===================== *)

Inductive obj :=
| OFile (data : list Z) (mode mtime : Z)
| ODir (pers : list (name * node)) (mode mtime : Z) (cache : list (name * obj)).

(** the UnixFS node an object currently wraps (File.node / unixfsDir.GetNode(), no cache sync) *)
Definition persnode (o : obj) : node :=
  match o with OFile d m t => NFile d m t | ODir p m t _ => NDir p m t end.
(** cacheNode: a fresh object for a DAG node *)
Definition load (n : node) : obj :=
  match n with NFile d m t => OFile d m t | NDir e m t => ODir e m t [] end.

(** what the object shows: cached children shadow the UnixFS links *)
Definition ov (c : list (name * node)) (e : name * node) : name * node :=
  (fst e, match lookup c (fst e) with Some v => v | None => snd e end).
Definition overlay (pers c : list (name * node)) : list (name * node) := map (ov c) pers.

Fixpoint abs (o : obj) : node :=
  match o with
  | OFile d m t => NFile d m t
  | ODir pers m t cache =>
      NDir (overlay pers (map (fun e => match e with (k, c) => (k, abs c) end) cache)) m t
  end.

(** cacheSync (recursive through GetNode of cached directories): every cached child's
    node is re-linked under its name.  Cached names are always linked names
    (invariant [wf], proved preserved), so this is an in-place replacement. *)
Fixpoint sync (o : obj) : obj :=
  match o with
  | OFile _ _ _ => o
  | ODir pers m t cache =>
      let c' := map (fun e => match e with (k, c) => (k, sync c) end) cache in
      ODir (overlay pers (map (fun e => match e with (k, c) => (k, persnode c) end) c')) m t c'
  end.
Definition clean (o : obj) : obj :=
  match o with ODir p m t _ => ODir p m t [] | OFile _ _ _ => o end.

Definition set_cache (k : name) (c : obj) (o : obj) : obj :=
  match o with ODir p m t cache => ODir p m t (upd k c cache) | OFile _ _ _ => o end.
Definition set_pers (k : name) (v : node) (o : obj) : obj :=
  match o with ODir p m t cache => ODir (upd k v p) m t cache | OFile _ _ _ => o end.
Definition set_mode (mode : Z) (o : obj) : obj :=
  match o with ODir p _ t c => ODir p mode t c | OFile d _ t => OFile d mode t end.
Definition set_mtime (ts : Z) (o : obj) : obj :=
  match o with ODir p m _ c => ODir p m ts c | OFile d m _ => OFile d m ts end.

(** childUnsync *)
Definition child (o : obj) (k : name) : obj * option obj :=
  match o with
  | OFile _ _ _ => (o, None)
  | ODir pers m t cache =>
      match lookup cache k with
      | Some c => (o, Some c)
      | None =>
          match lookup pers k with
          | Some n => (ODir pers m t (upd k (load n) cache), Some (load n))
          | None => (o, None)
          end
      end
  end.

(** a local action returns (new object, result, propagate-to-parents?) *)
Definition lres := (obj * out * bool)%type.

(** enter child [k] and run [g] on it; re-cache the child; if [g] asked for
    propagation, re-link the child's UnixFS node (updateChildEntry/localUpdate) *)
Definition into (k : name) (g : obj -> lres) (o : obj) : lres :=
  let (o1, oc) := child o k in
  match oc with
  | None => (o1, RErr ENotExist, false)
  | Some c =>
      let '(c', x, pr) := g c in
      let o2 := set_cache k c' o1 in
      (if pr then set_pers k (persnode c') o2 else o2, x, pr)
  end.

(** DirLookup to the object at path [p], then [g] on it *)
Fixpoint nav (p : list name) (g : obj -> lres) (o : obj) : lres :=
  match p with
  | [] => g o
  | k :: r =>
      match o with
      | OFile _ _ _ => (o, RErr EOther, false)
      | ODir _ _ _ _ => into k (nav r g) o
      end
  end.

Definition g_isdir (o : obj) : lres :=
  match o with ODir _ _ _ _ => (o, ROk, false) | OFile _ _ _ => (o, RErr EOther, false) end.
Definition g_fmod (h : list Z -> Z -> Z -> list Z * Z * Z) (s : bool) (o : obj) : lres :=
  match o with
  | OFile d m t => let '(d', m', t') := h d m t in (OFile d' m' t', ROk, s)
  | ODir _ _ _ _ => (o, RErr EOther, false)
  end.
(** fileDescriptor.flushUp(fullSync = [pr]) after a segment of acts *)
Definition g_fseg (first : bool) (pos : Z) (seg : list fdact) (pr : bool) (o : obj) : lres :=
  match o with
  | OFile d m t =>
      if first || seg_dirty seg
      then let d' := c_run d pos seg in (OFile d' m (if seg_dirty seg then bump t else t), RData d', pr)
      else (o, RData d, false)
  | ODir _ _ _ _ => (o, RErr EOther, false)
  end.
Definition g_chmod (mode : Z) (o : obj) : lres := (set_mode mode (sync o), ROk, true).
Definition g_touch (ts : Z) (o : obj) : lres := (set_mtime ts (sync o), ROk, true).
Definition g_getnode (o : obj) : lres := let o' := sync o in (o', RNode (persnode o'), false).
Definition g_flush (o : obj) : lres := let o' := clean (sync o) in (o', RNode (persnode o'), true).
Definition g_stat (o : obj) : lres :=
  match o with
  | OFile d m t => (o, RStat false (Z.of_nat (length d)) m t, false)
  | ODir _ m t _ => (sync o, RStat true 0 m t, false)
  end.
Definition g_kind (o : obj) : lres :=
  (o, RStat (match o with ODir _ _ _ _ => true | _ => false end) 0 0 0, false).
Definition g_list (o : obj) : lres :=
  match o with
  | ODir p _ _ _ => (o, RList (keys p), false)
  | OFile _ _ _ => (o, RErr EOther, false)
  end.
Definition g_read (o : obj) : lres :=
  match o with OFile d _ _ => (o, RData d, false) | ODir _ _ _ _ => (o, RErr EOther, false) end.
(** Directory.AddChild: refuse an existing name (cache or DAG), else link in the UnixFS directory only *)
Definition g_addchild (k : name) (v : node) (o : obj) : lres :=
  match o with
  | ODir _ _ _ _ =>
      let (o1, oc) := child o k in
      match oc with
      | Some _ => (o1, RErr EDirExists, false)
      | None => (set_pers k v o1, ROk, false)
      end
  | OFile _ _ _ => (o, RErr EOther, false)
  end.
(** Directory.Unlink: drop the cache entry, RemoveChild on the UnixFS directory *)
Definition g_unlink (k : name) (o : obj) : lres :=
  match o with
  | ODir p m t c =>
      if has p k then (ODir (del k p) m t (del k c), ROk, false)
      else (ODir p m t (del k c), RErr ENotExist, false)
  | OFile _ _ _ => (o, RErr EOther, false)
  end.

(** mkdirWithOpts when the name is free: link an empty directory and cache its object *)
Definition ensure (k : name) (o : obj) : obj :=
  match o with
  | ODir p m t c => ODir (upd k newdir p) m t (upd k (load newdir) c)
  | OFile _ _ _ => o
  end.

Fixpoint m_mkdir (p : list name) (parents : bool) (o : obj) : lres :=
  match p with
  | [] => (o, RErr EOther, false)
  | k :: r =>
      match o with
      | OFile _ _ _ => (o, RErr EOther, false)
      | ODir _ _ _ _ =>
          let (o1, oc) := child o k in
          match r with
          | [] =>
              match oc with
              | None => (ensure k o1, ROk, false)
              | Some (OFile _ _ _) => (o1, RErr EExist, false)
              | Some (ODir _ _ _ _) => (o1, if parents then ROk else RErr EExist, false)
              end
          | _ :: _ =>
              match oc with
              | None => if parents then into k (m_mkdir r parents) (ensure k o1)
                        else (o1, RErr ENotExist, false)
              | Some _ => into k (m_mkdir r parents) o1
              end
          end
      end
  end.

(** defect switches: [true] = what the current code does *)
Record flags := { f_mv_name : bool;   (* Mv compares the parent directories by NAME, not identity *)
                  f_mv_self : bool;   (* Mv does not refuse to move a directory below itself *)
                  f_mvx_unlink : bool }. (* Mv unlinks an existing destination FILE before it knows
                                            that linking the source there will succeed *)
Definition flags_off : flags := {| f_mv_name := false; f_mv_self := false; f_mvx_unlink := false |}.

Definition same_dir (fl : flags) (p q : list name) : bool :=
  if f_mv_name fl then dir_name p =? dir_name q else path_eqb p q.

Definition fst3 (r : lres) : obj := fst (fst r).
Definition res2 (r : lres) : obj * out := (fst (fst r), snd (fst r)).

Definition m_mv (fl : flags) (src dst : list name) (slash : bool) (o : obj) : obj * out :=
  match mv_target src dst slash with
  | None => (o, RErr EOther)
  | Some (sdir, sname, ddir, dname) =>
      let '(o1, x1, _) := nav ddir g_isdir o in                       (* lookupDir(dstDirName) *)
      if negb (is_ok x1) then (o1, x1) else
      let '(o2, x2, _) := nav sdir g_isdir o1 in                      (* lookupDir(srcDirName) *)
      if negb (is_ok x2) then (o2, x2) else
      let '(o3, x3, _) := nav (sdir ++ [sname]) g_getnode o2 in       (* srcDir.Child; srcObj.GetNode *)
      match x3 with
      | RNode nd =>
          if negb (f_mv_self fl) && is_dirnode nd && prefixb (sdir ++ [sname]) ddir
          then (o3, RErr EOther) else
          let '(o4, x4, _) := nav (ddir ++ [dname]) g_kind o3 in      (* dstDir.Child(dstFname) *)
          let kind := match x4 with RStat isd _ _ _ => Some isd | _ => None end in
          let '(fdir, fname) := match kind with
                                | Some true => (ddir ++ [dname], sname)
                                | _ => (ddir, dname)
                                end in
          if negb (f_mv_self fl) && is_dirnode nd && prefixb (sdir ++ [sname]) fdir
          then (o4, RErr EOther) else
          let o5 := match kind with
                    | Some false => fst3 (nav ddir (g_unlink dname) o4)  (* dst is a file: Unlink it *)
                    | _ => o4
                    end in
          let '(o6, x6, _) := nav fdir (g_addchild fname nd) o5 in    (* dstDir.AddChild *)
          if negb (is_ok x6) then (o6, x6) else
          if same_dir fl sdir fdir && (sname =? fname) then (o6, ROk) else
          res2 (nav sdir (g_unlink sname) o6)                         (* srcDir.Unlink *)
      | _ => (o3, x3)
      end
  end.

(** path walk while the store is down: a directory that is not cached cannot be loaded
    (cacheNode -> NewDirectory stores the node first), a file can (NewFile stores nothing) *)
Definition childx (o : obj) (k : name) : obj * option obj * bool :=
  match o with
  | OFile _ _ _ => (o, None, false)
  | ODir pers m t cache =>
      match lookup cache k with
      | Some c => (o, Some c, false)
      | None =>
          match lookup pers k with
          | Some (NFile d fm ft) => (ODir pers m t (upd k (OFile d fm ft) cache), Some (OFile d fm ft), false)
          | Some (NDir _ _ _) => (o, None, true)
          | None => (o, None, false)
          end
      end
  end.
(** the kind of the object at [p] (Some true = directory), or None when the walk fails *)
Fixpoint navx (p : list name) (o : obj) : obj * option bool :=
  match p with
  | [] => (o, Some (match o with ODir _ _ _ _ => true | OFile _ _ _ => false end))
  | k :: r =>
      match o with
      | OFile _ _ _ => (o, None)
      | ODir _ _ _ _ =>
          let '(o1, oc, _) := childx o k in
          match oc with
          | None => (o1, None)
          | Some c => let (c', x) := navx r c in (set_cache k c' o1, x)
          end
      end
  end.
(** Mv with the store down, as the code is: both parents and the source are looked up, a
    source directory cannot produce its node (GetNode stores it), an existing destination
    file is unlinked, then AddChild fails *)
Definition m_mvx (src dst : list name) (slash : bool) (o : obj) : obj :=
  match mv_target src dst slash with
  | None => o
  | Some (sdir, sname, ddir, dname) =>
      let (o1, k1) := navx ddir o in
      match k1 with
      | Some true =>
          let (o2, k2) := navx sdir o1 in
          match k2 with
          | Some true =>
              let (o3, k3) := navx (sdir ++ [sname]) o2 in
              match k3 with
              | Some false =>
                  let (o4, k4) := navx (ddir ++ [dname]) o3 in
                  match k4 with
                  | Some false => fst3 (nav ddir (g_unlink dname) o4)
                  | _ => o4
                  end
              | _ => o3
              end
          | _ => o2
          end
      | _ => o1
      end
  end.

Definition m_at_parent (p : list name) (g : name -> obj -> lres) (o : obj) : obj * out :=
  match split_last p with
  | None => (o, RErr EOther)
  | Some (d, k) => res2 (nav d (g k) o)
  end.

Fixpoint m_fd (p : list name) (sync : bool) (first : bool) (pos : Z) (cur acts : list fdact)
         (o : obj) (outs : list (list Z)) : obj * out :=
  match acts with
  | [] =>
      let '(o', x, _) := nav p (g_fseg first pos cur sync) o in          (* Close: flushUp(Sync flag) *)
      match x with
      | RData d => (o', RSess (rev (d :: outs)))
      | _ => if first then (o', x) else (o', RSess (rev outs))
      end
  | AFlush :: r =>
      let '(o', x, _) := nav p (g_fseg first pos cur true) o in          (* fd.Flush: flushUp(true) *)
      match x with
      | RData d => m_fd p sync false (pos_run pos cur) [] r o' (d :: outs)
      | _ => if first then (o', x) else m_fd p sync false (pos_run pos cur) [] r o' outs
      end
  | a :: r => m_fd p sync first pos (cur ++ [a]) r o outs
  end.

Definition m_step (fl : flags) (o : obj) (op : op) : obj * out :=
  match op with
  | OMkdir p parents f =>
      let '(o1, x, _) := m_mkdir p parents o in
      if f && is_ok x then (fst3 (nav p g_flush o1), x) else (o1, x)
  | OCreate p => m_at_parent p (fun k => g_addchild k newfile) o
  | OWrite p data s => res2 (nav p (g_fmod (fun _ m t => (data, m, bump t)) s) o)
  | OTrunc p n s => res2 (nav p (g_fmod (fun d m t => (resize n d, m, bump t)) s) o)
  | OMv src dst slash => m_mv fl src dst slash o
  | ORm p => m_at_parent p g_unlink o
  | OChmod p mode => res2 (nav p (g_chmod mode) o)
  | OTouch p ts => res2 (nav p (g_touch ts) o)
  | OFlush p => res2 (nav p g_flush o)
  | OStat p => res2 (nav p g_stat o)
  | OList p => res2 (nav p g_list o)
  | ORead p => res2 (nav p g_read o)
  | OFd p sync acts => m_fd p sync true 0 [] acts o []
  | OCreateX _ => (o, RErr EAny)
  | OMvX src dst slash => (if f_mvx_unlink fl then m_mvx src dst slash o else o, RErr EAny)
  end.

Fixpoint m_run (fl : flags) (o : obj) (ops : list op) : obj * list out :=
  match ops with
  | [] => (o, [])
  | a :: r => let (o', x) := m_step fl o a in let (o'', xs) := m_run fl o' r in (o'', x :: xs)
  end.

(** =====================  correspondence  ===================== *)

(** compare a model value with an observed one.  Directory listings are
    compared as sorted lists; mtime [ANYSET] in the model matches any set value. *)
Definition mt_match (model obs : Z) : bool :=
  if model =? ANYSET then negb (obs =? 0) else model =? obs.

Fixpoint list_eqb {A} (eqb : A -> A -> bool) (l1 l2 : list A) : bool :=
  match l1, l2 with
  | [], [] => true
  | a :: r1, b :: r2 => eqb a b && list_eqb eqb r1 r2
  | _, _ => false
  end.

Fixpoint ins_sorted {A} (e : name * A) (l : list (name * A)) : list (name * A) :=
  match l with
  | [] => [e]
  | e' :: r => if fst e <=? fst e' then e :: l else e' :: ins_sorted e r
  end.
Fixpoint canon (n : node) : node :=
  match n with
  | NFile _ _ _ => n
  | NDir ents m t =>
      NDir (fold_right ins_sorted [] (map (fun e => match e with (k, c) => (k, canon c) end) ents)) m t
  end.
Fixpoint ins_name (k : name) (l : list name) : list name :=
  match l with [] => [k] | k' :: r => if k <=? k' then k :: l else k' :: ins_name k r end.
Definition sort_names (l : list name) : list name := fold_right ins_name [] l.

Fixpoint node_match (a b : node) : bool :=
  match a, b with
  | NFile d m t, NFile d' m' t' => list_eqb Z.eqb d d' && (m =? m') && mt_match t t'
  | NDir e m t, NDir e' m' t' =>
      (fix go (l l' : list (name * node)) : bool :=
         match l, l' with
         | [], [] => true
         | (k, c) :: r, (k', c') :: r' => (k =? k') && node_match c c' && go r r'
         | _, _ => false
         end) e e' && (m =? m') && mt_match t t'
  | _, _ => false
  end.

Definition err_eqb (a b : err) : bool :=
  match a, b with
  | ENotExist, ENotExist | EExist, EExist | EDirExists, EDirExists | EOther, EOther => true
  | EAny, _ => true      (* [a] is the model's answer *)
  | _, _ => false
  end.

Definition out_match (model obs : out) : bool :=
  match model, obs with
  | ROk, ROk => true
  | RErr a, RErr b => err_eqb a b
  | RStat d s m t, RStat d' s' m' t' => Bool.eqb d d' && (s =? s') && (m =? m') && mt_match t t'
  | RList l, RList l' => list_eqb Z.eqb (sort_names l) (sort_names l')
  | RData d, RData d' => list_eqb Z.eqb d d'
  | RNode n, RNode n' => node_match (canon n) (canon n')
  | RSess l, RSess l' => list_eqb (list_eqb Z.eqb) l l'
  | _, _ => false
  end.

(** A case: the operations run on a fresh empty MFS root, and what each returned. *)
Inductive case := Case (ops : list op) (outs : list out).

Definition flags_name : flags := {| f_mv_name := true; f_mv_self := false; f_mvx_unlink := false |}.
Definition flags_self : flags := {| f_mv_name := false; f_mv_self := true; f_mvx_unlink := false |}.
Definition flags_both : flags := {| f_mv_name := true; f_mv_self := true; f_mvx_unlink := false |}.
Definition flags_mvx : flags := {| f_mv_name := false; f_mv_self := false; f_mvx_unlink := true |}.
Definition flags_self_mvx : flags := {| f_mv_name := false; f_mv_self := true; f_mvx_unlink := true |}.

(** "failed operations leave the tree unchanged", evaluated along the specification run of
    the case (proved for all histories in P_C19 except for the late failure points of Mv,
    which this evaluates on every case) *)
Fixpoint t_failed_unchanged (t : node) (ops : list op) : bool :=
  match ops with
  | [] => true
  | o :: r =>
      let (t', x) := t_step t o in
      (is_ok x || node_match (canon t') (canon t)) && t_failed_unchanged t' r
  end.

Definition check_case (c : case) : verdict :=
  match c with
  | Case ops outs =>
      let spec := snd (t_run newdir ops) in
      let impl_is fl := list_eqb out_match (snd (m_run fl (load newdir) ops)) outs in
      if negb (t_failed_unchanged newdir ops) then VSpecFail else
      if list_eqb out_match spec outs
      then (if impl_is flags_off then VOk else VModelMismatch)
      else if negb (list_eqb out_match (snd (m_run flags_off (load newdir) ops)) spec) then VSpecFail
      else if impl_is flags_self then VKnown 2
      else if impl_is flags_mvx then VKnown 5
      else if impl_is flags_self_mvx then VKnown 5
      else if impl_is flags_name then VKnown 1
      else if impl_is flags_both then VKnown 1
      else VSpecFail
  end.
