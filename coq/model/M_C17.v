(** C17 — block-size estimation of a basic directory equals the exact
    serialised directory block (ipld/unixfs/io/directory.go, SizeEstimationBlock).

    Mechanism transcribed from the Go code:
      BasicDirectory { node.links (insertion order), node.data, estimatedSize,
                       totalLinks, mode, mtime }
      NewBasicDirectory(WithStat(mode, mtime), WithSizeEstimationMode(Block))
      AddChild      = RemoveChild (ignoring "not exist") ; AddRawLink ; estimate += link ; total++
      RemoveChild   = GetNodeLink (first link of that name) ; estimate -= link ; total-- ;
                      RemoveNodeLink (drops every link of that name)
      updateEstimatedSize: a negative estimate triggers a full recomputation
      computeEstimatedSizeAndTotalLinks = dataFieldSerializedSize(mode, mtime) + sum linkSerializedSize
      NewBasicDirectoryFromNode (reload of the serialised block): mode := FSNode.Mode(),
                      mtime := FSNode.ModTime(), links in serialised (sorted) order
      Defect switch [fl] (finding C17-1, see [data_part]): false = the code today,
                      true = Data field sized as stored (fixes/C17-1.candidate.patch)
    NOT transcribed but translated from the Go source by go2coq on every run:
      [Gen_C17.varintLen], [Gen_C17.linkSerializedSize] (ipld/unixfs/io) and
      [Gen_C17f.ModePermsToUnixPerms]/[UnixPermsToModePerms] (files).
    [dataFieldSerializedSize] takes a time.Time and is transcribed by hand on top
    of the translated [varintLen] ([data_field_size]).

    The serialised block is [DagPb.encode_node (sort_links links) (Some data)] with
    data = the UnixFS Directory message of lib/UnixFsPb.v.
    A Go time.Time is (Unix(), Nanosecond()); os.FileMode is its uint32.
    No proofs in this file. *)
From Coq Require Import List ZArith Bool.
From V Require Import lib.Verdict lib.GoInt lib.Varint lib.Pb lib.UnixFsPb lib.DagPb
  gen.Gen_C17 gen.Gen_C17f.
Import ListNotations.
Open Scope Z_scope.

Definition gtime := (Z * Z)%type.
Definition zero_sec : Z := -62135596800.
Definition zero_time : gtime := (zero_sec, 0).
Definition is_zero (t : gtime) : bool := (fst t =? zero_sec) && (snd t =? 0).
Definition ModeDir : Z := 2147483648.
Arguments zero_sec : simpl never.
Arguments ModeDir : simpl never.

(** ---------- the UnixFS Data message of a directory ---------- *)
(** unixfs.FolderPBDataWithStat / pbDataAddStat *)
Definition dir_data (mode : Z) (t : gtime) : data :=
  {| d_type := Some 1; d_data := None; d_filesize := None; d_blocksizes := [];
     d_hashtype := None; d_fanout := None;
     d_mode := if mode =? 0 then None else Some (ModePermsToUnixPerms mode);
     d_mtime := if is_zero t then None
                else Some {| t_sec := Some (fst t);
                             t_nanos := if 0 <? snd t then Some (snd t) else None |} |}.

Definition dir_data_bytes (mode : Z) (t : gtime) : list Z := emit (data_fields (dir_data mode t)).

(** ---------- dataFieldSerializedSize(mode, mtime), by hand over the translated varintLen ---------- *)
Definition mtime_msg_size (t : gtime) : Z :=
  let ms := if 0 <=? fst t then 1 + varintLen (fst t) else 1 + 10 in
  if 0 <? snd t then ms + (1 + 4) else ms.

Definition data_inner_size (mode : Z) (t : gtime) : Z :=
  let inner := 2 in
  let inner := if mode =? 0 then inner else inner + (1 + varintLen (ModePermsToUnixPerms mode)) in
  if is_zero t then inner
  else inner + (1 + varintLen (mtime_msg_size t) + mtime_msg_size t).

Definition data_field_size (mode : Z) (t : gtime) : Z :=
  1 + varintLen (data_inner_size mode t) + data_inner_size mode t.

(** ---------- the directory ---------- *)
Record dir := {
  links : list entry;       (* ProtoNode.links, in insertion order *)
  est : Z;                  (* estimatedSize *)
  total : Z;                (* totalLinks *)
  dmode : Z;                (* BasicDirectory.mode *)
  dtime : gtime;            (* BasicDirectory.mtime *)
  ndata : list Z            (* ProtoNode.data: the UnixFS message bytes *)
}.

Definition link_size (e : entry) : Z := linkSerializedSize (e_name e) (blen (e_cid e)) (e_tsize e).

Definition sum_links (l : list entry) : Z := fold_right (fun e a => link_size e + a) 0 l.

(** Defect switch [fl] (finding C17-1).
    [fl = false], the code today: computeEstimatedSizeAndTotalLinks sizes the Data
    field from the directory's (mode, mtime) with dataFieldSerializedSize.  After
    NewBasicDirectoryFromNode these come from FSNode.Mode()/ModTime(), and a
    stored mode field without permission bits reads as mode 0: its two bytes are
    in the block but not in the estimate.
    [fl = true], the repair: the Data field is sized as it is stored in the node,
    tag(1) + len_varint + len(node.Data()). *)
Definition data_part (fl : bool) (d : dir) : Z :=
  if fl then 1 + varintLen (blen (ndata d)) + blen (ndata d)
  else data_field_size (dmode d) (dtime d).

(** computeEstimatedSizeAndTotalLinks (block mode) *)
Definition recompute (fl : bool) (d : dir) : dir :=
  {| links := links d; est := data_part fl d + sum_links (links d);
     total := blen (links d); dmode := dmode d; dtime := dtime d; ndata := ndata d |}.

(** NewBasicDirectory(WithStat(mode, mtime)): SetStat keeps mode > 0 and a non-zero time *)
Definition new_dir (fl : bool) (mode : Z) (t : gtime) : dir :=
  let m := if 0 <? mode then mode else 0 in
  let tm := if is_zero t then zero_time else t in
  recompute fl {| links := []; est := 0; total := 0; dmode := m; dtime := tm;
               ndata := dir_data_bytes m tm |}.

Fixpoint zlist_eqb (a b : list Z) : bool :=
  match a, b with
  | [], [] => true
  | x :: a', y :: b' => (x =? y) && zlist_eqb a' b'
  | _, _ => false
  end.

Fixpoint find_link (name : list Z) (l : list entry) : option entry :=
  match l with
  | [] => None
  | e :: r => if zlist_eqb (e_name e) name then Some e else find_link name r
  end.

Definition drop_name (name : list Z) (l : list entry) : list entry :=
  filter (fun e => negb (zlist_eqb (e_name e) name)) l.

(** updateEstimatedSize's tail: a negative estimate is recomputed from the node *)
Definition fix_negative (fl : bool) (d : dir) : dir := if est d <? 0 then recompute fl d else d.

(** RemoveChild: (directory, found) *)
Definition remove_child (fl : bool) (name : list Z) (d : dir) : dir * bool :=
  match find_link name (links d) with
  | None => (d, false)
  | Some old =>
      let d1 := fix_negative fl
                  {| links := links d;
                     est := est d - linkSerializedSize name (blen (e_cid old)) (e_tsize old);
                     total := total d; dmode := dmode d; dtime := dtime d; ndata := ndata d |} in
      ({| links := drop_name name (links d1); est := est d1; total := total d1 - 1;
          dmode := dmode d1; dtime := dtime d1; ndata := ndata d1 |}, true)
  end.

(** AddChild (maxLinks = 0: no limit).  The old entry is removed first; then
    ProtoNode.AddRawLink refuses a link size above MaxInt64 (checkLink) and the
    call fails with the old entry gone. *)
Definition add_child (fl : bool) (e : entry) (d : dir) : dir * bool :=
  let d1 := fst (remove_child fl (e_name e) d) in
  if two63 <=? e_tsize e then (d1, false) else
  let d2 := fix_negative fl
              {| links := links d1 ++ [e]; est := est d1 + link_size e; total := total d1;
                 dmode := dmode d1; dtime := dtime d1; ndata := ndata d1 |} in
  ({| links := links d2; est := est d2; total := total d2 + 1; dmode := dmode d2; dtime := dtime d2;
      ndata := ndata d2 |}, true).

(** the block GetNode().RawData() returns *)
Definition node_bytes (d : dir) : list Z := encode_node (sort_links (links d)) (Some (ndata d)).

(** ---------- reload: NewBasicDirectoryFromNode(Decode(RawData)) in block mode ---------- *)
(** FSNode.Mode() / ModTime() of a parsed Directory message *)
Definition mode_of_dir (m : data) : Z :=
  let perms := Z.land (match d_mode m with Some v => v | None => 0 end) 4095 in
  if perms =? 0 then 0 else Z.lor (UnixPermsToModePerms perms) ModeDir.
Definition time_of (m : data) : gtime :=
  match d_mtime m with
  | None => zero_time
  | Some t =>
      match t_sec t with
      | None => zero_time
      | Some s =>
          match t_nanos t with
          | None => (s, 0)
          | Some n => if (n <? 1) || (999999999 <? n) then zero_time else (s, n)
          end
      end
  end.

(** NewBasicDirectoryFromNode: mode and mtime are read back from the node's
    UnixFS data, the links are in serialised order, everything is recomputed *)
Definition reload (fl : bool) (d : dir) : option dir :=
  match decode_data (ndata d) with
  | None => None
  | Some m =>
      Some (recompute fl {| links := sort_links (links d); est := 0; total := 0;
                            dmode := mode_of_dir m; dtime := time_of m; ndata := ndata d |})
  end.

(** ---------- operations ---------- *)
Inductive op :=
| OAdd (e : entry)
| ORemove (name : list Z)
| OReload.

(** one step: new directory and what the call reports (true = nil error) *)
Definition step (fl : bool) (d : dir) (o : op) : option (dir * bool) :=
  match o with
  | OAdd e => Some (add_child fl e d)
  | ORemove n => Some (remove_child fl n d)
  | OReload => match reload fl d with Some d' => Some (d', true) | None => None end
  end.

(** what the harness observes after creation and after every operation:
    (estimatedSize, totalLinks, len(GetNode().RawData()), adler32(RawData), ok) *)
Definition obs := (Z * Z * Z * Z * bool)%type.

Definition adler32 (bs : list Z) : Z :=
  let '(a, b) := fold_left (fun (st : Z * Z) x =>
                              let a := (fst st + x) mod 65521 in (a, (snd st + a) mod 65521))
                           bs (1, 0) in
  b * 65536 + a.

Definition observe (d : dir) (ok : bool) : obs :=
  let bs := node_bytes d in (est d, total d, blen bs, adler32 bs, ok).

Fixpoint run_obs (fl : bool) (d : dir) (ops : list op) : option (list obs) :=
  match ops with
  | [] => Some []
  | o :: r =>
      match step fl d o with
      | None => None
      | Some (d', ok) =>
          match run_obs fl d' r with
          | None => None
          | Some l => Some (observe d' ok :: l)
          end
      end
  end.

Fixpoint run (fl : bool) (d : dir) (ops : list op) : option dir :=
  match ops with
  | [] => Some d
  | o :: r => match step fl d o with Some (d', _) => run fl d' r | None => None end
  end.

(** ---------- specification ---------- *)
(** the property: the estimate IS the length of the block that would be
    serialised, after creation and after every operation; and it is never
    negative *)
Definition obs_exact (o : obs) : bool :=
  let '(e, _, len, _, _) := o in (e =? len) && (0 <=? e).

Definition obs_eqb (a b : obs) : bool :=
  let '(a1, a2, a3, a4, a5) := a in let '(b1, b2, b3, b4, b5) := b in
  (a1 =? b1) && (a2 =? b2) && (a3 =? b3) && (a4 =? b4) && Bool.eqb a5 b5.

Fixpoint obs_list_eqb (a b : list obs) : bool :=
  match a, b with
  | [], [] => true
  | x :: a', y :: b' => obs_eqb x y && obs_list_eqb a' b'
  | _, _ => false
  end.

(** ---------- the Basic -> HAMT decision (DynamicDirectory.AddChild, block mode) ---------- *)
(** getEffectiveShardingSize: the per-directory threshold if positive, else the
    package default HAMTShardingSize = 256 KiB *)
Definition effective_threshold (thr : Z) : Z := if 0 <? thr then thr else 262144.

(** needsToSwitchByBlockSize(name, nodeToAdd), maxLinks = 0: the value the
    decision is taken on = estimatedSize - size of the entry being replaced
    (sized from the OLD link: its CID and its Tsize, under the entry name)
    + size of the new entry (sized from the NEW link) *)
Definition decision_size (e : entry) (d : dir) : Z :=
  let newsz := link_size e in
  let oldsz := match find_link (e_name e) (links d) with
               | Some old => linkSerializedSize (e_name e) (blen (e_cid old)) (e_tsize old)
               | None => 0
               end in
  est d - oldsz + newsz.

(** switch when the size exceeds the threshold (> not >=) *)
Definition needs_switch (thr : Z) (e : entry) (d : dir) : bool :=
  effective_threshold thr <? decision_size e d.

(** the edit as a basic directory would perform it, and whether the dynamic
    directory converts to a HAMT instead of performing it (only AddChild decides) *)
Definition basic_edit (fl : bool) (o : op) (d : dir) : dir * bool :=
  match o with
  | OAdd e => add_child fl e d
  | ORemove n => remove_child fl n d
  | OReload => (d, true)
  end.
Definition dyn_decide (thr : Z) (o : op) (d : dir) : bool :=
  match o with OAdd e => needs_switch thr e d | _ => false end.

(** one observation per operation of a dynamic directory:
    (sharded after the call?, len(RawData) of the would-be basic directory after
    the edit — measured on a shadow BasicDirectory —, and the usual observation
    of the directory itself while it is still basic) *)
Definition dobs := (bool * Z * obs)%type.
Definition no_obs : obs := (0, 0, 0, 0, true).

(** the history ends with the first conversion *)
(** every operation comes with the threshold in force when it is called
    (SetHAMTShardingSize may be called between operations) *)
Fixpoint dyn_trace (fl : bool) (d : dir) (ops : list (Z * op)) : list dobs :=
  match ops with
  | [] => []
  | (thr, o) :: r =>
      let '(d', ok) := basic_edit fl o d in
      let w := blen (node_bytes d') in
      if dyn_decide thr o d then [(true, w, no_obs)]
      else (false, w, observe d' ok) :: dyn_trace fl d' r
  end.

(** the documented rule, judged on exact block lengths: after an AddChild the
    directory is sharded iff the block the basic directory would serialise after
    the edit exceeds the threshold; other operations never convert a basic
    directory *)
Definition decision_rule (thr : Z) (o : op) (sharded : bool) (wouldbe : Z) : bool :=
  match o with
  | OAdd _ => Bool.eqb sharded (effective_threshold thr <? wouldbe)
  | _ => negb sharded
  end.

Fixpoint dyn_sound (fl : bool) (d : dir) (ops : list (Z * op)) : bool :=
  match ops with
  | [] => true
  | (thr, o) :: r =>
      let '(d', _) := basic_edit fl o d in
      let sh := dyn_decide thr o d in
      decision_rule thr o sh (blen (node_bytes d')) && (if sh then true else dyn_sound fl d' r)
  end.

Definition dobs_eqb (a b : dobs) : bool :=
  let '(a1, a2, a3) := a in let '(b1, b2, b3) := b in
  Bool.eqb a1 b1 && (a2 =? b2) && (if a1 then true else obs_eqb a3 b3).
Fixpoint dobs_list_eqb (a b : list dobs) : bool :=
  match a, b with
  | [], [] => true
  | x :: a', y :: b' => dobs_eqb x y && dobs_list_eqb a' b'
  | _, _ => false
  end.

(** specification on an observed dynamic history *)
Fixpoint dyn_spec (ops : list (Z * op)) (trace : list dobs) : bool :=
  match ops, trace with
  | [], [] => true
  | (thr, o) :: r, (sh, w, ob) :: tr =>
      decision_rule thr o sh w &&
      (if sh then match tr with [] => true | _ => false end
       else obs_exact ob && (let '(_, _, len, _, _) := ob in len =? w) && dyn_spec r tr)
  | _ :: _, [] => true      (* the harness stopped after a conversion *)
  | [], _ :: _ => false
  end.

(** ---------- cases ---------- *)
(** [CDir mode t ops trace]: NewBasicDirectory(WithStat(mode, t), block mode), then
    [ops]; [trace] = the observation after creation followed by one per operation.
    [CFun v vl name cid tsize ls mode t ds]: direct calls of the three size
    functions: varintLen(v) = vl, linkSerializedSize(name, cid, tsize) = ls,
    dataFieldSerializedSize(mode, t) = ds.
    [CDyn mode t ops first trace]: NewDirectory (a DynamicDirectory) in block
    mode; [ops] = (threshold set by SetHAMTShardingSize before the call, operation):
    adds, replacements, removals until
    the first conversion to a HAMT; [first] = observation after creation, [trace]
    one [dobs] per operation performed. *)
Inductive case :=
| CDir (mode : Z) (t : gtime) (ops : list op) (trace : list obs)
| CFun (v vl : Z) (e : entry) (ls : Z) (mode : Z) (t : gtime) (ds : Z)
| CDyn (mode : Z) (t : gtime) (ops : list (Z * op)) (first : obs) (trace : list dobs).

Definition model_trace (fl : bool) (mode : Z) (t : gtime) (ops : list op) : option (list obs) :=
  let d0 := new_dir fl mode t in
  match run_obs fl d0 ops with
  | Some l => Some (observe d0 true :: l)
  | None => None
  end.

Definition trace_matches (m : option (list obs)) (trace : list obs) : bool :=
  match m with Some l => obs_list_eqb l trace | None => false end.

Definition model_exact (m : option (list obs)) : bool :=
  match m with Some l => forallb obs_exact l | None => false end.

Definition check_case (c : case) : verdict :=
  match c with
  | CDir mode t ops trace =>
      let fixed := model_trace true mode t ops in
      let today := model_trace false mode t ops in
      let spec_ok := forallb obs_exact trace in
      if spec_ok then
        (if trace_matches fixed trace || trace_matches today trace then VOk else VModelMismatch)
      else if trace_matches today trace && model_exact fixed then VKnown 1
      else VSpecFail
  | CFun v vl e ls mode t ds =>
      verdict_of
        ((varintLen v =? vl) && (link_size e =? ls) && (data_field_size mode t =? ds))
        ((vl =? blen (enc v)) &&
         (ls =? blen (emit [link_entry e])) &&
         (ds =? blen (emit [(1, WBytes (dir_data_bytes mode t))])))
  | CDyn mode t ops first trace =>
      (* no reload in a dynamic history: both variants of the model coincide *)
      let d0 := new_dir false mode t in
      let done := firstn (length trace) ops in     (* operations actually performed *)
      verdict_of
        (obs_eqb (observe d0 true) first && dobs_list_eqb (dyn_trace false d0 done) trace)
        (obs_exact first && dyn_spec done trace)
  end.
