(** C45 — Autoconf cache survives interrupted writes (autoconf/fetch.go, autoconf/client.go).

    Mechanism:
      reader  [getCachedConfig]: list the cache directory, keep the names with suffix ".json"
              containing "autoconf-" (listCacheFiles), sort them in DESCENDING string order,
              read and json-parse ONLY the first one; any failure -> the caller uses the fallback.
      writer  [saveToCache] -> [writeOwnerOnlyFile] for the payload file autoconf-<unix>.json and
              for the metadata files (.etag, .last-modified, .last-refresh); then
              [cleanupOldVersions] unlinks the cache files beyond the newest [cacheSize].
    The file system is modelled as an association list name -> content; a content is a prefix
    of one fetched payload version (version id, number of bytes) or garbage.  A crash is any
    prefix of the writer's file-system operation log with the last write cut at any byte.
    The operation log of the REAL writer is captured with strace by the harness on every run;
    [atomic_protocol] is the shape of log that the theorems cover.  No proofs in this file. *)
From Coq Require Import List ZArith Bool NArith String Ascii Lia.
From V Require Import lib.Verdict.
Import ListNotations.
Open Scope N_scope.

(** ---------- file contents ---------- *)
Inductive content :=
| CPre (ver : N) (len : N)      (* the first [len] bytes of payload version [ver]; ver 0 = no payload yet *)
| CGarbage.

Definition empty : content := CPre 0 0.

(** payload lengths: version id -> full byte length *)
Definition lens := list (N * N).
Fixpoint full_len (ls : lens) (v : N) : option N :=
  match ls with
  | [] => None
  | (w, n) :: r => if w =? v then Some n else full_len r v
  end.

(** a file parses iff it holds a complete payload (every proper prefix of a JSON document fails to parse) *)
Definition parses (ls : lens) (c : content) : option N :=
  match c with
  | CPre v n => if v =? 0 then None else
                match full_len ls v with Some m => if n =? m then Some v else None | None => None end
  | CGarbage => None
  end.

Definition append (c : content) (v n : N) : content :=
  match c with
  | CPre w m => if (w =? 0) && (m =? 0) then CPre v n
                else if w =? v then CPre v (m + n) else CGarbage
  | CGarbage => CGarbage
  end.

(** ---------- directory ---------- *)
Definition dir := list (string * content).

Fixpoint lookup (d : dir) (name : string) : option content :=
  match d with
  | [] => None
  | (n, c) :: r => if String.eqb n name then Some c else lookup r name
  end.
Fixpoint remove (d : dir) (name : string) : dir :=
  match d with
  | [] => []
  | (n, c) :: r => if String.eqb n name then remove r name else (n, c) :: remove r name
  end.
Definition set (d : dir) (name : string) (c : content) : dir := (name, c) :: remove d name.

(** ---------- file-system operations (projection of the syscalls on the cache directory) ---------- *)
Inductive fop :=
| FCreate (name : string)              (* open O_CREAT|O_TRUNC (or O_EXCL): the file exists and is empty *)
| FWrite (name : string) (ver len : N) (* append [len] bytes of payload [ver] (ver 0 = other bytes) *)
| FRename (src dst : string)
| FRemove (name : string).

Definition apply (d : dir) (o : fop) : dir :=
  match o with
  | FCreate n => set d n empty
  | FWrite n v l =>
      match lookup d n with
      | Some c => set d n (if v =? 0 then (match c with CPre 0 0 => if l =? 0 then c else CGarbage | _ => CGarbage end)
                           else append c v l)
      | None => d
      end
  | FRename a b =>
      match lookup d a with
      | Some c => set (remove d a) b c
      | None => d
      end
  | FRemove n => remove d n
  end.

Definition run (d : dir) (ops : list fop) : dir := fold_left apply ops d.

(** crash after [k] complete operations, the next one (if it is a write) cut to [cut] bytes *)
Definition crash (d : dir) (ops : list fop) (k : nat) (cut : N) : dir :=
  let d' := run d (firstn k ops) in
  match nth_error ops k with
  | Some (FWrite n v l) => if (0 <? cut) && (cut <? l) then apply d' (FWrite n v cut) else d'
  | _ => d'
  end.

(** ---------- the reader ---------- *)
Fixpoint str_suffix (suf s : string) : bool :=
  (String.eqb suf s) || match s with EmptyString => false | String _ r => str_suffix suf r end.
Fixpoint str_prefix (p s : string) : bool :=
  match p, s with
  | EmptyString, _ => true
  | String a p', String b s' => Ascii.eqb a b && str_prefix p' s'
  | _, _ => false
  end.
Fixpoint str_contains (p s : string) : bool :=
  str_prefix p s || match s with EmptyString => false | String _ r => str_contains p r end.

Definition is_cache_name (n : string) : bool :=
  str_suffix ".json" n && str_contains "autoconf-" n.

(** byte-wise string order (Go's strings.Compare) *)
Fixpoint str_leb (a b : string) : bool :=
  match a, b with
  | EmptyString, _ => true
  | String _ _, EmptyString => false
  | String x a', String y b' =>
      let nx := N_of_ascii x in let ny := N_of_ascii y in
      if nx <? ny then true else if ny <? nx then false else str_leb a' b'
  end.

(** the greatest cache file name of a directory *)
Fixpoint newest (d : dir) : option (string * content) :=
  match d with
  | [] => None
  | (n, c) :: r =>
      if is_cache_name n then
        match newest r with
        | Some (m, c') => if str_leb n m then Some (m, c') else Some (n, c)
        | None => Some (n, c)
        end
      else newest r
  end.

Inductive result := RFallback | RVer (v : N) | RCorrupt.

(** newest-only reader, as in the code *)
Definition get_cached (ls : lens) (d : dir) : result :=
  match newest d with
  | None => RFallback
  | Some (_, c) => match parses ls c with Some v => RVer v | None => RFallback end
  end.

(** ---------- the protocol the theorems cover: atomic replacement ---------- *)
(** no operation creates or writes a cache-named file in place: cache names only ever appear as
    the destination of a rename whose source then holds the complete new payload [vnew], and
    removals never hit the current newest cache file *)
Definition allowed (ls : lens) (vnew : N) (d : dir) (o : fop) : bool :=
  match o with
  | FCreate n => negb (is_cache_name n)
  | FWrite n _ _ => negb (is_cache_name n)
  | FRename a b =>
      negb (is_cache_name a) &&
      (if is_cache_name b
       then match lookup d a with
            | Some c => match parses ls c with Some v => v =? vnew | None => false end
            | None => false
            end
       else true)
  | FRemove n =>
      if is_cache_name n
      then match newest d with
           | Some (m, _) => negb (String.eqb m n)
           | None => true
           end
      else true
  end.

Fixpoint atomic_protocol (ls : lens) (vnew : N) (d : dir) (ops : list fop) : bool :=
  match ops with
  | [] => true
  | o :: r => allowed ls vnew d o && atomic_protocol ls vnew (apply d o) r
  end.

(** every cache-named file of the directory holds a complete payload *)
Fixpoint nodup_names (d : dir) : bool :=
  match d with
  | [] => true
  | (n, _) :: r => negb (existsb (fun e => String.eqb (fst e) n) r) && nodup_names r
  end.

Definition good (ls : lens) (d : dir) : bool :=
  nodup_names d &&
  forallb (fun e => if is_cache_name (fst e) then match parses ls (snd e) with Some _ => true | None => false end else true) d.

(** ---------- specification ---------- *)
Definition res_eqb (a b : result) : bool :=
  match a, b with
  | RFallback, RFallback => true
  | RVer v, RVer w => v =? w
  | RCorrupt, RCorrupt => true
  | _, _ => false
  end.

(** after a crash during the update that installs [vnew]: the cached read gives what it gave
    before the update or the new version; never a corrupt config; the fallback only if there was
    no valid cached version before *)
Definition spec_ok (before : result) (vnew : N) (r : result) : bool :=
  match r with
  | RVer v => res_eqb before (RVer v) || (v =? vnew)
  | RFallback => res_eqb before RFallback
  | RCorrupt => false
  end.

(** ---------- cases ---------- *)
(** one crash observation: (complete ops, cut, what the real GetCached returned on the materialised state) *)
Definition obs := (nat * N * result)%type.

Record case := {
  c_lens : lens;
  c_dir0 : dir;            (* the cache directory before the update (after the earlier updates) *)
  c_before : result;       (* what the real GetCached returned on it *)
  c_vnew : N;
  c_ops : list fop;        (* the REAL writer's operation log (strace) *)
  c_obs : list obs
}.

Definition obs_model_ok (c : case) (o : obs) : bool :=
  let '(k, cut, r) := o in res_eqb (get_cached (c_lens c) (crash (c_dir0 c) (c_ops c) k cut)) r.
Definition obs_spec_ok (c : case) (o : obs) : bool :=
  let '(_, _, r) := o in spec_ok (c_before c) (c_vnew c) r.

(** finding 1 = the payload file is written in place (os.WriteFile on the newest name) and only the
    newest file is read: a crash during that write yields the fallback although older versions exist *)
Definition check_case (c : case) : verdict :=
  let model_ok := res_eqb (get_cached (c_lens c) (c_dir0 c)) (c_before c) &&
                  forallb (obs_model_ok c) (c_obs c) in
  let spec := forallb (obs_spec_ok c) (c_obs c) in
  let proto := atomic_protocol (c_lens c) (c_vnew c) (c_dir0 c) (c_ops c) && good (c_lens c) (c_dir0 c) in
  if spec then
    (if model_ok && proto then VOk else VModelMismatch)   (* protocol left the shape the theorem covers *)
  else if model_ok && negb proto then VKnown 1
  else VSpecFail.
