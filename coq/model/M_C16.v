(** C16 — Directory root CID depends only on final entries and configuration.

    Executable model of the switching mechanism of ipld/unixfs/io/directory.go with the
    exact arithmetic (the HAMT itself, BasicDirectory links, sorting, Node() are those
    of model/M_C15.v):
      BasicDirectory.estimatedSize / updateEstimatedSize, needsToSwitchToHAMTDir
        (needsToSwitchByLinkCount / ByLinkSize / ByBlockSize, checkMaxLinksExceeded)
      HAMTDirectory.sizeChange / totalLinks, needsToSwitchToBasicDir, linkSizeFor,
        sizeBelowThreshold, addToSizeChange / removeFromSizeChange
      DynamicDirectory.AddChild / RemoveChild (conversion paths and the settings they
        carry over), productionLinkSize, linkSerializedSize, varintLen.
    Defect switches (ON = the behaviour that was found in the code, OFF = what the
    property demands):
      f_prefix  the link handed back by the shard still has the hex shard prefix in
                [Name]; sizes computed from it are [pad] name bytes too large, and the
                gate compares with [< 0] (C16-1; the repair uses the entry name and [<= 0])
      f_thresh  DynamicDirectory.AddChild's HAMT->basic path drops the per-directory
                HAMTShardingSize (C16-2)
      f_gate    HAMT->basic is considered only when sizeChange + delta < 0 (C16-3)
      f_units   sizeChange is kept in name+CID bytes also in block-size mode (C16-4)
      f_addname needsToSwitchToBasicDir sizes the entry being ADDED from MakeLink(node), whose
                Name is empty: the name bytes of the new entry are not counted (C16-5)
      f_reloadtl a HAMT directory loaded from its node takes the ROOT link count as totalLinks
                (finding C15-1; it influences decisions only when maxLinks is set)
    No proofs in this file. *)
From Coq Require Import List ZArith Bool NArith String Ascii.
From V Require Import lib.Verdict model.M_C15.
Import ListNotations.
Open Scope Z_scope.

(* ------------------------------------------------------------------ *)
(** * sizes *)
Definition bitlen (v : Z) : Z := if v <=? 0 then 0 else Z.log2 v + 1.       (* bits.Len64 *)
Definition varint_len (v : Z) : Z := (9 * bitlen v + 64) / 64.              (* varintLen *)
Definition nlen (k : name) : Z := Z.of_nat (String.length k).

(** productionLinkSize(name, cid) with a name of [n] bytes *)
Definition lsize (n : Z) (v : val) : Z := n + v_cidlen v.
(** linkSerializedSize(name, cid, tsize) *)
Definition bsize (n : Z) (v : val) : Z :=
  let linkLen := 1 + varint_len (v_cidlen v) + v_cidlen v + 1 + varint_len n + n + 1 + varint_len (v_tsize v) in
  1 + varint_len linkLen + linkLen.

Record cfg16 := mkcfg16 {
  g_lg2 : Z;         (* tableSizeLg2 *)
  g_pad : nat;       (* maxpadlen *)
  g_maxlinks : Z;
  g_glob : Z;        (* global HAMTShardingSize *)
  g_th : Z;          (* configured per-directory HAMTShardingSize (0 = unset) *)
  g_mode : Z;        (* 0 SizeEstimationLinks, 1 SizeEstimationBlock, 2 SizeEstimationDisabled *)
  g_dsz : Z;         (* dataFieldSerializedSize(mode, mtime) of the directory *)
  g_dynamic : bool   (* DynamicDirectory; false = pure HAMTDirectory *)
}.

Record flags16 := mkflags16 { f_prefix : bool; f_thresh : bool; f_gate : bool; f_units : bool; f_addname : bool; f_reloadtl : bool }.

(** linkSizeFor / the per-link term of estimatedSize in the current mode *)
Definition link_size (c : cfg16) (n : Z) (v : val) : Z :=
  if g_mode c =? 1 then bsize n v else lsize n v.
(** the empty directory: Data field in block mode, nothing otherwise *)
Definition base_size (c : cfg16) : Z := if g_mode c =? 1 then g_dsz c else 0.

Definition entry_size (c : cfg16) (e : name * val) : Z := link_size c (nlen (fst e)) (snd e).
Definition total_size (c : cfg16) (m : list (name * val)) : Z :=
  fold_right (fun e acc => entry_size c e + acc) 0 m.
(** what the estimate of a BasicDirectory holding [m] is in the current mode *)
Definition est_size (c : cfg16) (m : list (name * val)) : Z :=
  if g_mode c =? 2 then 0 else base_size c + total_size c m.

Definition eff (c : cfg16) (th : Z) : Z := if 0 <? th then th else g_glob c.

(* ------------------------------------------------------------------ *)
(** * state *)
Inductive st :=
| SBasic (l : blinks) (es : Z) (th : Z)                        (* links, estimatedSize, hamtShardingSize *)
| SHamt (cs : children val) (tl : Z) (sc : Z) (th : Z).        (* shard, totalLinks, sizeChange, hamtShardingSize *)

Section Dyn.
  Variable fl : flags16.
  Variable c : cfg16.
  Variable hidx : name -> list Z.

  Definition padz : Z := Z.of_nat (g_pad c).
  (** length of the [Name] of a link handed back by Shard.Find / Swap / Take *)
  Definition stored_nlen (k : name) : Z := nlen k + (if f_prefix fl then padz else 0).
  (** the term by which sizeChange moves *)
  Definition sc_size (n : Z) (v : val) : Z := if f_units fl then lsize n v else link_size c n v.

  (** updateEstimatedSize: the per-link term (nothing in the disabled mode) *)
  Definition es_term (k : name) (v : val) : Z := if g_mode c =? 2 then 0 else link_size c (nlen k) v.

  (** BasicDirectory.addLinkChild / RemoveChild with the estimate *)
  Definition b_add (ml : Z) (k : name) (v : val) (l : blinks) (es : Z) : (blinks * Z) + err :=
    match bget k l with
    | Some w => inl (bdel k l ++ [(k, v)], es - es_term k w + es_term k v)
    | None =>
        if (0 <? ml) && (ml <? Z.of_nat (List.length l) + 1) then inr EMaxLinks
        else inl (l ++ [(k, v)], es + es_term k v)
    end.
  Definition b_remove (k : name) (l : blinks) (es : Z) : (blinks * Z) + err :=
    match bget k l with
    | Some w => inl (bdel k l, es - es_term k w)
    | None => inr ENotExist
    end.

  (** HAMTDirectory.AddChild / RemoveChild with sizeChange and totalLinks *)
  Definition h_add (k : name) (v : val) (cs : children val) (tl sc : Z) : (children val * Z * Z) + err :=
    match swap hidx (hidx k) 0 k (Some v) cs with
    | SOk old cs' =>
        let sc1 := match old with Some w => sc - sc_size (stored_nlen k) w | None => sc end in
        inl (cs', match old with None => tl + 1 | Some _ => tl end, sc1 + sc_size (nlen k) v)
    | SNotExist => inr ENotExist
    | STooDeep => inr ETooDeep
    end.
  Definition h_remove (k : name) (cs : children val) (tl sc : Z) : (children val * Z * Z) + err :=
    match swap hidx (hidx k) 0 k None cs with
    | SOk old cs' =>
        inl (cs', match old with None => tl | Some _ => tl - 1 end,
             match old with Some w => sc - sc_size (stored_nlen k) w | None => sc end)
    | SNotExist => inr ENotExist
    | STooDeep => inr ETooDeep
    end.

  (** switchToBasic: a fresh BasicDirectory (estimate = base), every value added *)
  Fixpoint conv_basic (ml : Z) (es_l : list (name * val)) (l : blinks) (es : Z) : (blinks * Z) + err :=
    match es_l with
    | [] => inl (l, es)
    | (k, v) :: r =>
        match b_add ml k v l es with
        | inl (l', es') => conv_basic ml r l' es'
        | inr e => inr e
        end
    end.
  Definition fresh_es : Z := if g_mode c =? 2 then 0 else base_size c.

  Definition exceeded (k : name) (l : blinks) : bool :=
    match bget k l with
    | None => (0 <? g_maxlinks c) && (g_maxlinks c <? Z.of_nat (List.length l) + 1)
    | Some _ => false
    end.

  (** needsToSwitchToHAMTDir *)
  Definition up_decision (k : name) (v : val) (l : blinks) (es th : Z) : bool :=
    if eff c th =? 0 then false else
    if g_mode c =? 2 then exceeded k l else
    let old := match bget k l with Some w => link_size c (nlen k) w | None => 0 end in
    (eff c th <? es - old + link_size c (nlen k) v) || exceeded k l.

  Definition lookup (k : name) (cs : children val) : option val :=
    match find (hidx k) k cs with FOk w => Some w | _ => None end.

  (** needsToSwitchToBasicDir; [nv] = the entry being added, if any *)
  Definition down_decision (k : name) (nv : option val) (cs : children val) (tl sc th : Z) : bool :=
    if eff c th =? 0 then false else
    let old := lookup k cs in
    let newTotal := tl + (match nv with Some _ => 1 | None => 0 end) - (match old with Some _ => 1 | None => 0 end) in
    let ml := g_maxlinks c in
    let canMax := negb ((0 <? ml) && (ml <? newTotal)) in
    if g_mode c =? 2 then canMax && (0 <? ml) && (newTotal <=? ml) else
    let delta := (match nv with Some v => link_size c (if f_addname fl then 0 else nlen k) v | None => 0 end)
                 - (match old with Some w => link_size c (stored_nlen k) w | None => 0 end) in
    (* the repair of C16-1 also turned the gate's [< 0] into [<= 0]: with bare names a net change
       of 0 means the size is back to what it was before the conversion *)
    let gate := if f_gate fl then (if f_prefix fl then sc + delta <? 0 else sc + delta <=? 0) else true in
    (* sizeBelowThreshold: Data field (block mode) + every link (bare names) + delta <= threshold;
       the early exit of the enumeration does not change the answer: every term is positive *)
    let below := base_size c + total_size c (walk (Node cs)) + delta <=? eff c th in
    gate && below && canMax.

  Inductive op16 := AAdd (k : name) (v : val) | ARemove (k : name) | AReload.

  (** what the harness reads after every operation: error class, UnixFS type of the
      directory, estimatedSize (basic) or sizeChange (HAMT), totalLinks, hamtShardingSize *)
  Record ob16 := mkob { o_err : option err; o_hamt : bool; o_size : Z; o_total : Z; o_th : Z }.

  Definition observe (e : option err) (s : st) : ob16 :=
    match s with
    | SBasic l es th => mkob e false es (Z.of_nat (List.length l)) th
    | SHamt cs tl sc th => mkob e true sc tl th
    end.

  Definition add16 (k : name) (v : val) (s : st) : st * option err :=
    match s with
    | SBasic l es th =>
        if g_dynamic c && up_decision k v l es th then
          match to_hamt hidx (sort_links l) [] 0 with
          | inr e => (s, Some e)
          | inl (cs, tl) =>
              match h_add k v cs tl 0 with
              | inl (cs', tl', sc') => (SHamt cs' tl' sc' th, None)
              | inr e => (s, Some e)
              end
          end
        else
          match b_add (g_maxlinks c) k v l es with
          | inl (l', es') => (SBasic l' es' th, None)
          | inr e => (s, Some e)
          end
    | SHamt cs tl sc th =>
        if g_dynamic c && down_decision k (Some v) cs tl sc th then
          match conv_basic (g_maxlinks c) (walk (Node cs)) [] fresh_es with
          | inr e => (s, Some e)
          | inl (l, es) =>
              match b_add (g_maxlinks c) k v l es with
              | inl (l', es') => (SBasic l' es' (if f_thresh fl then 0 else th), None)
              | inr e => (s, Some e)
              end
          end
        else
          match h_add k v cs tl sc with
          | inl (cs', tl', sc') => (SHamt cs' tl' sc' th, None)
          | inr e => (s, Some e)
          end
    end.

  Definition remove16 (k : name) (s : st) : st * option err :=
    match s with
    | SBasic l es th =>
        match b_remove k l es with
        | inl (l', es') => (SBasic l' es' th, None)
        | inr e => (s, Some e)
        end
    | SHamt cs tl sc th =>
        if g_dynamic c && down_decision k None cs tl sc th then
          let ml := g_maxlinks c in
          match conv_basic (if 0 <? ml then ml + 1 else ml) (walk (Node cs)) [] fresh_es with
          | inr e => (s, Some e)
          | inl (l, es) =>
              match b_remove k l es with
              | inl (l', es') => (SBasic l' es' th, None)
              | inr e => (s, Some e)
              end
          end
        else
          match h_remove k cs tl sc with
          | inl (cs', tl', sc') => (SHamt cs' tl' sc' th, None)
          | inr e => (s, Some e)
          end
    end.

  (** GetNode, all blocks stored, NewDirectoryFromNode / NewHAMTDirectoryFromNode on the root, the
      configuration re-applied.  On the abstract directory this is the identity (P_C15.from_to_node:
      loading what Node() wrote gives back the same shard tree; a basic node's links come back in
      name order); the bookkeeping restarts: sizeChange 0, totalLinks recounted, estimatedSize
      recomputed (it is exact in every variant), threshold re-applied. *)
  Definition reload16 (s : st) : st :=
    match s with
    | SBasic l es th => SBasic (sort_links l) es (g_th c)
    | SHamt cs tl sc th =>
        SHamt cs (if f_reloadtl fl then Z.of_nat (List.length cs) else count cs) 0 (g_th c)
    end.

  Definition step16 (s : st) (o : op16) : st * ob16 :=
    let (s', e) := match o with
                   | AAdd k v => add16 k v s
                   | ARemove k => remove16 k s
                   | AReload => (reload16 s, None)
                   end in
    (s', observe e s').

  Fixpoint run16 (s : st) (ops : list op16) : st * list ob16 :=
    match ops with
    | [] => (s, [])
    | o :: r => let (s', b) := step16 s o in let (s'', bs) := run16 s' r in (s'', b :: bs)
    end.

  Definition init16 : st :=
    if g_dynamic c then SBasic [] fresh_es (g_th c) else SHamt [] 0 0 (g_th c).
End Dyn.

(* ------------------------------------------------------------------ *)
(** * what the root node is made of: the CID is a function of this *)
Inductive repr :=
| RBasic (l : list (name * val))      (* Directory node: links in name order *)
| RHamt (n : pnode).                  (* HAMTShard node DAG *)

Definition repr_of (c : cfg16) (s : st) : repr :=
  match s with
  | SBasic l _ _ => RBasic (sort_links l)
  | SHamt cs _ _ _ => RHamt (to_node (g_pad c) EmptyString (Node cs))
  end.

Definition repr_eqb (a b : repr) : bool :=
  match a, b with
  | RBasic x, RBasic y => list_eqb entry_eqb x y
  | RHamt x, RHamt y => pnode_eqb x y
  | _, _ => false
  end.

(* ------------------------------------------------------------------ *)
(** * specification *)

(** the documented rule: sharded iff the estimated size is above the threshold or the
    number of links is above maxLinks (size ignored in the disabled mode; nothing is
    ever sharded when the threshold is 0 = sharding off) *)
Definition rule (c : cfg16) (m : list (name * val)) : bool :=
  if eff c (g_th c) =? 0 then false else
  ((negb (g_mode c =? 2)) && (eff c (g_th c) <? base_size c + total_size c m))
  || ((0 <? g_maxlinks c) && (g_maxlinks c <? Z.of_nat (List.length m))).

(** the map after a history, from the answers (an edit that reported an error did nothing) *)
Definition apply_op (m : fmap) (o : op16) (e : option err) : fmap :=
  match e, o with
  | None, AAdd k v => mput k v m
  | None, ARemove k => mdel k m
  | None, AReload => m
  | Some _, _ => m
  end.

Fixpoint final_map (m : fmap) (ops : list op16) (obs : list ob16) : fmap :=
  match ops, obs with
  | o :: ro, b :: rb => final_map (apply_op m o (o_err b)) ro rb
  | _, _ => m
  end.

(** after every operation: sharded as the rule says for the entries at that point, and
    the configured per-directory threshold still in force *)
Fixpoint spec_hist (c : cfg16) (m : fmap) (ops : list op16) (obs : list ob16) : bool :=
  match ops, obs with
  | [], [] => true
  | o :: ro, b :: rb =>
      let m' := apply_op m o (o_err b) in
      (if g_dynamic c then Bool.eqb (o_hamt b) (rule c m') else o_hamt b) &&
      (o_th b =? g_th c) &&
      (match o_err b, o with            (* edits succeed, except removing a missing name *)
       | None, AAdd _ _ => true
       | None, ARemove k => match mget k m with Some _ => true | None => false end
       | None, AReload => true
       | Some ENotExist, ARemove k => match mget k m with Some _ => false | None => true end
       | Some EMaxLinks, AAdd k _ =>     (* only a directory that cannot shard may refuse, when full *)
           (eff c (g_th c) =? 0) && g_dynamic c &&
           match mget k m with
           | None => (0 <? g_maxlinks c) && (g_maxlinks c <? Z.of_nat (List.length m) + 1)
           | Some _ => false
           end
       | Some _, _ => false
       end) &&
      spec_hist c m' ro rb
  | _, _ => false
  end.

(** the canonical build of a set of entries: a fresh directory, entries added in name order *)
Definition canon_ops (m : fmap) : list op16 := map (fun e => AAdd (fst e) (snd e)) (sort_links m).

(* ------------------------------------------------------------------ *)
(** * comparison with the implementation *)
Definition ob16_eqb (a b : ob16) : bool :=
  opt_eqb err_eqb (o_err a) (o_err b) && Bool.eqb (o_hamt a) (o_hamt b) &&
  (o_size a =? o_size b) && (o_total a =? o_total b) && (o_th a =? o_th b).

(** [CRoot c tbl ops obs same_cid canon_hamt]: a fresh directory was driven with [ops]
    and answered [obs]; a second fresh directory of the same configuration received the
    surviving entries in name order; [same_cid] = the two root CIDs are equal,
    [canon_hamt] = the canonical one is a HAMTShard.
*)
Inductive case16 :=
| CRoot (c : cfg16) (tbl : table) (ops : list op16) (obs : list ob16) (same_cid : bool) (canon_hamt : bool).

Definition fl_spec := mkflags16 false false false false false false.      (* what the property demands *)
Definition fl_code := mkflags16 false false true true false true.        (* the code today: C16-1, C16-2, C16-5 repaired *)
Definition fl_p := mkflags16 true false true true false true.            (* C16-1 back *)
Definition fl_t := mkflags16 false true true true false true.            (* C16-2 back *)
Definition fl_n := mkflags16 false false true true true true.            (* C16-5 back *)
Definition fl_all := mkflags16 true true true true true true.            (* the code as it was found *)
Definition fl_gate_only := mkflags16 false false true false false false.  (* gate with consistent units *)

Definition is_hamt16 (s : st) : bool := match s with SHamt _ _ _ _ => true | _ => false end.

(** does the model with flags [fl] answer what was observed, and predict the same
    relation between history root and canonical root? *)
Definition model_matches (fl : flags16) (c : cfg16) (hidx : name -> list Z)
           (ops : list op16) (obs : list ob16) (same_cid canon_hamt : bool) : bool :=
  let (s, mobs) := run16 fl c hidx (init16 c) ops in
  let m := final_map [] ops obs in
  let (sc, _) := run16 fl c hidx (init16 c) (canon_ops m) in
  list_eqb ob16_eqb mobs obs &&
  Bool.eqb (repr_eqb (repr_of c s) (repr_of c sc)) same_cid &&
  Bool.eqb (is_hamt16 sc) canon_hamt.

(** does the model with flags [fl] meet the specification on this history? *)
Definition model_meets (fl : flags16) (c : cfg16) (hidx : name -> list Z) (ops : list op16) : bool :=
  let (s, mobs) := run16 fl c hidx (init16 c) ops in
  let m := final_map [] ops mobs in
  let (sc, _) := run16 fl c hidx (init16 c) (canon_ops m) in
  spec_hist c [] ops mobs && repr_eqb (repr_of c s) (repr_of c sc).

Definition check_case16 (cs : case16) : verdict :=
  match cs with
  | CRoot c tbl ops obs same_cid canon_hamt =>
      let hidx := hidx_of (g_lg2 c) tbl in
      let spec_ok := spec_hist c [] ops obs && same_cid in
      let mm fl := model_matches fl c hidx ops obs same_cid canon_hamt in
      if mm fl_code then
        (if spec_ok then VOk
         else if negb (model_meets fl_spec c hidx ops) then VSpecFail
         else if model_meets fl_gate_only c hidx ops then VKnown 4 else VKnown 3)
      else if mm fl_spec then (if spec_ok then VOk else VSpecFail)
      else if mm fl_p then (if spec_ok then VOk else VKnown 1)
      else if mm fl_t then (if spec_ok then VOk else VKnown 2)
      else if mm fl_n then (if spec_ok then VOk else VKnown 5)
      else if mm fl_all then (if spec_ok then VOk else VKnown 1)
      else if spec_ok then VModelMismatch else VSpecFail
  end.
