(** C07 — UnixFS file import (balanced and trickle layouts).

    Executable model of the mechanism, transcribed from
      ipld/unixfs/importer/balanced/builder.go   Layout, layoutData, fillNodeRec
      ipld/unixfs/importer/trickle/trickledag.go Layout, fillTrickleRec, verifyTDagRec
      ipld/unixfs/importer/helpers/dagbuilder.go NewLeafNode, NewLeafDataNode, FillNodeLayer,
                                                 AddChild, HasFileAttributes, SetFileAttributes
      ipld/unixfs/unixfs.go                      AddBlockSize / FileSize
    The chunker's output (the chunk list) is the input of the model; a chunk is an
    abstract payload [D] measured by [dlen] (the builders never look inside a chunk).
    Trees are [lib/Tree.v] trees: every node carries the sizes the code RECORDS.
    No proofs in this file. *)
From Coq Require Import List ZArith Bool.
From V Require Import lib.Verdict lib.Tree.
Import ListNotations.
Open Scope Z_scope.

(** trickle.depthRepeat *)
Definition depth_repeat : nat := 4.

(** requested / stored file attributes: unix permission word (0 = none) and mtime *)
Record meta := Meta { m_mode : Z; m_has_mtime : bool; m_sec : Z; m_nsec : Z }.
Definition no_meta : meta := Meta 0 false 0 0.
Definition meta_eqb (a b : meta) : bool :=
  (m_mode a =? m_mode b) && Bool.eqb (m_has_mtime a) (m_has_mtime b) &&
  (m_sec a =? m_sec b) && (m_nsec a =? m_nsec b).
(** DagBuilderHelper.HasFileAttributes (no filestore) *)
Definition has_attrs (m : meta) : bool := negb (m_mode m =? 0) || m_has_mtime m.

(** defect switches: [true] = the code without the repair of that finding, [false] = with it *)
Record flags := Flags {
  f_raw_root_meta : bool   (* C07-1: balanced.Layout leaves a raw-block root as it is, and
                              SetFileAttributes is a silent no-op on it *)
}.
Definition flags_on := Flags true.
Definition flags_off := Flags false.

Inductive layout_kind := Balanced | Trickle.

Section Build.
  Context {D : Type}.
  Variable dlen : D -> Z.
  Variable dnil : D.            (* the empty payload (NewLeafNode(nil)) *)
  Variable w : nat.             (* DagBuilderParams.Maxlinks *)

  (** NewLeafDataNode: a leaf for the next chunk; the builder reports len(data) as its file size *)
  Definition leafb (k : kind) (c : D) (r : list D) : tree D * list D := (Leaf k (dlen c) c, r).

  (** the loop  `for node.NumChildren() < limit && !db.Done() { child := f(); node.AddChild(child) }`
      with [slots] = limit - NumChildren() on entry; a sub-builder [f] gets the
      pending chunk and the rest of the stream and returns the child and what is left *)
  Fixpoint fill_slots (f : D -> list D -> tree D * list D) (slots : nat) (cs : list D)
    : list (tree D) * list D :=
    match slots, cs with
    | S s, c :: r =>
        let (t, r1) := f c r in
        let (ks, r2) := fill_slots f s r1 in (t :: ks, r2)
    | _, _ => ([], cs)
    end.

  (** ---- balanced ---- *)
  (** fillNodeRec(db, nil, depth) for depth = d >= 1; d = 0 is NewLeafDataNode *)
  Fixpoint bal_sub (k : kind) (d : nat) (c : D) (r : list D) : tree D * list D :=
    match d with
    | O => leafb k c r
    | S d' => let (ks, r') := fill_slots (bal_sub k d') w (c :: r) in (mk_node ks, r')
    end.

  (** the loop of layoutData: `for depth := 1; !db.Done(); depth++` with d = depth-1;
      the new root already has the old root as its only child.  [None] = out of fuel
      (P_C07.bal_fuel_enough: never for w >= 2; for w <= 1 the Go loop does not terminate). *)
  Fixpoint bal_grow (fuel : nat) (k : kind) (d : nat) (root : tree D) (cs : list D)
    : option (tree D) :=
    match cs with
    | [] => Some root
    | _ :: _ =>
        match fuel with
        | O => None
        | S fuel' =>
            let (ks, r) := fill_slots (bal_sub k d) (w - 1) cs in
            bal_grow fuel' k (S d) (mk_node (root :: ks)) r
        end
    end.

  Definition bal_kind (raw : bool) : kind := if raw then KRaw else KPbFile.
  Definition tri_kind (raw : bool) : kind := if raw then KRaw else KPbRaw.

  Definition bal_tree (raw : bool) (cs : list D) : option (tree D) :=
    match cs with
    | [] => Some (Leaf (bal_kind raw) (dlen dnil) dnil)        (* db.NewLeafNode(nil, TFile) *)
    | c :: r => bal_grow (length r) (bal_kind raw) 0 (Leaf (bal_kind raw) (dlen c) c) r
    end.

  (** ---- trickle ---- *)
  (** children of the node filled by fillTrickleRec(db, node, maxDepth = S m):
      FillNodeLayer, then for depth = 1 .. m: depthRepeat sub-trees fillTrickleRec(depth).
      (The loop for maxDepth = S m is the loop for maxDepth = m followed by layer m.) *)
  Fixpoint tri_kids (k : kind) (m : nat) (cs : list D) : list (tree D) * list D :=
    match m with
    | O => fill_slots (leafb k) w cs
    | S m' =>
        let (ks, r) := tri_kids k m' cs in
        let (ls, r') :=
          fill_slots (fun c r0 => let (x, r1) := tri_kids k m' (c :: r0) in (mk_node x, r1))
                     depth_repeat r in
        (ks ++ ls, r')
    end.
  Definition tri_sub (k : kind) (m : nat) (c : D) (r : list D) : tree D * list D :=
    let (x, r1) := tri_kids k m (c :: r) in (mk_node x, r1).

  (** Layout: maxDepth = -1 (no limit; the loop ends when the data does).  [length cs]
      layers are enough (P_C07.tri_fuel_enough); [None] = chunks left over (only w = 0). *)
  (** A `File` node that ends up without links is, as a block, the same thing as a
      UnixFS leaf with empty inline data; trees use the leaf form for it. *)
  Definition file_node (ks : list (tree D)) : tree D :=
    match ks with [] => Leaf KPbFile (dlen dnil) dnil | _ => mk_node ks end.

  Definition tri_tree (raw : bool) (cs : list D) : option (tree D) :=
    match tri_kids (tri_kind raw) (length cs) cs with
    | (ks, []) => Some (file_node ks)
    | _ => None
    end.

  (** ---- Layout incl. file attributes ---- *)
  Definition is_raw_root (t : tree D) : bool :=
    match t with Leaf KRaw _ _ => true | _ => false end.

  (** flag on  (code before fixes/C07-1): attributes are only written into a ProtoNode
      root, a raw root silently stays without them;
      flag off (the repaired code): a raw root that has to carry attributes becomes
      the only child of a UnixFS File node (AddChild with the block length), which
      then takes the attributes *)
  Definition finish (fl : flags) (req : meta) (t : tree D) : tree D * meta :=
    if has_attrs req then
      if is_raw_root t then
        if f_raw_root_meta fl then (t, no_meta)
        else (mk_node [t], req)
      else (t, req)
    else (t, no_meta).

  Definition layout (fl : flags) (lk : layout_kind) (raw : bool) (req : meta) (cs : list D)
    : option (tree D * meta) :=
    match (match lk with Balanced => bal_tree raw cs | Trickle => tri_tree raw cs end) with
    | Some t => Some (finish fl req t)
    | None => None
    end.

  (** ---------- specification: shape rules ---------- *)
  (** a complete balanced tree of height h: every inner node has exactly w links *)
  Fixpoint full (h : nat) (t : tree D) : bool :=
    match t, h with
    | Leaf _ _ _, O => true
    | Node _ _ kids, S h' => (length kids =? w)%nat && forallb (full h') kids
    | _, _ => false
    end.

  Fixpoint all_but_last {A} (p : A -> bool) (l : list A) : bool :=
    match l with
    | [] => true
    | x :: r => match r with [] => true | _ => p x && all_but_last p r end
    end.

  (** balanced shape of height h: leaves exactly at depth h, 1..w links per inner
      node, every subtree that has a right sibling is complete *)
  Fixpoint bal_ok (h : nat) (t : tree D) : bool :=
    match t, h with
    | Leaf _ _ _, O => true
    | Node _ _ kids, S h' =>
        (1 <=? length kids)%nat && (length kids <=? w)%nat &&
        forallb (bal_ok h') kids && all_but_last (full h') kids
    | _, _ => false
    end.

  (** the property's wording: all leaves at equal depth, at most w links per node *)
  Definition bal_shape (t : tree D) : bool := uniform (height t) t && max_links w t.

  (** trickle: the predicate of verifyTDagRec (structure part), depth = -1 at the root.
      [raw] = VerifyParams.RawLeaves, Direct = w, LayerRepeat = depthRepeat. *)
  Definition leaf_kind_ok (raw : bool) (k : kind) : bool :=
    match k with KRaw => raw | KPbRaw => negb raw | KPbFile => false end.

  Fixpoint tri_ok (raw : bool) (t : tree D) (depth : Z) {struct t} : bool :=
    match t with
    | Leaf k _ d =>
        if depth =? 0 then leaf_kind_ok raw k
        else (* a branch position: must be a File node without data; no links to check *)
             match k with KPbFile => dlen d =? 0 | _ => false end
    | Node _ _ kids =>
        negb (depth =? 0) &&
        (fix go (i : Z) (l : list (tree D)) {struct l} : bool :=
           match l with
           | [] => true
           | c :: r =>
               (if i <? Z.of_nat w then tri_ok raw c 0
                else let rd := (i - Z.of_nat w) / Z.of_nat depth_repeat + 1 in
                     negb ((depth <=? rd) && (0 <? depth)) && tri_ok raw c rd)
               && go (i + 1) r
           end) 0 kids
    end.
  Definition tri_shape (raw : bool) (t : tree D) : bool := tri_ok raw t (-1).

  Definition shape_ok (lk : layout_kind) (raw : bool) (t : tree D) : bool :=
    match lk with Balanced => bal_shape t | Trickle => tri_shape raw t end.
End Build.

(** payloads of positive length (an empty file is a single leaf with the empty payload) *)
Definition nonempty {D} (dlen : D -> Z) (l : list D) : list D :=
  filter (fun d => negb (dlen d =? 0)) l.

(** ---------- correspondence cases ---------- *)
(** a chunk / a leaf payload as the harness reports it: (length, 32-bit fingerprint of the bytes) *)
Definition chunk : Type := Z * Z.
Definition clen (c : chunk) : Z := fst c.
Definition cnil : chunk := (0, 7385).   (* folded FNV-1a offset basis = fingerprint of "" *)
Definition chunk_eqb (a b : chunk) : bool := (fst a =? fst b) && (snd a =? snd b).

Record config := Config {
  c_layout : layout_kind;
  c_width : nat;
  c_raw : bool;
  c_meta : meta                    (* requested mode (unix perms) / mtime *)
}.

(** what the harness observed on the real code for one import *)
Record obs := Obs {
  o_tree : tree chunk;             (* the DAG read back from the DAGService, node by node *)
  o_meta : meta;                   (* DagReader.Mode()/ModTime() of the root *)
  o_size : Z;                      (* DagReader.Size() *)
  o_read_len : Z;                  (* bytes delivered by the DagReader until EOF *)
  o_read_eq : bool;                (* ... and they equal the input (compared in Go) *)
  o_cid_stable : bool;             (* same root CID from a second import (other store, other read sizes) *)
  o_verify : bool;                 (* trickle: VerifyTrickleDagStructure(...) == nil; balanced: true *)
  o_anomalies : list Z             (* codes of things a Tree.v tree cannot express; expected [] *)
}.

Inductive case := CImport (c : config) (chunks : list chunk) (o : obs).

Definition spec_ok (c : config) (chunks : list chunk) (t : tree chunk) (m : meta)
  (size read_len : Z) (read_eq cid_stable : bool) : bool :=
  let total := dsum clen chunks in
  read_eq && (read_len =? total) &&                       (* reads back exactly the input *)
  (size =? total) &&                                      (* reports the input length *)
  meta_eqb m (c_meta c) &&                                (* carries the requested mode/mtime *)
  sizes_ok clen t &&                                      (* recorded sizes consistent at every node *)
  list_eqb chunk_eqb (nonempty clen (leaves t)) chunks && (* leaves = the chunks, in order *)
  shape_ok clen (c_width c) (c_layout c) (c_raw c) t &&        (* layout shape rules *)
  cid_stable.                                             (* deterministic root CID *)

Definition model_eq (fl : flags) (c : config) (chunks : list chunk) (o : obs) : bool :=
  match layout clen cnil (c_width c) fl (c_layout c) (c_raw c) (c_meta c) chunks with
  | Some (t, m) =>
      tree_eqb chunk_eqb t (o_tree o) && meta_eqb m (o_meta o) &&
      (o_size o =? rsize t) &&
      Bool.eqb (o_verify o)
        (match c_layout c with Trickle => tri_shape clen (c_width c) (c_raw c) (o_tree o) | Balanced => true end) &&
      match o_anomalies o with [] => true | _ => false end
  | None => false
  end.

(** does the flag-off model meet the specification on this input (reader outputs ideal)? *)
Definition off_meets_spec (c : config) (chunks : list chunk) : bool :=
  match layout clen cnil (c_width c) flags_off (c_layout c) (c_raw c) (c_meta c) chunks with
  | Some (t, m) => spec_ok c chunks t m (rsize t) (dsum clen chunks) true true
  | None => false
  end.

Definition check_case (cs : case) : verdict :=
  match cs with
  | CImport c chunks o =>
      let sp := spec_ok c chunks (o_tree o) (o_meta o) (o_size o) (o_read_len o)
                        (o_read_eq o) (o_cid_stable o) in
      let on := model_eq flags_on c chunks o in
      let off := model_eq flags_off c chunks o in
      (* finding 1 has a precise signature: the root is a raw block, attributes were
         requested, and the metadata clause is the ONLY clause of the specification
         that fails (everything else, root-CID stability included, holds) *)
      let sp_but_meta := spec_ok c chunks (o_tree o) (c_meta c) (o_size o) (o_read_len o)
                                 (o_read_eq o) (o_cid_stable o) in
      if sp then (if on || off then VOk else VModelMismatch)
      else if on && off_meets_spec c chunks && sp_but_meta && is_raw_root (o_tree o)
              && has_attrs (c_meta c) then VKnown 1
      else VSpecFail
  end.
