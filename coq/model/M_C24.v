(** C24 — pin index (pinning/pinner/dsindex/indexer.go) is an exact multimap.

    Executable model of the mechanism the code uses:
      encode(s)  = "u" ++ base64url-without-padding(s)        (multibase.Base64url,
                                                                base64.RawURLEncoding)
      decode(s)  = multibase.Decode: first character selects the base ("u" only
                   is modelled, everything else is an error), RawURLEncoding.DecodeString
                   (non-strict: trailing bits of the last character are ignored)
      datastore key of (key,value) = "/" ++ encode key ++ "/" ++ encode value
                   (ds.NewKey(encode(key)).ChildString(encode(value)); path.Clean is the
                   identity on these strings because the alphabet has neither '/' nor '.',
                   see P_C24.enc_alphabet)
      the datastore as seen through namespace.Wrap = a set of key strings (values are
                   always the empty byte string), kept here in insertion order
      Query{Prefix:p} = every key when p = "", otherwise every key that starts with
                   "/" ++ p ++ "/"   (go-datastore query.NaiveQueryApply: FilterKeyPrefix{prefix + "/"})
      ForEach/Search decode path.Base(key) and path.Base(path.Dir(key)).
    Byte strings are [list ascii] (8 booleans per byte: every value is a byte).
    No proofs in this file. *)
From Coq Require Import String Ascii.
From Coq Require Import List Bool NArith.
From V Require Import lib.Verdict.
Import ListNotations.

Definition str := list ascii.
Definition bs (l : list N) : str := map ascii_of_N l.

Fixpoint str_eqb (a b : str) : bool :=
  match a, b with
  | [], [] => true
  | x :: r, y :: s => Ascii.eqb x y && str_eqb r s
  | _, _ => false
  end.
Definition isnil {A} (l : list A) : bool := match l with [] => true | _ => false end.

(** ---------- base64url (RFC 4648 §5, no padding) ---------- *)
(** six bits, most significant first *)
Definition sextet := (bool * bool * bool * bool * bool * bool)%type.

Definition sx_val (s : sextet) : nat :=
  let '(b5, b4, b3, b2, b1, b0) := s in
  (if b5 then 32 else 0) + (if b4 then 16 else 0) + (if b3 then 8 else 0) +
  (if b2 then 4 else 0) + (if b1 then 2 else 0) + (if b0 then 1 else 0).

Definition alphabet : str :=
  list_ascii_of_string "ABCDEFGHIJKLMNOPQRSTUVWXYZabcdefghijklmnopqrstuvwxyz0123456789-_"%string.

Definition char_of_sx (s : sextet) : ascii := nth (sx_val s) alphabet "A"%char.

Fixpoint index_of (c : ascii) (l : str) : option nat :=
  match l with
  | [] => None
  | x :: r => if Ascii.eqb x c then Some 0 else option_map S (index_of c r)
  end.

Definition sx_of_nat (n : nat) : sextet :=
  let m := N.of_nat n in
  (N.testbit m 5, N.testbit m 4, N.testbit m 3, N.testbit m 2, N.testbit m 1, N.testbit m 0).

Definition sx_of_char (c : ascii) : option sextet := option_map sx_of_nat (index_of c alphabet).

(** bytes -> sextets, 3 bytes = 4 sextets; a tail of 2 bytes gives 3 sextets, of 1 byte 2 sextets
    (low bits zero) *)
Fixpoint sextets (l : str) : list sextet :=
  match l with
  | Ascii a0 a1 a2 a3 a4 a5 a6 a7 :: Ascii b0 b1 b2 b3 b4 b5 b6 b7 :: Ascii c0 c1 c2 c3 c4 c5 c6 c7 :: r =>
      (a7, a6, a5, a4, a3, a2) :: (a1, a0, b7, b6, b5, b4) :: (b3, b2, b1, b0, c7, c6) ::
      (c5, c4, c3, c2, c1, c0) :: sextets r
  | [Ascii a0 a1 a2 a3 a4 a5 a6 a7; Ascii b0 b1 b2 b3 b4 b5 b6 b7] =>
      [(a7, a6, a5, a4, a3, a2); (a1, a0, b7, b6, b5, b4); (b3, b2, b1, b0, false, false)]
  | [Ascii a0 a1 a2 a3 a4 a5 a6 a7] =>
      [(a7, a6, a5, a4, a3, a2); (a1, a0, false, false, false, false)]
  | [] => []
  end.

Definition b64enc (l : str) : str := map char_of_sx (sextets l).

(** sextets -> bytes; a single trailing sextet is corrupt input; trailing bits are ignored
    (Go's RawURLEncoding is not Strict) *)
Fixpoint unsextets (l : list sextet) : option str :=
  match l with
  | (a7, a6, a5, a4, a3, a2) :: (a1, a0, b7, b6, b5, b4) :: (b3, b2, b1, b0, c7, c6) ::
    (c5, c4, c3, c2, c1, c0) :: r =>
      option_map (fun t => Ascii a0 a1 a2 a3 a4 a5 a6 a7 :: Ascii b0 b1 b2 b3 b4 b5 b6 b7 ::
                           Ascii c0 c1 c2 c3 c4 c5 c6 c7 :: t) (unsextets r)
  | [(a7, a6, a5, a4, a3, a2); (a1, a0, b7, b6, b5, b4); (b3, b2, b1, b0, _, _)] =>
      Some [Ascii a0 a1 a2 a3 a4 a5 a6 a7; Ascii b0 b1 b2 b3 b4 b5 b6 b7]
  | [(a7, a6, a5, a4, a3, a2); (a1, a0, _, _, _, _)] => Some [Ascii a0 a1 a2 a3 a4 a5 a6 a7]
  | [_] => None
  | [] => Some []
  end.

Fixpoint chars_to_sx (l : str) : option (list sextet) :=
  match l with
  | [] => Some []
  | c :: r =>
      match sx_of_char c, chars_to_sx r with
      | Some s, Some t => Some (s :: t)
      | _, _ => None
      end
  end.

Definition b64dec (l : str) : option str :=
  match chars_to_sx l with Some sx => unsextets sx | None => None end.

(** multibase *)
Definition enc (s : str) : str := "u"%char :: b64enc s.
Definition dec (s : str) : option str :=
  match s with
  | c :: r => if Ascii.eqb c "u"%char then b64dec r else None
  | [] => None
  end.

(** ---------- datastore keys and paths ---------- *)
Definition slash : ascii := "/"%char.
Definition dskey (k v : str) : str := slash :: enc k ++ slash :: enc v.

(** components of a path: "/a/b" -> [""; "a"; "b"] *)
Fixpoint split (s : str) : list str :=
  match s with
  | [] => [[]]
  | c :: r =>
      if Ascii.eqb c slash then [] :: split r
      else match split r with h :: t => (c :: h) :: t | [] => [[c]] end
  end.
Definition base (s : str) : str := last (split s) [].           (* path.Base *)
Definition dirbase (s : str) : str := last (removelast (split s)) [].   (* path.Base(path.Dir) *)

Fixpoint starts_with (p s : str) : bool :=
  match p, s with
  | [], _ => true
  | x :: p', y :: s' => Ascii.eqb x y && starts_with p' s'
  | _ :: _, [] => false
  end.

(** ---------- the datastore seen through the namespace ---------- *)
Definition dstore := list str.
Definition ds_has (k : str) (d : dstore) : bool := existsb (str_eqb k) d.
Definition ds_put (k : str) (d : dstore) : dstore := if ds_has k d then d else d ++ [k].
Definition ds_del (k : str) (d : dstore) : dstore := filter (fun x => negb (str_eqb x k)) d.
Definition ds_query (p : str) (d : dstore) : list str :=
  if isnil p then d else filter (starts_with (slash :: p ++ [slash])) d.

(** ---------- operations and observations ---------- *)
Inductive err := ENone | EEmptyKey | EEmptyValue | EOther.
Inductive op :=
| OAdd (k v : str) | ODelete (k v : str) | ODeleteKey (k : str) | ODeleteAll
| OForEach (k : str) | OForEachStop (k : str) (n : nat)
| OHasValue (k v : str) | OHasAny (k : str) | OSearch (k : str).
Inductive ob :=
| BErr (e : err) | BCount (n : N) (e : err) | BPairs (l : list (str * str)) (e : err)
| BBool (b : bool) (e : err) | BVals (l : list str) (e : err).

Fixpoint mapM {A B} (f : A -> option B) (l : list A) : option (list B) :=
  match l with
  | [] => Some []
  | a :: r => match f a, mapM f r with Some b, Some t => Some (b :: t) | _, _ => None end
  end.

Definition prefix_of (k : str) : str := if isnil k then [] else enc k.

(** deletePrefix: query, then Delete one entry at a time *)
Definition delete_prefix (p : str) (d : dstore) : dstore * ob :=
  let ents := ds_query p d in
  (fold_left (fun d' e => ds_del e d') ents d, BCount (N.of_nat (length ents)) ENone).

Definition parse_entry (key : str) : option (str * str) :=
  match dec (dirbase key), dec (base key) with
  | Some k, Some v => Some (k, v)
  | _, _ => None
  end.

Definition foreach (d : dstore) (k : str) : ob :=
  match mapM parse_entry (ds_query (prefix_of k) d) with
  | Some l => BPairs l ENone
  | None => BPairs [] EOther
  end.

Definition step (d : dstore) (o : op) : dstore * ob :=
  match o with
  | OAdd k v =>
      if isnil k then (d, BErr EEmptyKey) else if isnil v then (d, BErr EEmptyValue)
      else (ds_put (dskey k v) d, BErr ENone)
  | ODelete k v =>
      if isnil k then (d, BErr EEmptyKey) else if isnil v then (d, BErr EEmptyValue)
      else (ds_del (dskey k v) d, BErr ENone)
  | ODeleteKey k => if isnil k then (d, BCount 0 EEmptyKey) else delete_prefix (enc k) d
  | ODeleteAll => delete_prefix [] d
  | OForEach k | OForEachStop k _ => (d, foreach d k)
  | OHasValue k v =>
      if isnil k then (d, BBool false EEmptyKey) else if isnil v then (d, BBool false EEmptyValue)
      else (d, BBool (ds_has (dskey k v) d) ENone)
  | OHasAny k =>
      (d, match foreach d k with
          | BPairs l ENone => BBool (negb (isnil l)) ENone
          | _ => BBool false EOther
          end)
  | OSearch k =>
      if isnil k then (d, BVals [] EEmptyKey) else
      (d, match mapM (fun key => dec (base key)) (ds_query (enc k) d) with
          | Some l => BVals l ENone
          | None => BVals [] EOther
          end)
  end.

Fixpoint run {S} (stp : S -> op -> S * ob) (s : S) (ops : list op) : S * list ob :=
  match ops with
  | [] => (s, [])
  | o :: r => let (s', b) := stp s o in let (s'', bs) := run stp s' r in (s'', b :: bs)
  end.

(** ---------- specification: a multimap as a duplicate-free list of pairs ---------- *)
Definition mmap := list (str * str).
Definition pair_eqb (p q : str * str) : bool := str_eqb (fst p) (fst q) && str_eqb (snd p) (snd q).
Definition mm_mem (p : str * str) (m : mmap) : bool := existsb (pair_eqb p) m.
Definition mm_add (p : str * str) (m : mmap) : mmap := if mm_mem p m then m else m ++ [p].
Definition mm_del (p : str * str) (m : mmap) : mmap := filter (fun q => negb (pair_eqb q p)) m.
Definition mm_key (k : str) (m : mmap) : mmap := filter (fun q => str_eqb (fst q) k) m.
Definition mm_delkey (k : str) (m : mmap) : mmap := filter (fun q => negb (str_eqb (fst q) k)) m.
Definition mm_sel (k : str) (m : mmap) : mmap := if isnil k then m else mm_key k m.

Definition spec_step (m : mmap) (o : op) : mmap * ob :=
  match o with
  | OAdd k v =>
      if isnil k then (m, BErr EEmptyKey) else if isnil v then (m, BErr EEmptyValue)
      else (mm_add (k, v) m, BErr ENone)
  | ODelete k v =>
      if isnil k then (m, BErr EEmptyKey) else if isnil v then (m, BErr EEmptyValue)
      else (mm_del (k, v) m, BErr ENone)
  | ODeleteKey k =>
      if isnil k then (m, BCount 0 EEmptyKey)
      else (mm_delkey k m, BCount (N.of_nat (length (mm_key k m))) ENone)
  | ODeleteAll => ([], BCount (N.of_nat (length m)) ENone)
  | OForEach k | OForEachStop k _ => (m, BPairs (mm_sel k m) ENone)
  | OHasValue k v =>
      if isnil k then (m, BBool false EEmptyKey) else if isnil v then (m, BBool false EEmptyValue)
      else (m, BBool (mm_mem (k, v) m) ENone)
  | OHasAny k => (m, BBool (negb (isnil (mm_sel k m))) ENone)
  | OSearch k =>
      if isnil k then (m, BVals [] EEmptyKey) else (m, BVals (map snd (mm_key k m)) ENone)
  end.

(** history-level reading of the same specification: is (k,v) in the index after [ops]? *)
Definition holds_step (k v : str) (b : bool) (o : op) : bool :=
  match o with
  | OAdd k' v' => if isnil k' || isnil v' then b else if pair_eqb (k', v') (k, v) then true else b
  | ODelete k' v' => if isnil k' || isnil v' then b else if pair_eqb (k', v') (k, v) then false else b
  | ODeleteKey k' => if isnil k' then b else if str_eqb k' k then false else b
  | ODeleteAll => false
  | _ => b
  end.
Definition holds (ops : list op) (k v : str) : bool := fold_left (holds_step k v) ops false.

(** ---------- comparison of an observed answer with a computed one ---------- *)
Definition err_eqb (a b : err) : bool :=
  match a, b with
  | ENone, ENone | EEmptyKey, EEmptyKey | EEmptyValue, EEmptyValue | EOther, EOther => true
  | _, _ => false
  end.
Fixpoint nodupb {A} (eqb : A -> A -> bool) (l : list A) : bool :=
  match l with
  | [] => true
  | a :: r => negb (existsb (eqb a) r) && nodupb eqb r
  end.
Definition inclb {A} (eqb : A -> A -> bool) (l1 l2 : list A) : bool :=
  forallb (fun a => existsb (eqb a) l2) l1.
(** same set, the observed list without repetitions, same number of elements *)
Definition set_eqb {A} (eqb : A -> A -> bool) (computed observed : list A) : bool :=
  nodupb eqb observed && inclb eqb observed computed && inclb eqb computed observed &&
  Nat.eqb (length observed) (length computed).

(** the datastore enumerates in no particular order: listings are compared as sets; a ForEach
    whose callback stops after [n >= 1] elements must have seen [min n total] distinct
    elements of the full answer *)
Definition agree (o : op) (computed observed : ob) : bool :=
  match computed, observed with
  | BErr e, BErr e' => err_eqb e e'
  | BCount n e, BCount n' e' => N.eqb n n' && err_eqb e e'
  | BBool b e, BBool b' e' => Bool.eqb b b' && err_eqb e e'
  | BVals l e, BVals l' e' => err_eqb e e' && set_eqb str_eqb l l'
  | BPairs l e, BPairs l' e' =>
      err_eqb e e' &&
      match o with
      | OForEachStop _ n =>
          nodupb pair_eqb l' && inclb pair_eqb l' l && Nat.eqb (length l') (Nat.min n (length l))
      | _ => set_eqb pair_eqb l l'
      end
  | _, _ => false
  end.

Fixpoint agree_all (ops : list op) (computed observed : list ob) : bool :=
  match ops, computed, observed with
  | [], [], [] => true
  | o :: r, c :: cr, b :: br => agree o c b && agree_all r cr br
  | _, _, _ => false
  end.

(** a case: the operations the harness ran on a fresh indexer over a MapDatastore and what
    the indexer answered *)
Inductive case := Case (ops : list op) (obs : list ob).

Definition check_case (c : case) : verdict :=
  let 'Case ops obs := c in
  verdict_of (agree_all ops (snd (run step [] ops)) obs)
             (agree_all ops (snd (run spec_step [] ops)) obs).
