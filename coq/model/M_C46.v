(** C46 — Peering keeps reconnecting only while it should (peering/peering.go).

    One peerHandler as a transition system.  Its steps are the code's atomic sections
    (every handler method body runs under ph.mu) plus the environment:
      EConn / EDisc     the connection to the peer comes up / goes down; while the handler is
                        registered with a running service the notifee spawns a deferred
                        stopIfConnected / startIfDisconnected (counted in [pstop]/[pstart])
      ERunStart d'      one deferred startIfDisconnected runs (d' = value nextBackoff returned if it armed)
      ERunStop          one deferred stopIfConnected runs
      EFire             the reconnect timer expires; reconnect() begins (timer object stays, unscheduled)
      EDialRet ok       host.Connect returns (with a cancelled context it fails at once)
      ETail1 d', ETail2 the two lock sections at the end of reconnect()
      EStop             handler.stop(): Stop / RemovePeer
    Defect switches (true = the code before the repairs):
      f_start_after_stop  startIfDisconnected does not look at the handler's context
      f_dead_timer        reconnect() re-arms only when Connect failed, and clears only when connected:
                          Connect succeeds + peer drops before stopIfConnected => timer object left
                          unscheduled for ever
    No proofs in this file. *)
From Coq Require Import List ZArith Bool NArith Lia.
From Coq Require String.
From V Require Import lib.Verdict.
Import ListNotations.
Open Scope Z_scope.

(** ---------- backoff arithmetic (nanoseconds) ---------- *)
Definition max_backoff : Z := 600000000000.        (* 10 * time.Minute *)
Definition jitter_span : Z := 60000000000.         (* int64(maxBackoff) * maxBackoffJitter / 100 *)
Definition initial_delay : Z := 5000000000.        (* 5 * time.Second *)

(** nextBackoff with its two random draws as arguments *)
Definition nb (d r1 r2 : Z) : Z :=
  let d1 := if d <? max_backoff then d + d / 2 + r1 else d in
  if max_backoff <? d1 then max_backoff - r2 else d1.

(** [d'] is a value nextBackoff can return from [d] (for some draws in range) *)
Definition next_ok (d d' : Z) : bool :=
  if d <? max_backoff
  then ((d + d / 2 <=? d') && (d' <? d + d / 2 + d) && (d' <=? max_backoff))
       || ((max_backoff <? d + d / 2 + d - 1) && (max_backoff - jitter_span <? d') && (d' <=? max_backoff))
  else d' =? d.

(** ---------- handler state ---------- *)
Inductive timer := TNil | TArmed | TDead.          (* nil / scheduled / exists but not scheduled *)
Inductive rphase := RDial | RTail (ok : bool) | RTail2.

Record st := {
  tm : timer; cancelled : bool; registered : bool; connected : bool;
  delay : Z; pstart : nat; pstop : nat; recon : option rphase;
  dials_live : nat;      (* Connect calls made with a live context *)
  dials_dead : nat       (* Connect calls made with a cancelled context *)
}.

Record flags := { f_start_after_stop : bool; f_dead_timer : bool }.
Definition fixed_flags := {| f_start_after_stop := false; f_dead_timer := false |}.

(** AddPeer on a running service (or Start): registered, one deferred startIfDisconnected *)
Definition init (conn : bool) : st :=
  {| tm := TNil; cancelled := false; registered := true; connected := conn; delay := initial_delay;
     pstart := 1; pstop := 0; recon := None; dials_live := 0; dials_dead := 0 |}.

Inductive ev :=
| EConn | EDisc | ERunStart (d' : Z) | ERunStop | EFire | EDialRet (ok : bool)
| ETail1 (d' : Z) | ETail2 | EStop.

Definition upd_tm (s : st) (t : timer) (d : Z) : st :=
  {| tm := t; cancelled := cancelled s; registered := registered s; connected := connected s;
     delay := d; pstart := pstart s; pstop := pstop s; recon := recon s;
     dials_live := dials_live s; dials_dead := dials_dead s |}.

Definition is_nil (t : timer) : bool := match t with TNil => true | _ => false end.
Definition is_armed (t : timer) : bool := match t with TArmed => true | _ => false end.

(** [None] = the event is not enabled in this state (the harness never issues it then) *)
Definition step (fl : flags) (s : st) (e : ev) : option st :=
  match e with
  | EConn =>
      Some {| tm := tm s; cancelled := cancelled s; registered := registered s; connected := true;
              delay := delay s; pstart := pstart s; pstop := (if registered s then S (pstop s) else pstop s);
              recon := recon s; dials_live := dials_live s; dials_dead := dials_dead s |}
  | EDisc =>
      Some {| tm := tm s; cancelled := cancelled s; registered := registered s; connected := false;
              delay := delay s; pstart := (if registered s then S (pstart s) else pstart s); pstop := pstop s;
              recon := recon s; dials_live := dials_live s; dials_dead := dials_dead s |}
  | ERunStart d' =>
      match pstart s with
      | O => None
      | S n =>
          let s1 := {| tm := tm s; cancelled := cancelled s; registered := registered s; connected := connected s;
                       delay := delay s; pstart := n; pstop := pstop s; recon := recon s;
                       dials_live := dials_live s; dials_dead := dials_dead s |} in
          if negb (f_start_after_stop fl) && cancelled s then (if d' =? delay s then Some s1 else None)
          else if is_nil (tm s) && negb (connected s)
               then (if next_ok (delay s) d' then Some (upd_tm s1 TArmed d') else None)
               else (if d' =? delay s then Some s1 else None)
      end
  | ERunStop =>
      match pstop s with
      | O => None
      | S n =>
          let s1 := {| tm := tm s; cancelled := cancelled s; registered := registered s; connected := connected s;
                       delay := delay s; pstart := pstart s; pstop := n; recon := recon s;
                       dials_live := dials_live s; dials_dead := dials_dead s |} in
          if negb (is_nil (tm s)) && connected s then Some (upd_tm s1 TNil initial_delay) else Some s1
      end
  | EFire =>
      match recon s with
      | None => if is_armed (tm s)
                then Some {| tm := TDead; cancelled := cancelled s; registered := registered s; connected := connected s;
                             delay := delay s; pstart := pstart s; pstop := pstop s; recon := Some RDial;
                             dials_live := dials_live s; dials_dead := dials_dead s |}
                else None
      | Some _ => None
      end
  | EDialRet ok =>
      match recon s with
      | Some RDial =>
          if cancelled s
          then Some {| tm := tm s; cancelled := true; registered := registered s; connected := connected s;
                       delay := delay s; pstart := pstart s; pstop := pstop s; recon := Some (RTail false);
                       dials_live := dials_live s; dials_dead := S (dials_dead s) |}
          else Some {| tm := tm s; cancelled := false; registered := registered s;
                       connected := (if ok then true else connected s);
                       delay := delay s; pstart := pstart s;
                       pstop := (if ok && registered s then S (pstop s) else pstop s);
                       recon := Some (RTail ok);
                       dials_live := S (dials_live s); dials_dead := dials_dead s |}
      | _ => None
      end
  | ETail1 d' =>
      match recon s with
      | Some (RTail ok) =>
          let s1 := {| tm := tm s; cancelled := cancelled s; registered := registered s; connected := connected s;
                       delay := delay s; pstart := pstart s; pstop := pstop s; recon := Some RTail2;
                       dials_live := dials_live s; dials_dead := dials_dead s |} in
          if f_dead_timer fl then
            (* old: if err != nil { lock; if timer != nil { Reset(nextBackoff()) }; unlock } *)
            if negb ok && negb (is_nil (tm s))
            then (if next_ok (delay s) d' then Some (upd_tm s1 TArmed d') else None)
            else (if d' =? delay s then Some s1 else None)
          else
            (* repaired: one section: nil -> nothing; connected -> clear; else re-arm *)
            if is_nil (tm s) then (if d' =? delay s then Some s1 else None)
            else if connected s then (if d' =? initial_delay then Some (upd_tm s1 TNil initial_delay) else None)
            else (if next_ok (delay s) d' then Some (upd_tm s1 TArmed d') else None)
      | _ => None
      end
  | ETail2 =>
      match recon s with
      | Some RTail2 =>
          let s1 := {| tm := tm s; cancelled := cancelled s; registered := registered s; connected := connected s;
                       delay := delay s; pstart := pstart s; pstop := pstop s; recon := None;
                       dials_live := dials_live s; dials_dead := dials_dead s |} in
          if f_dead_timer fl then
            (* old: stopIfConnected() *)
            if negb (is_nil (tm s)) && connected s then Some (upd_tm s1 TNil initial_delay) else Some s1
          else Some s1
      | _ => None
      end
  | EStop =>
      Some {| tm := TNil; cancelled := true; registered := false; connected := connected s;
              delay := delay s; pstart := pstart s; pstop := pstop s; recon := recon s;
              dials_live := dials_live s; dials_dead := dials_dead s |}
  end.

(** run a list of events; events that are not enabled are skipped *)
Fixpoint run (fl : flags) (s : st) (es : list ev) : list st :=
  match es with
  | [] => []
  | e :: r => let s' := match step fl s e with Some x => x | None => s end in s' :: run fl s' r
  end.

(** ---------- specification of the property on a state ---------- *)
Definition quiescent (s : st) : bool :=
  (Nat.eqb (pstart s) 0) && match recon s with None => true | Some _ => false end.

(** S1: running, disconnected, nothing in flight => a reconnect is scheduled, with a delay in (0, 10 min] *)
Definition spec_scheduled (s : st) : bool :=
  if registered s && negb (connected s) && quiescent s
  then is_armed (tm s) && (0 <? delay s) && (delay s <=? max_backoff)
  else true.
(** S2: after stop/remove the timer is never scheduled again *)
Definition spec_quiet (s : st) : bool :=
  if cancelled s then negb (is_armed (tm s)) else true.
(** S3: once stopped, no Connect with a live context, and at most the one in-flight reconnect still calls
    Connect (with the cancelled context) *)
Definition spec_dials_after_stop (at_stop s : st) : bool :=
  (Nat.eqb (dials_live s) (dials_live at_stop)) &&
  (Nat.leb (dials_dead s) (dials_dead at_stop + match recon at_stop with Some RDial => 1 | _ => 0 end)).

Fixpoint spec_trace_from (stopped : option st) (ss : list st) : bool :=
  match ss with
  | [] => true
  | s :: r =>
      spec_scheduled s && spec_quiet s &&
      (match stopped with Some a => spec_dials_after_stop a s | None => true end) &&
      spec_trace_from (match stopped with Some a => Some a | None => if cancelled s then Some s else None end) r
  end.
Definition spec_trace (ss : list st) : bool := spec_trace_from None ss.

(** which clause fails first: 1 = quiet-after-stop clauses, 2 = scheduled-while-running, 0 = none *)
Fixpoint first_fail (stopped : option st) (ss : list st) : N :=
  match ss with
  | [] => 0%N
  | s :: r =>
      if negb (spec_quiet s && match stopped with Some a => spec_dials_after_stop a s | None => true end) then 1%N
      else if negb (spec_scheduled s) then 2%N
      else first_fail (match stopped with Some a => Some a | None => if cancelled s then Some s else None end) r
  end.

(** ---------- cases ---------- *)
(** what the harness observes on the real handler after each event *)
Record obs := { o_exists : bool; o_scheduled : bool; o_delay : Z; o_live : nat; o_dead : nat }.

Definition timer_of (o : obs) : timer :=
  if o_exists o then (if o_scheduled o then TArmed else TDead) else TNil.
Definition timer_eqb (a b : timer) : bool :=
  match a, b with TNil, TNil | TArmed, TArmed | TDead, TDead => true | _, _ => false end.

Definition obs_eqb (s : st) (o : obs) : bool :=
  timer_eqb (tm s) (timer_of o) && (delay s =? o_delay o) &&
  Nat.eqb (dials_live s) (o_live o) && Nat.eqb (dials_dead s) (o_dead o).

(** [fl] = which positions of the trace were observed on the implementation (the three steps of a
    returning dial are observed only at the end) *)
Fixpoint all_obs (ss : list st) (fl : list bool) (os : list obs) : bool :=
  match ss, fl with
  | [], [] => match os with [] => true | _ => false end
  | s :: r, true :: f => match os with o :: q => obs_eqb s o && all_obs r f q | [] => false end
  | s :: r, false :: f => all_obs r f os
  | _, _ => false
  end.

(** the observed trace: bookkeeping (registered, connected, pending, phase) comes from the event list
    alone and is the same in every model variant; timer, delay and dial counts are the observed ones *)
Definition observed_state (s : st) (o : obs) : st :=
  {| tm := timer_of o; cancelled := cancelled s; registered := registered s; connected := connected s;
     delay := o_delay o; pstart := pstart s; pstop := pstop s; recon := recon s;
     dials_live := o_live o; dials_dead := o_dead o |}.
Fixpoint observed_trace (ss : list st) (fl : list bool) (os : list obs) : list st :=
  match ss, fl with
  | s :: r, true :: f => match os with o :: q => observed_state s o :: observed_trace r f q | [] => [] end
  | s :: r, false :: f => observed_trace r f os
  | _, _ => []
  end.

(** bookkeeping-only run: registered / connected / pending counters / reconnect phase evolve from the
    event list alone, exactly as the harness tracks them (every listed event did happen on the
    implementation); timer, delay and dial counters are not tracked here *)
Definition bk_step (s : st) (e : ev) : st :=
  let mk reg can conn ps pt rc :=
    {| tm := tm s; cancelled := can; registered := reg; connected := conn; delay := delay s;
       pstart := ps; pstop := pt; recon := rc; dials_live := dials_live s; dials_dead := dials_dead s |} in
  match e with
  | EConn => mk (registered s) (cancelled s) true (pstart s) (if registered s then S (pstop s) else pstop s) (recon s)
  | EDisc => mk (registered s) (cancelled s) false (if registered s then S (pstart s) else pstart s) (pstop s) (recon s)
  | ERunStart _ => mk (registered s) (cancelled s) (connected s) (Nat.pred (pstart s)) (pstop s) (recon s)
  | ERunStop => mk (registered s) (cancelled s) (connected s) (pstart s) (Nat.pred (pstop s)) (recon s)
  | EFire => mk (registered s) (cancelled s) (connected s) (pstart s) (pstop s) (Some RDial)
  | EDialRet ok =>
      let ok' := ok && negb (cancelled s) in
      mk (registered s) (cancelled s) (if ok' then true else connected s) (pstart s)
         (if ok' && registered s then S (pstop s) else pstop s) (Some (RTail ok'))
  | ETail1 _ => mk (registered s) (cancelled s) (connected s) (pstart s) (pstop s) (Some RTail2)
  | ETail2 => mk (registered s) (cancelled s) (connected s) (pstart s) (pstop s) None
  | EStop => mk false true (connected s) (pstart s) (pstop s) (recon s)
  end.
Fixpoint bk_run (s : st) (es : list ev) : list st :=
  match es with [] => [] | e :: r => let s' := bk_step s e in s' :: bk_run s' r end.

Record case := { c_conn0 : bool; c_events : list (ev * bool); c_obs : list obs }.

Definition check_case (c : case) : verdict :=
  let s0 := init (c_conn0 c) in
  let evs := map fst (c_events c) in
  let fl := map snd (c_events c) in
  let tr f := run f s0 evs in
  let fixed := tr fixed_flags in
  let old1 := tr {| f_start_after_stop := true; f_dead_timer := false |} in
  let old2 := tr {| f_start_after_stop := false; f_dead_timer := true |} in
  let old12 := tr {| f_start_after_stop := true; f_dead_timer := true |} in
  let m t := all_obs t fl (c_obs c) in
  let otr := observed_trace (bk_run s0 evs) fl (c_obs c) in
  if negb (Nat.eqb (length (c_obs c)) (length (filter (fun b => b) fl))) then VModelMismatch
  else if spec_trace otr then
    (if m fixed || m old1 || m old2 || m old12 then VOk else VModelMismatch)
  else
    match first_fail None otr with
    | 1%N => if (m old1 || m old12) && spec_trace fixed then VKnown 1 else VSpecFail
    | 2%N => if (m old2 || m old12) && spec_trace fixed then VKnown 2 else VSpecFail
    | _ => VSpecFail
    end.

(** ---------- atomic-section skeletons ---------- *)
(** The transition system above treats each handler method as ONE step (its body runs under ph.mu)
    and [stop] as "cancel the context, then clear the timer under the lock".  That is justified only
    while the methods have the shape recorded here: the order of context cancellation, lock
    operations, tests and timer operations, extracted from peering/peering.go by the harness
    (go/ast) on every run.  A different skeleton means the model's steps are no longer the code's
    atomic sections: reported as a broken correspondence. *)
Import String.StringSyntax.
Open Scope string_scope.
Definition expected_skeleton (name : String.string) : option String.string :=
  if String.eqb name "stop" then Some "cancel lock defer-unlock if[timer-set]{tstop tnil}"
  else if String.eqb name "stopIfConnected" then Some "lock defer-unlock if[timer-set&connected]{tstop tnil dinit}"
  else if String.eqb name "startIfDisconnected" then Some "lock defer-unlock if[ctx]{return} if[timer-nil&disconnected]{tarm}"
  else if String.eqb name "reconnect" then
    Some "connect if[err]{} lock defer-unlock if[timer-nil]{return} if[connected]{tstop tnil dinit}else{treset}"
  else None.
(** the shapes of the code before the repairs (so that a regression is still classified) *)
Definition old_skeleton (name : String.string) : option String.string :=
  if String.eqb name "startIfDisconnected" then Some "lock defer-unlock if[timer-nil&disconnected]{tarm}"
  else if String.eqb name "reconnect" then
    Some "connect if[err]{lock if[timer-set]{treset} unlock} call-stopIfConnected"
  else None.
Close Scope string_scope.

Inductive tcase :=
| TRun (c : case)
| TSkel (name skel : String.string).

Definition check_tcase (t : tcase) : verdict :=
  match t with
  | TRun c => check_case c
  | TSkel name skel =>
      match expected_skeleton name with
      | Some e => if String.eqb e skel then VOk
                  else match old_skeleton name with
                       | Some o => if String.eqb o skel then VOk else VModelMismatch
                       | None => VModelMismatch
                       end
      | None => VModelMismatch
      end
  end.
