(** C13 — the provide walker (dag/walker): explicit-stack pre-order DFS with a
    visited tracker, locality check, identity-CID handling, entity-root mode, and
    the Bloom-chain tracker.

    Executable model transcribed from
      walker.go   walkLoop  (pop -> tracker.Visit -> locality -> fetch -> push
                             reversed children -> skip identity -> emit)
      entity.go   detectEntityType, WalkEntityRoots (no descent below files/symlinks)
      visited.go  MapTracker (keyed by multihash), cid.Set (keyed by CID),
                  BloomTracker (chain; model in lib/Bloom.v, counters here)
    No proofs in this file. *)
From Coq Require Import List Arith NArith Bool.
From V Require Import lib.Verdict lib.Bloom.
Import ListNotations.

(** ---------- CIDs, nodes, graphs ---------- *)

(** A CID is (variant, multihash id).  The variant stands for version+codec
    (the harness uses 0 = CIDv0 dag-pb, 1 = CIDv1 dag-pb, 2 = CIDv1 raw,
    3 = CIDv1 dag-cbor); two CIDs with the same second component have the same
    multihash bytes ([c.Hash()]). *)
Definition cid := (N * N)%type.
Definition cid_eqb (a b : cid) : bool := (fst a =? fst b)%N && (snd a =? snd b)%N.
Definition mem (c : cid) (l : list cid) : bool := existsb (cid_eqb c) l.

(** tracker keys.  [kcm]: MapTracker/BloomTracker (visited.go trackerKey): codec and
    multihash - CIDv0 and CIDv1 dag-pb of one block share it, the raw view of the
    same bytes does not.  [kmh]: the multihash alone, what those trackers used when
    this check was written (finding C13-1).  [kcid]: cid.Set, the whole CID. *)
Definition kmh (c : cid) : cid := (0%N, snd c).
Definition kcm (c : cid) : cid := ((if (fst c =? 0)%N then 1%N else fst c), snd c).
Definition kcid (c : cid) : cid := c.

Inductive locr := LYes | LNo | LErr.            (* answer of the locality check *)
Inductive codec := CPb | CRaw | CCbor.
Inductive ufs := URaw | UDirectory | UFile | UMetadata | USymlink | UHAMT.   (* unixfs pb Data.Type *)
Inductive entity := EUnknown | EFile | EDirectory | EHAMT | ESymlink.

Record node := mkNode {
  n_codec : codec;                 (* codec of the CID *)
  n_ufs : option ufs;              (* dag-pb: type of a parseable UnixFS Data field *)
  n_ident : bool;                  (* multihash code = identity *)
  n_loc : locr;                    (* what the locality check answers for this CID *)
  n_links : option (list cid)      (* None: the fetch fails (block missing / undecodable) *)
}.

Definition graph := list (cid * node).

Definition closed_node : node := mkNode CRaw None false LYes None.

Fixpoint lookup (g : graph) (c : cid) : node :=
  match g with
  | [] => closed_node
  | (c', n) :: r => if cid_eqb c c' then n else lookup r c
  end.

(** entity.go detectEntityType *)
Definition entity_of (n : node) : entity :=
  match n_codec n with
  | CRaw => EFile
  | CCbor => EUnknown
  | CPb =>
      match n_ufs n with
      | None => EUnknown
      | Some UFile | Some URaw => EFile
      | Some UDirectory => EDirectory
      | Some UHAMT => EHAMT
      | Some USymlink => ESymlink
      | Some UMetadata => EUnknown
      end
  end.

(** ---------- walk options ---------- *)
Record wopts := mkOpts {
  o_dedup : bool;               (* a tracker is configured *)
  o_key : cid -> cid;           (* its key function *)
  o_loc : bool;                 (* WithLocality *)
  o_entity : bool               (* WalkEntityRoots instead of WalkDAG *)
}.

(** what walkLoop's [fetch] callback returns for a node *)
Definition children (ent : bool) (n : node) : option (list cid) :=
  match n_links n with
  | None => None
  | Some ls =>
      if ent then
        match entity_of n with
        | EFile | ESymlink => Some []
        | _ => Some ls
        end
      else Some ls
  end.

(** locality check, then fetch; [None] = the loop [continue]s *)
Definition expand (g : graph) (loc ent : bool) (c : cid) : option (list cid) :=
  let n := lookup g c in
  if loc then
    match n_loc n with
    | LYes => children ent n
    | _ => None
    end
  else children ent n.

(** how the caller ends a walk early: emit returns false at its k-th call, or the
    context is cancelled during the k-th emit call (k = 0: before the walk) *)
Inductive stop := SNever | SFalseAt (k : nat) | SCancelAt (k : nat).
Inductive res := RNil | RCanceled.

Definition cancelled (s : stop) (n : nat) : bool :=
  match s with SCancelAt k => k <=? n | _ => false end.
Definition emit_goes_on (s : stop) (n : nat) : bool :=
  match s with SFalseAt k => negb (n =? k) | _ => true end.

(** ---------- walkLoop ----------
    [st]: the stack, head = top (= last element of the Go slice; Go's
    [append(stack, reversed(children)...)] is [children ++ st] here).
    [V]: keys the tracker holds.  [n]: emit calls so far.
    Result: emitted CIDs, tracker afterwards, returned error class.
    [None] = out of fuel ([P_C13.loop_fuel_enough]: [fuel_of] suffices). *)
Fixpoint loop (fuel : nat) (g : graph) (o : wopts) (sp : stop) (n : nat)
              (st : list cid) (V : list cid) : option (list cid * list cid * res) :=
  match fuel with
  | O => None
  | S fuel' =>
    match st with
    | [] => Some ([], V, RNil)
    | c :: st' =>
      if cancelled sp n then Some ([], V, RCanceled) else
      if o_dedup o && mem (o_key o c) V then loop fuel' g o sp n st' V else
      let V1 := if o_dedup o then o_key o c :: V else V in
      match expand g (o_loc o) (o_entity o) c with
      | None => loop fuel' g o sp n st' V1
      | Some ks =>
          let st1 := ks ++ st' in
          if n_ident (lookup g c) then loop fuel' g o sp n st1 V1 else
          if emit_goes_on sp (S n) then
            match loop fuel' g o sp (S n) st1 V1 with
            | None => None
            | Some (e, V', r) => Some (c :: e, V', r)
            end
          else Some ([c], V1, RNil)
      end
    end
  end.

(** fuel: one more than the number of pops = 1 + all link entries + the roots *)
Definition links_len (n : node) : nat :=
  match n_links n with None => O | Some l => length l end.
Fixpoint weight (g : graph) : nat :=
  match g with [] => O | (_, n) :: r => links_len n + weight r end.
Definition fuel_of (g : graph) (st : list cid) : nat := S (length st + weight g).

(** ---------- the reference: recursive pre-order DFS with visited marking at
    entry and children in link order ---------- *)
Fixpoint dfs (fuel : nat) (g : graph) (o : wopts) (cs : list cid) (V : list cid)
  : option (list cid * list cid) :=
  match fuel with
  | O => None
  | S fuel' =>
    match cs with
    | [] => Some ([], V)
    | c :: cs' =>
      if mem (o_key o c) V then dfs fuel' g o cs' V else
      let V1 := o_key o c :: V in
      match expand g (o_loc o) (o_entity o) c with
      | None => dfs fuel' g o cs' V1
      | Some ks =>
          match dfs fuel' g o ks V1 with
          | None => None
          | Some (e1, V2) =>
              match dfs fuel' g o cs' V2 with
              | None => None
              | Some (e2, V3) =>
                  Some ((if n_ident (lookup g c) then [] else [c]) ++ e1 ++ e2, V3)
              end
          end
      end
    end
  end.

(** ---------- reachability, computed (closure by CID) ---------- *)
Definition is_open (g : graph) (o : wopts) (c : cid) : bool :=
  match expand g (o_loc o) (o_entity o) c with Some _ => true | None => false end.
Definition kids (g : graph) (o : wopts) (c : cid) : list cid :=
  match expand g (o_loc o) (o_entity o) c with Some l => l | None => [] end.

Fixpoint closure (fuel : nat) (g : graph) (o : wopts) (todo seen : list cid) : list cid :=
  match fuel with
  | O => seen
  | S fuel' =>
    match todo with
    | [] => seen
    | c :: r => if mem c seen then closure fuel' g o r seen
                else closure fuel' g o (kids g o c ++ r) (c :: seen)
    end
  end.

(** ---------- several walks sharing a tracker ---------- *)
Inductive tracker := TNone | TMap | TCidSet | TBloom.
(** [mh_only] = defect switch of finding C13-1: on = keyed by multihash alone *)
Definition key_of (mh_only : bool) (tk : tracker) : cid -> cid :=
  match tk with TCidSet => kcid | _ => if mh_only then kmh else kcm end.
Definition dedups (tk : tracker) : bool := match tk with TNone => false | _ => true end.

Record walk := mkWalk { w_root : cid; w_entity : bool; w_loc : bool; w_stop : stop }.
Definition opts_of (mh_only : bool) (tk : tracker) (w : walk) : wopts :=
  mkOpts (dedups tk) (key_of mh_only tk) (w_loc w) (w_entity w).

Fixpoint run_walks (mh_only : bool) (g : graph) (tk : tracker) (fuel : nat) (ws : list walk) (V : list cid)
  : option (list (list cid * res) * list cid) :=
  match ws with
  | [] => Some ([], V)
  | w :: r =>
      let f := if dedups tk then fuel_of g [w_root w] else fuel in
      match loop f g (opts_of mh_only tk w) (w_stop w) 0 [w_root w] V with
      | None => None
      | Some (e, V', rs) =>
          match run_walks mh_only g tk fuel r V' with
          | None => None
          | Some (out, V'') => Some ((e, rs) :: out, V'')
          end
      end
  end.

(** ---------- Bloom chain: abstract counters (see lib/Bloom.v [cstep]) ---------- *)
Definition growth_factor : N := 4.      (* visited.go BloomGrowthFactor *)
Definition bcounters := (nat * N * N * N * N)%type.   (* older filters, lastCap, curInserts, totalInserts, deduplicated *)
Definition bstep (fresh : bool) (c : bcounters) : bcounters := cstep growth_factor fresh c.

(** ---------- comparison helpers ---------- *)
Fixpoint list_eqb {A} (eqb : A -> A -> bool) (l1 l2 : list A) : bool :=
  match l1, l2 with
  | [], [] => true
  | a :: r1, b :: r2 => eqb a b && list_eqb eqb r1 r2
  | _, _ => false
  end.
Definition res_eqb (a b : res) : bool :=
  match a, b with RNil, RNil | RCanceled, RCanceled => true | _, _ => false end.
Definition obs_eqb (a b : list cid * res) : bool :=
  list_eqb cid_eqb (fst a) (fst b) && res_eqb (snd a) (snd b).

Fixpoint nodup_b (l : list cid) : bool :=
  match l with [] => true | a :: r => negb (mem a r) && nodup_b r end.
Definition subset_b (a b : list cid) : bool := forallb (fun x => mem x b) a.

(** ---------- cases ---------- *)
(** typed constructors for the harness (numerals are read in N scope; no type
    inference needed on the large case terms) *)
Definition cC (v m : N) : cid := (v, m).
Definition cG (v m : N) (n : node) : cid * node := ((v, m), n).
Definition cH (v m : N) (b : bool) : cid * bool := ((v, m), b).
Definition cO (e : list cid) (r : res) : list cid * res := (e, r).

(** [CWalks g tk fuel ws obs has]: the walks [ws] were run one after the other on
    the real walker over the blockstore/fetcher described by [g], sharing one
    tracker of kind [tk] (fresh at the start); [obs] = per walk the emitted CIDs
    and the returned error class; [has] = [tracker.Has] afterwards for the listed
    CIDs.  [fuel] is only used without a tracker.
    [CBloom cap ops final]: a BloomTracker of capacity [cap] was driven with
    [Visit]/[Has] calls on keys (numbers); [ops] = (key, is_visit, answer);
    [final] = its counters afterwards. *)
Inductive case :=
| CWalks (g : graph) (tk : tracker) (fuel : nat) (ws : list walk)
         (obs : list (list cid * res)) (has : list (cid * bool))
| CBloom (cap : N) (ops : list (N * bool * bool)) (final : bcounters).

Definition stop_is_never (s : stop) : bool := match s with SNever => true | _ => false end.
Definition uniform (ws : list walk) : bool :=
  match ws with
  | [] => true
  | w :: r => forallb (fun x => Bool.eqb (w_entity x) (w_entity w) && Bool.eqb (w_loc x) (w_loc w)) r
  end.

(** the specification of the property on a case with complete walks, an exact
    tracker and the same options on every walk; [E] = all emissions in order *)
Definition spec_walks (g : graph) (tk : tracker) (ws : list walk) (E : list cid) : bool :=
  match ws with
  | [] => match E with [] => true | _ => false end
  | w :: _ =>
      let o := opts_of false tk w in
      let roots := map w_root ws in
      let R := closure (fuel_of g roots) g o roots [] in
      (* exactly once: no two emissions for one tracker entry (codec + multihash; cid.Set: CID) *)
      nodup_b (map (o_key o) E) &&
      (* never a CID that fails the locality check / cannot be fetched / is an identity CID *)
      forallb (fun c => is_open g o c && negb (n_ident (lookup g c))) E &&
      (* only reachable CIDs *)
      subset_b E R &&
      (* every reachable, available, non-identity CID is announced: its multihash
         (cid.Set: the CID itself) is among the emissions *)
      (let k := match tk with TCidSet => kcid | _ => kmh end in
       forallb (fun c => if is_open g o c && negb (n_ident (lookup g c))
                         then mem (k c) (map k E) else true) R) &&
      (* in depth-first pre-order, children in link order: a recursive reference
         traversal (for either notion of "already visited") *)
      (match dfs (fuel_of g roots) g o roots [] with
       | Some (e, _) => list_eqb cid_eqb e E
       | None => false
       end ||
       match dfs (fuel_of g roots) g (opts_of true tk w) roots [] with
       | Some (e, _) => list_eqb cid_eqb e E
       | None => false
       end)
  end.

Definition has_ok (mh_only : bool) (tk : tracker) (V : list cid) (has : list (cid * bool)) : bool :=
  forallb (fun p => Bool.eqb (mem (key_of mh_only tk (fst p)) V) (snd p)) has.

(** Bloom ops: replay the counters along the observed answers; the spec clause:
    a key visited before is never answered "new" / "absent" *)
Fixpoint bloom_run (ops : list (N * bool * bool)) (seen : list N) (c : bcounters)
  : bool * bcounters :=
  match ops with
  | [] => (true, c)
  | (k, is_visit, ans) :: r =>
      let known := existsb (N.eqb k) seen in
      if is_visit then
        let ok := negb (known && ans) in                    (* Visit of a visited key must return false *)
        let (ok', c') := bloom_run r (k :: seen) (bstep ans c) in
        (ok && ok', c')
      else
        let ok := negb (known && negb ans) in               (* Has of a visited key must return true *)
        let (ok', c') := bloom_run r seen c in
        (ok && ok', c')
  end.

Definition bc_eqb (a b : bcounters) : bool :=
  let '(n1, c1, i1, t1, d1) := a in
  let '(n2, c2, i2, t2, d2) := b in
  (n1 =? n2) && (c1 =? c2)%N && (i1 =? i2)%N && (t1 =? t2)%N && (d1 =? d2)%N.

(** does the observation equal the model with the defect switch [mh_only]? *)
Definition model_matches (mh_only : bool) (g : graph) (tk : tracker) (fuel : nat) (ws : list walk)
                         (obs : list (list cid * res)) (has : list (cid * bool)) : bool :=
  match run_walks mh_only g tk fuel ws [] with
  | None => false
  | Some (mobs, V) => list_eqb obs_eqb mobs obs && has_ok mh_only tk V has
  end.

Definition check_case (c : case) : verdict :=
  match c with
  | CWalks g tk fuel ws obs has =>
      let E := concat (map fst obs) in
      let complete := forallb (fun w => stop_is_never (w_stop w)) ws in
      let in_spec := dedups tk && complete && uniform ws in
      let m_off := model_matches false g tk fuel ws obs has in
      let m_on := model_matches true g tk fuel ws obs has in
      if in_spec then
        if spec_walks g tk ws E then verdict_of (m_off || m_on) true
        else
          (* a subtree lost behind a cross-codec alias: the code as found, and the
             repaired model meets the specification on this case *)
          match run_walks false g tk fuel ws [] with
          | Some (mobs, _) =>
              if m_on && spec_walks g tk ws (concat (map fst mobs)) then VKnown 1 else VSpecFail
          | None => VSpecFail
          end
      else verdict_of (m_off || m_on) true
  | CBloom cap ops final =>
      let '(ok, c') := bloom_run ops [] (O, cap, 0%N, 0%N, 0%N) in
      verdict_of (bc_eqb c' final) ok
  end.
