(** C30 — the gateway serves exactly the requested file bytes.

    Executable model of the mechanism, transcribed from the Go sources:

      gateway/handler_defaults.go      serveDefaults (GET: parseRangeWithoutLength, backend.Get(ranges...);
                                       HEAD: backend.Head, no range parsing), parseRangeWithoutLength
      gateway/backend_blocks.go        Get / loadUnixFSFileWithLazyBlocks: seekToRangeStart(file, &ranges[0], size)
      gateway/serve_http_content.go    seekToRangeStart, httpServeContent, checkPreconditions (If-None-Match and
                                       If-Range enter as already-evaluated outcomes), parseRange(size),
                                       sumRangesSize, httpRange.contentRange
      gateway/handler.go               handleIfNoneMatch (304 before anything is read)
      strconv.ParseInt(s, 10, 64), textproto.TrimString, strings.SplitSeq / strings.Cut

    Strings are lists of byte codes ([Z], 0..255).  The file is abstracted to its size: the response model says
    from which offset of the file and how many bytes the body is copied; the Go harness checks the body bytes
    against that slice of the real file.

    Defect switches ([flags], true = what /repo does today, false = what the property demands):
      f_pos206     the reader was positioned from parseRangeWithoutLength's FIRST range although the 206 headers
                   describe parseRange's first OVERLAPPING range                         (finding C30-1)
      f_posIfRange the reader was positioned from the Range header although a failed If-Range made the response
                   a 200 for the whole file                                                (finding C30-2)
      f_posSum     the same when the ranges were ignored because their total exceeds the size (finding C30-3)
      f_seekErr    a suffix range longer than the file is a seek error (500) instead of the whole file
                                                                                           (finding C30-4)
      f_suffix0    a suffix range that selects zero bytes ([bytes=-0], any suffix of an empty file) becomes the
                   range (size, 0): 206 with Content-Range "bytes size-(size-1)/size"     (finding C30-5);
                   off: parseRange counts it as not overlapping and parseRangeWithoutLength skips [-0]
    No proofs in this file. *)
From Coq Require Import List ZArith Bool String Ascii.
From V Require Import lib.Verdict.
Import ListNotations.
Open Scope Z_scope.

(** ---------- strings ---------- *)
Definition str := list Z.

(* a Coq string literal as a list of byte codes (the harness writes printable headers this way) *)
Definition s2l (s : string) : str := List.map (fun a => Z.of_N (N_of_ascii a)) (list_ascii_of_string s).

(* textproto.TrimString: ' ', '\t', '\n', '\r' *)
Definition is_space (c : Z) : bool := (c =? 32) || (c =? 9) || (c =? 10) || (c =? 13).
Fixpoint trim_left (s : str) : str :=
  match s with
  | c :: r => if is_space c then trim_left r else s
  | [] => []
  end.
Definition trim (s : str) : str := rev (trim_left (rev (trim_left s))).

(* strings.Split(s, sep) for a one-byte separator: always at least one piece *)
Fixpoint split_on (sep : Z) (s : str) : list str :=
  match s with
  | [] => [[]]
  | c :: r =>
      if c =? sep then [] :: split_on sep r
      else match split_on sep r with
           | h :: t => (c :: h) :: t
           | [] => [[c]]
           end
  end.

(* strings.Cut(s, sep) for a one-byte separator *)
Fixpoint cut_on (sep : Z) (s : str) : option (str * str) :=
  match s with
  | [] => None
  | c :: r =>
      if c =? sep then Some ([], r)
      else match cut_on sep r with
           | Some (a, b) => Some (c :: a, b)
           | None => None
           end
  end.

Fixpoint strip_prefix (p s : str) : option str :=
  match p, s with
  | [], _ => Some s
  | a :: p', b :: s' => if a =? b then strip_prefix p' s' else None
  | _ :: _, [] => None
  end.

(** strconv.ParseInt(s, 10, 64): optional sign, at least one digit, only digits, value in the int64 range. *)
Definition is_digit (c : Z) : bool := (48 <=? c) && (c <=? 57).
Fixpoint digits_val (s : str) (acc : Z) : option Z :=
  match s with
  | [] => Some acc
  | c :: r => if is_digit c then digits_val r (acc * 10 + (c - 48)) else None
  end.
Definition max_int64 : Z := 9223372036854775807.
Definition parse_int (s : str) : option Z :=
  match s with
  | [] => None
  | c :: r =>
      let neg := c =? 45 in
      let ds := if (c =? 43) || (c =? 45) then r else s in
      match ds with
      | [] => None
      | _ :: _ =>
          match digits_val ds 0 with
          | None => None
          | Some u =>
              if neg then (if u <=? max_int64 + 1 then Some (- u) else None)
              else (if u <=? max_int64 then Some u else None)
          end
      end
  end.

Definition bytes_eq : str := [98; 121; 116; 101; 115; 61].   (* "bytes=" *)
Definition comma : Z := 44.
Definition dash : Z := 45.

(** result of looking at one comma-separated piece of the header *)
Inductive pres (A : Type) :=
| PSkip                (* empty piece: continue *)
| PErr                 (* "invalid range" *)
| PNoOv                (* parseRange only: starts at or after the size: noOverlap = true; continue *)
| POk (a : A).
Arguments PSkip {A}. Arguments PErr {A}. Arguments PNoOv {A}. Arguments POk {A} a.

(** ---------- parseRangeWithoutLength (handler_defaults.go) ---------- *)
Record brange := { b_from : Z; b_to : option Z }.      (* gateway.ByteRange *)

Definition prwl_piece (f_suffix0 : bool) (p : str) : pres brange :=
  match trim p with
  | [] => PSkip
  | ra =>
      match cut_on dash ra with
      | None => PErr
      | Some (st0, en0) =>
          let st := trim st0 in
          let en := trim en0 in
          match st with
          | [] =>
              match en with
              | [] => PErr
              | c :: _ =>
                  if c =? dash then PErr else
                  match parse_int en with
                  | None => PErr
                  | Some i =>
                      if i <? 0 then PErr
                      else if negb f_suffix0 && (i =? 0) then PSkip      (* demanded: selects nothing *)
                      else POk {| b_from := - i; b_to := None |}
                  end
              end
          | _ :: _ =>
              match parse_int st with
              | None => PErr
              | Some i =>
                  match en with
                  | [] => POk {| b_from := i; b_to := None |}
                  | _ :: _ =>
                      match parse_int en with
                      | None => PErr
                      | Some j => if (j <? 0) || (j <? i) then PErr else POk {| b_from := i; b_to := Some j |}
                      end
                  end
              end
          end
      end
  end.

Fixpoint prwl_loop (f_suffix0 : bool) (ps : list str) : option (list brange) :=
  match ps with
  | [] => Some []
  | p :: r =>
      match prwl_piece f_suffix0 p with
      | PSkip | PNoOv => prwl_loop f_suffix0 r
      | PErr => None
      | POk b => match prwl_loop f_suffix0 r with Some l => Some (b :: l) | None => None end
      end
  end.

(* None = error "invalid range" *)
Definition prwl (f_suffix0 : bool) (s : str) : option (list brange) :=
  match s with
  | [] => Some []
  | _ :: _ =>
      match strip_prefix bytes_eq s with
      | None => None
      | Some rest => prwl_loop f_suffix0 (split_on comma rest)
      end
  end.

(** ---------- parseRange(s, size) (serve_http_content.go) ---------- *)
Definition pr_piece (f_suffix0 : bool) (size : Z) (p : str) : pres (Z * Z) :=   (* (start, length) *)
  match trim p with
  | [] => PSkip
  | ra =>
      match cut_on dash ra with
      | None => PErr
      | Some (st0, en0) =>
          let st := trim st0 in
          let en := trim en0 in
          match st with
          | [] =>
              match en with
              | [] => PErr
              | c :: _ =>
                  if c =? dash then PErr else
                  match parse_int en with
                  | None => PErr
                  | Some i0 =>
                      if i0 <? 0 then PErr else
                      let i := if size <? i0 then size else i0 in
                      if negb f_suffix0 && (i =? 0) then PNoOv        (* demanded: selects nothing *)
                      else POk (size - i, size - (size - i))
                  end
              end
          | _ :: _ =>
              match parse_int st with
              | None => PErr
              | Some i =>
                  if i <? 0 then PErr else
                  if size <=? i then PNoOv else
                  match en with
                  | [] => POk (i, size - i)
                  | _ :: _ =>
                      match parse_int en with
                      | None => PErr
                      | Some j0 =>
                          if j0 <? i then PErr else
                          let j := if size <=? j0 then size - 1 else j0 in
                          POk (i, j - i + 1)
                      end
                  end
              end
          end
      end
  end.

(* (ranges, noOverlap); None = error *)
Fixpoint pr_loop (f_suffix0 : bool) (size : Z) (ps : list str) : option (list (Z * Z) * bool) :=
  match ps with
  | [] => Some ([], false)
  | p :: r =>
      match pr_piece f_suffix0 size p with
      | PSkip => pr_loop f_suffix0 size r
      | PErr => None
      | PNoOv => match pr_loop f_suffix0 size r with Some (l, _) => Some (l, true) | None => None end
      | POk x => match pr_loop f_suffix0 size r with Some (l, b) => Some (x :: l, b) | None => None end
      end
  end.

Inductive prres := PRErr | PRNoOverlap | PROk (l : list (Z * Z)).

Definition pr (f_suffix0 : bool) (s : str) (size : Z) : prres :=
  match s with
  | [] => PROk []
  | _ :: _ =>
      match strip_prefix bytes_eq s with
      | None => PRErr
      | Some rest =>
          match pr_loop f_suffix0 size (split_on comma rest) with
          | None => PRErr
          | Some ([], true) => PRNoOverlap
          | Some (l, _) => PROk l
          end
      end
  end.

Fixpoint sum_len (l : list (Z * Z)) : Z :=
  match l with [] => 0 | (_, n) :: r => n + sum_len r end.

(** ---------- requests, responses ---------- *)
Inductive meth := GET | HEAD.
Inductive ifrange := IfrNone | IfrTrue | IfrFalse.      (* outcome of checkIfRange *)

Record req := {
  q_meth  : meth;
  q_size  : Z;            (* file size *)
  q_range : str;          (* Range header, [] = absent *)
  q_ifr   : ifrange;
  q_inm   : bool          (* If-None-Match matches the ETag *)
}.

Inductive crange := CRNone | CRRange (s e n : Z) | CRStar (n : Z) | CRBad.

Record resp := {
  r_status : Z;
  r_cr     : crange;       (* Content-Range *)
  r_cl     : option Z;     (* Content-Length *)
  r_bpos   : Z;            (* the body is file[r_bpos, r_bpos + r_blen) *)
  r_blen   : Z
}.

Record flags := {
  f_pos206 : bool; f_posIfRange : bool; f_posSum : bool; f_seekErr : bool; f_suffix0 : bool
}.
Definition flags_code : flags := Build_flags true true true true true.       (* /repo as first read *)
Definition flags_off : flags := Build_flags false false false false false.   (* what the property demands *)

Definition err_resp (st : Z) (cr : crange) : resp :=
  {| r_status := st; r_cr := cr; r_cl := None; r_bpos := 0; r_blen := 0 |}.

(** seekToRangeStart(data, ra, size): the reader position afterwards; None = error *)
Definition seek_pos (fl : flags) (size : Z) (ra : option brange) : option Z :=
  match ra with
  | None => Some 0
  | Some b =>
      if b_from b =? 0 then Some 0
      else if b_from b <? 0 then
        match b_to b with
        | Some _ => None
        | None =>
            let st := size + b_from b in
            if st <? 0 then (if f_seekErr fl then None else Some 0) else Some st
        end
      else Some (b_from b)
  end.

(** io.CopyN(w, content, send) from a reader standing at [pos] of a file of [size] bytes *)
Definition body_of (m : meth) (size pos send : Z) : Z * Z :=
  match m with
  | HEAD => (0, 0)
  | GET => let p := Z.min pos size in (p, Z.max 0 (Z.min send (size - p)))
  end.

Definition mk_resp (m : meth) (size : Z) (st : Z) (cr : crange) (send pos : Z) : resp :=
  let (bp, bl) := body_of m size pos send in
  {| r_status := st; r_cr := cr; r_cl := Some send; r_bpos := bp; r_blen := bl |}.

(** httpServeContent after the preconditions; [pos] = where the reader already stands *)
Definition serve (fl : flags) (q : req) (pos : Z) : resp :=
  let size := q_size q in
  let ignored := match q_ifr q, q_range q with IfrFalse, _ :: _ => true | _, _ => false end in
  let range_req := if ignored then [] else q_range q in
  let whole (use_pos : bool) := mk_resp (q_meth q) size 200 CRNone size (if use_pos then pos else 0) in
  match pr (f_suffix0 fl) range_req size with
  | PRErr => err_resp 416 CRNone
  | PRNoOverlap => if size =? 0 then whole true else err_resp 416 (CRStar size)
  | PROk rs =>
      if size <? sum_len rs then whole (f_posSum fl)
      else match rs with
           | [] => whole (if ignored then f_posIfRange fl else true)
           | (s, n) :: _ =>
               mk_resp (q_meth q) size 206 (CRRange s (s + n - 1) size) n (if f_pos206 fl then pos else s)
           end
  end.

Definition model (fl : flags) (q : req) : resp :=
  if q_inm q then err_resp 304 CRNone else
  match q_meth q with
  | HEAD => serve fl q 0
  | GET =>
      match prwl (f_suffix0 fl) (q_range q) with
      | None => err_resp 400 CRNone
      | Some bs =>
          match seek_pos fl (q_size q) (hd_error bs) with
          | None => err_resp 500 CRNone
          | Some p => serve fl q p
          end
      end
  end.

(** ---------- specification ---------- *)
(** the requested ranges, independent of any size: what the header says *)
Inductive rspec := SFromTo (a b : Z) | SFrom (a : Z) | SSuffix (n : Z).

Definition spec_piece (p : str) : pres rspec :=
  match trim p with
  | [] => PSkip
  | ra =>
      match cut_on dash ra with
      | None => PErr
      | Some (st0, en0) =>
          let st := trim st0 in
          let en := trim en0 in
          match st, en with
          | [], [] => PErr
          | [], c :: _ =>
              if c =? dash then PErr else
              match parse_int en with
              | Some n => if n <? 0 then PErr else POk (SSuffix n)
              | None => PErr
              end
          | _ :: _, [] =>
              match parse_int st with
              | Some a => if a <? 0 then PErr else POk (SFrom a)
              | None => PErr
              end
          | _ :: _, _ :: _ =>
              match parse_int st, parse_int en with
              | Some a, Some b => if (a <? 0) || (b <? a) then PErr else POk (SFromTo a b)
              | _, _ => PErr
              end
          end
      end
  end.

Fixpoint spec_loop (ps : list str) : option (list rspec) :=
  match ps with
  | [] => Some []
  | p :: r =>
      match spec_piece p with
      | PSkip | PNoOv => spec_loop r
      | PErr => None
      | POk x => match spec_loop r with Some l => Some (x :: l) | None => None end
      end
  end.

(* None = not a valid byte-range header *)
Definition parse_specs (s : str) : option (list rspec) :=
  match strip_prefix bytes_eq s with
  | None => None
  | Some rest => spec_loop (split_on comma rest)
  end.

(** the slice (first, last) of a file of [size] bytes that a spec selects; None = unsatisfiable (RFC 7233 §2.1) *)
Definition sat (size : Z) (sp : rspec) : option (Z * Z) :=
  match sp with
  | SFromTo a b => if a <? size then Some (a, Z.min b (size - 1)) else None
  | SFrom a => if a <? size then Some (a, size - 1) else None
  | SSuffix n => if (0 <? n) && (0 <? size) then Some (size - Z.min n size, size - 1) else None
  end.

Fixpoint sats (size : Z) (l : list rspec) : list (Z * Z) :=
  match l with
  | [] => []
  | sp :: r => match sat size sp with Some x => x :: sats size r | None => sats size r end
  end.

(** what the harness observed: [o_match] lists the offsets (among 0 and every number of the header, taken from
    the start and from the end of the file) at which the body equals the file content *)
Record obs := {
  o_status : Z; o_cr : crange; o_cl : option Z; o_blen : Z; o_match : list Z
}.

Definition obs_of_resp (r : resp) : obs :=
  {| o_status := r_status r; o_cr := r_cr r; o_cl := r_cl r; o_blen := r_blen r; o_match := [r_bpos r] |}.

Definition crange_eqb (a b : crange) : bool :=
  match a, b with
  | CRNone, CRNone => true
  | CRRange s e n, CRRange s' e' n' => (s =? s') && (e =? e') && (n =? n')
  | CRStar n, CRStar n' => n =? n'
  | CRBad, CRBad => true
  | _, _ => false
  end.
Definition optZ_eqb (a b : option Z) : bool :=
  match a, b with
  | None, None => true
  | Some x, Some y => x =? y
  | _, _ => false
  end.
Fixpoint memZ (x : Z) (l : list Z) : bool :=
  match l with [] => false | y :: r => if x =? y then true else memZ x r end.

(* the body is file[s, s+n) (GET) / empty (HEAD) *)
Definition body_is (m : meth) (o : obs) (s n : Z) : bool :=
  match m with
  | HEAD => o_blen o =? 0
  | GET => (o_blen o =? n) && ((n <=? 0) || memZ s (o_match o))
  end.

Definition is_whole (q : req) (o : obs) : bool :=
  (o_status o =? 200) && crange_eqb (o_cr o) CRNone && optZ_eqb (o_cl o) (Some (q_size q)) &&
  body_is (q_meth q) o 0 (q_size q).

Definition is_partial (q : req) (o : obs) (s e : Z) : bool :=
  (o_status o =? 206) && crange_eqb (o_cr o) (CRRange s e (q_size q)) &&
  optZ_eqb (o_cl o) (Some (e - s + 1)) && body_is (q_meth q) o s (e - s + 1).

(** (A) status, Content-Range, Content-Length and body are mutually consistent *)
Definition consistent (q : req) (o : obs) : bool :=
  let st := o_status o in
  if st =? 200 then is_whole q o
  else if st =? 206 then
    match o_cr o with
    | CRRange s e n => (0 <=? s) && (s <=? e) && (e <? q_size q) && is_partial q o s e
    | _ => false
    end
  else if st =? 304 then (o_blen o =? 0) && crange_eqb (o_cr o) CRNone
  else if st =? 416 then
    crange_eqb (o_cr o) CRNone || ((0 <? q_size q) && crange_eqb (o_cr o) (CRStar (q_size q)))
  else st =? 400.

(** (B) the response is the one the request asks for *)
Definition requested (q : req) (o : obs) : bool :=
  if q_inm q then o_status o =? 304 else
  if o_status o =? 304 then false else
  match q_range q with
  | [] => is_whole q o
  | _ :: _ =>
      match parse_specs (q_range q) with
      | None => true                     (* malformed header: rejection (400/416) or any consistent answer *)
      | Some sps =>
          if o_status o =? 400 then false else
          match q_ifr q with
          | IfrFalse => is_whole q o
          | _ =>
              match sps with
              | [] => is_whole q o
              | _ :: _ =>
                  match sats (q_size q) sps with
                  | [] => if q_size q =? 0 then is_whole q o
                          else (o_status o =? 416) && crange_eqb (o_cr o) (CRStar (q_size q))
                  | (s, e) :: rest =>
                      is_partial q o s e ||
                      (match rest with [] => false | _ :: _ => is_whole q o end)   (* a server may ignore a multi-range request *)
                  end
              end
          end
      end
  end.

Definition spec_ok (q : req) (o : obs) : bool := consistent q o && requested q o.

(** ---------- correspondence ---------- *)
Definition explains (q : req) (o : obs) (fl : flags) : bool :=
  let r := model fl q in
  (r_status r =? o_status o) && crange_eqb (r_cr r) (o_cr o) &&
  (if (r_status r =? 200) || (r_status r =? 206)
   then optZ_eqb (r_cl r) (o_cl o) && (r_blen r =? o_blen o) &&
        ((r_blen r <=? 0) || memZ (r_bpos r) (o_match o))
   else if r_status r =? 304 then o_blen o =? 0 else true).

(* all flag combinations, fewest defects first; with the index of the lowest defect that is on *)
Definition flag_sets : list (flags * N) :=
  let mk a b c d e := Build_flags a b c d e in
  let t := true in let f := false in
  [ (mk f f f f f, 0%N);
    (mk t f f f f, 1%N); (mk f t f f f, 2%N); (mk f f t f f, 3%N); (mk f f f t f, 4%N); (mk f f f f t, 5%N);
    (mk t t f f f, 1%N); (mk t f t f f, 1%N); (mk t f f t f, 1%N); (mk t f f f t, 1%N); (mk f t t f f, 2%N);
    (mk f t f t f, 2%N); (mk f t f f t, 2%N); (mk f f t t f, 3%N); (mk f f t f t, 3%N); (mk f f f t t, 4%N);
    (mk t t t f f, 1%N); (mk t t f t f, 1%N); (mk t t f f t, 1%N); (mk t f t t f, 1%N); (mk t f t f t, 1%N);
    (mk t f f t t, 1%N); (mk f t t t f, 2%N); (mk f t t f t, 2%N); (mk f t f t t, 2%N); (mk f f t t t, 3%N);
    (mk t t t t f, 1%N); (mk t t t f t, 1%N); (mk t t f t t, 1%N); (mk t f t t t, 1%N); (mk f t t t t, 2%N);
    (mk t t t t t, 1%N) ].

Fixpoint first_explaining (q : req) (o : obs) (l : list (flags * N)) : option N :=
  match l with
  | [] => None
  | (fl, k) :: r => if explains q o fl then Some k else first_explaining q o r
  end.

Inductive case := Case (q : req) (o : obs).

Definition check_case (c : case) : verdict :=
  match c with
  | Case q o =>
      match first_explaining q o flag_sets with
      | None => if spec_ok q o then VModelMismatch else VSpecFail
      | Some k =>
          if spec_ok q o then VOk
          else if (0 <? k)%N && spec_ok q (obs_of_resp (model flags_off q)) then VKnown k
          else VSpecFail
      end
  end.
