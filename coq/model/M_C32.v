(** C32 — subdomain and DNSLink addressing (gateway/hostname.go).

    Executable model of the mechanism, transcribed from the Go source:
      InlineDNSLink / UninlineDNSLink      [inline] / [uninline] / [inline_checked]
      toDNSLabel                           [to_dns_label]
      toSubdomainURL                       [to_subdomain_url]
      hostnameGateways.isKnownHostname     [known]      (exact, without port, wildcard "*.suffix")
      hostnameGateways.knownSubdomainDetails [known_subdomain_details]
      hasDNSLinkRecord / isDomainNameAndNotPeerID / stripPort / hasPrefix
      NewHostnameHandler                   [handler]
    Strings are Coq [string]s (= lists of characters).  What the code obtains from
    its dependencies enters as an oracle table that the theorems quantify over and
    that the harness fills from the dependencies themselves (go-cid, go-libp2p
    peer, miekg/dns, net, net/url, and the fake backend's DNSLink records):
      cid.Decode            -> (codec, multihash id, multibase)      [i_cid], [i_base]
      peer.Decode           -> multihash id                           [i_peer]
      dns.IsDomainName      -> bool                                   [i_dom]
      net.ParseIP <> nil    -> bool                                   [i_ip]
      backend record exists -> bool                                   [i_rec]
      url.Parse accepts the string as (part of) a host                [i_hostok]
      CIDv1(codec, mh).StringOfBase(b) = the table entry whose decoding is
      (codec, mh) in base b, version 1                                [enc].
    Multihashes are abstract ids (N): the code never looks inside them.
    No proofs in this file. *)
From Coq Require Import List String Ascii Bool NArith Arith.
From V Require Import lib.Verdict.
Import ListNotations.
Open Scope string_scope.

(** ---------- string helpers (strings.Contains / Split / Join / HasPrefix ...) ---------- *)
Definition dash : ascii := "-"%char.
Definition dot : ascii := "."%char.
Definition slash : ascii := "/"%char.
Definition colon : ascii := ":"%char.

Fixpoint contains (c : ascii) (s : string) : bool :=
  match s with
  | EmptyString => false
  | String a r => Ascii.eqb a c || contains c r
  end.

Fixpoint count (c : ascii) (s : string) : nat :=
  match s with
  | EmptyString => 0
  | String a r => (if Ascii.eqb a c then 1 else 0) + count c r
  end.

(** strings.Split(s, c): always at least one element *)
Fixpoint split (c : ascii) (s : string) : list string :=
  match s with
  | EmptyString => [EmptyString]
  | String a r =>
      if Ascii.eqb a c then EmptyString :: split c r
      else match split c r with
           | h :: t => String a h :: t
           | [] => [String a EmptyString]
           end
  end.

Fixpoint join (sep : string) (l : list string) : string :=
  match l with
  | [] => EmptyString
  | [x] => x
  | x :: r => x ++ sep ++ join sep r
  end.

(** split at the first occurrence of [c] *)
Fixpoint cut (c : ascii) (s : string) : option (string * string) :=
  match s with
  | EmptyString => None
  | String a r =>
      if Ascii.eqb a c then Some (EmptyString, r)
      else match cut c r with
           | Some (x, y) => Some (String a x, y)
           | None => None
           end
  end.

Fixpoint starts_with (p s : string) : bool :=
  match p, s with
  | EmptyString, _ => true
  | String a p', String b s' => Ascii.eqb a b && starts_with p' s'
  | _, EmptyString => false
  end.

(** [strip_prefix p s = Some t] iff [s = p ++ t] *)
Fixpoint strip_prefix (p s : string) : option string :=
  match p, s with
  | EmptyString, _ => Some s
  | String a p', String b s' => if Ascii.eqb a b then strip_prefix p' s' else None
  | _, EmptyString => None
  end.

Fixpoint rev_string_acc (s acc : string) : string :=
  match s with
  | EmptyString => acc
  | String a r => rev_string_acc r (String a acc)
  end.
Definition rev_string (s : string) : string := rev_string_acc s EmptyString.

(** [strip_suffix x s = Some t] iff [s = t ++ x] *)
Definition strip_suffix (x s : string) : option string :=
  match strip_prefix (rev_string x) (rev_string s) with
  | Some t => Some (rev_string t)
  | None => None
  end.

(** strings.TrimSuffix(s, "/") *)
Definition trim_slash (s : string) : string :=
  match strip_suffix "/" s with Some t => t | None => s end.

Fixpoint all_digits (s : string) : bool :=
  match s with
  | EmptyString => true
  | String a r => (Nat.leb 48 (nat_of_ascii a) && Nat.leb (nat_of_ascii a) 57) && all_digits r
  end.

(** ---------- InlineDNSLink / UninlineDNSLink ---------- *)
Fixpoint inline (s : string) : string :=
  match s with
  | EmptyString => EmptyString
  | String c r =>
      if Ascii.eqb c dash then String dash (String dash (inline r))
      else if Ascii.eqb c dot then String dash (inline r)
      else String c (inline r)
  end.

Fixpoint uninline (s : string) : string :=
  match s with
  | EmptyString => EmptyString
  | String c r =>
      if Ascii.eqb c dash then
        match r with
        | String d r' =>
            if Ascii.eqb d dash then String dash (uninline r')   (* "--" -> "-" *)
            else String dot (uninline r)                         (* "-"  -> "." *)
        | EmptyString => String dot EmptyString
        end
      else String c (uninline r)
  end.

Definition max_label : nat := 63.

(** InlineDNSLink with its length check: [None] = error *)
Definition inline_checked (s : string) : option string :=
  let r := inline s in
  if Nat.ltb max_label (String.length r) then None else Some r.

(** ---------- the oracle ---------- *)
Definition libp2p_key : N := 114.   (* 0x72 *)

Record sinfo := {
  i_cid : option (N * N);   (* cid.Decode ok: (codec, multihash id) *)
  i_base : N;               (* 32 / 36 when the string is a CIDv1 in lower-case base32 / base36, 0 otherwise *)
  i_peer : option N;        (* peer.Decode ok: multihash id of the peer id *)
  i_dom : bool;             (* dns.IsDomainName *)
  i_ip : bool;              (* net.ParseIP(s) != nil *)
  i_rec : bool;             (* the backend has a DNSLink record for s *)
  i_hostok : bool           (* url.Parse("http://" + s + ".x/") succeeds with the host kept *)
}.
Definition no_info : sinfo :=
  {| i_cid := None; i_base := 0; i_peer := None; i_dom := false; i_ip := false; i_rec := false; i_hostok := false |}.

Definition oracle := list (string * sinfo).

Fixpoint info (orc : oracle) (s : string) : sinfo :=
  match orc with
  | [] => no_info
  | (k, v) :: r => if String.eqb k s then v else info r s
  end.

(** CIDv1(codec, mh).StringOfBase(base32 | base36) *)
Fixpoint enc (orc : oracle) (codec mh : N) (b36 : bool) : option string :=
  match orc with
  | [] => None
  | (k, v) :: r =>
      match i_cid v with
      | Some (c, m) =>
          if N.eqb c codec && N.eqb m mh && N.eqb (i_base v) (if b36 then 36 else 32)
          then Some k else enc r codec mh b36
      | None => enc r codec mh b36
      end
  end.

(** net.SplitHostPort for hosts without brackets: exactly one ':' *)
Definition strip_port (h : string) : string :=
  if Nat.eqb (count colon h) 1
  then match cut colon h with Some (x, _) => x | None => h end
  else h.

Definition is_domain_not_peer (orc : oracle) (s : string) : bool :=
  negb (String.eqb s "") &&
  match i_peer (info orc s) with Some _ => false | None => true end &&
  i_dom (info orc s).

Definition has_record (orc : oracle) (host : string) : bool :=
  let n := strip_port host in
  negb (i_ip (info orc n)) && is_domain_not_peer orc n && i_rec (info orc n).

Definition is_sub_ns (ns : string) : bool :=
  String.eqb ns "ipfs" || String.eqb ns "ipns" || String.eqb ns "p2p" || String.eqb ns "ipld".
Definition is_peer_ns (ns : string) : bool :=
  String.eqb ns "ipns" || String.eqb ns "p2p".

(** ---------- toDNSLabel ---------- *)
Inductive lres := LOk (l : string) | LErr | LMissing.   (* LMissing: the oracle table lacks an entry *)

Definition to_dns_label (orc : oracle) (rootID : string) (codec mh : N) : lres :=
  if Nat.leb (String.length rootID) max_label then LOk rootID
  else match enc orc codec mh true with
       | Some t36 => if Nat.leb (String.length t36) max_label then LOk t36 else LErr
       | None => LMissing
       end.

(** ---------- toSubdomainURL ---------- *)
Record flags := { f_frag : bool }.   (* defect switch 1: the fragment is not copied into the redirect *)
Definition flags_off : flags := {| f_frag := false |}.
Definition flags_on : flags := {| f_frag := true |}.

(** strings.SplitN(path, "/", 4) with 3 or 4 parts: (parts[0], ns, rootID, rest) *)
Definition splitn4 (path : string) : option (string * string * string * string) :=
  match cut slash path with
  | None => None
  | Some (p0, t1) =>
      match cut slash t1 with
      | None => None
      | Some (ns, t2) =>
          match cut slash t2 with
          | None => Some (p0, ns, t2, EmptyString)
          | Some (root, rest) => Some (p0, ns, root, rest)
          end
      end
  end.

(** the path of "http://host/" after [u.Path = rest], as url.URL.String renders it *)
Definition url_path (rest : string) : string :=
  match rest with
  | EmptyString => "/"
  | String a _ => if Ascii.eqb a slash then rest else String slash rest
  end.

(** the CID that toSubdomainURL works with: a peer id in a peer namespace is first
    rewritten to its libp2p-key CID, anything else goes through cid.Decode *)
Definition root_cid (orc : oracle) (ns root : string) : option (N * N) :=
  let i := info orc root in
  if is_peer_ns ns && negb (is_domain_not_peer orc root)
  then match i_peer i with Some m => Some (libp2p_key, m) | None => i_cid i end
  else i_cid i.

Inductive su :=
| SUNone                                        (* "" : no redirect applicable *)
| SUErr
| SUMissing
| SUUrl (https : bool) (host path query frag : string).

Definition to_subdomain_url (fl : flags) (orc : oracle) (hostname path : string)
           (https inl_ : bool) (query frag : string) : su :=
  match splitn4 path with
  | None => SUNone
  | Some (_, ns, root, rest) =>
    if negb (is_sub_ns ns) then SUNone else
    let rcid := root_cid orc ns root in
    let fin (rootID : string) :=
      if String.eqb rootID "" then SUNone
      else if negb (i_hostok (info orc rootID)) then SUErr
      else SUUrl https (rootID ++ "." ++ ns ++ "." ++ hostname) (url_path rest) query
                 (if f_frag fl then "" else frag) in
    match rcid with
    | Some (codec, mh) =>
        let codec' := if is_peer_ns ns then libp2p_key else codec in
        match enc orc codec' mh (is_peer_ns ns) with
        | None => SUMissing
        | Some txt =>
            match to_dns_label orc txt codec' mh with
            | LOk l => fin l
            | LErr => SUErr
            | LMissing => SUMissing
            end
        end
    | None =>
        let root1 :=
          if String.eqb ns "ipns" && negb (contains dot root) && contains dash root
          then (let fq := uninline root in if has_record orc fq then fq else root)
          else root in
        if (inl_ || https) && String.eqb ns "ipns" && contains dot root1 then
          if has_record orc root1
          then match inline_checked root1 with Some l => fin l | None => SUErr end
          else fin root1
        else if String.eqb ns "ipfs" then SUNone
        else fin root1
    end
  end.

(** ---------- gateway configuration ---------- *)
Record gw := { g_paths : list string; g_sub : bool; g_nodnslink : bool; g_inline : bool }.
Record config := {
  c_exact : list (string * gw);    (* hostname -> gateway *)
  c_wild : list (string * gw);     (* "*" ++ suffix -> gateway; the suffix starts with "." and has no "*" / ":" *)
  c_nodnslink : bool
}.

Fixpoint assoc {A} (k : string) (l : list (string * A)) : option A :=
  match l with
  | [] => None
  | (k', v) :: r => if String.eqb k' k then Some v else assoc k r
  end.

(** ^[^.]+\.suffix(?::\d+)?$ *)
Definition wild_match (suffix h : string) : bool :=
  match cut dot h with
  | None => false
  | Some (p, rest) =>
      negb (String.eqb p "") &&
      match strip_prefix suffix (String dot rest) with
      | Some EmptyString => true
      | Some (String c d) => Ascii.eqb c colon && negb (String.eqb d "") && all_digits d
      | None => false
      end
  end.

Fixpoint find_wild (l : list (string * gw)) (h : string) : option gw :=
  match l with
  | [] => None
  | (sfx, g) :: r => if wild_match sfx h then Some g else find_wild r h
  end.

Definition known (cfg : config) (h : string) : option gw :=
  match assoc h (c_exact cfg) with
  | Some g => Some g
  | None =>
      match assoc (strip_port h) (c_exact cfg) with
      | Some g => Some g
      | None => find_wild (c_wild cfg) h
      end
  end.

(** hasPrefix(path, prefixes...) *)
Fixpoint has_prefix (path : string) (prefixes : list string) : bool :=
  match prefixes with
  | [] => false
  | p0 :: r =>
      let p := trim_slash p0 in
      String.eqb p path || starts_with (p ++ "/") path || has_prefix path r
  end.

(** the loop of knownSubdomainDetails; [i] runs from len-1 down to 2 *)
Fixpoint ksd_loop (cfg : config) (labels : list string) (i : nat) : option (gw * string * string * string) :=
  match i with
  | S (S j as i') =>
      let fq := join "." (skipn i labels) in
      match known cfg fq with
      | Some g =>
          let ns := nth i' labels "" in
          if is_sub_ns ns then Some (g, fq, ns, join "." (firstn i' labels))
          else ksd_loop cfg labels i'
      | None => ksd_loop cfg labels i'
      end
  | _ => None
  end.

Definition known_subdomain_details (cfg : config) (h : string) : option (gw * string * string * string) :=
  let labels := split dot h in
  ksd_loop cfg labels (List.length labels - 1).

(** ---------- the handler ---------- *)
Record request := {
  r_host : string;      (* Host header *)
  r_xhost : string;     (* X-Forwarded-Host, "" = absent *)
  r_https : bool;       (* URL scheme https or X-Forwarded-Proto: https *)
  r_path : string;      (* r.URL.Path (decoded) *)
  r_query : string;     (* r.URL.RawQuery, without a uri= parameter *)
  r_frag : string       (* r.URL.Fragment *)
}.

Inductive kind := KPlain | KHost | KSub | KDns.   (* which hostname context keys the next handler sees *)

Inductive outcome :=
| ORedirect (https : bool) (host path query frag : string)   (* 301 + Location *)
| ONext (k : kind) (ctxhost path query : string)             (* next.ServeHTTP *)
| ONotFound
| OBadRequest
| OOther.                                                    (* anything else / oracle entry missing *)

Definition of_su (s : su) (otherwise : outcome) : outcome :=
  match s with
  | SUNone => otherwise
  | SUErr => OBadRequest
  | SUMissing => OOther
  | SUUrl h host p q f => ORedirect h host p q f
  end.

Definition handle_subdomain (fl : flags) (orc : oracle) (g : gw) (gwhost ns rootID : string)
           (r : request) : outcome :=
  let prefix0 := "/" ++ ns ++ "/" ++ rootID in
  if negb (g_sub g && has_prefix prefix0 (g_paths g)) then ONotFound else
  let tsu p := to_subdomain_url fl orc gwhost p (r_https r) (g_inline g) (r_query r) (r_frag r) in
  match i_cid (info orc rootID) with
  | Some (codec, mh) =>
      let serve := ONext KSub gwhost (prefix0 ++ r_path r) (r_query r) in
      let fix_codec :=
        if is_peer_ns ns && negb (N.eqb codec libp2p_key)
        then of_su (tsu (prefix0 ++ r_path r)) serve
        else serve in
      match to_dns_label orc rootID codec mh with
      | LErr => OBadRequest
      | LMissing => OOther
      | LOk dnsCID =>
          if negb (starts_with dnsCID (r_host r))
          then of_su (tsu ("/" ++ ns ++ "/" ++ dnsCID ++ r_path r)) fix_codec
          else fix_codec
      end
  | None =>
      let prefix1 :=
        if String.eqb ns "ipns" && negb (contains dot rootID) && contains dash rootID then
          let fq := uninline rootID in
          if has_record orc fq then "/ipns/" ++ fq
          else if negb (has_record orc rootID) then "/ipns/" ++ fq
          else prefix0
        else prefix0 in
      ONext KSub gwhost (prefix1 ++ r_path r) (r_query r)
  end.

Definition handler (fl : flags) (cfg : config) (orc : oracle) (r : request) : outcome :=
  let host := if String.eqb (r_xhost r) "" then r_host r else r_xhost r in
  let dnslink := ONext KDns host ("/ipns/" ++ strip_port host ++ r_path r) (r_query r) in
  match known cfg host with
  | Some g =>
      if has_prefix (r_path r) (g_paths g) then
        let serve := ONext KHost host (r_path r) (r_query r) in
        if g_sub g
        then of_su (to_subdomain_url fl orc host (r_path r) (r_https r) (g_inline g) (r_query r) (r_frag r)) serve
        else serve
      else if negb (g_nodnslink g) && has_record orc host then dnslink
      else ONotFound
  | None =>
      match known_subdomain_details cfg host with
      | Some (g, gwhost, ns, rootID) => handle_subdomain fl orc g gwhost ns rootID r
      | None =>
          if negb (c_nodnslink cfg) && has_record orc host then dnslink
          else ONext KPlain "" (r_path r) (r_query r)
      end
  end.

(** ---------- specification: content identity ---------- *)
Inductive ident := IdMh (m : N) | IdName (s : string).

(** what a root identifier names in namespace [ns]: a multihash (CID, or peer id
    in the peer namespaces) or a DNSLink name *)
Definition ident_of (orc : oracle) (ns s : string) : ident :=
  match i_cid (info orc s) with
  | Some (_, m) => IdMh m
  | None =>
      if is_peer_ns ns
      then match i_peer (info orc s) with Some m => IdMh m | None => IdName s end
      else IdName s
  end.

(** names are compared after un-inlining single labels: an FQDN (with a dot) is
    its own normal form, the inlined label of a valid FQDN normalises to it *)
Fixpoint nf_fuel (n : nat) (s : string) : string :=
  match n with
  | O => s
  | S k => if contains dot s || negb (contains dash s) then s else nf_fuel k (uninline s)
  end.
Definition nf (s : string) : string := nf_fuel (String.length s) s.

Definition ident_equiv (a b : ident) : bool :=
  match a, b with
  | IdMh x, IdMh y => N.eqb x y
  | IdName x, IdName y => String.eqb (nf x) (nf y)
  | _, _ => false
  end.

(** the path handed to the next handler: a request for an FQDN (a name with a dot)
    must be served under exactly that FQDN — /ipns/<inlined label> would resolve a
    different DNSLink record; for single labels the un-inlined reading is accepted *)
Definition ident_served (a b : ident) : bool :=
  match a, b with
  | IdName x, IdName y => if contains dot x then String.eqb x y else String.eqb (nf x) (nf y)
  | _, _ => ident_equiv a b
  end.

(** remainders: the redirect's DECODED path remainder must equal the request's decoded
    remainder character for character — literal '%', empty inner segments, '.' / '..'
    segments and a trailing '/' included.  Only slashes at the very start are not
    compared (u.Path = rest of "/ns/root//x" is "/x": URL.String adds no second '/'). *)
Fixpoint norm_rest (s : string) : string :=
  match s with
  | EmptyString => EmptyString
  | String a r => if Ascii.eqb a slash then norm_rest r else s
  end.

(** what the first request of a chain is meant to name (given by the generator,
    which assembled the request from these parts) *)
Record intent := {
  t_gw : string;       (* gateway hostname (with port) the request was sent to / below *)
  t_ns : string;
  t_root : string;
  t_rest : string;     (* remainder, without the leading '/' *)
  t_query : string;
  t_frag : string;
  t_https : bool
}.

(** the exact round-trip condition (P_C32.uninline_inline_iff): after a '.', the next
    character is neither '.' nor '-'; every valid DNS name satisfies it *)
Fixpoint rt_ok (s : string) : bool :=
  match s with
  | EmptyString => true
  | String c r =>
      (if Ascii.eqb c dot
       then match r with
            | String d _ => negb (Ascii.eqb d dash) && negb (Ascii.eqb d dot)
            | EmptyString => true
            end
       else true) && rt_ok r
  end.

(** the property speaks about valid DNS names: the round-trip condition holds and
    every label has at most 63 characters.  For other strings in the place of a
    DNSLink name only namespace, remainder, query and fragment are claimed. *)
Definition in_scope (orc : oracle) (ns root : string) : bool :=
  match ident_of orc ns root with
  | IdMh _ => true
  | IdName s => rt_ok s && forallb (fun l => Nat.leb (String.length l) max_label) (split dot s)
  end.

(** a label of the redirect host: a CID label must be a single DNS label of at
    most 63 characters; a name is either left as an FQDN or inlined into one label *)
Definition label_ok (orc : oracle) (ns label : string) : bool :=
  match ident_of orc ns label with
  | IdMh _ => Nat.leb (String.length label) max_label && negb (contains dot label)
  | IdName _ => contains dot label || Nat.leb (String.length label) max_label
  end.

(** an error answer is allowed only when no label of at most 63 characters exists
    (or the name cannot be put into a URL host at all) *)
Fixpoint has_long36 (orc : oracle) (m : N) : bool :=
  match orc with
  | [] => false
  | (k, v) :: r =>
      match i_cid v with
      | Some (_, m') =>
          (N.eqb m m' && N.eqb (i_base v) 36 && Nat.ltb max_label (String.length k)) || has_long36 r m
      | None => has_long36 r m
      end
  end.

Definition error_allowed (orc : oracle) (t : intent) : bool :=
  match ident_of orc (t_ns t) (t_root t) with
  | IdMh m => has_long36 orc m
  | IdName s =>
      Nat.ltb max_label (String.length (inline s)) ||
      Nat.ltb max_label (String.length (inline (uninline s))) ||
      negb (i_hostok (info orc s)) || negb (i_hostok (info orc (uninline s)))
  end.

Definition spec_outcome (orc : oracle) (t : intent) (o : outcome) : bool :=
  match o with
  | ORedirect https host path query frag =>
      match strip_suffix ("." ++ t_ns t ++ "." ++ t_gw t) host with
      | None => false
      | Some label =>
          (if in_scope orc (t_ns t) (t_root t)
           then ident_equiv (ident_of orc (t_ns t) (t_root t)) (ident_of orc (t_ns t) label) &&
                label_ok orc (t_ns t) label
           else true) &&
          String.eqb (norm_rest path) (norm_rest (t_rest t)) &&
          String.eqb query (t_query t) && String.eqb frag (t_frag t) &&
          Bool.eqb https (t_https t)
      end
  | ONext _ _ path query =>
      match splitn4 path with
      | Some (p0, ns, root, rest) =>
          String.eqb p0 "" && String.eqb ns (t_ns t) &&
          (if in_scope orc (t_ns t) (t_root t)
           then ident_served (ident_of orc (t_ns t) (t_root t)) (ident_of orc ns root) else true) &&
          String.eqb (norm_rest rest) (norm_rest (t_rest t)) &&
          String.eqb query (t_query t)
      | None => false
      end
  | OBadRequest => error_allowed orc t
  | ONotFound => true      (* the gateway does not serve this namespace: nothing is mapped *)
  | OOther => false
  end.

(** ---------- cases ---------- *)
Definition opt_eqb {A} (e : A -> A -> bool) (a b : option A) : bool :=
  match a, b with
  | Some x, Some y => e x y
  | None, None => true
  | _, _ => false
  end.

Definition kind_eqb (a b : kind) : bool :=
  match a, b with
  | KPlain, KPlain | KHost, KHost | KSub, KSub | KDns, KDns => true
  | _, _ => false
  end.

Definition outcome_eqb (a b : outcome) : bool :=
  match a, b with
  | ORedirect h1 a1 b1 c1 d1, ORedirect h2 a2 b2 c2 d2 =>
      Bool.eqb h1 h2 && String.eqb a1 a2 && String.eqb b1 b2 && String.eqb c1 c2 && String.eqb d1 d2
  | ONext k1 a1 b1 c1, ONext k2 a2 b2 c2 =>
      kind_eqb k1 k2 && String.eqb a1 a2 && String.eqb b1 b2 && String.eqb c1 c2
  | ONotFound, ONotFound => true
  | OBadRequest, OBadRequest => true
  | _, _ => false          (* OOther equals nothing *)
  end.

(** the request a client sends when it follows a redirect *)
Definition follow (r : request) (o : outcome) : option request :=
  match o with
  | ORedirect https host path query frag =>
      Some {| r_host := host; r_xhost := ""; r_https := https; r_path := path; r_query := query; r_frag := frag |}
  | _ => None
  end.

Definition request_eqb (a b : request) : bool :=
  String.eqb (r_host a) (r_host b) && String.eqb (r_xhost a) (r_xhost b) && Bool.eqb (r_https a) (r_https b) &&
  String.eqb (r_path a) (r_path b) && String.eqb (r_query a) (r_query b) && String.eqb (r_frag a) (r_frag b).

(** every hop after the first is the request obtained by following the previous answer *)
Fixpoint linked (prev : option (request * outcome)) (hops : list (request * outcome)) : bool :=
  match hops with
  | [] => true
  | (r, o) :: rest =>
      match prev with
      | None => true
      | Some (r0, o0) => opt_eqb request_eqb (follow r0 o0) (Some r)
      end && linked (Some (r, o)) rest
  end.

Definition is_redirect (o : outcome) : bool :=
  match o with ORedirect _ _ _ _ _ => true | _ => false end.

(** the chain must come to rest (the harness follows at most 4 redirects) *)
Definition settles (hops : list (request * outcome)) : bool :=
  match rev hops with
  | (_, o) :: _ => negb (is_redirect o)
  | [] => false
  end.

Inductive case :=
| CStr (s : string) (il : option string) (un_inl : string) (un_s : string)
    (* InlineDNSLink(s), UninlineDNSLink(that) (or "" on error), UninlineDNSLink(s) *)
| CChain (cfg : config) (orc : oracle) (t : option intent) (hops : list (request * outcome)).

(** the names for which the property promises the round trip: non-empty labels
    that neither start nor end with '-' *)
Definition label_valid (l : string) : bool :=
  negb (String.eqb l "") && negb (starts_with "-" l) && negb (starts_with "-" (rev_string l)).
Definition valid_dns (s : string) : bool := forallb label_valid (split dot s).

Definition spec_str (s : string) (il : option string) (un_inl : string) : bool :=
  match il with
  | Some l =>
      Nat.leb (String.length l) max_label && negb (contains dot l) &&
      (if rt_ok s then String.eqb un_inl s else true)
  | None => Nat.ltb max_label (String.length s + count dash s)
  end.

Definition model_hops (fl : flags) (cfg : config) (orc : oracle) (hops : list (request * outcome)) : bool :=
  forallb (fun h => outcome_eqb (handler fl cfg orc (fst h)) (snd h)) hops.

Definition spec_hops (orc : oracle) (t : option intent) (outs : list outcome) : bool :=
  match t with
  | Some t => forallb (spec_outcome orc t) outs
  | None => true
  end.

Definition check_case (c : case) : verdict :=
  match c with
  | CStr s il un_inl un_s =>
      verdict_of
        (opt_eqb String.eqb (inline_checked s) il &&
         String.eqb (match il with Some l => uninline l | None => "" end) un_inl &&
         String.eqb (uninline s) un_s)
        (spec_str s il un_inl)
  | CChain cfg orc t hops =>
      let m_off := model_hops flags_off cfg orc hops in
      let m_on := model_hops flags_on cfg orc hops in
      let spec := spec_hops orc t (map snd hops) && linked None hops && settles hops in
      if spec then (if m_off || m_on then VOk else VModelMismatch)
      else if m_on && negb m_off &&
              spec_hops orc t (map (fun h => handler flags_off cfg orc (fst h)) hops) &&
              linked None hops && settles hops
           then VKnown 1
           else VSpecFail
  end.
